#!/bin/bash
# Runs the repository's pinned baseline (guard OFF: no FINAM_VERIF in the environment) and
# compares with /root/.vp/BASELINE.json stable_pass.  Exit 0 iff every stable test passes.
unset FINAM_VERIF
OUT=$(mktemp -d /var/tmp/finam_baseline.XXXXXX)
cd /repo && /venv/bin/python -m pytest -ra -q -p no:cacheprovider --timeout=900 --continue-on-collection-errors --junitxml=$OUT/j.xml > $OUT/log 2>&1
/venv/bin/python - "$OUT/j.xml" <<'P'
import json, sys, xml.etree.ElementTree as ET
base = json.load(open('/root/.vp/BASELINE.json'))
want = set(base['stable_pass'])
ok = set()
for tc in ET.parse(sys.argv[1]).getroot().iter('testcase'):
    if not any(ch.tag in ('failure', 'error', 'skipped') for ch in tc):
        cn = tc.get('classname'); nm = tc.get('name')
        ok.add(f"{cn}::{nm}"); 
        parts = cn.split('.')
        for k in range(1, len(parts)):
            ok.add('.'.join(parts[:k]) + '::' + '::'.join(parts[k:] + [nm]))
missing = sorted(w for w in want if w not in ok)
print(f"stable_pass={len(want)} passed_now={len(want)-len(missing)} missing={len(missing)}")
for m in missing[:20]: print("  MISSING", m)
sys.exit(1 if missing else 0)
P
rc=$?
rm -rf "$OUT"
exit $rc
