#!/bin/bash
# tools/eval_refactor.sh <NAME> <rK>   -- a behaviour-preserving refactoring must leave EVERY check silent
NAME=$1; R=$2
SRC=/tmp/refac_out/$NAME/$R
[ -f $SRC/patch.diff ] || { echo "no patch $NAME/$R"; exit 2; }
W=/tmp/refrepo_$NAME$R$$
rm -rf $W; mkdir -p $W; cp -r /repo/src $W/
cd $W && git init -q . >/dev/null 2>&1
git apply --whitespace=nowarn $SRC/patch.diff 2>/dev/null || patch -p1 -s < $SRC/patch.diff || { echo "$NAME/$R patch does not apply"; exit 3; }
VD=${VERIF_EVAL_DIR:-/verif}; cd $VD
ALARMS=""
for p in $(/venv/bin/python -c "import json;print(' '.join(c['property_id'] for c in json.load(open('MANIFEST.json'))['checks']))"); do
  out=$(VERIF_REPO=$W ./check $p 2>&1)
  nv=$(echo "$out" | grep -c "^VIOLATION")
  if [ "$nv" != "0" ]; then ALARMS="$ALARMS $p:$nv"; echo "$out" | grep "^VIOLATION" | head -2 | cut -c1-200; fi
done
echo "== refactor $NAME/$R alarms:[$ALARMS ]"
D=/verif/seeded/refactor_${NAME}_$R; mkdir -p $D; cp $SRC/patch.diff $D/; cp $SRC/notes.md $D/ 2>/dev/null
/venv/bin/python - "$NAME" "$R" "$ALARMS" <<'P'
import json,sys
n,r,a=sys.argv[1:4]
json.dump({"kind":"behaviour-preserving refactoring (must stay silent)","name":n,"variant":r,"alarms":a.strip(),"silent":a.strip()==""},open(f"/verif/seeded/refactor_{n}_{r}/meta.json","w"),indent=1)
P
rm -rf $W
