#!/bin/bash
# reeval_refactor.sh <evaldir> <props...> : runs the given checks on every kept refactoring patch, logs alarms only
VD=$1; shift
PROPS="$@"
for d in /verif/seeded/refactor_*; do
  [ -f $d/patch.diff ] || continue
  if [ -n "$RR_FILTER" ] && ! echo "$d" | grep -Eq "$RR_FILTER"; then continue; fi
  n=$(basename $d)
  W=/tmp/rr_$n$$
  rm -rf $W; mkdir -p $W; cp -r /repo/src $W/
  ( cd $W && git init -q . >/dev/null 2>&1; git apply --whitespace=nowarn $d/patch.diff 2>/dev/null || patch -p1 -s < $d/patch.diff >/dev/null 2>&1 ) || { echo "== $n does-not-apply"; rm -rf $W; continue; }
  A=""
  for p in $PROPS; do
    out=$(cd $VD && VERIF_REPO=$W ./check $p 2>&1)
    nv=$(echo "$out" | grep -c "^VIOLATION")
    [ "$nv" != "0" ] && { A="$A $p:$nv"; echo "$out" | grep "^VIOLATION" | head -2 | cut -c1-200; }
  done
  echo "== $n alarms:[$A ]"
  rm -rf $W
done
