#!/bin/bash
# tools/eval_seeded.sh <ID> <variant> [extra property ids to run as well]
# Confirms a seeded change (from /tmp/seed_out/<ID>/<variant>/) on a scratch copy of /repo and runs ./check <ID> on it.
# Keeps it under /verif/seeded/<ID>_<variant>/ with meta.json.
ID=$1; V=$2; shift 2
SRC=/tmp/seed_out/$ID/$V
[ -f $SRC/patch.diff ] || { echo "no patch for $ID/$V"; exit 2; }
W=/tmp/seedrepo_$ID$V$$
rm -rf $W; mkdir -p $W; cp -r /repo/src /repo/tests /repo/benchmarks /repo/pyproject.toml $W/ 2>/dev/null
cd $W && git init -q . >/dev/null 2>&1
if ! git apply --whitespace=nowarn $SRC/patch.diff 2>$W/apply.err; then
  patch -p1 < $SRC/patch.diff > $W/apply.err 2>&1 || { echo "$ID/$V patch does not apply"; cat $W/apply.err | tail -3; exit 3; }
fi
VD=${VERIF_EVAL_DIR:-/verif}; cd $VD
DEMO_MUT=$(PYTHONPATH=$W/src PYTHONWARNINGS=ignore timeout 600 /venv/bin/python $SRC/demo.py 2>&1 | grep -v "^WARNING\|UserWarning\|warnings.warn" | tail -2); RC_MUT=${PIPESTATUS[0]}
PYTHONPATH=$W/src PYTHONWARNINGS=ignore timeout 600 /venv/bin/python $SRC/demo.py >/dev/null 2>&1; RC_MUT=$?
PYTHONPATH=/repo/src PYTHONWARNINGS=ignore timeout 600 /venv/bin/python $SRC/demo.py >/dev/null 2>&1; RC_ORIG=$?
OUT=$(VERIF_REPO=$W ./check $ID 2>&1 | grep -v "^WARNING")
NV=$(echo "$OUT" | grep -c "^VIOLATION")
NOFAIL=$(echo "$OUT" | grep "^VIOLATION" | grep -c "no-failing-input-found")
echo "== $ID/$V demo(orig)=$RC_ORIG demo(mutant)=$RC_MUT violations=$NV (of which no-failing-input-found: $NOFAIL)"
echo "   $DEMO_MUT" | cut -c1-300
echo "$OUT" | tail -2 | cut -c1-300
OTHERS=""
for P in "$@"; do
  O2=$(VERIF_REPO=$W ./check $P 2>&1 | grep -c "^VIOLATION"); OTHERS="$OTHERS $P:$O2"
done
[ -n "$OTHERS" ] && echo "   other checks (violation lines):$OTHERS"
D=/verif/seeded/${ID}_$V; mkdir -p $D
cp $SRC/patch.diff $SRC/demo.py $D/; cp $SRC/notes.md $D/notes.md 2>/dev/null
REPLAY=$(echo "$OUT" | grep "^VIOLATION" | head -1 | sed 's/.*replay=\([^ ]*\).*/\1/')
[ -n "$REPLAY" ] && [ -f "$REPLAY" ] && cp "$REPLAY" $D/replay_example.json
/venv/bin/python - "$ID" "$V" "$RC_ORIG" "$RC_MUT" "$NV" "$NOFAIL" "$OTHERS" <<'P'
import json,sys,subprocess
ID,V,ro,rm,nv,nf,oth=sys.argv[1:8]
d=f"/verif/seeded/{ID}_{V}"
notes=open(d+"/notes.md").read() if __import__("os").path.exists(d+"/notes.md") else ""
meta={"property":ID,"variant":V,"breaks":ID,
 "needs_to_manifest":notes[:1500],
 "demo_exit_unchanged_tree":int(ro),"demo_exit_with_change":int(rm),
 "check_cmd":f"VERIF_REPO=<scratch copy of /repo with patch.diff applied> ./check {ID}  (equivalently: git -C /repo apply patch.diff; ./check {ID}; git -C /repo checkout -- .)",
 "violation_lines":int(nv),"of_which_no_failing_input_found":int(nf),
 "caught": int(nv)>0, "other_checks_violation_lines":oth.strip(),
 "repo_commit": subprocess.run(["git","-C","/repo","log","--format=%h","-1"],capture_output=True,text=True).stdout.strip()}
try:
    old=json.load(open(d+"/meta.json"))
    if "history" in old: meta["history"]=old["history"]
    if old.get("caught") and not meta["caught"]: meta["regressed"]=True
except Exception: pass
json.dump(meta,open(d+"/meta.json","w"),indent=1)
P
rm -rf $W
