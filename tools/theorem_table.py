#!/usr/bin/env python3
"""Prints, per property, the theorems stated in coq/properties/<ID>.v (names as in the files, prefix <ID>_ dropped) and
rewrites the generated block of DESIGN.md §15 between the markers."""
import re, glob, os
root = os.path.dirname(os.path.dirname(os.path.abspath(__file__)))
rows = []
for f in sorted(glob.glob(os.path.join(root, "coq/properties/C*.v"))):
    pid = os.path.basename(f)[:-2]
    src = open(f).read()
    thms = re.findall(r"^Theorem\s+(\w+)", src, re.M)
    exs = re.findall(r"^Example\s+(\w+)", src, re.M)
    pa = set(re.findall(r"^Print Assumptions\s+(\w+)\.", src, re.M))
    missing = [t for t in thms if t not in pa]
    rows.append((pid, thms, exs, missing))
lines = ["<!-- generated:theorems -->",
         "Complete list, generated from `coq/properties/*.v` by `tools/theorem_table.py` (every theorem is followed by",
         "`Print Assumptions`; the checks fail unless each prints *Closed under the global context*):", "",
         "| id | theorems | non-vacuity examples |", "|----|----------|----------------------|"]
for pid, thms, exs, missing in rows:
    short = [t[len(pid) + 1:] if t.startswith(pid + "_") else t for t in thms]
    lines.append(f"| {pid} | {len(thms)}: " + ", ".join(short) + f" | {len(exs)} |")
    assert not missing, (pid, missing)
lines.append("<!-- /generated:theorems -->")
block = "\n".join(lines)
p = os.path.join(root, "DESIGN.md")
s = open(p).read()
if "<!-- generated:theorems -->" in s:
    s = re.sub(r"<!-- generated:theorems -->.*?<!-- /generated:theorems -->", lambda m: block, s, flags=re.S)
else:
    s = s.replace("### The scheduler model (C01–C05, C13) in more detail", block + "\n\n### The scheduler model (C01–C05, C13) in more detail", 1)
open(p, "w").write(s)
print(block)
