#!/bin/bash
# tools/reeval_seeded.sh <evaldir> <ID> [<ID> ...]
# Regression closure: every kept seeded change of the given properties (seeded/<ID>_<v>/patch.diff) is applied to a
# scratch copy of /repo/src and the responsible check (its own, or the one recorded as caught_by_other_check) is run
# with the CURRENT machinery.  Log only ("== <ID>_<v> <check> violations=<n> nofail=<k>"); meta.json files are not rewritten.
VD=$1; shift
for ID in "$@"; do
  for d in /verif/seeded/${ID}_*; do
    [ -f $d/patch.diff ] || continue
    n=$(basename $d)
    CHK=$(/venv/bin/python -c "import json;m=json.load(open('$d/meta.json'));print(m.get('caught_by_other_check') or m['property'])" 2>/dev/null || echo $ID)
    W=/tmp/rs_$n$$
    rm -rf $W; mkdir -p $W; cp -r /repo/src $W/
    ( cd $W && git init -q . >/dev/null 2>&1; git apply --whitespace=nowarn $d/patch.diff 2>/dev/null || patch -p1 -s < $d/patch.diff >/dev/null 2>&1 ) || { echo "== $n $CHK does-not-apply"; rm -rf $W; continue; }
    out=$(cd $VD && VERIF_REPO=$W ./check $CHK 2>&1)
    nv=$(echo "$out" | grep -c "^VIOLATION"); nf=$(echo "$out" | grep "^VIOLATION" | grep -c "no-failing-input-found")
    echo "== $n $CHK violations=$nv nofail=$nf"
    rm -rf $W
  done
done
