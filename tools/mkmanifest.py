#!/venv/bin/python
"""Regenerates MANIFEST.json from tools/manifest_table.json (one entry per claimed property)."""
import json, pathlib
V = pathlib.Path(__file__).resolve().parent.parent
tab = json.loads((V / "tools" / "manifest_table.json").read_text())
props = [json.loads(l) for l in (V / "properties.jsonl").read_text().splitlines() if l.strip()]
checks, na = [], []
for p in props:
    pid = p["id"]
    e = tab["claimed"].get(pid)
    if e is None:
        na.append({"property_id": pid, "reason": tab["unclaimed"].get(pid, "check not built yet in this round (in progress): no model/theorem/correspondence exists yet, so nothing is claimed")})
        continue
    checks.append({
        "property_id": pid,
        "quick_cmd": f"./check {pid} --tier quick",
        "thorough_cmd": f"./check {pid} --tier thorough",
        "evidence_file": f"evidence/{pid}.json",
        "replay_cmd_template": f"./check {pid} --replay {{path}}",
        "engine": "coq-proof+correspondence",
        "level_claimed": {"category": "proof", "text": e["text"], "design_ref": e.get("design_ref", f"DESIGN.md §7 {pid}")},
        "level_note": e["note"],
        "technique": e.get("technique", "Coq 8.16.1 theorems about a hand-written executable Gallina model + differential correspondence check (vm_compute) against /repo"),
    })
m = {
    "version": 1,
    "setup_cmd": "make -C /verif/coq -f Makefile.setup -j16",
    "hooks": {"guard": "FINAM_VERIF", "enable": "no source hooks are needed: checks observe finam through its public API with PYTHONPATH=/repo/src", 
              "baseline_off_cmd": "/verif/tools/baseline_off.sh", "source_commits": [], "add_only": True},
    "engines": [{"name": "coq-proof+correspondence", "path": "check", "serves_properties": [c["property_id"] for c in checks],
                 "kind_free_text": "Coq 8.16.1 theorems (coq/properties/*.v, proofs in coq/proofs) about executable Gallina models (coq/theories) tied to /repo's working tree on every run by a differential correspondence check (harness/, Eval vm_compute of the model on the implementation's recorded inputs) plus executable property monitors for the counterexample search"}],
    "checks": checks,
    "notes": tab.get("notes", ""),
    "not_applicable": na,
}
(V / "MANIFEST.json").write_text(json.dumps(m, indent=1) + "\n")
print("claimed", [c["property_id"] for c in checks])
