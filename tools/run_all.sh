#!/bin/bash
# tools/run_all.sh [quick|thorough] [seed]  -- runs every claimed check on /repo, prints one line per property
cd /verif
TIER=${1:-quick}; SEED=${2:-20260927}
for p in $(/venv/bin/python -c "import json;print(' '.join(c['property_id'] for c in json.load(open('MANIFEST.json'))['checks']))"); do
  s=$(date +%s); out=$(VERIF_SEED=$SEED ./check $p --tier $TIER 2>&1); rc=$?; e=$(date +%s)
  echo "$p rc=$rc wall=$((e-s))s $(echo "$out" | grep -c '^VIOLATION') violations, $(echo "$out" | grep -c '^KNOWN-FINDING') known; $(echo "$out" | grep '^\[C' | cut -c1-160)"
done
