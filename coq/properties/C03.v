(** C03 — a run terminates, reaches the end time, and walks each life cycle once.
    Model: FV.Sched.  Only statements here; proofs in FVP.Sched_proofs. *)
From Coq Require Import List ZArith Bool.
From FV Require Import Base Sched.
From FVP Require Import Adapters_proofs Sched_proofs Confluence_proofs Termination_proofs Order_proofs.
Import ListNotations.
Open Scope Z_scope.

(** When the run returns normally, every time component is at or beyond the end time. *)
Theorem C03_reaches_end :
  forall cs endt fuel st acc,
    run fuel cs endt = (OOk, st, acc) ->
    forall c, is_time cs c = true -> endt <= s_time st c.
Proof. intros cs endt fuel st acc H. eapply run_loop_reaches_end; exact H. Qed.

(** Each update strictly increases the time of the updated component and changes no other time. *)
Theorem C03_monotone :
  forall cs endt fuel, wf cs ->
    Forall (fun x : state * nat * state =>
              let '(s, u, s') := x in
              s_time s u < s_time s' u /\ (forall y, y <> u -> s_time s' y = s_time s y))
           (run_states fuel cs endt (init_state cs) []).
Proof.
  intros cs endt fuel W.
  pose proof (run_states_all cs W endt fuel (init_state cs) [] (init_state_Inv cs)) as H.
  eapply Forall_impl; [|exact H]. intros [[s u] s'] [_ [_ [_ [_ [H4 H5]]]]]. auto.
Qed.

(** No update is performed once all time components have reached the end time: every update after the
    first one of the do-while loop starts in a state where some time component is behind ... *)
Theorem C03_no_late_update :
  forall cs endt fuel x rest,
    run_states fuel cs endt (init_state cs) [] = x :: rest ->
    Forall (fun y => any_running (fst (fst y)) O cs endt = true) rest.
Proof. intros cs endt fuel x rest. apply run_states_tail_running. Qed.

(** ... and for an end time after the composition's start time so does the first one. *)
Theorem C03_first_update_not_late :
  forall cs endt m, min_start cs = Some m -> m < endt -> any_running (init_state cs) O cs endt = true.
Proof. exact init_running. Qed.

(** Life cycle.  [lifecycle nconn nupd] is the call sequence the model of the composition sends to a component
    (initialize, [nconn] connect calls, validate, [nupd] updates, finalize); the correspondence check compares it, for
    every component of every case, with the call history of the real component ([c03_check], with [nupd] the update
    count of the model run and adapters finalized exactly once).  Its shape: it starts with initialize, ends with
    finalize, the phases never go backwards (so every connect call precedes validate, every update lies between
    validate and finalize), and initialize / validate / finalize occur exactly once. *)
Theorem C03_lifecycle :
  forall nconn nupd,
    hd_error (lifecycle nconn nupd) = Some KI /\
    last (lifecycle nconn nupd) KI = KF /\
    nondecreasing (map phase (lifecycle nconn nupd)) /\
    count_call KI (lifecycle nconn nupd) = 1%nat /\ count_call KC (lifecycle nconn nupd) = nconn /\
    count_call KV (lifecycle nconn nupd) = 1%nat /\ count_call KU (lifecycle nconn nupd) = nupd /\
    count_call KF (lifecycle nconn nupd) = 1%nat.
Proof. exact lifecycle_shape. Qed.

(** The run of a valid composition never ends with a data error (so it ends normally, with a circular
    coupling error, or — in the model — by exhausting the fuel it was given). *)
Theorem C03_outcome :
  forall cs endt fuel o st acc,
    wf cs -> run fuel cs endt = (o, st, acc) -> o = OOk \/ o = OCirc \/ o = OFuel.
Proof.
  intros cs endt fuel o st acc W H. destruct (run_good cs endt fuel o st acc W H) as [H1 H2].
  destruct o; auto; congruence.
Qed.

(** Termination: for every valid composition whose links carry pass-through adapters, buffering adapters,
    DelayToPush and delay adapters with non-negative delays (DelayFixed, DelayToPull with its remembered pull
    times) and whose pull-based components form no cycle among themselves ([term_ok], with a rank function as
    witness), and for every end time, there is an explicit amount of fuel [F] beyond which the run
    never stops for lack of fuel — neither in the recursion of the driver, nor inside a pull, nor in the loop:
    it returns after finitely many updates (all times stay below an explicit bound, each update consumes at
    least one microsecond of the remaining distance). *)
Theorem C03_terminates :
  forall cs rank endt, term_ok cs rank ->
    exists F, forall fuel o st acc, (F <= fuel)%nat -> run fuel cs endt = (o, st, acc) -> o <> OFuel.
Proof. exact run_terminates. Qed.

(** The same for EVERY order in which equally advanced components are considered (all that the listing order
    decides), with the explicit fuel bound [enough_fuel] = 1 + the sum over the components of the distance from
    their start to the bound on all times. *)
Theorem C03_terminates_every_order :
  forall cs rank endt prio, term_ok cs rank -> (forall c, (c < length cs)%nat -> In c prio) ->
    forall fuel o st acc, (enough_fuel cs endt <= fuel)%nat -> run_prio prio fuel cs endt = (o, st, acc) -> o <> OFuel.
Proof. exact run_prio_terminates. Qed.

(** Hence such a run ends normally — with every component at or beyond the end time — or with a
    circular-coupling error. *)
Theorem C03_terminates_normally_or_circular :
  forall cs rank endt, term_ok cs rank ->
    exists F, forall fuel o st acc, (F <= fuel)%nat -> run fuel cs endt = (o, st, acc) ->
      (o = OOk /\ forall c, is_time cs c = true -> endt <= s_time st c) \/ o = OCirc.
Proof.
  intros cs rank endt T. destruct (run_terminates cs rank endt T) as [F HF]. exists F.
  intros fuel o st acc Hf H. pose proof (HF fuel o st acc Hf H) as NF.
  destruct (run_good cs endt fuel o st acc (to_wf cs rank T) H) as [G1 G2].
  destruct o; try congruence; [left|right; reflexivity].
  split; [reflexivity|]. intros c Tc. eapply run_loop_reaches_end; eauto.
Qed.

Definition ex3 : composition :=
  [ mkC (KTime 0 [3; 2] true) 0 [ mkIn (1, 0)%nat [ABuf; AFixed 4]; mkIn (1, 0)%nat [AToPull 2 0] ];
    mkC (KTime 1 [2] false) 1 [] ].

Example C03_nonvacuous :
  wf ex3 /\ min_start ex3 = Some 0 /\
  (let '(o, st, _) := run 100 ex3 12 in o = OOk /\ final_times ex3 st = [13; 13]) /\
  length (run_states 100 ex3 12 (init_state ex3) []) = 11%nat.
Proof. split; [apply wf_b_sound; vm_compute; reflexivity|]. vm_compute. auto. Qed.

Definition ex3t : composition :=
  [ mkC (KTime 0 [3; 2] true) 0 [ mkIn (1, 0)%nat [ABuf; AFixed 4]; mkIn (2, 0)%nat [APass]; mkIn (1, 0)%nat [AToPull 2 0] ];
    mkC (KTime 1 [2] false) 1 [];
    mkC KPull 1 [ mkIn (1, 0)%nat [AFixed 1] ] ].

Example C03_terminates_nonvacuous : term_ok ex3t (fun c => match c with 2%nat => 1%nat | _ => 0%nat end).
Proof.
  split.
  - apply wf_b_sound; vm_compute; reflexivity.
  - intros c k inp Hk. destruct c as [|[|[|c]]]; simpl in Hk;
      repeat (destruct k as [|k]; simpl in Hk; [inversion Hk; reflexivity|]); try (destruct k; discriminate).
    unfold getc in Hk. destruct c; simpl in Hk; destruct k; discriminate.
  - intros c k inp Hk Tc Ts. exfalso.
    destruct c as [|[|[|c]]].
    + vm_compute in Tc; discriminate.
    + vm_compute in Tc; discriminate.
    + destruct k as [|k]; simpl in Hk; [inversion Hk; subst; vm_compute in Ts; discriminate|destruct k; discriminate].
    + unfold getc in Hk. destruct c; simpl in Hk; destruct k; discriminate.
  - intros c. destruct c as [|[|[|c]]]; simpl; Lia.lia.
Qed.

Print Assumptions C03_reaches_end.
Print Assumptions C03_monotone.
Print Assumptions C03_no_late_update.
Print Assumptions C03_first_update_not_late.
Print Assumptions C03_outcome.
Print Assumptions C03_lifecycle.
Print Assumptions C03_terminates.
Print Assumptions C03_terminates_every_order.
Print Assumptions C03_terminates_normally_or_circular.
