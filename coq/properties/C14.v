(** C14 — Grid index-to-coordinate mapping is consistent for every layout.
    Model: FV.Grid (grid_tools.py gen_points / gen_cells / order_map / gen_node_centers,
    grid_base.py StructuredGrid, grid_spec.py RectilinearGrid incl. the data_shape/data_size memo,
    to_unstructured).  This file contains only statements; proofs are in FVP.Grid_proofs.

    Conventions: an n-d index is a [list nat]; [inb sh i] says that [i] is a valid index of an
    array of shape [sh]; [flat c sh i] is the position of [i] after flattening in order C ([c = true])
    or F; [wf_grid g] = one direction flag per axis and no empty axis.  All theorems hold for
    arbitrary axis lengths and (index_coord, location_current) for any number of axes. *)
From Coq Require Import List ZArith QArith Bool Arith Lia.
From FV Require Import Base Grid.
From FVP Require Import Grid_proofs.
Import ListNotations.
Open Scope nat_scope.

(** For every grid (any order, axes_reversed, axes_increase, data location) and every multi-index
    [i] of the data shape: the coordinate read from the per-axis [data_axes] at [i] (put back into
    xyz order) is the entry of the flattened [data_points] list at the position obtained by
    flattening [i] in the grid's order. *)
Theorem C14_index_coord :
  forall (g : grid) (i : list nat),
    wf_grid g -> inb (data_shape g) i ->
    flat (g_c g) (data_shape g) i < length (data_points g) /\
    nth (flat (g_c g) (data_shape g) i) (data_points g) [] = coord_at g i.
Proof. exact index_coord. Qed.

(** Cells ([dms] = axis lengths, each >= 1, at most three of them > 1; [c] = apparent point order).
    The cell with cell multi-index [ci] sits at position [flat c (cshape_of dms) ci] of [cells];
    its node list is exactly the list of the corner points [ci + off] (offsets [corners m] over the
    non-degenerate axes, 0 on length-1 axes), each given by its position in the point list; there
    are [cell_count] cells and every node id is below [point_count]. *)
Theorem C14_cells_valid :
  forall (dms : list nat) (c : bool),
    Forall (fun d => 1 <= d) dms -> length (filter nondeg dms) <= 3 ->
    length (gen_cells dms c) = prod (cshape_of dms) /\
    Forall (Forall (fun p => p < prod dms)) (gen_cells dms c) /\
    forall ci, inb (cshape_of dms) ci ->
      nth (flat c (cshape_of dms) ci) (gen_cells dms c) [] =
      map (fun off => flat c dms (addi ci (embed dms off))) (corners (length (filter nondeg dms))).
Proof.
  intros dms c Hd Hm. split; [apply gen_cells_length; exact Hd|].
  split; [apply cells_in_range; assumption|]. intros ci Hci. apply cells_corners; assumption.
Qed.

(** [cell_centers] (computed from the cell axes) equals, coordinate by coordinate, the mean of the
    points referenced by the cell ([node_centers] = gen_node_centers), for increasing and
    decreasing axes, every order and axes_reversed. *)
Theorem C14_centers_mean :
  forall (g : grid) (ci : list nat) (a : nat),
    wf_grid g -> mesh_dim g <= 3 -> inb (cshape_of (dims g)) ci -> a < gdim g ->
    let n := flat (point_order g) (cshape_of (dims g)) ci in
    n < length (cell_centers g) /\ n < length (node_centers g) /\
    (nth a (nth n (cell_centers g) []) 0 == nth a (nth n (node_centers g) []) 0)%Q.
Proof. exact centers_mean. Qed.

(** The unstructured cast keeps points, cells and cell types, its data shape is the flat data size,
    and the element at data multi-index [i] of the structured grid, flattened in the grid's order,
    is located (data points of the cast grid; for cell data: means of the cell nodes) at the
    coordinate the structured grid's data axes give for [i]. *)
Theorem C14_unstructured_cast :
  forall (g : grid),
    wf_grid g -> mesh_dim g <= 3 ->
    let u := to_unstructured g in
    u_points u = points g /\ u_cells u = cells g /\ u_types u = cell_types g /\
    u_data_shape u = [data_size g] /\
    (forall i a, inb (data_shape g) i -> a < gdim g ->
       (nth a (nth (flat (g_c g) (data_shape g) i) (u_data_points u) []) 0 == nth a (coord_at g i) 0)%Q).
Proof. exact unstructured_cast. Qed.

(** Living grid objects (memo state machine of RectilinearGrid): for every grid and every sequence
    of reads of data_shape / data_size / data_points / data_axes / points / cells / cell_centers /
    cell_axes / to_unstructured().data_points and .data_shape ([MProp]), location changes (valid or
    rejected) and copies, on any of the objects created so far, every read returns the pure function
    of the object's current grid record (whose location is the one set last). *)
Theorem C14_location_current :
  forall (g : grid) (ops : list mop), Forall read_ok (mrun true [fresh g] ops).
Proof. exact location_current. Qed.

(** ** Non-vacuity *)
Definition ex_g : grid :=
  mkgrid [[0#1; 1#1; 3#1]; [5#1; 7#1; 8#1; 12#1]; [2#1]]%Q [true; false; true] true true false 0 false.

Example C14_index_coord_nonvacuous :
  wf_grid ex_g /\ inb (data_shape ex_g) [0; 2; 1] /\
  flat (g_c ex_g) (data_shape ex_g) [0; 2; 1] = 5 /\
  nth 5 (data_points ex_g) [] = coord_at ex_g [0; 2; 1] /\
  coord_at ex_g [0; 2; 1] = [(((1#1) + (3#1)) / 2)%Q; (((5#1) + (7#1)) / 2)%Q; 2#1]%Q.
Proof.
  split; [split; [reflexivity|repeat constructor]|].
  split; [repeat constructor|]. split; [reflexivity|]. split; reflexivity.
Qed.

Example C14_cells_valid_nonvacuous :
  inb (cshape_of [3; 1; 4]) [1; 0; 2] /\
  nth (flat true (cshape_of [3; 1; 4]) [1; 0; 2]) (gen_cells [3; 1; 4] true) [] = [7; 11; 10; 6] /\
  map (fun off => flat true [3; 1; 4] (addi [1; 0; 2] (embed [3; 1; 4] off))) (corners 2) = [7; 11; 10; 6].
Proof. split; [repeat constructor|]. split; reflexivity. Qed.

Example C14_centers_mean_nonvacuous :
  mesh_dim ex_g = 2 /\ inb (cshape_of (dims ex_g)) [1; 2; 0] /\
  nth (flat (point_order ex_g) (cshape_of (dims ex_g)) [1; 2; 0]) (cell_centers ex_g) [] =
    [(((1#1) + (3#1)) / 2)%Q; (((7#1) + (5#1)) / 2)%Q; 2#1]%Q /\
  Qeq_bool (nth 1 (nth (flat (point_order ex_g) (cshape_of (dims ex_g)) [1; 2; 0]) (node_centers ex_g) []) 0%Q) (6#1) = true.
Proof. split; [reflexivity|]. split; [repeat constructor|]. split; reflexivity. Qed.

Example C14_unstructured_cast_nonvacuous :
  length (u_points (to_unstructured ex_g)) = 12 /\ u_data_shape (to_unstructured ex_g) = [6] /\
  length (u_cells (to_unstructured ex_g)) = 6.
Proof. repeat split. Qed.

(** read, change the location, read again: the second read differs from the first *)
Definition ex_ops : list mop := [MShape 0; MSize 0; MSet 0 true; MShape 0; MSize 0; MCopy 0; MSet 1 false; MSize 1].
Example C14_location_current_nonvacuous :
  map fst (mrun true [fresh ex_g] ex_ops) =
  [RShape [1; 3; 2]; RSize 6; RSet true; RShape [1; 4; 3]; RSize 12; RCopied; RSet true; RSize 6].
Proof. reflexivity. Qed.

(** Finding F6 (repaired in the code): a setter that keeps the memo violates the statement. *)
Example C14_location_current_without_reset_refuted :
  ~ Forall read_ok (mrun false [fresh ex_g] [MShape 0; MSet 0 true; MShape 0]).
Proof.
  intros H. apply Forall_inv_tail in H. apply Forall_inv_tail in H. apply Forall_inv in H.
  vm_compute in H. discriminate H.
Qed.

Print Assumptions C14_index_coord.
Print Assumptions C14_cells_valid.
Print Assumptions C14_centers_mean.
Print Assumptions C14_unstructured_cast.
Print Assumptions C14_location_current.
