From Coq Require Import List ZArith QArith Bool Arith Lia.
From FV Require Import Base Grid.
From FVP Require Import Grid_proofs.
Import ListNotations.
Open Scope nat_scope.
Theorem C14_stub : prod [] = 1.
Proof. exact prod_nil. Qed.
Print Assumptions C14_stub.
