(** C04 — unresolvable dependency cycles are reported; delay-resolved cycles run.
    Model: FV.Sched.  Only statements here; proofs in FVP.Sched_proofs. *)
From Coq Require Import List ZArith Bool.
From FV Require Import Base Sched SchedSparse C04Mix.   (* C04Mix: the correspondence interface of this property *)
From FVP Require Import Adapters_proofs Sched_proofs Confluence_proofs Termination_proofs ConnectPhase_proofs Ring_proofs Potential_proofs.
Import ListNotations.
Open Scope Z_scope.

(** For every valid composition — cyclic or not — a run ends normally or with a circular-coupling error,
    never with a time / no-data error ([OFuel]: the model's recursion fuel ran out; see C03). *)
Theorem C04_outcome_closed :
  forall cs endt fuel o st acc,
    wf cs -> run fuel cs endt = (o, st, acc) -> o = OOk \/ o = OCirc \/ o = OFuel.
Proof.
  intros cs endt fuel o st acc W H. destruct (run_good cs endt fuel o st acc W H) as [H1 H2].
  destruct o; auto; congruence.
Qed.

(** Delay-resolved cycles run.  [sufficient cs phi rank]: [phi] is a feasible potential for the edge
    weights  S(consumer) - delay(link)  (S = largest step of a time component, 0 for a pull-based one;
    delay = the non-negative fixed delays on the pulled part of the link, wherever they sit and however
    they are split) — which exists exactly when on every cycle the delays sum to at least the sum of the
    largest steps — and no cycle consists of pull-based components only.  Then no run reports a circular
    coupling, from whatever reachable state, however the components are listed. *)
Theorem C04_delay_sufficient :
  forall cs phi rank endt fuel o st acc,
    wf cs -> sufficient cs phi rank ->
    run fuel cs endt = (o, st, acc) -> o <> OCirc.
Proof.
  intros cs phi rank endt fuel o st acc W S H. unfold run in H.
  eapply run_loop_no_circ; eauto. apply init_state_Inv.
Qed.

(** The same for a single call of the recursive update from any state satisfying the invariant. *)
Theorem C04_delay_sufficient_step :
  forall cs phi rank st acc c tgt fuel,
    sufficient cs phi rank -> Inv cs st ->
    update_rec fuel cs st acc c [] tgt <> UCirc.
Proof.
  intros cs phi rank st acc c tgt fuel S I. apply (no_circ cs phi rank S st I). intros e [].
Qed.

(** A simple sufficient condition: every link's delay covers the largest step of its consumer. *)
Theorem C04_delay_per_link :
  forall cs rank,
    (forall c k inp, nth_error (c_inputs (getc cs c)) k = Some inp ->
        cut_by_nodep (i_chain inp) = true \/
        exists D, edge_delay (i_chain inp) = Some D /\ S_of cs c <= D) ->
    (forall c k inp, nth_error (c_inputs (getc cs c)) k = Some inp ->
        is_time cs c = false -> is_time cs (fst (i_src inp)) = false ->
        cut_by_nodep (i_chain inp) = true \/ (rank (fst (i_src inp)) < rank c)%nat) ->
    sufficient cs (fun _ => 0) rank.
Proof.
  intros cs rank H1 H2. split; [|exact H2].
  intros c k inp Hk. destruct (H1 c k inp Hk) as [Hc|[D [He Hd]]]; [left; exact Hc|right].
  exists D. split; [exact He|]. Lia.lia.
Qed.

(** Unresolvable cycles are reported: if the members of [cyc] are time components, each reading another
    member through pass-through adapters only, and all of them are at the same time T before the end
    time, the run cannot complete normally (with C04_outcome_closed: it ends with the circular-coupling
    error), and no member is ever updated again. *)
Theorem C04_cycle_detected :
  forall cs cyc T endt fuel st acc o st' acc',
    wf cs -> Inv cs st -> und_cycle cs cyc -> (forall x, In x cyc -> s_time st x = T) -> T < endt ->
    run_loop fuel cs endt st acc = (o, st', acc') -> o <> OOk.
Proof. intros cs cyc T endt fuel st acc o st' acc' W I C HT Hlt. eapply run_loop_und_cycle; eauto. Qed.

(** With termination (C03): a composition with sufficient delays on every cycle completes, given enough fuel ... *)
Theorem C04_resolved_cycles_complete :
  forall cs phi rank rank' endt, term_ok cs rank' -> sufficient cs phi rank ->
    exists F, forall fuel o st acc, (F <= fuel)%nat -> run fuel cs endt = (o, st, acc) ->
      o = OOk /\ forall c, is_time cs c = true -> endt <= s_time st c.
Proof.
  intros cs phi rank rank' endt T S. destruct (run_terminates cs rank' endt T) as [F HF]. exists F.
  intros fuel o st acc Hf H. pose proof (HF fuel o st acc Hf H) as NF.
  destruct (run_good cs endt fuel o st acc (to_wf cs rank' T) H) as [G1 G2].
  assert (NC : o <> OCirc).
  { unfold run in H. eapply run_loop_no_circ; eauto; [exact (to_wf cs rank' T)|apply init_state_Inv]. }
  destruct o; try congruence. split; [reflexivity|]. intros c Tc. eapply run_loop_reaches_end; eauto.
Qed.

(** ... and an undelayed cycle among components with a common start time before the end time is reported. *)
Theorem C04_cycle_reported :
  forall cs rank cyc T endt, term_ok cs rank -> und_cycle cs cyc ->
    (forall x, In x cyc -> s_time (init_state cs) x = T) -> T < endt ->
    exists F, forall fuel o st acc, (F <= fuel)%nat -> run fuel cs endt = (o, st, acc) -> o = OCirc.
Proof.
  intros cs rank cyc T endt TO C HT Hlt. destruct (run_terminates cs rank endt TO) as [F HF]. exists F.
  intros fuel o st acc Hf H. pose proof (HF fuel o st acc Hf H) as NF.
  destruct (run_good cs endt fuel o st acc (to_wf cs rank TO) H) as [G1 G2].
  assert (NO : o <> OOk).
  { unfold run in H. eapply (run_loop_und_cycle cs (to_wf cs rank TO) cyc T); eauto. apply init_state_Inv. }
  destruct o; congruence.
Qed.

(** The connect phase (model of the harness compositions: [published], [connect_stuck]): every member of a cycle
    of components that provide their initial data only after their initial pulls — each pulling from another
    member — is in the list of stuck components connect() must report, whatever else the composition contains;
    and when no component waits, nothing is stuck. *)
Theorem C04_connect_cycle_reported :
  forall cs paps cyc, wait_cycle cs paps cyc -> forall k, In k cyc -> In k (connect_stuck cs paps).
Proof. exact wait_cycle_stuck. Qed.

Theorem C04_connect_no_false_report :
  forall cs paps,
    (forall k, (k < length cs)%nat -> waits cs paps k = false) ->
    (forall k j, (k < length cs)%nat -> In j (srcs_of (getc cs k)) -> (j < length cs)%nat) ->
    connect_stuck cs paps = [].
Proof. exact no_wait_all_connected. Qed.

(** Non-vacuity.  Ring of three with steps 10 / 1 / 3 (sum 14): delays 6+5 on one link, 3 on another, 0 on
    the third — no single link covers its consumer's step, the potential is not constant. *)
(** The same without a potential, for a plain RING (every component has exactly one input, fed by its predecessor on
    the ring; [pos] numbers the components along the data flow starting at a time-stepped one, the other members may be
    time-stepped or pull-based, the listing order is arbitrary): if
    the non-negative fixed delays on the ring's links - wherever they sit, however they are split over the links and over
    several adapters of one link - sum to at least the sum of the components' largest steps, no run reports a circular
    coupling.  (The potential is constructed: prefix sums of  largest step - delay  along the ring.) *)
Theorem C04_ring_total_delay_suffices :
  forall cs pos D endt fuel o st acc,
    wf cs -> ring cs pos D ->
    zsum (S_of cs) (seq 0 (length cs)) <= zsum D (seq 0 (length cs)) ->
    run fuel cs endt = (o, st, acc) -> o <> OCirc.
Proof.
  intros cs pos D endt fuel o st acc W R E H.
  destruct (ring_total_delay_suffices cs pos D R E) as [phi [rank S]].
  exact (C04_delay_sufficient cs phi rank endt fuel o st acc W S H).
Qed.

(** ... and for ANY coupling graph, in the words of the property: "every cycle carries enough delay".  [delay_graph cs]
    has an edge consumer -> source of weight  largest step of the consumer - delay of the link  for every link that is
    not cut by a DelayToPush ([links_ok]: such a link carries pass-through adapters, buffers and non-negative fixed
    delays only).  If no closed walk of that graph has positive weight - on every cycle the delays sum to at least the
    sum of the largest steps, wherever they sit and however they are split - and the pull-based components do not feed
    each other in a circle ([pull_graph], the uncut links between pull-based components, has no closed walk), no run
    reports a circular coupling.  The potential and the ranking that [C04_delay_sufficient] asks for are constructed
    (minus the heaviest walk leaving a component; walks of n or more links repeat a component, and cutting the closed
    part out loses nothing): Potential_proofs.v, no graph theory assumed. *)
Theorem C04_cycles_covered_run :
  forall cs endt fuel o st acc,
    wf cs -> links_ok cs ->
    (forall u c, c <> [] -> walk (delay_graph cs) u c -> endn u c = u -> wt c <= 0) ->
    (forall u c, c <> [] -> walk (pull_graph cs) u c -> endn u c = u -> False) ->
    run fuel cs endt = (o, st, acc) -> o <> OCirc.
Proof.
  intros cs endt fuel o st acc W LO NP AC H.
  destruct (cycles_covered_give_sufficient cs LO NP AC) as [phi [rank S]].
  exact (C04_delay_sufficient cs phi rank endt fuel o st acc W S H).
Qed.

(** ... and, with termination (C03), such a composition runs to completion: every time component reaches the end time. *)
Theorem C04_cycles_covered_complete :
  forall cs rank' endt,
    term_ok cs rank' -> links_ok cs ->
    (forall u c, c <> [] -> walk (delay_graph cs) u c -> endn u c = u -> wt c <= 0) ->
    (forall u c, c <> [] -> walk (pull_graph cs) u c -> endn u c = u -> False) ->
    exists F, forall fuel o st acc, (F <= fuel)%nat -> run fuel cs endt = (o, st, acc) ->
      o = OOk /\ forall c, is_time cs c = true -> endt <= s_time st c.
Proof.
  intros cs rank' endt T LO NP AC.
  destruct (cycles_covered_give_sufficient cs LO NP AC) as [phi [rank S]].
  exact (C04_resolved_cycles_complete cs phi rank rank' endt T S).
Qed.

(** The two formulations are equivalent: a feasible potential exists exactly when no cycle gains weight. *)
Theorem C04_potential_iff_cycles_covered :
  forall cs rank,
    links_ok cs ->
    (forall c k inp, nth_error (c_inputs (getc cs c)) k = Some inp ->
       is_time cs c = false -> is_time cs (fst (i_src inp)) = false ->
       cut_by_nodep (i_chain inp) = true \/ (rank (fst (i_src inp)) < rank c)%nat) ->
    ((exists phi, sufficient cs phi rank) <->
     (forall u c, c <> [] -> walk (delay_graph cs) u c -> endn u c = u -> wt c <= 0)).
Proof.
  intros cs rank LO RK. split.
  - intros [phi S]. exact (potential_gives_cycles_covered cs phi rank S).
  - intros NP. exact (cycles_covered_give_potential cs rank LO NP RK).
Qed.

Definition ex_ring3 : composition :=
  [ mkC (KTime 0 [10] false) 1 [ mkIn (2, 0)%nat [AFixed 6; APass; AFixed 5] ];
    mkC (KTime 0 [1] false) 1 [ mkIn (0, 0)%nat [AFixed 3] ];
    mkC (KTime 0 [3; 2] false) 1 [ mkIn (1, 0)%nat [] ] ].
Definition ex_phi (c : nat) : Z := match c with 0%nat => 0 | 1%nat => 2 | _ => -1 end.

Definition ex_und : composition :=
  [ mkC (KTime 0 [2] false) 1 [ mkIn (1, 0)%nat [APass] ];
    mkC (KTime 0 [3] false) 1 [ mkIn (0, 0)%nat [] ] ].

Definition ex_wait : composition :=
  [ mkC (KTime 0 [2] true) 1 [ mkIn (1, 0)%nat [] ];
    mkC (KTime 0 [3] true) 1 [ mkIn (0, 0)%nat []; mkIn (2, 0)%nat [] ];
    mkC (KTime 0 [1] false) 1 [] ].

Example C04_connect_nonvacuous :
  wait_cycle ex_wait [true; true; false] [0; 1]%nat /\ connect_stuck ex_wait [true; true; false] = [0; 1]%nat
  /\ connect_stuck ex_wait [true; false; false] = [].
Proof.
  split; [|split; vm_compute; reflexivity].
  split; [discriminate|]. intros k [<-|[<-|[]]]; (split; [simpl; Lia.lia|]); (split; [reflexivity|]).
  - exists 1%nat. simpl. auto.
  - exists 0%nat. simpl. auto.
Qed.

Example C04_nonvacuous :
  wf ex_ring3 /\ sufficient ex_ring3 ex_phi (fun _ => O) /\
  (let '(o, st, _) := run 200 ex_ring3 30 in o = OOk /\ final_times ex_ring3 st = [30; 30; 30]) /\
  wf ex_und /\ und_cycle ex_und [0; 1]%nat /\
  (let '(o, _, _) := run 200 ex_und 10 in o = OCirc).
Proof.
  split; [apply wf_b_sound; vm_compute; reflexivity|].
  split.
  { split.
    - intros c k inp Hk. right.
      destruct c as [|[|[|c]]]; simpl in Hk;
        try (destruct k as [|k]; simpl in Hk; [inversion Hk; subst; clear Hk|destruct k; discriminate]).
      + exists 11. split; [reflexivity|]. vm_compute. discriminate.
      + exists 3. split; [reflexivity|]. vm_compute. discriminate.
      + exists 0. split; [reflexivity|]. vm_compute. discriminate.
      + unfold getc in Hk. destruct c; simpl in Hk; destruct k; discriminate.
    - intros c k inp Hk Tc. exfalso.
      destruct c as [|[|[|c]]]; try (vm_compute in Tc; discriminate).
      unfold getc in Hk. destruct c; simpl in Hk; destruct k; discriminate. }
  split; [vm_compute; auto|].
  split; [apply wf_b_sound; vm_compute; reflexivity|].
  split.
  { split; [discriminate|]. intros c [<-|[<-|[]]]; (split; [reflexivity|]); exists O; eexists; (split; [reflexivity|]);
      (split; [reflexivity|]); simpl; auto. }
  vm_compute. reflexivity.
Qed.

Example C04_ring_nonvacuous :
  (* ex_ring3: steps 10 + 1 + 3 = 14, delays (6 + 5) + 3 + 0 = 14 *)
  ring ex_ring3 (fun c => c) (fun c => match c with 0%nat => 11 | 1%nat => 3 | _ => 0 end) /\
  zsum (S_of ex_ring3) (seq 0 (length ex_ring3))
  <= zsum (fun c => match c with 0%nat => 11 | 1%nat => 3 | _ => 0 end) (seq 0 (length ex_ring3)).
Proof.
  split; [|vm_compute; discriminate].
  split.
  - intros c H. exact H.
  - intros c c' _ _ H. exact H.
  - intros c H. simpl in H.
    destruct c as [|[|[|c]]]; [| | |Lia.lia]; (split; [intros _; reflexivity|]); eexists; (split; [reflexivity|]);
      (split; [simpl; Lia.lia|]); (split; reflexivity).
Qed.

(** a ring through a pull-based component: A (step 3) -> P (pull-based) -> C (step 2) -> DelayFixed 5 -> A *)
Definition ex_ring_pull : composition :=
  [ mkC (KTime 0 [3] false) 1 [ mkIn (2, 0)%nat [APass; AFixed 5] ];
    mkC KPull 1 [ mkIn (0, 0)%nat [] ];
    mkC (KTime 0 [2] false) 1 [ mkIn (1, 0)%nat [] ] ].

Example C04_ring_pull_nonvacuous :
  wf ex_ring_pull /\
  ring ex_ring_pull (fun c => c) (fun c => match c with 0%nat => 5 | _ => 0 end) /\
  zsum (S_of ex_ring_pull) (seq 0 (length ex_ring_pull))
  <= zsum (fun c => match c with 0%nat => 5 | _ => 0 end) (seq 0 (length ex_ring_pull)) /\
  (let '(o, st, _) := run 200 ex_ring_pull 12 in o = OOk /\ final_times ex_ring_pull st = [12; 0; 12]).
Proof.
  split; [apply wf_b_sound; vm_compute; reflexivity|].
  split; [|split; [vm_compute; discriminate|vm_compute; split; reflexivity]].
  split.
  - intros c H. exact H.
  - intros c c' _ _ H. exact H.
  - intros c H. simpl in H.
    destruct c as [|[|[|c]]]; [| | |Lia.lia];
      (split; [intros E; try discriminate E; reflexivity|]); eexists; (split; [reflexivity|]);
      (split; [simpl; Lia.lia|]); (split; reflexivity).
Qed.

Example C04_cycles_covered_nonvacuous :
  (* ex_ring3 meets the hypotheses of C04_cycles_covered_run; its delay graph is the single cycle of weight 0 *)
  links_ok ex_ring3 /\
  delay_graph ex_ring3 = [(0%nat, 2%nat, -1); (1%nat, 0%nat, -2); (2%nat, 1%nat, 3)] /\
  (forall u c, c <> [] -> walk (delay_graph ex_ring3) u c -> endn u c = u -> wt c <= 0) /\
  (forall u c, c <> [] -> walk (pull_graph ex_ring3) u c -> endn u c = u -> False).
Proof.
  split; [|split; [vm_compute; reflexivity|split]].
  3:{ intros u c Hc W _. destruct c as [|e r]; [congruence|]. cbn in W. destruct W as [_ [[] _]]. }
  - intros c k inp Hk. right.
    destruct c as [|[|[|c]]]; simpl in Hk;
      try (destruct k as [|k]; simpl in Hk; [inversion Hk; subst; clear Hk|destruct k; discriminate]).
    + split; [simpl; Lia.lia|]. eexists. reflexivity.
    + split; [simpl; Lia.lia|]. eexists. reflexivity.
    + split; [simpl; Lia.lia|]. eexists. reflexivity.
    + destruct c; destruct k; discriminate.
  - destruct C04_nonvacuous as [_ [S _]].
    exact (potential_gives_cycles_covered ex_ring3 ex_phi (fun _ => O) S).
Qed.

Print Assumptions C04_outcome_closed.
Print Assumptions C04_delay_sufficient.
Print Assumptions C04_delay_sufficient_step.
Print Assumptions C04_delay_per_link.
Print Assumptions C04_cycle_detected.
Print Assumptions C04_resolved_cycles_complete.
Print Assumptions C04_cycle_reported.
Print Assumptions C04_connect_cycle_reported.
Print Assumptions C04_connect_no_false_report.
Print Assumptions C04_ring_total_delay_suffices.
Print Assumptions C04_cycles_covered_run.
Print Assumptions C04_potential_iff_cycles_covered.
Print Assumptions C04_cycles_covered_complete.
