(** C05 — the coupling outcome is independent of listing and linking order.
    Model: FV.Sched ([run_prio]: the run loop with an arbitrary order in which equally advanced components
    are considered — all that the listing order decides), FV.OutputM for deliveries, FV.Info for the
    metadata exchange.  Only statements here. *)
From Coq Require Import List ZArith Bool Sorting.Permutation.
From FV Require Import Base OutputM Sched.
From FV Require Info.
From FVP Require Import Adapters_proofs Sched_proofs Confluence_proofs OutputM_proofs Series_proofs Termination_proofs Order_proofs Trace_proofs Confluence2_proofs Trace2_proofs Potential_proofs.
From FVP Require Info_proofs.
Import ListNotations.
Open Scope Z_scope.

(** Final component times and update counts: for every valid composition whose links carry no per-link
    state (pass-through adapters, fixed delays, buffering adapters — the stated domain excludes
    push-time-dependent adapters), every end time after the start, and ANY two orders in which the
    components are considered, two runs that end normally end with the same update count and the same
    time for every component.  (Proof: each final count vector is below every solution of the constraint
    system "everybody reaches the end time and every update finds its sources far enough", and is itself
    such a solution.) *)
Theorem C05_final_times :
  forall cs endt m prio1 prio2 fuel1 fuel2 st1 acc1 st2 acc2,
    wf cs -> stateless cs -> min_start cs = Some m -> m < endt ->
    (forall c, (c < length cs)%nat -> In c prio1) ->
    (forall c, (c < length cs)%nat -> In c prio2) ->
    run_prio prio1 fuel1 cs endt = (OOk, st1, acc1) ->
    run_prio prio2 fuel2 cs endt = (OOk, st2, acc2) ->
    forall c, is_time cs c = true -> s_cnt st1 c = s_cnt st2 c /\ s_time st1 c = s_time st2 c.
Proof.
  intros cs endt m prio1 prio2 fuel1 fuel2 st1 acc1 st2 acc2 W SL Hm Hlt H1 H2 R1 R2.
  eapply (confluence cs W SL endt); [apply pick_prio_ok; exact H1|apply pick_prio_ok; exact H2| |exact R1|exact R2].
  eapply init_running; eauto.
Qed.

(** The same for links WITH per-link state — DelayToPull adapters, which remember the times of the consumer's own
    previous pulls: the only adapter excluded is DelayToPush, whose answer depends on the newest publication (the
    "push-time-dependent adapter" of the property).  The requirement of update j of a component is judged with the
    link state it has after j-1 updates, which is a function of j alone ([lafter]); the final link states coincide too. *)
Theorem C05_final_times_with_delay_to_pull :
  forall cs endt m prio1 prio2 fuel1 fuel2 st1 acc1 st2 acc2,
    wf cs -> nopush cs -> min_start cs = Some m -> m < endt ->
    (forall c, (c < length cs)%nat -> In c prio1) ->
    (forall c, (c < length cs)%nat -> In c prio2) ->
    run_prio prio1 fuel1 cs endt = (OOk, st1, acc1) ->
    run_prio prio2 fuel2 cs endt = (OOk, st2, acc2) ->
    (forall c, is_time cs c = true -> s_cnt st1 c = s_cnt st2 c /\ s_time st1 c = s_time st2 c) /\
    (forall x y inp, nth_error (c_inputs (getc cs x)) y = Some inp -> s_link st1 x y = s_link st2 x y).
Proof.
  intros cs endt m prio1 prio2 fuel1 fuel2 st1 acc1 st2 acc2 W NP Hm Hlt H1 H2 R1 R2.
  pose proof (init_running cs endt m Hm Hlt) as AR.
  split.
  - eapply (confluence2 cs W NP endt); [apply pick_prio_ok; exact H1|apply pick_prio_ok; exact H2|exact AR|exact R1|exact R2].
  - eapply (final_links2 cs W NP endt); [apply pick_prio_ok; exact H1|apply pick_prio_ok; exact H2|exact AR|exact R1|exact R2].
Qed.

(** The run in list order is one of them. *)
Theorem C05_list_order_is_a_priority_order :
  forall cs endt m prio fuel1 fuel2 st1 acc1 st2 acc2,
    wf cs -> stateless cs -> min_start cs = Some m -> m < endt ->
    (forall c, (c < length cs)%nat -> In c prio) ->
    run fuel1 cs endt = (OOk, st1, acc1) ->
    run_prio prio fuel2 cs endt = (OOk, st2, acc2) ->
    forall c, is_time cs c = true -> s_cnt st1 c = s_cnt st2 c /\ s_time st1 c = s_time st2 c.
Proof.
  intros cs endt m prio fuel1 fuel2 st1 acc1 st2 acc2 W SL Hm Hlt Hp R1 R2.
  unfold run in R1. rewrite run_loop_is_pick in R1.
  eapply (confluence cs W SL endt); [apply pick_min_ok|apply pick_prio_ok; exact Hp| |exact R1|exact R2].
  eapply init_running; eauto.
Qed.

(** Outcome class: whatever the order, the run of a valid composition never ends with a data error, and
    with sufficient delays on every cycle never with a circular-coupling error. *)
Theorem C05_outcome_class :
  forall cs endt prio fuel o st acc,
    wf cs -> run_prio prio fuel cs endt = (o, st, acc) ->
    o <> OTime /\ o <> ONoData /\
    (forall phi rank, sufficient cs phi rank -> o <> OCirc).
Proof.
  intros cs endt prio fuel o st acc W R. unfold run_prio in R.
  destruct (run_loop_pick_good cs W endt _ fuel _ _ _ _ _ (init_state_Inv cs) R) as [G1 G2].
  split; [exact G1|]. split; [exact G2|].
  intros phi rank S. eapply run_loop_pick_no_circ; eauto. apply init_state_Inv.
Qed.

(** The (time, value) series received by a consumer.  The j-th update of a component happens at a time that
    is a function of j alone ([tfun]); on a stateless link the time requested from the source is a function of
    that time alone; and what the source delivers for a request it can serve does not depend on how many
    later publications already exist — the only thing a different schedule could change: *)
Theorem C05_request_is_a_function_of_the_update_index :
  forall cs a b c k inp t,
    stateless cs -> LenInv cs a -> LenInv cs b -> nth_error (c_inputs (getc cs c)) k = Some inp ->
    link_req cs a c k inp t = link_req cs b c k inp t.
Proof. intros cs a b c k inp t SL La Lb Hk. apply link_req_stateless; assumption. Qed.

Theorem C05_delivery_independent_of_later_publications :
  forall (A : Type) (h1 h2 : hist A) time,
    increasing (h1 ++ h2) -> (exists e, In e h1 /\ time <= fst e) ->
    interpolate (h1 ++ h2) time = interpolate h1 time.
Proof. intros A h1 h2 time. apply interpolate_prefix. Qed.

(** ... instantiated for a time-stepped source of a valid composition: once it has published at or beyond the
    requested time after [m] updates (which C01 guarantees at every pull), the publication delivered is the same
    however many further updates [M >= m] another schedule has already performed. *)
Theorem C05_delivery_schedule_independent :
  forall cs s m M r, wf cs -> is_time cs s = true -> (m <= M)%nat -> r <= tfun cs s m ->
    interpolate (pubs cs s M) r = interpolate (pubs cs s m) r.
Proof. intros cs s m M r W Ts. apply delivery_schedule_independent; assumption. Qed.

(** Exchanged metadata (link creation order = order in which the consumers of an output exchange): when the
    producer declares its grid, units, time and metadata, every permutation of the consumers succeeds alike,
    every consumer receives the same info and the producer ends with the same info (C07_fanout_order). *)
Theorem C05_metadata_order_independent :
  forall oi st n cs cs' l,
    Info_proofs.fully_set st oi -> Permutation cs cs' ->
    snd (Info.run_all (Info.init_out (Some oi) st n) cs) = Info.XOk l ->
    exists l', snd (Info.run_all (Info.init_out (Some oi) st n) cs') = Info.XOk l'
               /\ Permutation (combine cs l) (combine cs' l')
               /\ Info.o_info (fst (Info.run_all (Info.init_out (Some oi) st n) cs'))
                  = Info.o_info (fst (Info.run_all (Info.init_out (Some oi) st n) cs)).
Proof.
  intros oi st n cs cs' l F P H. destruct (Info_proofs.fanout_order_main oi st n cs cs' l F P H) as [_ H']. exact H'.
Qed.

(** The full series of requests.  The event trace of a run records, for every update, the pull of every input with
    its time, and the time that reaches each source output / buffering adapter — recursively through pull-based
    components ([EU], [EP], [ES], [EB]; the correspondence check compares this very trace with the calls recorded on
    the real components, outputs and adapters).  For stateless links the events of one update are a function
    [ublock cs c t] of the component and its new time alone, the trace of a run is the concatenation of the blocks of
    its updates ([trace cs us], [us] = the sequence of (component, new time) in schedule order), and for any two
    orders the sub-sequence of updates of each component is the same, namely [tfun cs c 1, ..., tfun cs c n]:
    every consumer makes the same series of requests at the same times, and (C05_delivery_schedule_independent)
    receives the same publication for each. *)
Theorem C05_series_order_independent :
  forall cs endt m prio1 prio2 fuel1 fuel2 st1 acc1 st2 acc2,
    wf cs -> stateless cs -> min_start cs = Some m -> m < endt ->
    (forall c, (c < length cs)%nat -> In c prio1) ->
    (forall c, (c < length cs)%nat -> In c prio2) ->
    run_prio prio1 fuel1 cs endt = (OOk, st1, acc1) ->
    run_prio prio2 fuel2 cs endt = (OOk, st2, acc2) ->
    exists us1 us2,
      acc1 = trace cs us1 /\ acc2 = trace cs us2 /\
      (forall u, In u us1 \/ In u us2 -> is_time cs (fst u) = true) /\
      forall c, is_time cs c = true ->
        ups_of c us1 = ups_of c us2 /\ ups_of c us1 = canon cs c (s_cnt st1 c).
Proof.
  intros cs endt m prio1 prio2 fuel1 fuel2 st1 acc1 st2 acc2 W SL Hm Hlt H1 H2 R1 R2.
  eapply (series_order_independent cs W SL endt); [apply pick_prio_ok; exact H1|apply pick_prio_ok; exact H2| |exact R1|exact R2].
  eapply init_running; eauto.
Qed.

(** The same with DelayToPull links: the block of the j-th update of a component is a function [ublock2 cs c j] of the
    component and the update INDEX alone (the link states a pull goes through are the canonical ones after j-1 updates),
    the trace of a run is the concatenation of the blocks of its updates, and per component the sequence of blocks is
    [1, 2, ..., n] whatever the order. *)
Theorem C05_series_order_independent_with_delay_to_pull :
  forall cs endt m prio1 prio2 fuel1 fuel2 st1 acc1 st2 acc2,
    wf cs -> nopush cs -> min_start cs = Some m -> m < endt ->
    (forall c, (c < length cs)%nat -> In c prio1) ->
    (forall c, (c < length cs)%nat -> In c prio2) ->
    run_prio prio1 fuel1 cs endt = (OOk, st1, acc1) ->
    run_prio prio2 fuel2 cs endt = (OOk, st2, acc2) ->
    exists us1 us2,
      acc1 = trace2 cs us1 /\ acc2 = trace2 cs us2 /\
      forall c, is_time cs c = true -> ups2_of c us1 = ups2_of c us2 /\ ups2_of c us1 = canon2 c (s_cnt st1 c).
Proof.
  intros cs endt m prio1 prio2 fuel1 fuel2 st1 acc1 st2 acc2 W NP Hm Hlt H1 H2 R1 R2.
  eapply (series_order_independent2 cs W NP endt); [apply pick_prio_ok; exact H1|apply pick_prio_ok; exact H2| |exact R1|exact R2].
  eapply init_running; eauto.
Qed.

(** a block does not depend on what happened before it *)
Theorem C05_block_is_local :
  forall cs c t acc, ublock cs c t acc = ublock cs c t [] ++ acc.
Proof. exact ublock_app. Qed.

(** The total form, for compositions with pass-through adapters, buffering adapters and delay adapters with
    non-negative delays — DelayFixed and DelayToPull, no DelayToPush ([term_ok] and [nopush]) — whose cycles carry
    sufficient delays ([sufficient], C04): EVERY order in which the components are
    considered ends normally as soon as the fuel exceeds the explicit bound [enough_fuel] (no order can run forever, no
    order meets a data or circular-coupling error), every component is at or beyond the end time, and any two orders
    end with the same update count and the same time for every component. *)
Theorem C05_every_order_same_outcome :
  forall cs rank phi rank' endt m prio1 prio2,
    term_ok cs rank -> nopush cs -> sufficient cs phi rank' -> min_start cs = Some m -> m < endt ->
    (forall c, (c < length cs)%nat -> In c prio1) ->
    (forall c, (c < length cs)%nat -> In c prio2) ->
    forall fuel1 fuel2, (enough_fuel cs endt <= fuel1)%nat -> (enough_fuel cs endt <= fuel2)%nat ->
      exists st1 acc1 st2 acc2,
        run_prio prio1 fuel1 cs endt = (OOk, st1, acc1) /\
        run_prio prio2 fuel2 cs endt = (OOk, st2, acc2) /\
        forall c, is_time cs c = true ->
          s_cnt st1 c = s_cnt st2 c /\ s_time st1 c = s_time st2 c /\ endt <= s_time st1 c.
Proof. exact order_independent_total. Qed.

(** The same with the hypothesis in the words of C04: every cycle of the delay graph carries delays summing to at least
    the sum of its components' largest steps, and pull-based components do not feed each other in a circle
    (Potential_proofs constructs the potential and the ranking). *)
Theorem C05_every_order_same_outcome_cycles_covered :
  forall cs rank endt m prio1 prio2,
    term_ok cs rank -> nopush cs -> links_ok cs ->
    (forall u c, c <> [] -> walk (delay_graph cs) u c -> endn u c = u -> wt c <= 0) ->
    (forall u c, c <> [] -> walk (pull_graph cs) u c -> endn u c = u -> False) ->
    min_start cs = Some m -> m < endt ->
    (forall c, (c < length cs)%nat -> In c prio1) ->
    (forall c, (c < length cs)%nat -> In c prio2) ->
    forall fuel1 fuel2, (enough_fuel cs endt <= fuel1)%nat -> (enough_fuel cs endt <= fuel2)%nat ->
      exists st1 acc1 st2 acc2,
        run_prio prio1 fuel1 cs endt = (OOk, st1, acc1) /\
        run_prio prio2 fuel2 cs endt = (OOk, st2, acc2) /\
        forall c, is_time cs c = true ->
          s_cnt st1 c = s_cnt st2 c /\ s_time st1 c = s_time st2 c /\ endt <= s_time st1 c.
Proof.
  intros cs rank endt m prio1 prio2 T NPsh LO NP AC.
  destruct (cycles_covered_give_sufficient cs LO NP AC) as [phi [rank' S]].
  exact (C05_every_order_same_outcome cs rank phi rank' endt m prio1 prio2 T NPsh S).
Qed.

(** ... and the error class: an undelayed cycle among components with a common start time before the end time makes
    EVERY order end with the circular-coupling error. *)
Theorem C05_every_order_reports_cycle :
  forall cs rank cyc T endt prio,
    term_ok cs rank -> und_cycle cs cyc -> (forall x, In x cyc -> s_time (init_state cs) x = T) -> T < endt ->
    (forall c, (c < length cs)%nat -> In c prio) ->
    forall fuel o st acc, (enough_fuel cs endt <= fuel)%nat -> run_prio prio fuel cs endt = (o, st, acc) -> o = OCirc.
Proof. exact every_order_reports_cycle. Qed.

(** Not proved: order independence of the outcome for cycles whose delays are positive but insufficient, and for links
    with DelayToPull state (the correspondence and the monitor compare outcome, times and the full received series
    across orders for those too). *)

(** Non-vacuity: three components, all tied at the start; the two orders schedule differently (different event
    traces) and end in the same times and counts. *)
Definition ex5 : composition :=
  [ mkC (KTime 0 [3] false) 1 [ mkIn (1, 0)%nat [AFixed 1]; mkIn (2, 0)%nat [ABuf; AFixed 4] ];
    mkC (KTime 0 [2] false) 1 [];
    mkC (KTime 0 [2; 1] false) 1 [] ].

Example C05_nonvacuous :
  wf ex5 /\ stateless ex5 /\ min_start ex5 = Some 0 /\
  (let '(o1, s1, a1) := run_prio [0; 1; 2]%nat 100 ex5 10 in
   let '(o2, s2, a2) := run_prio [2; 1; 0]%nat 100 ex5 10 in
   o1 = OOk /\ o2 = OOk /\ rev a1 <> rev a2 /\
   final_times ex5 s1 = final_times ex5 s2 /\ final_counts ex5 s1 = final_counts ex5 s2 /\
   final_times ex5 s1 = [12; 12; 12] /\
   ublock ex5 0%nat 3 [] = [EB 0 1 3; EP 0 1 3; ES 1 0 2; EP 0 0 3; EU 0 3] /\
   ups_of 0%nat [(1%nat, 2); (0%nat, 3); (2%nat, 2); (0%nat, 6)] = canon ex5 0%nat 2).
Proof.
  split; [apply wf_b_sound; vm_compute; reflexivity|].
  split.
  { intros c k inp Hk. destruct c as [|[|[|c]]]; simpl in Hk;
      repeat (destruct k as [|k]; simpl in Hk; [inversion Hk; reflexivity|]); try (destruct k; discriminate).
    unfold getc in Hk. destruct c; simpl in Hk; destruct k; discriminate. }
  split; [reflexivity|]. vm_compute. repeat split; try reflexivity. intros E; inversion E.
Qed.

(** Non-vacuity of the total form: a delay-resolved ring of three (steps 10 / 1 / 3-2, delays 6+5, 3, 0). *)
Definition ex5r : composition :=
  [ mkC (KTime 0 [10] false) 1 [ mkIn (2, 0)%nat [AFixed 6; APass; AFixed 5] ];
    mkC (KTime 0 [1] false) 1 [ mkIn (0, 0)%nat [AFixed 3] ];
    mkC (KTime 0 [3; 2] false) 1 [ mkIn (1, 0)%nat [] ] ].
Definition ex5r_phi (c : nat) : Z := match c with 0%nat => 0 | 1%nat => 2 | _ => -1 end.

Example C05_total_nonvacuous :
  term_ok ex5r (fun _ => O) /\ nopush ex5r /\ sufficient ex5r ex5r_phi (fun _ => O) /\ min_start ex5r = Some 0 /\
  (enough_fuel ex5r 30 <= 700)%nat /\
  (let '(o1, s1, a1) := run_prio [0; 1; 2]%nat 700 ex5r 30 in
   let '(o2, s2, a2) := run_prio [2; 0; 1]%nat 700 ex5r 30 in
   o1 = OOk /\ o2 = OOk /\ rev a1 <> rev a2 /\ final_times ex5r s1 = [30; 30; 30] /\ final_times ex5r s2 = [30; 30; 30]).
Proof.
  split.
  { split.
    - apply wf_b_sound; vm_compute; reflexivity.
    - intros c k inp Hk. destruct c as [|[|[|c]]]; simpl in Hk;
        repeat (destruct k as [|k]; simpl in Hk; [inversion Hk; reflexivity|]); try (destruct k; discriminate).
      unfold getc in Hk. destruct c; simpl in Hk; destruct k; discriminate.
    - intros c k inp Hk Tc. exfalso.
      destruct c as [|[|[|c]]]; try (vm_compute in Tc; discriminate).
      unfold getc in Hk. destruct c; simpl in Hk; destruct k; discriminate.
    - intros c. simpl. Lia.lia. }
  split.
  { intros c k inp Hk. destruct c as [|[|[|c]]]; simpl in Hk;
      repeat (destruct k as [|k]; simpl in Hk; [inversion Hk; reflexivity|]); try (destruct k; discriminate).
    unfold getc in Hk. destruct c; simpl in Hk; destruct k; discriminate. }
  split.
  { split.
    - intros c k inp Hk. right.
      destruct c as [|[|[|c]]]; simpl in Hk;
        try (destruct k as [|k]; simpl in Hk; [inversion Hk; subst; clear Hk|destruct k; discriminate]).
      + exists 11. split; [reflexivity|]. vm_compute. discriminate.
      + exists 3. split; [reflexivity|]. vm_compute. discriminate.
      + exists 0. split; [reflexivity|]. vm_compute. discriminate.
      + unfold getc in Hk. destruct c; simpl in Hk; destruct k; discriminate.
    - intros c k inp Hk Tc. exfalso.
      destruct c as [|[|[|c]]]; try (vm_compute in Tc; discriminate).
      unfold getc in Hk. destruct c; simpl in Hk; destruct k; discriminate. }
  split; [reflexivity|]. split; [vm_compute; Lia.lia|].
  vm_compute. repeat split; try reflexivity. intros E; inversion E.
Qed.

(** Non-vacuity for DelayToPull links: two consumers behind DelayToPull adapters with different history lengths. *)
Definition ex5p : composition :=
  [ mkC (KTime 0 [3] true) 1 [ mkIn (1, 0)%nat [AToPull 2 1]; mkIn (2, 0)%nat [APass; AToPull 1 0; AFixed 1] ];
    mkC (KTime 0 [2] false) 1 [];
    mkC (KTime 0 [2; 1] false) 1 [] ].

Example C05_delay_to_pull_nonvacuous :
  wf ex5p /\ nopush ex5p /\ min_start ex5p = Some 0 /\
  (let '(o1, s1, a1) := run_prio [0; 1; 2]%nat 100 ex5p 10 in
   let '(o2, s2, a2) := run_prio [2; 1; 0]%nat 100 ex5p 10 in
   o1 = OOk /\ o2 = OOk /\ rev a1 <> rev a2 /\ final_times ex5p s1 = final_times ex5p s2 /\
   s_link s1 0%nat 0%nat = s_link s2 0%nat 0%nat /\ s_link s1 0%nat 0%nat = [[9; 12]]).
Proof.
  split; [apply wf_b_sound; vm_compute; reflexivity|].
  split.
  { intros c k inp Hk. destruct c as [|[|[|c]]]; simpl in Hk;
      repeat (destruct k as [|k]; simpl in Hk; [inversion Hk; reflexivity|]); try (destruct k; discriminate).
    unfold getc in Hk. destruct c; simpl in Hk; destruct k; discriminate. }
  split; [reflexivity|]. vm_compute. repeat split; try reflexivity. intros E; inversion E.
Qed.

Print Assumptions C05_final_times.
Print Assumptions C05_final_times_with_delay_to_pull.
Print Assumptions C05_list_order_is_a_priority_order.
Print Assumptions C05_outcome_class.
Print Assumptions C05_request_is_a_function_of_the_update_index.
Print Assumptions C05_delivery_independent_of_later_publications.
Print Assumptions C05_delivery_schedule_independent.
Print Assumptions C05_metadata_order_independent.
Print Assumptions C05_series_order_independent.
Print Assumptions C05_series_order_independent_with_delay_to_pull.
Print Assumptions C05_block_is_local.
Print Assumptions C05_every_order_same_outcome.
Print Assumptions C05_every_order_reports_cycle.
Print Assumptions C05_every_order_same_outcome_cycles_covered.
