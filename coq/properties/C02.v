(** C02 — the driver follows least-advanced-first and updates only what is needed.
    Model: FV.Sched.  Only statements here; proofs in FVP.Sched_proofs / FVP.Adapters_proofs. *)
From Coq Require Import List ZArith Bool.
From FV Require Import Base Sched.
From FVP Require Import Adapters_proofs Sched_proofs.
Import ListNotations.
Open Scope Z_scope.

(** Every update performed during a run (any valid composition, any end time, any fuel), recorded as
    (state before, updated component u, state after) by [run_states], the mirror of the run loop:
    there is a component c0 that is the first least-advanced time component, and u is c0 itself or lies
    upstream of it along a chain in which each component lacks data that the next one needs for its
    announced pull ([lagpath], through pull-based components with the propagated target time);
    u itself lacks nothing ([servedn]: it is not advanced merely because of its position);
    u advances exactly to its announced next time and nothing else moves. *)
Theorem C02_selection :
  forall cs endt fuel, wf cs ->
    Forall (fun x : state * nat * state =>
              let '(s, u, s') := x in
              (exists c0, least_first cs s (length cs) c0 /\ lagpath cs s c0 0 u) /\
              servedn (rec_fuel cs) cs s u (next_time cs s u) /\
              s_time s' u = next_time cs s u /\
              (forall y, y <> u -> s_time s' y = s_time s y))
           (run_states fuel cs endt (init_state cs) []).
Proof.
  intros cs endt fuel W.
  pose proof (run_states_all cs W endt fuel (init_state cs) [] (init_state_Inv cs)) as H.
  eapply Forall_impl; [|exact H]. intros [[s u] s'] [_ [H1 [H2 [H3 [_ H5]]]]]. auto.
Qed.

(** [run_states] is the run: the final state of [run] is the state after the last recorded update. *)
Theorem C02_run_states_is_the_run :
  forall cs endt fuel o st acc,
    run fuel cs endt = (o, st, acc) ->
    st = last (map snd (run_states fuel cs endt (init_state cs) [])) (init_state cs).
Proof. intros cs endt fuel o st acc H. eapply run_loop_states_last; exact H. Qed.

(** The time for which the driver checks availability on a link equals the time that is actually
    requested from the end of the pulled part when the consumer pulls: every chain (any length, any mix of
    adapters), every adapter state (DelayToPull histories), every push time, every target. *)
Theorem C02_req_is_actual :
  forall ch ss init pt t lt,
    sched_walk ch ss init pt false t = Some lt -> pull_time ch ss init pt t = lt.
Proof. exact sched_req_is_actual. Qed.

(** The driver sees no dependency exactly when a DelayToPush sits on the pulled part of the link. *)
Theorem C02_no_dependency_iff_cut :
  forall ch ss init pt t, length ss = length ch ->
    (sched_walk ch ss init pt false t = None <-> cut_by_nodep ch = true).
Proof. exact sched_walk_none_iff. Qed.

(** Delays of chained fixed-delay adapters add up (any number of them, mixed with pass-through adapters). *)
Theorem C02_delays_add_up :
  forall ch ss init pt t,
    only_fixed ch = true -> length ss = length ch -> init <= t ->
    pull_time ch ss init pt t = Z.max (t - sum_fixed ch) init.
Proof. exact pull_time_fixed_chain. Qed.

(** Non-vacuity: ring A(step 10) <-> B(step 1) with the delay 11 split as 6 + 5 on one link (finding F1). *)
Definition ex_ring : composition :=
  [ mkC (KTime 0 [10] false) 1 [ mkIn (1, 0)%nat [AFixed 6; APass; AFixed 5] ];
    mkC (KTime 0 [1] false) 1 [ mkIn (0, 0)%nat [] ] ].

Example C02_nonvacuous :
  wf ex_ring /\
  length (run_states 50 ex_ring 30 (init_state ex_ring) []) = 33%nat /\
  (let '(o, st, _) := run 50 ex_ring 30 in o = OOk /\ final_times ex_ring st = [30; 30]) /\
  pull_time [AFixed 6; APass; AFixed 5] [[]; []; []] 0 None 30 = 19.
Proof. split; [apply wf_b_sound; vm_compute; reflexivity|]. vm_compute. auto. Qed.

Print Assumptions C02_selection.
Print Assumptions C02_run_states_is_the_run.
Print Assumptions C02_req_is_actual.
Print Assumptions C02_no_dependency_iff_cut.
Print Assumptions C02_delays_add_up.
