(** C13 — delay adapters deliver exactly the source's data for the shifted time.
    Model: adapter part of FV.Sched, link model FV.DelayLink.  Only statements here. *)
From Coq Require Import List ZArith Bool.
From FV Require Import Base OutputM Sched DelayLink.
From FVP Require Import Adapters_proofs DelayLink_proofs.
Import ListNotations.
Open Scope Z_scope.

(** A pull over a link (any chain, any state) asks the source for exactly the time obtained by composing
    the adapters' shifts in pull order, and delivers the source's answer for that time (or its error). *)
Theorem C13_link :
  forall ch init s t,
    snd (lstep ch init s (LPull t))
    = Some (pull_time ch (l_ss s) init (l_ptime s) t,
            interpolate (l_hist s) (pull_time ch (l_ss s) init (l_ptime s) t)).
Proof. exact lstep_pull. Qed.

Theorem C13_chain :
  forall ch ss init pt t, no_buf ch = true ->
    pull_time ch ss init pt t = compose_shifts ch ss init pt t.
Proof. exact pull_time_compose. Qed.

(** Fixed delay: the source's data for max(t - delay, start time). *)
Theorem C13_fixed :
  forall (A : Type) (source : Z -> A) d init pt pulls t,
    answer source (AFixed d) pulls init pt t = source (Z.max (t - d) init).
Proof. intros. apply fixed_answer. Qed.

(** Delay to pull with n >= 1 steps: along ANY request sequence the j-th request is answered for the time of
    the n-th previous request minus the extra delay, not before the start time ([nth_back n init h] is the
    entry n-1 places before the end of  init :: h, i.e. r_(j-n) with r_i = init for i <= 0). *)
Theorem C13_to_pull :
  forall n extra init reqs j r, (1 <= n)%nat ->
    nth_error reqs j = Some r ->
    nth_error (topull_times n extra init [] reqs) j
    = Some (Z.max (nth_back n init (firstn j reqs) - extra) init).
Proof.
  intros n extra init reqs j r Hn Hj.
  exact (topull_times_spec n extra init Hn reqs [] [] (or_introl eq_refl) j r Hj).
Qed.

(** [nth_back] spelled out: fewer than n earlier requests -> the start time; otherwise the request n places back. *)
Theorem C13_to_pull_meaning :
  forall n init h, (1 <= n)%nat ->
    ((length h < n)%nat -> nth_back n init h = init) /\
    ((n <= length h)%nat -> nth_back n init h = nth (length h - n) h init).
Proof.
  intros n init h Hn. unfold nth_back. split; intros H.
  - replace (length h + 1 - n)%nat with O by Lia.lia. reflexivity.
  - replace (length h + 1 - n)%nat with (S (length h - n)) by Lia.lia. reflexivity.
Qed.

(** Delay to push: the source's data for min(t, newest publication time); the start time before any. *)
Theorem C13_to_push :
  forall (A : Type) (source : Z -> A) init pulls t,
    (forall p, answer source AToPush pulls init (Some p) t = source (Z.min t p)) /\
    answer source AToPush pulls init None t = source init.
Proof. intros. split; [intros p; apply topush_answer|apply topush_answer_before_push]. Qed.

(** Delays of fixed-delay adapters chained on one link add up. *)
Theorem C13_delays_add_up :
  forall ch ss init pt t,
    only_fixed ch = true -> length ss = length ch -> init <= t ->
    pull_time ch ss init pt t = Z.max (t - sum_fixed ch) init.
Proof. exact pull_time_fixed_chain. Qed.

(** The shifted time is what the driver assumes when scheduling. *)
Theorem C13_driver_agrees :
  forall ch ss init pt t lt,
    sched_walk ch ss init pt false t = Some lt -> pull_time ch ss init pt t = lt.
Proof. exact sched_req_is_actual. Qed.

(** Several consumers behind ONE shared adapter (or shared sub-chain) without per-request state - pass-through,
    DelayFixed, DelayToPush - do not influence each other: a pull through  sub ++ trunk  asks the source for the trunk's
    shift of what the consumer's own sub-chain hands down, and leaves the trunk's state untouched (the state of the own
    sub-chain changes as it does without the trunk).  This is the model of the tree cases of the correspondence check. *)
Theorem C13_shared_trunk :
  forall sub trunk ss1 ss2 init pt t,
    no_buf sub = true -> length ss1 = length sub -> no_req_state trunk = true ->
    pull_time (sub ++ trunk) (ss1 ++ ss2) init pt t = pull_time trunk ss2 init pt (pull_time sub ss1 init pt t) /\
    snd (pull_chain (sub ++ trunk) (ss1 ++ ss2) init pt t) = snd (pull_chain sub ss1 init pt t) ++ ss2.
Proof. exact shared_trunk. Qed.

Example C13_shared_trunk_nonvacuous :
  (* a fast and a slow consumer behind one DelayToPush: the slow one is still answered for ITS time *)
  c13_tree_check
    [([APass; AToPush], 0, [LPush 0; LPush 10; LPull 10; LPull 3]); ([AFixed 2; AToPush], 0, [LPush 0; LPush 10; LPull 3])]
    [[None; None; Some (10, Ok 1%nat); Some (3, Ok 0%nat)]; [None; None; Some (1, Ok 0%nat)]] = true.
Proof. vm_compute. reflexivity. Qed.

Example C13_nonvacuous :
  c13_model ([AToPull 2 1; APass; AFixed 2], 0,
             [LPush 0; LPush 10; LPull 4; LPush 20; LPull 9; LPull 15; LPull 20; LPull 40])
  = [None; None; Some (0, Ok 0%nat); None; Some (0, Ok 0%nat); Some (1, Ok 0%nat); Some (6, Ok 1%nat); Some (12, Ok 1%nat)]
  /\ nth_error (topull_times 2 1 0 [] [4; 9; 15; 20; 40]) 3 = Some 8.
Proof. vm_compute. split; reflexivity. Qed.

Print Assumptions C13_link.
Print Assumptions C13_chain.
Print Assumptions C13_fixed.
Print Assumptions C13_to_pull.
Print Assumptions C13_to_pull_meaning.
Print Assumptions C13_to_push.
Print Assumptions C13_delays_add_up.
Print Assumptions C13_driver_agrees.
Print Assumptions C13_shared_trunk.
