From Coq Require Import List ZArith QArith Bool.
From FV Require Import Base TimeInterp.
From FVP Require Import TimeInterp_proofs.
Import ListNotations.
Open Scope Z_scope.

Theorem C11_tmp : forall ev k b t0 v0 r t,
  b = (t0, v0) :: r -> last_time t0 r < t -> snd (get_data ev k b t) = ErrTime.
Proof. exact get_data_above. Qed.
Print Assumptions C11_tmp.
