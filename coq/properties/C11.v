(** C11 — Time interpolation adapters equal their mathematical definition.
    Model: FV.TimeInterp (TimeCachingAdapter._source_updated/_get_data/_clear_cached_data,
    NextTime/PreviousTime/LinearTime/StepTime._interpolate of src/finam/adapters/time.py).
    This file contains only statements; proofs are in FVP.TimeInterp_proofs.

    [run true k [] ops] = the pull results of the real (evicting) adapter on the script [ops];
    [spec_run k [] ops] = for every pull the definition evaluated on the FULL history published so
    far ([spec_pull]: no-data error before the first publication, time error outside the published
    range, else [next_spec / prev_spec / lin_spec / step_spec s]).
    [valid [] None ops]: publication times strictly increase; in-range requests do not decrease;
    out-of-range requests may occur anywhere. *)
From Coq Require Import List ZArith QArith Bool.
From FV Require Import Base TimeInterp.
From FVP Require Import TimeInterp_proofs.
Import ListNotations.
Open Scope Z_scope.

Theorem C11_next : forall ops, valid [] None ops ->
  run true KNext [] ops = spec_run KNext [] ops.
Proof. exact (adapter_is_definition true KNext). Qed.

Theorem C11_prev : forall ops, valid [] None ops ->
  run true KPrev [] ops = spec_run KPrev [] ops.
Proof. exact (adapter_is_definition true KPrev). Qed.

Theorem C11_linear : forall ops, valid [] None ops ->
  run true KLinear [] ops = spec_run KLinear [] ops.
Proof. exact (adapter_is_definition true KLinear). Qed.

Theorem C11_step : forall (s : Q) ops, valid [] None ops ->
  run true (KStep s) [] ops = spec_run (KStep s) [] ops.
Proof. intros s. exact (adapter_is_definition true (KStep s)). Qed.

(** After any valid script, a (valid) request exactly at a publication time returns the value
    published at that time, for every adapter and every step position. *)
Theorem C11_at_publication : forall k ops t v,
  valid [] None (ops ++ [Pull t]) -> In (t, v) (pubs [] ops) ->
  snd (get_data true k (final true k [] ops) t) = Ok v.
Proof. exact (at_publication true). Qed.

(** After any valid script, a request outside the range published so far raises a time error
    (a no-data error when nothing was published): no extrapolation. *)
Theorem C11_range : forall k ops t,
  valid [] None ops -> in_range (pubs [] ops) t = false ->
  snd (get_data true k (final true k [] ops) t) =
  match pubs [] ops with [] => ErrNoData | _ => ErrTime end.
Proof. exact (out_of_range_raises true). Qed.

(** Discarding old buffer entries never changes a result: the adapter with eviction and the
    same adapter keeping its whole buffer answer identically. *)
Theorem C11_eviction_invisible : forall k ops,
  valid [] None ops -> run true k [] ops = run false k [] ops.
Proof. exact eviction_invisible. Qed.

(** ** The definitions mean what the property says (for strictly increasing histories) *)

Theorem C11_next_is_first_at_or_after : forall H t v,
  increasing H -> next_spec H t = Some v ->
  exists e, (In e H /\ t <= fst e /\ forall e', In e' H -> t <= fst e' -> fst e <= fst e') /\ snd e = v.
Proof. exact next_spec_sound. Qed.

Theorem C11_prev_is_last_at_or_before : forall H t v,
  increasing H -> prev_spec H t = Some v ->
  exists e, (In e H /\ fst e <= t /\ forall e', In e' H -> fst e' <= t -> fst e' <= fst e) /\ snd e = v.
Proof. exact prev_spec_sound. Qed.

Theorem C11_linear_formula : forall l1 t0 v0 t1 v1 l2 t,
  increasing (l1 ++ (t0, v0) :: (t1, v1) :: l2) -> t0 <= t <= t1 ->
  exists v, lin_spec (l1 ++ (t0, v0) :: (t1, v1) :: l2) t = Some v /\
            (v == v0 + (inject_Z (t - t0) / inject_Z (t1 - t0)) * (v1 - v0))%Q.
Proof. exact lin_spec_formula. Qed.

Theorem C11_step_formula : forall s l1 t0 v0 t1 v1 l2 t,
  increasing (l1 ++ (t0, v0) :: (t1, v1) :: l2) -> t0 < t < t1 ->
  step_spec s (l1 ++ (t0, v0) :: (t1, v1) :: l2) t =
  Some (if Qle_bool (inject_Z (t - t0) / inject_Z (t1 - t0))%Q s then v0 else v1).
Proof. exact step_spec_formula. Qed.

(** every definition is defined on the whole published range and equals the published value at a
    publication time, so [spec_pull] never takes its error default for an in-range request *)
Theorem C11_defined_in_range : forall k H t,
  increasing H -> in_range H t = true -> exists v, spec k H t = Some v.
Proof. exact spec_defined. Qed.

Theorem C11_definition_at_publication : forall k H t v,
  increasing H -> In (t, v) H -> spec_pull k H t = Ok v.
Proof. exact spec_at_publication. Qed.

(** ** Non-vacuity: a valid script with irregular gaps, requests on / between / across several
    publications, an out-of-range request in the middle, evictions, and a single retained entry. *)
Definition ex_ops : list op :=
  [Pull 3; Push 0 (1#1); Push 10 (3#1); Pull 0; Pull 4; Push 13 (-2#1); Push 20 (5#1); Pull 25;
   Pull 10; Pull 17; Pull 20; Pull 20; Push 28 (7#2); Pull 22].

Example C11_nonvacuous_valid : valid [] None ex_ops /\ valid [] None (ex_ops ++ [Pull 28]).
Proof. split; vm_compute; intuition discriminate. Qed.

Example C11_nonvacuous_linear :
  run true KLinear [] ex_ops =
  [ErrNoData; Ok (1#1); Ok (1 + (4#10) * (3 - 1)); ErrTime; Ok (3#1);
   Ok (-2 + (4#7) * (5 - -2)); Ok (5#1); Ok (5#1); Ok (5 + (2#8) * ((7#2) - 5))]%Q.
Proof. vm_compute. reflexivity. Qed.

Example C11_nonvacuous_others :
  run true KNext [] ex_ops =
    [ErrNoData; Ok (1#1); Ok (3#1); ErrTime; Ok (3#1); Ok (5#1); Ok (5#1); Ok (5#1); Ok (7#2)]
  /\ run true KPrev [] ex_ops =
    [ErrNoData; Ok (1#1); Ok (1#1); ErrTime; Ok (3#1); Ok (-2#1); Ok (5#1); Ok (5#1); Ok (5#1)]
  /\ run true (KStep (4#10)) [] ex_ops =      (* t=4 is exactly at the step position: old value *)
    [ErrNoData; Ok (1#1); Ok (1#1); ErrTime; Ok (3#1); Ok (5#1); Ok (5#1); Ok (5#1); Ok (5#1)]
  /\ final true KLinear [] ex_ops = [(20, 5#1); (28, 7#2)]
  /\ pubs [] ex_ops = [(0, 1#1); (10, 3#1); (13, -2#1); (20, 5#1); (28, 7#2)]
  /\ in_range (pubs [] ex_ops) 29 = false
  /\ In (28, 7#2) (pubs [] ex_ops).
Proof. vm_compute. intuition. Qed.

Example C11_nonvacuous_formulas :
  increasing ([(0, 1#1)] ++ (10, 3#1) :: (13, -2#1) :: [(20, 5#1)]) /\ 10 <= 12 <= 13 /\ 10 < 12 < 13.
Proof. vm_compute. intuition discriminate. Qed.

Print Assumptions C11_next.
Print Assumptions C11_prev.
Print Assumptions C11_linear.
Print Assumptions C11_step.
Print Assumptions C11_at_publication.
Print Assumptions C11_range.
Print Assumptions C11_eviction_invisible.
Print Assumptions C11_next_is_first_at_or_after.
Print Assumptions C11_prev_is_last_at_or_before.
Print Assumptions C11_linear_formula.
Print Assumptions C11_step_formula.
Print Assumptions C11_defined_in_range.
Print Assumptions C11_definition_at_publication.
