(** C09 — Output history is never dropped while needed and never grows unboundedly.
    Model: FV.OutputM (Output.push_data / get_data / _clear_data / _interpolate).
    This file contains only statements; proofs are in FVP.OutputM_proofs. *)
From Coq Require Import List ZArith QArith Bool.
From FV Require Import Base OutputM.
From FVP Require Import OutputM_proofs.
From FV Require Sched.
From FVP Require Sched_proofs Confluence_proofs Trace_proofs.
From FV Require TimeInterp.
From FVP Require TimeInterp_proofs TimeBuffer_proofs.
Import ListNotations.
Open Scope Z_scope.

(** For every set of registered consumers [keys] and every interleaving [ops] of publications
    with strictly increasing times and pulls by registered consumers, each with non-decreasing
    request times ([valid], defined on the output with unlimited history), every pull on the
    evicting output returns exactly (value or error class) what the unlimited output returns. *)
Theorem C09_refines_unbounded :
  forall (A : Type) (keys : list nat) (ops : list (op A)),
    valid (init keys) ops ->
    map fst (run (init keys) ops) = run_unb (init keys) ops.
Proof. intros A. exact (@refines_unbounded A). Qed.

(** Whenever every consumer has pulled (the minimum [m] of the last requests exists), the retained
    history is at most one longer than the number of publications newer than [m]. *)
Theorem C09_bounded :
  forall (A : Type) (keys : list nat) (ops : list (op A)) (m : Z),
    valid (init keys) ops ->
    conn_min (st_conn (final (init keys) ops)) = Some m ->
    (length (st_hist (final (init keys) ops))
       <= 1 + newer_than m (st_hist (final_unb (init keys) ops)))%nat.
Proof. intros A. exact (@bounded A). Qed.

(** What is retained, at full strength (what must NOT change as well): in every reachable state the retained history is
    a suffix of the unlimited history — the same entries in the same order with the same payloads; it is empty only if
    nothing was published; nothing at all is discarded while some consumer has not pulled yet; and every discarded
    publication is strictly older than the oldest retained one, which itself is at or before the slowest consumer's last
    request (so nothing a consumer may still request — a time at or after its last request — is ever discarded). *)
Theorem C09_retained_is_newest_suffix :
  forall (A : Type) (keys : list nat) (ops : list (op A)),
    valid (init keys) ops ->
    exists pre,
      st_hist (final_unb (init keys) ops) = pre ++ st_hist (final (init keys) ops)
      /\ (st_hist (final_unb (init keys) ops) <> [] -> st_hist (final (init keys) ops) <> [])
      /\ (conn_min (st_conn (final (init keys) ops)) = None -> pre = [])
      /\ (forall m, conn_min (st_conn (final (init keys) ops)) = Some m ->
            pre <> [] ->
            exists t0 d0 r, st_hist (final (init keys) ops) = (t0, d0) :: r /\ t0 <= m
                            /\ forall e, In e pre -> fst e < t0).
Proof. intros A. exact (@retained_suffix A). Qed.

(** The bookkeeping of who requested what last is that of the unlimited output. *)
Theorem C09_requests_recorded :
  forall (A : Type) (keys : list nat) (ops : list (op A)),
    valid (init keys) ops ->
    st_conn (final (init keys) ops) = st_conn (final_unb (init keys) ops).
Proof. intros A. exact (@conn_same A). Qed.

(** Consumers behind a push-based time adapter (NextTime / PreviousTime / LinearTime / StepTime): the adapter consumes
    the output's history at every publication, and what grows is the adapter's own buffer ([TimeCachingAdapter.data],
    model FV.TimeInterp).  For every adapter kind and every valid script of publications and requests (any length):
    the buffer is a suffix of the publication history; nothing is dropped before the first request was served;
    afterwards its first entry is at or before the last served request [l] and it holds at most one entry more than
    there are publications newer than [l] — the same bound as [C09_bounded], one level further down the link. *)
Theorem C09_adapter_buffer_bounded :
  forall (k : TimeInterp.kind) (ops : list TimeInterp.op),
    TimeInterp_proofs.valid [] None ops ->
    exists pre, TimeInterp.pubs [] ops = pre ++ TimeInterp.final true k [] ops
      /\ match TimeInterp_proofs.lastreq [] None ops with
         | None => pre = []
         | Some l => (exists e0 r, TimeInterp.final true k [] ops = e0 :: r /\ fst e0 <= l)
                     /\ (length (TimeInterp.final true k [] ops)
                           <= 1 + TimeBuffer_proofs.newer_than l (TimeInterp.pubs [] ops))%nat
         end.
Proof. exact TimeBuffer_proofs.buffer_bounded. Qed.

(** The hypothesis "non-decreasing request times per consumer" is what the driver's own consumers satisfy: in the
    scheduler model (FV.Sched) the time that reaches the source over a link of pass-through adapters and fixed delays
    ([pe_chain], proved equal to the real pull in Trace_proofs.pull_chain_stateless) at the j-th update of a
    time-stepped consumer is non-decreasing in j — so C09_refines_unbounded applies to every run of the scheduler
    (known finding F16 is the case this does NOT cover: one registered end point standing for several readers). *)
Theorem C09_driver_requests_nondecreasing :
  forall cs c inp (j j' : nat),
    Sched_proofs.wf cs -> Sched.is_time cs c = true -> (j <= j')%nat ->
    fst (Trace_proofs.pe_chain (Sched.i_chain inp) (Sched.init_of cs (Sched.i_src inp)) (Confluence_proofs.tfun cs c j))
    <= fst (Trace_proofs.pe_chain (Sched.i_chain inp) (Sched.init_of cs (Sched.i_src inp)) (Confluence_proofs.tfun cs c j')).
Proof. intros cs c inp j j' W. apply Trace_proofs.requests_nondecreasing; exact W. Qed.

(** The same along every path through pull-based components: the event blocks ([Trace_proofs.ublock]: every pull, every
    request that reaches a source output or a buffering adapter) of the j-th and the j'-th update of a consumer have the
    same shape, and every time in the later block is at or after the corresponding time in the earlier one. *)
Theorem C09_driver_blocks_monotone :
  forall cs c (j j' : nat),
    Sched_proofs.wf cs -> Sched.is_time cs c = true -> (j <= j')%nat ->
    Forall2 Trace_proofs.ev_le (Trace_proofs.ublock cs c (Confluence_proofs.tfun cs c j) [])
                               (Trace_proofs.ublock cs c (Confluence_proofs.tfun cs c j') []).
Proof.
  intros cs c j j' W Tc Hj. apply Trace_proofs.ublock_mono.
  destruct (Nat.eq_dec j j') as [->|Ne]; [apply Z.le_refl|].
  apply Z.lt_le_incl. apply (Confluence_proofs.tfun_mono_strict cs W c Tc j j').
  destruct (Nat.lt_ge_cases j j') as [H|H]; [exact H|exfalso; apply Ne; apply Nat.le_antisymm; assumption].
Qed.

(** Non-vacuity: a concrete valid interleaving with two consumers, evictions and diverging requests. *)
Definition ex_ops : list (op nat) :=
  [Push 0 0%nat; Push 10 1%nat; Pull 1 0; Pull 2 10; Push 20 2%nat; Pull 1 14; Pull 2 20;
   Push 35 3%nat; Pull 1 20; Pull 1 35; Pull 2 35].
Example C09_nonvacuous :
  valid (init [1; 2]%nat) ex_ops
  /\ run (init [1; 2]%nat) ex_ops =
     [(None, 1); (None, 2); (Some (Ok 0), 2); (Some (Ok 1), 2); (None, 3); (Some (Ok 1), 2);
      (Some (Ok 2), 2); (None, 3); (Some (Ok 2), 2); (Some (Ok 3), 2); (Some (Ok 3), 1)]%nat.
Proof. split; [|vm_compute; reflexivity]. simpl. unfold pull_ok. simpl. repeat split; auto with zarith. Qed.

(** Non-vacuity of the suffix theorem: on [ex_ops] two publications have been discarded and both consumers have pulled. *)
Example C09_suffix_nonvacuous :
  st_hist (final_unb (init [1; 2]%nat) ex_ops) = [(0, 0%nat); (10, 1%nat); (20, 2%nat)] ++ st_hist (final (init [1; 2]%nat) ex_ops)
  /\ st_hist (final (init [1; 2]%nat) ex_ops) = [(35, 3%nat)]
  /\ conn_min (st_conn (final (init [1; 2]%nat) ex_ops)) = Some 35.
Proof. vm_compute. repeat split. Qed.

(** Non-vacuity of the buffer bound: five publications, requests at 5 and 25; two entries are retained. *)
Definition ex_aops : list TimeInterp.op :=
  [TimeInterp.Push 0 (1 # 1)%Q; TimeInterp.Push 10 (2 # 1)%Q; TimeInterp.Pull 5; TimeInterp.Push 20 (3 # 1)%Q;
   TimeInterp.Push 30 (5 # 1)%Q; TimeInterp.Pull 25; TimeInterp.Push 40 (8 # 1)%Q].
Example C09_adapter_buffer_nonvacuous :
  TimeInterp_proofs.valid [] None ex_aops
  /\ TimeInterp_proofs.lastreq [] None ex_aops = Some 25
  /\ map fst (TimeInterp.final true TimeInterp.KLinear [] ex_aops) = [20; 30; 40]
  /\ TimeBuffer_proofs.newer_than 25 (TimeInterp.pubs [] ex_aops) = 2%nat.
Proof. split; [vm_compute; intuition discriminate|]. vm_compute. auto. Qed.

Print Assumptions C09_refines_unbounded.
Print Assumptions C09_bounded.
Print Assumptions C09_driver_requests_nondecreasing.
Print Assumptions C09_driver_blocks_monotone.
Print Assumptions C09_retained_is_newest_suffix.
Print Assumptions C09_requests_recorded.
Print Assumptions C09_adapter_buffer_bounded.
