(** C09 — Output history is never dropped while needed and never grows unboundedly.
    Model: FV.OutputM (Output.push_data / get_data / _clear_data / _interpolate).
    This file contains only statements; proofs are in FVP.OutputM_proofs. *)
From Coq Require Import List ZArith Bool.
From FV Require Import Base OutputM.
From FVP Require Import OutputM_proofs.
Import ListNotations.
Open Scope Z_scope.

(** For every set of registered consumers [keys] and every interleaving [ops] of publications
    with strictly increasing times and pulls by registered consumers, each with non-decreasing
    request times ([valid], defined on the output with unlimited history), every pull on the
    evicting output returns exactly (value or error class) what the unlimited output returns. *)
Theorem C09_refines_unbounded :
  forall (A : Type) (keys : list nat) (ops : list (op A)),
    valid (init keys) ops ->
    map fst (run (init keys) ops) = run_unb (init keys) ops.
Proof. intros A. exact (@refines_unbounded A). Qed.

(** Whenever every consumer has pulled (the minimum [m] of the last requests exists), the retained
    history is at most one longer than the number of publications newer than [m]. *)
Theorem C09_bounded :
  forall (A : Type) (keys : list nat) (ops : list (op A)) (m : Z),
    valid (init keys) ops ->
    conn_min (st_conn (final (init keys) ops)) = Some m ->
    (length (st_hist (final (init keys) ops))
       <= 1 + newer_than m (st_hist (final_unb (init keys) ops)))%nat.
Proof. intros A. exact (@bounded A). Qed.

(** Non-vacuity: a concrete valid interleaving with two consumers, evictions and diverging requests. *)
Definition ex_ops : list (op nat) :=
  [Push 0 0%nat; Push 10 1%nat; Pull 1 0; Pull 2 10; Push 20 2%nat; Pull 1 14; Pull 2 20;
   Push 35 3%nat; Pull 1 20; Pull 1 35; Pull 2 35].
Example C09_nonvacuous :
  valid (init [1; 2]%nat) ex_ops
  /\ run (init [1; 2]%nat) ex_ops =
     [(None, 1); (None, 2); (Some (Ok 0), 2); (Some (Ok 1), 2); (None, 3); (Some (Ok 1), 2);
      (Some (Ok 2), 2); (None, 3); (Some (Ok 2), 2); (Some (Ok 3), 2); (Some (Ok 3), 1)]%nat.
Proof. split; [|vm_compute; reflexivity]. simpl. unfold pull_ok. simpl. repeat split; auto with zarith. Qed.

Print Assumptions C09_refines_unbounded.
Print Assumptions C09_bounded.
