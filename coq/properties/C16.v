(** C16 — Regridding puts the right source value at each target location.
    Model: FV.Regrid (ARegridding / RegridNearest / RegridLinear unstructured path on the flattened
    views: points, values and masks in the grids' flattening order).
    scipy is an oracle: [nearest] (KDTree) and [lin] (LinearNDInterpolator) are universally
    quantified and constrained only by the stated hypotheses [nearest_spec], [lin_affine_ok],
    [lin_domain_ok], [lin_hull_ok].
    This file contains only statements; proofs are in FVP.Regrid_proofs. *)
From Coq Require Import List ZArith QArith Bool Lia.
From FV Require Import Base Arr Regrid.
From FV Require Mask.
From FVP Require Mask_proofs.
From FVP Require Import Regrid_proofs.
Import ListNotations.

(** Nearest-neighbour regridding, for every oracle [nearest] that returns an index of minimal
    Euclidean distance: the adapter's output mask is the requested target mask; every target
    element that is not masked by it receives the value of an unmasked source element whose
    location is at minimal distance among ALL unmasked source locations (any of them on ties);
    elements under the requested mask are masked. *)
Theorem C16_nearest :
  forall (A : Type) (nearest : point -> list point -> nat), nearest_spec nearest ->
  forall am down smask src_ma spts (svals : list A) tpts d om cells,
    length svals = length spts -> wf_mask smask (length spts) ->
    wf_mk am (length tpts) -> wf_mk down (length tpts) ->
    (exists i, (i < length spts)%nat /\ masked_at smask i = false) ->
    regrid_nearest nearest am down smask src_ma spts svals tpts d = Done om cells ->
    bits_of om = requested am down /\
    length cells = length tpts /\
    forall j, (j < length tpts)%nat ->
      if masked_at (requested am down) j then nth j cells CNaN = CMasked
      else exists i, (i < length spts)%nat /\ masked_at smask i = false /\
             nth j cells CNaN = CVal (nth i svals d) /\
             forall i', (i' < length spts)%nat -> masked_at smask i' = false ->
               dist2 (nth j tpts []) (nth i spts []) <= dist2 (nth j tpts []) (nth i' spts []).
Proof. intros A nearest H. exact (@nearest_correct A nearest H). Qed.

(** The computable oracle instance used by the correspondence check (first index of minimal
    squared distance over Q) satisfies the oracle hypothesis. *)
Theorem C16_nearest_instance : nearest_spec nearest_first.
Proof. exact nearest_first_spec. Qed.

(** Identity between layouts: if the target is a re-layout of the source (every target element [j]
    lies at the location of the unmasked source element [pi j]; distinct unmasked source elements
    have distinct locations; all points have one dimension) then every unmasked target element
    receives exactly the value located there - whatever the two flattening orders are. *)
Theorem C16_identity_layouts :
  forall (A : Type) (nearest : point -> list point -> nat), nearest_spec nearest ->
  forall am down smask src_ma spts (svals : list A) tpts d om cells (dm : nat) (pi : nat -> nat),
    length svals = length spts -> wf_mask smask (length spts) ->
    wf_mk am (length tpts) -> wf_mk down (length tpts) ->
    Forall (fun p => length p = dm) spts -> Forall (fun p => length p = dm) tpts ->
    (forall i i', (i < length spts)%nat -> (i' < length spts)%nat ->
       masked_at smask i = false -> masked_at smask i' = false ->
       same_loc (nth i spts []) (nth i' spts []) -> i = i') ->
    (forall j, (j < length tpts)%nat ->
       (pi j < length spts)%nat /\ masked_at smask (pi j) = false /\
       same_loc (nth j tpts []) (nth (pi j) spts [])) ->
    regrid_nearest nearest am down smask src_ma spts svals tpts d = Done om cells ->
    forall j, (j < length tpts)%nat -> masked_at (requested am down) j = false ->
      nth j cells CNaN = CVal (nth (pi j) svals d).
Proof. exact nearest_identity_relayout. Qed.

(** Pointwise form (no global assumption on the target): a target location coinciding with exactly
    one unmasked source location receives the value located there. *)
Theorem C16_identity_point :
  forall (A : Type) (nearest : point -> list point -> nat), nearest_spec nearest ->
  forall am down smask src_ma spts (svals : list A) tpts d om cells j i0,
    length svals = length spts -> wf_mask smask (length spts) ->
    wf_mk am (length tpts) -> wf_mk down (length tpts) ->
    regrid_nearest nearest am down smask src_ma spts svals tpts d = Done om cells ->
    (j < length tpts)%nat -> masked_at (requested am down) j = false ->
    (i0 < length spts)%nat -> masked_at smask i0 = false ->
    same_loc (nth j tpts []) (nth i0 spts []) ->
    (forall i, (i < length spts)%nat -> masked_at smask i = false ->
               same_loc (nth j tpts []) (nth i spts []) -> i = i0) ->
    nth j cells CNaN = CVal (nth i0 svals d).
Proof. intros A nearest H. exact (@nearest_identity A nearest H). Qed.

(** Masked source values never influence the result: two source arrays that agree on the unmasked
    elements give the same outcome (same error or same delivered array), for nearest and for
    linear regridding with or without filling, for ANY oracles. *)
Theorem C16_noninterference :
  (forall (A : Type) nearest am down smask src_ma spts (svals svals' : list A) tpts d,
     length svals = length spts -> length svals' = length spts -> wf_mask smask (length spts) ->
     (forall i, (i < length spts)%nat -> masked_at smask i = false -> nth i svals d = nth i svals' d) ->
     regrid_nearest nearest am down smask src_ma spts svals tpts d =
     regrid_nearest nearest am down smask src_ma spts svals' tpts d)
  /\
  (forall nearest lin fill am down smask src_ma spts svals svals' tpts,
     length svals = length spts -> length svals' = length spts -> wf_mask smask (length spts) ->
     (forall i, (i < length spts)%nat -> masked_at smask i = false -> nth i svals 0 = nth i svals' 0) ->
     regrid_linear nearest lin fill am down smask src_ma spts svals tpts =
     regrid_linear nearest lin fill am down smask src_ma spts svals' tpts).
Proof. split; [exact nearest_noninterference|exact linear_noninterference]. Qed.

(** Linear regridding without filling.  Under the oracle hypotheses on the interpolator built on
    the unmasked source locations [sel smask spts], for a source field that is affine on the unmasked
    elements (anything under the mask): whenever data is delivered, the output mask covers the
    requested mask and every target location outside the convex hull; masked elements are masked;
    every unmasked element lies inside the hull and holds the value of the affine field there. *)
Theorem C16_linear_affine :
  forall (nearest : point -> list point -> nat) (lin : list point -> list Q -> point -> option Q)
         smask spts svals c0 g,
    length svals = length spts -> wf_mask smask (length spts) ->
    lin_affine_ok lin (sel smask spts) -> lin_domain_ok lin (sel smask spts) ->
    (forall i, (i < length spts)%nat -> masked_at smask i = false ->
               nth i svals 0 == affine_fn c0 g (nth i spts [])) ->
    forall am down src_ma tpts om cells,
      lin_hull_ok lin (sel smask spts) ->
      wf_mk am (length tpts) -> wf_mk down (length tpts) ->
      regrid_linear nearest lin false am down smask src_ma spts svals tpts = Done om cells ->
      length cells = length tpts /\
      forall j, (j < length tpts)%nat ->
        (masked_at (requested am down) j = true -> masked_at (bits_of om) j = true) /\
        (~ in_hull (sel smask spts) (nth j tpts []) -> masked_at (bits_of om) j = true) /\
        (masked_at (bits_of om) j = true -> nth j cells CNaN = CMasked) /\
        (masked_at (bits_of om) j = false ->
           in_hull (sel smask spts) (nth j tpts []) /\
           exists v, nth j cells CNaN = CVal v /\ v == affine_fn c0 g (nth j tpts [])).
Proof. exact linear_affine_nofill. Qed.

(** Linear regridding with fill_with_nearest: unmasked targets inside the hull hold the affine
    field, unmasked targets outside hold the value of a nearest unmasked source location. *)
Theorem C16_linear_affine_fill :
  forall (nearest : point -> list point -> nat) (lin : list point -> list Q -> point -> option Q)
         smask spts svals c0 g,
    length svals = length spts -> wf_mask smask (length spts) ->
    lin_affine_ok lin (sel smask spts) -> lin_domain_ok lin (sel smask spts) ->
    (forall i, (i < length spts)%nat -> masked_at smask i = false ->
               nth i svals 0 == affine_fn c0 g (nth i spts [])) ->
    forall am down src_ma tpts om cells,
      nearest_spec nearest -> lin_hull_ok lin (sel smask spts) ->
      wf_mk am (length tpts) -> wf_mk down (length tpts) ->
      (exists i, (i < length spts)%nat /\ masked_at smask i = false) ->
      regrid_linear nearest lin true am down smask src_ma spts svals tpts = Done om cells ->
      bits_of om = requested am down /\
      length cells = length tpts /\
      forall j, (j < length tpts)%nat ->
        (masked_at (requested am down) j = true -> nth j cells CNaN = CMasked) /\
        (masked_at (requested am down) j = false ->
           (in_hull (sel smask spts) (nth j tpts []) ->
              exists v, nth j cells CNaN = CVal v /\ v == affine_fn c0 g (nth j tpts [])) /\
           (~ in_hull (sel smask spts) (nth j tpts []) ->
              exists i, (i < length spts)%nat /\ masked_at smask i = false /\
                nth j cells CNaN = CVal (nth i svals 0) /\
                forall i', (i' < length spts)%nat -> masked_at smask i' = false ->
                  dist2 (nth j tpts []) (nth i spts []) <= dist2 (nth j tpts []) (nth i' spts []))).
Proof. exact linear_affine_fill. Qed.

(** Masked target cells stay masked: for ANY oracles, whenever nearest or linear regridding delivers
    data, it has the target's size and every element under the requested target mask is masked. *)
Theorem C16_masked_targets_stay_masked :
  (forall (A : Type) nearest am down smask src_ma spts (svals : list A) tpts d om cells,
     wf_mk am (length tpts) -> wf_mk down (length tpts) ->
     regrid_nearest nearest am down smask src_ma spts svals tpts d = Done om cells ->
     length cells = length tpts /\
     forall j, (j < length tpts)%nat -> masked_at (requested am down) j = true -> nth j cells CNaN = CMasked)
  /\
  (forall nearest lin fill am down smask src_ma spts svals tpts om cells,
     wf_mk am (length tpts) -> wf_mk down (length tpts) ->
     regrid_linear nearest lin fill am down smask src_ma spts svals tpts = Done om cells ->
     length cells = length tpts /\
     forall j, (j < length tpts)%nat -> masked_at (requested am down) j = true -> nth j cells CNaN = CMasked).
Proof. split; [exact nearest_masked_stay|exact linear_masked_stay]. Qed.

(** The flattened view used above is the n-d code path: compressing the raveled data with the
    raveled mask IS FV.Mask.to_compressed of the n-d array (masked-array or separate-mask form), and
    scattering IS the raveled result of FV.Mask.from_compressed, raveled in the grid's order [o]. *)
Theorem C16_flat_view_is_nd :
  (forall (A : Type) (a : arr A) (m : arr bool) (o : order) w arg,
     Mask_proofs.uses_mask w arg m ->
     Mask.to_compressed a w o arg = sel (Some (ravel o m)) (ravel o a))
  /\ (forall (A : Type) (vals : list A) sh (o : order) (tm : arr bool) kw,
     ashape tm = sh ->
     exists d, Mask.from_compressed vals sh o (Mask.MBits tm) kw = Mask.FcMasked d (Some tm) /\
               ashape d = sh /\
               map cell_of_opt (ravel o d) = unsel (Some (ravel o tm)) (map CVal vals)).
Proof. split; [exact sel_is_to_compressed|exact unsel_is_from_compressed]. Qed.

(** Several publications through ONE adapter (the adapter's state is fixed during the info exchange
    and only read afterwards): the outcome for the k-th publication is the outcome of regridding that
    publication alone, whatever was published before or after it (in particular an earlier field
    with not-a-number or garbage entries leaves no trace), for nearest and linear regridding with or
    without filling, for ANY oracles. *)
Theorem C16_publications_independent :
  (forall (A : Type) nearest am down smask src_ma spts (pubs pubs' : list (list A)) tpts d k svals,
     nth_error pubs k = Some svals -> nth_error pubs' k = Some svals ->
     nth_error (regrid_nearest_seq nearest am down smask src_ma spts pubs tpts d) k
       = Some (regrid_nearest nearest am down smask src_ma spts svals tpts d)
     /\ nth_error (regrid_nearest_seq nearest am down smask src_ma spts pubs' tpts d) k
       = nth_error (regrid_nearest_seq nearest am down smask src_ma spts pubs tpts d) k)
  /\ (forall nearest lin fill am down smask src_ma spts (pubs pubs' : list (list Q)) tpts k svals,
     nth_error pubs k = Some svals -> nth_error pubs' k = Some svals ->
     nth_error (regrid_linear_seq nearest lin fill am down smask src_ma spts pubs tpts) k
       = Some (regrid_linear nearest lin fill am down smask src_ma spts svals tpts)
     /\ nth_error (regrid_linear_seq nearest lin fill am down smask src_ma spts pubs' tpts) k
       = nth_error (regrid_linear_seq nearest lin fill am down smask src_ma spts pubs tpts) k).
Proof. exact publications_independent. Qed.

(** * Non-vacuity *)

(** 2x2 source points in F order with the element at (0,0) masked (its value 999 must not appear),
    target = the same four locations listed in another order, element 2 masked by the adapter. *)
Definition ex_spts : list point := [[0; 0]; [1; 0]; [0; 1]; [1; 1]].
Definition ex_tpts : list point := [[0; 0]; [0; 1]; [1; 0]; [1; 1]].
Definition ex_smask := Some [true; false; false; false].
Definition ex_am := Some (KBits [false; false; true; false]).

Example C16_nearest_nonvacuous :
  nearest_spec nearest_first
  /\ length [999; 2; 3; 4] = length ex_spts /\ wf_mask ex_smask (length ex_spts)
  /\ wf_mk ex_am (length ex_tpts) /\ wf_mk (Some KFlex) (length ex_tpts)
  /\ (exists i, (i < length ex_spts)%nat /\ masked_at ex_smask i = false)
  /\ regrid_nearest nearest_first ex_am (Some KFlex) ex_smask true ex_spts [999; 2; 3; 4] ex_tpts 0
     = Done (KBits [false; false; true; false]) [CVal 2; CVal 3; CMasked; CVal 4].
Proof.
  split; [exact nearest_first_spec|]. repeat split; try reflexivity.
  exists 1%nat. split; [simpl; lia|reflexivity].
Qed.

(** a re-layout: permutation [pi] of the four locations, nothing masked *)
Definition ex_pi (j : nat) : nat := match j with 1 => 2 | 2 => 1 | _ => j end%nat.
Example C16_identity_nonvacuous :
  Forall (fun p => length p = 2%nat) ex_spts /\ Forall (fun p => length p = 2%nat) ex_tpts
  /\ (forall j, (j < length ex_tpts)%nat ->
        (ex_pi j < length ex_spts)%nat /\ masked_at None (ex_pi j) = false /\
        same_loc (nth j ex_tpts []) (nth (ex_pi j) ex_spts []))
  /\ regrid_nearest nearest_first None (Some KFlex) None false ex_spts [1; 2; 3; 4] ex_tpts 0
     = Done KFlex [CVal 1; CVal 3; CVal 2; CVal 4].
Proof.
  split; [repeat constructor|]. split; [repeat constructor|]. split; [|reflexivity].
  intros j Hj. destruct j as [|[|[|[|j]]]]; simpl in Hj; try lia;
    (split; [simpl; lia|]; split; [reflexivity|]; unfold same_loc; simpl; reflexivity).
Qed.

(** the distinctness hypothesis of C16_identity_layouts holds for [ex_spts] *)
Example C16_identity_distinct :
  forall i i', (i < length ex_spts)%nat -> (i' < length ex_spts)%nat ->
    same_loc (nth i ex_spts []) (nth i' ex_spts []) -> i = i'.
Proof.
  intros i i' Hi Hi' H.
  destruct i as [|[|[|[|i]]]]; destruct i' as [|[|[|[|i']]]]; simpl in Hi, Hi';
    try reflexivity; try lia;
    exfalso; unfold same_loc in H; simpl in H; vm_compute in H; discriminate.
Qed.

(** linear: the triangle (0,0),(1,0),(0,1) plus a masked fourth element holding garbage, barycentric
    interpolation [lin_tri] as the oracle (it satisfies all three oracle hypotheses), affine field
    1/2 + x + 2y; targets inside, on the boundary of and outside the hull. *)
Definition ex_lspts : list point := [[0; 0]; [5; 5]; [1; 0]; [0; 1]].
Definition ex_lmask := Some [false; true; false; false].
Definition ex_lvals : list Q := [1 # 2; 777; 3 # 2; 5 # 2].
Definition ex_ltpts : list point := [[1 # 4; 1 # 4]; [1 # 2; 1 # 2]; [1; 1]; [0; 2]].

Example C16_linear_nonvacuous :
  sel ex_lmask ex_lspts = ic_tri
  /\ lin_affine_ok lin_tri ic_tri /\ lin_domain_ok lin_tri ic_tri /\ lin_hull_ok lin_tri ic_tri
  /\ (forall i, (i < length ex_lspts)%nat -> masked_at ex_lmask i = false ->
                nth i ex_lvals 0 == affine_fn (1 # 2) [1; 2] (nth i ex_lspts []))
  /\ regrid_linear nearest_first lin_tri false None (Some KFlex) ex_lmask false ex_lspts ex_lvals ex_ltpts
     = Done (KBits [false; false; true; true]) [CVal (640 # 512); CVal (256 # 128); CMasked; CMasked]
  /\ regrid_linear nearest_first lin_tri true None (Some KFlex) ex_lmask false ex_lspts ex_lvals ex_ltpts
     = Done KFlex [CVal (640 # 512); CVal (256 # 128); CVal (3 # 2); CVal (5 # 2)]
  /\ 640 # 512 == affine_fn (1 # 2) [1; 2] [1 # 4; 1 # 4] /\ 256 # 128 == affine_fn (1 # 2) [1; 2] [1 # 2; 1 # 2].
Proof.
  split; [reflexivity|]. split; [exact lin_tri_affine|]. split; [exact lin_tri_domain|].
  split; [exact lin_tri_hull|]. split; [|repeat split; vm_compute; reflexivity].
  intros i Hi Hm. destruct i as [|[|[|[|i]]]]; simpl in Hm; try discriminate; try (vm_compute; reflexivity).
  simpl in Hi. lia.
Qed.

(** three publications through the linear adapter of the example above (garbage first): the last one
    is regridded as if it were alone *)
Example C16_publications_nonvacuous :
  nth_error (regrid_linear_seq nearest_first lin_tri true None (Some KFlex) ex_lmask false ex_lspts
               [[-5; 1; 400; 9]; [0; 0; 0; 0]; ex_lvals] ex_ltpts) 2
  = Some (Done KFlex [CVal (640 # 512); CVal (256 # 128); CVal (3 # 2); CVal (5 # 2)]).
Proof. vm_compute. reflexivity. Qed.

Print Assumptions C16_nearest.
Print Assumptions C16_nearest_instance.
Print Assumptions C16_identity_layouts.
Print Assumptions C16_identity_point.
Print Assumptions C16_noninterference.
Print Assumptions C16_linear_affine.
Print Assumptions C16_linear_affine_fill.
Print Assumptions C16_masked_targets_stay_masked.
Print Assumptions C16_flat_view_is_nd.
Print Assumptions C16_publications_independent.
