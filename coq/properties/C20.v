(** C20 — Static slots are time independent; pull-based components are served on demand.
    Model: FV.Static (static Output / static Input / adapter chains in front of a provider /
    WeightedSum with its memo).  This file contains only statements; proofs are in
    FVP.Static_proofs.  (The scheduler-level theorem C20_sched_through_pull is stated on the
    scheduler model.) *)
From Coq Require Import List ZArith QArith Bool Permutation.
From FV Require Import Base Static.
From FVP Require Import Static_proofs.
From FV Require Sched C20Mix.
From FVP Require Sched_proofs.
Import ListNotations.
Open Scope Z_scope.

(** Static output.  For every history [pre] of info exchanges, publications and requests, every
    value [d] and every continuation [post]:
    (a) an output whose info is exchanged and that holds nothing accepts the publication;
    (b) once a publication [d] is accepted, every later request - for any time or for no time -
        returns [d] unchanged and every further publication is refused (FinamStaticDataError);
    (c) over the whole history at most one publication is accepted. *)
Theorem C20_static_output :
  forall (A : Type) (pre post : list (sop A)) (d : A),
    let s := so_final so_init pre in
    (so_exch s = true -> so_data s = None -> snd (so_step s (SPush d)) = XPush (Ok tt))
    /\ (snd (so_step s (SPush d)) = XPush (Ok tt) ->
        Forall2 (so_obs_held d) post (so_run (fst (so_step s (SPush d))) post))
    /\ (length (filter accepted (so_run so_init (pre ++ SPush d :: post))) <= 1)%nat.
Proof. intros A. exact (@static_output_main A). Qed.

(** Spilling is invisible on a static output: for every number of targets, every memory limit
    (none, 0, below / above the payload size) and every op history, the results (accepted / refused
    publications, served values) are exactly those of the plain static output - in particular a
    spilled first value does not make a second publication acceptable. *)
Theorem C20_static_output_spill_invisible :
  forall (A : Type) (k : nat) (limit : option Z) (size : Z) (ops : list (sop A)),
    map fst (som_run k limit size (som_init, O) ops) = so_run so_init ops.
Proof. intros. apply (som_run_erase k limit size ops som_init O). Qed.

(** Static input in front of ANY source (a state machine [src_get], observed through a counter of
    the calls that reach it), any conversion [conv], any sequence of request times (or none):
    (a) a cached value is served for every later request and the source is never contacted again;
    (b) from the empty cache the results are failures followed by one and the same value for ever;
    (c) the number of fetches is the number of requests up to and including the first successful
        one - so exactly one fetch succeeds, and nothing is fetched afterwards. *)
Theorem C20_static_input :
  forall (A St : Type) (src_get : St -> option Z -> St * res A) (conv : A -> A),
    (forall d ts (s : St * nat),
        si_run (counted src_get) conv (Some d) s ts = (map (fun _ => Ok d) ts, s))
    /\ (forall ts (s : St * nat), errs_then_const (fst (si_run (counted src_get) conv None s ts)))
    /\ (forall ts s n,
           snd (snd (si_run (counted src_get) conv None (s, n) ts))
           = (n + until_ok (fst (si_run (counted src_get) conv None (s, n) ts)))%nat).
Proof. intros A St. exact (@static_input_main A St). Qed.

(** Pull-based output behind any chain of adapters (Scale / DelayFixed, any length, any order):
    one consumer request for time [t] invokes the provider exactly once (one new entry in its call
    log) with the time [chain_time c t] - the composition of the adapters' [with_delay] in pull
    order - and delivers the provider's answer for that time (scaled by the pass-through adapters). *)
Theorem C20_callback_time :
  forall (c : list (nat * adapter)) (id : nat) (f : Z -> res Q) (log : list (nat * Z)) (t : Z),
    pull_chain (logging_provider id f) (fun _ _ s => s) c log t
    = ((id, chain_time c t) :: log, map_res (chain_scale c) (f (chain_time c t))).
Proof. exact callback_time_main. Qed.

(** ... which for fixed delays d1..dn >= 0 sharing the link's initial time is max(t - sum d, init)
    (delays add up, as in C13), for every request not before the initial time. *)
Theorem C20_callback_time_fixed_delays :
  forall (c : list (nat * adapter)) (init : Z),
    chain_ok c init -> forall t, init <= t -> chain_time c t = Z.max (t - sum_delay c) init.
Proof. exact chain_time_fixed. Qed.

(** WeightedSum (validated, initial data present) pulls its own inputs for that same time:
    a memo hit pulls nothing and changes nothing; every other successful request for time [t]
    pulls inputs 0..n-1 exactly once each, in order, all at time [t], and remembers (t, result). *)
Theorem C20_weighted_sum_pulls :
  forall (units : list Q) (src : nat -> Z -> res Q) (w : wstate) (log : list (nat * Z)) (t : Z),
    ws_valid w = true -> all_some (ws_fetched w) <> None ->
    let n := length (ws_fetched w) in
    let out := ws_get (logging_pull src) units w log t in
    (ws_last w = Some t -> out = (w, log, Ok (ws_out w)))
    /\ (ws_last w <> Some t -> forall q, snd out = Ok q ->
        snd (fst out) = rev (map (fun j => (j, t)) (seq 0 n)) ++ log
        /\ ws_last (fst (fst out)) = Some t /\ ws_out (fst (fst out)) = q).
Proof. exact ws_pulls_main. Qed.

(** WeightedSum with its memo [_last_update/_out_data] refines the memo-free function, for ALL
    request sequences [ts] (any length, repeated, decreasing, arbitrary times) and any sources
    whose answer is determined by (input, time) - their state may change arbitrarily:
    the k-th result is [ws_spec n t_k] = the weighted sum of what the inputs answer for t_k
    (or the first failing input's error class). *)
Theorem C20_weighted_sum :
  forall (St : Type) (pull : St -> nat -> Z -> St * res Q) (units : list Q) (src : nat -> Z -> res Q),
    (forall s i t, snd (pull s i t) = src i t) ->
    forall (n : nat) (ts : list Z) (w : wstate) (s : St),
      ws_ready w -> memo_ok units src n w ->
      fst (ws_run pull units w s ts) = map (ws_spec units src n) ts.
Proof. intros St. exact (@ws_run_spec St). Qed.

(** ... and the memoised component is indistinguishable from the component without memo. *)
Theorem C20_weighted_sum_memo_refines :
  forall (St : Type) (pull : St -> nat -> Z -> St * res Q) (units : list Q) (src : nat -> Z -> res Q),
    (forall s i t, snd (pull s i t) = src i t) ->
    forall (n : nat) (ts : list Z) (w : wstate) (s : St),
      ws_ready w -> memo_ok units src n w ->
      fst (ws_run pull units w s ts) = fst (ws_run_nomemo pull units w s ts).
Proof. intros St. exact (@ws_memo_refines St). Qed.

(** The memo-free function is the sum of value times weight in the common units of the inputs:
    if for time [t] the value inputs answer [vs] (in units with SI factors [u0 :: us]) and the
    weight inputs answer [ws], the result [q] (in the units [u0] of the first value) satisfies
    q * u0 == sum_k (v_k * u_k) * w_k, i.e. the SI quantity is the sum of the SI quantities times
    their weights. *)
Theorem C20_weighted_sum_value :
  forall (u0 : Q) (us : list Q) (src : nat -> Z -> res Q) (vs ws : list Q) (t : Z) (n : nat),
    ~ (u0 == 0)%Q ->
    length vs = length (u0 :: us) -> length ws = length (u0 :: us) ->
    answers src n 0 t = Ok (interleave vs ws) ->
    exists q, ws_spec (u0 :: us) src n t = Ok q /\ (q * u0 == sum3 (u0 :: us) vs ws)%Q.
Proof. exact ws_spec_is_sum. Qed.

(** Served on demand without failures of their own (the component-level half of "the scheduling
    guarantee of C01 extends through pull-based components"): if every input of the WeightedSum
    answers for time [t] - which is what C01 guarantees at the producers - the memo-free result for
    [t] is a value, not an error; and a request through an adapter chain fails only if the provider
    fails for [chain_time c t]. *)
Theorem C20_pull_through_no_new_errors :
  (forall (units : list Q) (src : nat -> Z -> res Q) (n : nat) (t : Z),
      (forall i, (i < n)%nat -> exists q, src i t = Ok q) -> exists q, ws_spec units src n t = Ok q)
  /\ (forall (c : list (nat * adapter)) (id : nat) (f : Z -> res Q) (log : list (nat * Z)) (t : Z),
         (exists q, f (chain_time c t) = Ok q) ->
         exists q, snd (pull_chain (logging_provider id f) (fun _ _ s => s) c log t) = Ok q).
Proof. split; [exact ws_spec_no_new_errors|exact pull_chain_no_new_errors]. Qed.

(* ------------------------------------------------------------------------- *)
(** Non-vacuity *)

Example C20_static_output_nonvacuous :
  let pre := [SGet None; SExch; SGet (Some 5)] in
  let post := [SGet None; SPush 8%nat; SGet (Some 0); SGet (Some 86400000000); SPush 9%nat; SGet None] in
  so_exch (so_final (@so_init nat) pre) = true /\ so_data (so_final (@so_init nat) pre) = None
  /\ so_run so_init (pre ++ SPush 7%nat :: post)
     = [XGet (Err ENoData); XNone; XGet (Err ENoData); XPush (Ok tt); XGet (Ok 7%nat); XPush (Err EStatic);
        XGet (Ok 7%nat); XGet (Ok 7%nat); XPush (Err EStatic); XGet (Ok 7%nat)].
Proof. vm_compute. repeat split. Qed.

(** a static input on a static output: two failed fetches (nothing published), then one
    successful fetch, then no fetch any more *)
Example C20_static_input_nonvacuous :
  i_run (i_init 1) [IExch; IPull 0 None; IPull 0 (Some 3); IPush 4; IPull 0 (Some 9); IPull 0 None; IPush 5; IPull 0 (Some 1)]
  = [(XNone, 0); (XGet (Err ENoData), 1); (XGet (Err ENoData), 2); (XPush (Ok tt), 2); (XGet (Ok 4), 3);
     (XGet (Ok 4), 3); (XPush (Err EStatic), 3); (XGet (Ok 4), 3)]%nat.
Proof. vm_compute. reflexivity. Qed.

Definition ex_chain : list (nat * adapter) := [(1%nat, ADelay 5 0); (2%nat, AScale (1 # 2)); (3%nat, ADelay 6 0)].
Example C20_callback_time_nonvacuous :
  chain_ok ex_chain 0 /\ chain_time ex_chain 30 = 19 /\ chain_time ex_chain 8 = 0
  /\ pull_chain (logging_provider 7 (fun t => Ok (inject_Z t))) (fun _ _ s => s) ex_chain [] 30
     = ([(7%nat, 19)], Ok (inject_Z 19 * (1 # 2))%Q).
Proof. vm_compute. repeat split; try discriminate. Qed.

(** two value/weight pairs in mm and m; requests 4, 4 (memo hit), 9, 4 *)
Definition ex_src (i : nat) (t : Z) : res Q :=
  match i with
  | 0%nat => Ok (inject_Z t)          (* value 0 (mm) *)
  | 1%nat => Ok (1 # 2)%Q             (* weight 0 *)
  | 2%nat => Ok (inject_Z (2 * t))    (* value 1 (m) *)
  | _ => Ok (1 # 4)%Q                 (* weight 1 *)
  end.
Definition ex_units : list Q := [(1 # 1000)%Q; 1%Q].
Definition ex_w : wstate := mkW [Some 0%Q; Some 0%Q; Some 0%Q; Some 0%Q] true None 0%Q.
Example C20_weighted_sum_nonvacuous :
  ws_ready ex_w /\ memo_ok ex_units ex_src 4 ex_w
  /\ ws_run (logging_pull ex_src) ex_units ex_w [] [4; 4; 9; 4]
     = ([Ok (2002 # 1)%Q; Ok (2002 # 1)%Q; Ok (9009 # 2)%Q; Ok (2002 # 1)%Q],
        [(3%nat, 4); (2%nat, 4); (1%nat, 4); (0%nat, 4);
         (3%nat, 9); (2%nat, 9); (1%nat, 9); (0%nat, 9);
         (3%nat, 4); (2%nat, 4); (1%nat, 4); (0%nat, 4)]).
Proof.
  split; [split; [reflexivity|discriminate]|]. split; [split; [reflexivity|intros t0 H; discriminate]|].
  vm_compute. reflexivity.
Qed.

Example C20_weighted_sum_value_nonvacuous :
  answers ex_src 4 0 4 = Ok (interleave [inject_Z 4; inject_Z 8] [(1 # 2)%Q; (1 # 4)%Q])
  /\ (sum3 ex_units [inject_Z 4; inject_Z 8] [(1 # 2)%Q; (1 # 4)%Q] == (2002 # 1000))%Q.
Proof. split; vm_compute; reflexivity. Qed.

Example C20_pull_through_nonvacuous :
  (forall i, (i < 4)%nat -> exists q, ex_src i 4 = Ok q) /\ ws_spec ex_units ex_src 4 4 = Ok (2002 # 1)%Q.
Proof.
  split; [|vm_compute; reflexivity].
  intros i Hi. destruct i as [|[|[|[|i]]]]; simpl; eexists; reflexivity.
Qed.

Example C20_static_output_spill_nonvacuous :
  som_run 2 (Some 0) 8 (som_init, O) [SExch; SPush 1%nat; SPush 2%nat; SGet None]
  = [(XNone, (0, 0)); (XPush (Ok tt), (1, 2)); (XPush (Err EStatic), (1, 2)); (XGet (Ok 1), (1, 2))]%nat.
Proof. vm_compute. reflexivity. Qed.

(** One pull of every input per distinct request time.  (a) A memo hit leaves the environment of the
    WeightedSum untouched whatever its inputs are - so a repeated request for the same time (the
    merger's output read twice in one update of a consumer) cannot advance the pull history of a
    DelayToPull adapter in front of an input, and the time asked of the source stays the one the
    driver checked.  (b) Over any request sequence with succeeding pulls the number of input pulls is
    (number of maximal runs of equal request times) * (number of inputs).  (c) On links without
    DelayToPull the stateful link evaluator of the network model is [pull_chain]. *)
Theorem C20_weighted_sum_one_pull_per_time :
  (forall (St : Type) (pull : St -> nat -> Z -> St * res Q) (units : list Q) (w : wstate) (s : St) (t : Z),
      all_some (ws_fetched w) <> None -> ws_last w = Some t ->
      ws_get pull units w s t = (w, s, Ok (ws_out w)))
  /\ (forall (units : list Q) (src : nat -> Z -> res Q) (ts : list Z),
         (forall i t, exists q, src i t = Ok q) ->
         forall (w : wstate) (log : list (nat * Z)),
           ws_valid w = true -> all_some (ws_fetched w) <> None ->
           length (snd (ws_run (logging_pull src) units w log ts))
           = (length log + distinct_runs (ws_last w) ts * length (ws_fetched w))%nat)
  /\ (forall (St : Type) (src : St -> Z -> St * res Q) (note : nat -> Z -> St -> St)
             (hist : nat -> St -> list Z) (set_hist : nat -> list Z -> St -> St) (c : list (nat * adapter)) s t,
         pull_chain_st src note hist set_hist (plain_chain c) s t = pull_chain src note c s t).
Proof.
  split; [|split].
  - intros St. exact (@ws_get_hit_any St).
  - exact ws_run_pull_count.
  - intros St. exact (@pull_chain_st_plain St).
Qed.

(** Why the memo matters: input 0 behind DelayToPull(steps = 1) (state = its pull history), weight 1.
    Two requests for time 3 in one update: the memoised merger answers both with the data of the
    previous pull time (0); without the memo the second request already gets the data for time 3. *)
Definition ex_dtp_pull (h : list Z) (i : nat) (t : Z) : list Z * res Q :=
  match i with
  | O => let '(h', t') := dtp_with_delay 0 0 h in (dtp_pulled 1 h' t, Ok (inject_Z t'))
  | _ => (h, Ok 1%Q)
  end.
Definition ex_w2 : wstate := mkW [Some 0%Q; Some 0%Q] true None 0%Q.
Example C20_memo_needed_with_delay_to_pull :
  fst (ws_run ex_dtp_pull [1%Q] ex_w2 [] [3; 3; 5]) = [Ok 0%Q; Ok 0%Q; Ok (3 # 1)%Q]
  /\ fst (ws_run_nomemo ex_dtp_pull [1%Q] ex_w2 [] [3; 3; 5]) = [Ok 0%Q; Ok (3 # 1)%Q; Ok (3 # 1)%Q]
  /\ distinct_runs None [3; 3; 5] = 2%nat.
Proof. vm_compute. repeat split. Qed.

(** Connect phase: a WeightedSum that is not validated yet answers from the connector's start-time
    data and does NOT remember that answer under the requested time (only data pulled for a time
    may be served again for it). *)
Theorem C20_weighted_sum_connect_phase :
  forall (St : Type) (pull : St -> nat -> Z -> St * res Q) (units : list Q) (w : wstate) (s : St) (t : Z) (ind : list Q),
    ws_valid w = false -> ws_last w = None -> all_some (ws_fetched w) = Some ind ->
    ws_get pull units w s t = (mkW (ws_fetched w) false None (wsum units ind), s, Ok (wsum units ind)).
Proof. intros St. exact (@ws_connect_phase_no_memo St). Qed.

(** Gridded data with missing cells: a cell of the sum is missing iff it is missing in one of the
    terms value_i * weight_i; otherwise it is the sum of the terms; and the order of the terms
    (the order in which the inputs are named) changes neither which cells are missing nor the sum. *)
Theorem C20_weighted_sum_cells :
  (forall l : list (option Q), cell_sum l = None <-> In None l)
  /\ (forall (l : list (option Q)) (q : Q), cell_sum l = Some q -> (q == qsum_opt l)%Q)
  /\ (forall l l' : list (option Q), Permutation l l' -> opt_Qeq (cell_sum l) (cell_sum l')).
Proof. split; [exact cell_sum_none_iff|split; [exact cell_sum_some|exact cell_sum_perm]]. Qed.

(** plain array named first, masked array second (and the other way round): cell 1 is missing *)
Example C20_weighted_sum_cells_nonvacuous :
  ws_cells [1%Q; 1%Q] 1 3 [[Some 11%Q; Some 11%Q; Some 11%Q]; [Some (1 # 2)%Q; Some (1 # 2)%Q; Some (1 # 2)%Q];
                           [Some 101%Q; None; Some 101%Q]; [Some 2%Q; Some 2%Q; Some 2%Q]]
  = [Some (415 # 2)%Q; None; Some (415 # 2)%Q]
  /\ ws_cells [1%Q; 1%Q] 1 3 [[Some 101%Q; None; Some 101%Q]; [Some 2%Q; Some 2%Q; Some 2%Q];
                              [Some 11%Q; Some 11%Q; Some 11%Q]; [Some (1 # 2)%Q; Some (1 # 2)%Q; Some (1 # 2)%Q]]
  = [Some (415 # 2)%Q; None; Some (415 # 2)%Q].
Proof. vm_compute. split; reflexivity. Qed.

(** Scheduler level (model FV.Sched; the correspondence check of C20 runs compositions with pull-based components
    against it, [C20Mix.c20_check2]).  Whenever the driver advances a time component [u], every dependency of [u] is
    served for [u]'s announced time: a time-stepped source has published at or beyond the time the link needs, and a
    PULL-BASED source is in turn served — to any nesting depth — for exactly the time [lt] that will reach it through
    the link (after the delay adapters on the link), not for the consumer's own time. *)
Theorem C20_sched_through_pull :
  forall fuel cs st acc c chain tgt u st' acc' e,
    Sched.update_rec fuel cs st acc c chain tgt = Sched.UUpdated u st' acc' e ->
    Sched_proofs.servedn fuel cs st u (Sched.next_time cs st u).
Proof.
  intros fuel cs st acc c chain tgt u st' acc' e H.
  destruct (Sched_proofs.update_rec_props fuel cs st acc c chain tgt) as [_ HB].
  destruct (HB _ _ _ _ H) as [_ [_ [Hs _]]]. exact Hs.
Qed.

(** ... and then no pull of the update, however deep through pull-based components, fails for lack of data. *)
Theorem C20_sched_pulls_succeed :
  forall cs, Sched_proofs.wf cs -> forall fuel st acc c chain tgt u st' acc' e,
    Sched_proofs.Inv cs st ->
    Sched.update_rec fuel cs st acc c chain tgt = Sched.UUpdated u st' acc' e ->
    e <> Some Sched.ETime /\ e <> Some Sched.ENoData.
Proof.
  intros cs W fuel st acc c chain tgt u st' acc' e Hinv H.
  destruct (Sched_proofs.update_rec_ok cs W _ _ _ _ _ _ _ _ _ _ Hinv H) as [_ [_ [G _]]]. exact G.
Qed.

Print Assumptions C20_static_output.
Print Assumptions C20_weighted_sum_connect_phase.
Print Assumptions C20_weighted_sum_cells.
Print Assumptions C20_weighted_sum_one_pull_per_time.
Print Assumptions C20_sched_through_pull.
Print Assumptions C20_sched_pulls_succeed.
Print Assumptions C20_static_output_spill_invisible.
Print Assumptions C20_static_input.
Print Assumptions C20_callback_time.
Print Assumptions C20_callback_time_fixed_delays.
Print Assumptions C20_weighted_sum_pulls.
Print Assumptions C20_weighted_sum.
Print Assumptions C20_weighted_sum_memo_refines.
Print Assumptions C20_weighted_sum_value.
Print Assumptions C20_pull_through_no_new_errors.
