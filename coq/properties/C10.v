(** C10 — Spilling data to disk is invisible and leaves no files behind.
    Model: FV.Spill (Output._pack/_unpack/_clear_data/finalize, TimeCachingAdapter and
    TimeIntegrationAdapter buffers, the _interpolate variants of all seven buffering slot kinds).
    This file contains only statements; proofs are in FVP.Spill_proofs.

    Every theorem quantifies over
      - the payload type [P], the file content type [F] and ANY [save]/[load] with
        [load (save p) = p]  (np.save | MaskedArray.dump / np.load: an explicit premise, not an axiom);
      - every slot configuration [c]: kind (KOutput with the Output eviction rule — minimum of the
        consumers' last requests —, KNext/KPrev/KLinear/KStep n d with the time-caching rule,
        KAvg/KSum with the [_prev_time] rule, KStatic = static Output: one entry, never evicted), every limit [option Z] (None, Some 0, negative,
        anything crossed mid-run), location and slot id;
      - every op sequence: pushes of any payload/size/time, pulls by any key at any time,
        finalize, and [Env g] = arbitrary interference with all files that are not named
        "<location>/<id>-*" (other slots, other programs);
      - every initial file system that has no file named like the slot's files. *)
From Coq Require Import List ZArith Bool.
From FV Require Import Base Spill.
From FVP Require Import Spill_proofs.
Import ListNotations.
Open Scope Z_scope.

(** Every pull of the limited slot reads exactly the payloads (same publications, same order, no
    read failure on either side) that the same slot without a limit reads: the list of what all
    pulls delivered is identical, errors (the inner [None]) included. *)
Theorem C10_transparent :
  forall (P F : Type) (save : P -> F) (load : F -> P),
    (forall p, load (save p) = p) ->
    forall (c : config) (keys : list nat) (fs0 fs0' : fsys F) (ops : list (op P F)),
      own_part (c_dir c) (c_sid c) fs0 = [] ->
      delivered save load c (init keys fs0) ops
      = delivered save load (unlimited c) (init keys fs0') ops.
Proof. intros P F. exact (@transparent P F). Qed.

(** No pull ever hits a missing file: every delivered payload is [Some _]. *)
Theorem C10_reads_succeed :
  forall (P F : Type) (save : P -> F) (load : F -> P),
    (forall p, load (save p) = p) ->
    forall (c : config) (keys : list nat) (fs0 : fsys F) (ops : list (op P F)),
      own_part (c_dir c) (c_sid c) fs0 = [] ->
      Forall good_result (delivered save load c (init keys fs0) ops).
Proof. intros P F. exact (@reads_succeed P F). Qed.

(** The files ever created by the slot are "<dir>/<id>-0", ..., "<dir>/<id>-(n-1)" in this order
    (n = the final counter): all below the location with the slot's id, pairwise distinct; and
    every os.remove hit an existing file. *)
Theorem C10_files_confined :
  forall (P F : Type) (save : P -> F) (load : F -> P),
    (forall p, load (save p) = p) ->
    forall (c : config) (keys : list nat) (fs0 : fsys F) (ops : list (op P F)),
      own_part (c_dir c) (c_sid c) fs0 = [] ->
      let s := final save load c (init keys fs0) ops in
      created (s_log s) = map (fun k => (c_dir c, c_sid c, k)) (seq 0 (s_counter s))
      /\ (forall f, In f (created (s_log s)) -> owned_by (c_dir c) (c_sid c) f = true)
      /\ NoDup (created (s_log s))
      /\ removals_ok (s_log s).
Proof. intros P F. exact (@files_confined P F). Qed.

(** Invariant: at any moment the slot's files are exactly those named by the retained spilled
    entries, in buffer order, each holding the saved payload that the unlimited slot keeps in RAM
    at the same position ([mb]). *)
Theorem C10_files_exact :
  forall (P F : Type) (save : P -> F) (load : F -> P),
    (forall p, load (save p) = p) ->
    forall (c : config) (keys : list nat) (fs0 fs0' : fsys F) (ops : list (op P F)),
      own_part (c_dir c) (c_sid c) fs0 = [] ->
      exists m,
        mb save (s_buf (final save load c (init keys fs0) ops))
                (s_buf (final save load (unlimited c) (init keys fs0') ops)) m
        /\ own_part (c_dir c) (c_sid c) (s_fs (final save load c (init keys fs0) ops)) = m.
Proof. intros P F. exact (@files_exact P F). Qed.

(** After finalize none of the slot's files remains and the buffer is empty — whatever happened
    before, interference included. *)
Theorem C10_clean_after_finalize :
  forall (P F : Type) (save : P -> F) (load : F -> P),
    (forall p, load (save p) = p) ->
    forall (c : config) (keys : list nat) (fs0 : fsys F) (ops : list (op P F)),
      own_part (c_dir c) (c_sid c) fs0 = [] ->
      let s := final save load c (init keys fs0) (ops ++ [Finalize]) in
      own_part (c_dir c) (c_sid c) (s_fs s) = [] /\ s_buf s = [].
Proof. intros P F. exact (@clean_after_finalize P F). Qed.

(** The slot never touches a file that is not its own: the foreign part of the file system is
    always that of the last interference (of the initial file system if there was none). *)
Theorem C10_foreign_untouched :
  forall (P F : Type) (save : P -> F) (load : F -> P),
    (forall p, load (save p) = p) ->
    forall (c : config) (keys : list nat) (fs0 : fsys F) (ops : list (op P F)),
      own_part (c_dir c) (c_sid c) fs0 = [] ->
      other_part (c_dir c) (c_sid c) (s_fs (final save load c (init keys fs0) ops))
      = other_part (c_dir c) (c_sid c) (env_last fs0 ops).
Proof. intros P F. exact (@foreign_untouched P F). Qed.

(** Without interference the file system after finalize IS the initial one (same files, same
    contents, same order). *)
Theorem C10_fs_restored :
  forall (P F : Type) (save : P -> F) (load : F -> P),
    (forall p, load (save p) = p) ->
    forall (c : config) (keys : list nat) (fs0 : fsys F) (ops : list (op P F)),
      own_part (c_dir c) (c_sid c) fs0 = [] ->
      forallb (fun o => negb (is_env o)) ops = true ->
      s_fs (final save load c (init keys fs0) (ops ++ [Finalize])) = fs0.
Proof. intros P F. exact (@fs_restored P F). Qed.

(** Static outputs ([KStatic]; all theorems above cover them too — in particular after finalize the
    file of a spilled static publication is gone): a static slot that already holds its publication
    refuses every further one, leaving the whole state untouched, wherever that entry lives (RAM or
    file); the first publication is accepted and spilled iff it does not fit; hence at most one
    entry ever. *)
Theorem C10_static_refusal_independent :
  forall (P F : Type) (save : P -> F) (c : config) (s : state P F) (t : Z) (p : P) (size : Z),
    c_kind c = KStatic -> s_buf s <> [] -> push save c s t p size = s.
Proof. intros P F. exact (@static_refusal P F). Qed.

Theorem C10_static_single_entry :
  forall (P F : Type) (save : P -> F) (load : F -> P)
         (c : config) (keys : list nat) (fs0 : fsys F) (ops : list (op P F)),
    c_kind c = KStatic ->
    (length (s_buf (final save load c (init keys fs0) ops)) <= 1)%nat.
Proof. intros P F. exact (@static_single P F). Qed.

(** A push only appends — also a SECOND publication for the time of the latest one (a source that
    corrects itself, a push-based component notified twice per step): the buffer grows by one entry
    at its end, no older entry leaves it (entries leave only through eviction / finalize, which
    release their file or their RAM share — so all theorems above hold for such sequences too: they
    quantify over arbitrary push times), and the file system changes only by the write of the new
    file when the new entry is spilled.  [c_dir] is whatever [memory_location or ""] resolves to:
    the configured location, or the working directory when none is configured. *)
Theorem C10_push_appends :
  forall (P F : Type) (save : P -> F) (c : config) (s : state P F) (t : Z) (p : P) (size : Z),
    refused (c_kind c) (s_buf s) = false ->
    exists e,
      s_buf (push save c s t p size) = s_buf s ++ [(t, e)]
      /\ is_spilled e = spills (c_limit c) (s_total s) size
      /\ (is_spilled e = true ->
          e = OnDisk (c_dir c, c_sid c, s_counter s)
          /\ s_fs (push save c s t p size) = fs_write (c_dir c, c_sid c, s_counter s) (save p) (s_fs s)
          /\ s_counter (push save c s t p size) = S (s_counter s))
      /\ (is_spilled e = false ->
          e = InRam p size
          /\ s_fs (push save c s t p size) = s_fs s
          /\ s_total (push save c s t p size) = s_total s + size).
Proof. intros P F. exact (@push_appends P F). Qed.

(* ------------------------------------------------------------------ *)
(** Non-vacuity: concrete runs meeting all hypotheses, with spilled entries that are read back,
    evicted and finalized, next to foreign files. *)
Definition idn (x : nat) : nat := x.
Definition ex_fs0 : fsys nat := [((3, 8, 0)%nat, 99%nat); ((4, 7, 0)%nat, 98%nat)].

(** a LinearTime adapter (id 7, location 3) with room for one payload *)
Definition ex_cfg : config := mkc KLinear (Some 8) 3%nat 7%nat.
Definition ex_ops : list (op nat nat) :=
  [Push 0 10%nat 8; Pull 0 0; Push 10 11%nat 8; Push 20 12%nat 8; Pull 0 5;
   Env [((3, 8, 1)%nat, 97%nat); ((3, 7, 0)%nat, 55%nat)];
   Pull 0 15; Push 30 13%nat 8; Pull 0 30; Push 40 14%nat 8].

Example C10_transparent_nonvacuous :
  (forall p, idn (idn p) = p)
  /\ own_part (c_dir ex_cfg) (c_sid ex_cfg) ex_fs0 = []
  /\ delivered idn idn ex_cfg (init [0%nat] ex_fs0) ex_ops
     = [None; Some (Some [Some 10%nat]); None; None; Some (Some [Some 10%nat; Some 11%nat]); None;
        Some (Some [Some 11%nat; Some 12%nat]); None; Some (Some [Some 13%nat]); None]
  /\ delivered idn idn (unlimited ex_cfg) (init [0%nat] []) ex_ops
     = delivered idn idn ex_cfg (init [0%nat] ex_fs0) ex_ops
  /\ Forall good_result (delivered idn idn ex_cfg (init [0%nat] ex_fs0) ex_ops).
Proof.
  split; [reflexivity|]. split; [vm_compute; reflexivity|]. split; [vm_compute; reflexivity|].
  split; [vm_compute; reflexivity|]. vm_compute. repeat constructor; discriminate.
Qed.

Example C10_files_nonvacuous :
  let s := final idn idn ex_cfg (init [0%nat] ex_fs0) ex_ops in
  s_buf s = [(30, InRam 13%nat 8); (40, OnDisk (3, 7, 2)%nat)]
  /\ s_fs s = [((3, 8, 1)%nat, 97%nat); ((3, 7, 2)%nat, 14%nat)]
  /\ s_log s = [Created (3, 7, 0)%nat; Created (3, 7, 1)%nat; Removed (3, 7, 0)%nat true;
                Removed (3, 7, 1)%nat true; Created (3, 7, 2)%nat]
  /\ env_last ex_fs0 ex_ops = [((3, 8, 1)%nat, 97%nat); ((3, 7, 0)%nat, 55%nat)].
Proof. vm_compute. repeat split; reflexivity. Qed.

(** an Output (two consumers, limit 0: everything spilled); mid-run there are files, after
    finalize the file system is the initial one *)
Definition out_cfg : config := mkc KOutput (Some 0) 3%nat 7%nat.
Definition out_ops : list (op nat nat) :=
  [Push 0 10%nat 8; Pull 1 0; Push 10 11%nat 8; Push 20 12%nat 8; Pull 2 4; Pull 1 16; Pull 2 20; Pull 1 20].

Example C10_clean_nonvacuous :
  own_part (c_dir out_cfg) (c_sid out_cfg) ex_fs0 = []
  /\ forallb (fun o => negb (@is_env nat nat o)) out_ops = true
  /\ delivered idn idn out_cfg (init [1; 2]%nat ex_fs0) out_ops
     = [None; Some (Some [Some 10%nat]); None; None; Some (Some [Some 10%nat]);
        Some (Some [Some 12%nat]); Some (Some [Some 12%nat]); Some (Some [Some 12%nat])]
  /\ s_fs (final idn idn out_cfg (init [1; 2]%nat ex_fs0) out_ops)
     = ex_fs0 ++ [((3, 7, 2)%nat, 12%nat)]
  /\ s_fs (final idn idn out_cfg (init [1; 2]%nat ex_fs0) (out_ops ++ [Finalize])) = ex_fs0.
Proof. vm_compute. repeat split; reflexivity. Qed.

(** a static output (limit 0): the publication is spilled, read by two targets at arbitrary
    times, a second and third publication are refused, finalize removes the file *)
Definition st_cfg : config := mkc KStatic (Some 0) 3%nat 7%nat.
Definition st_ops : list (op nat nat) :=
  [Pull 0 5; Push 0 10%nat 48; Pull 0 0; Pull 1 77; Push 0 11%nat 48; Pull 1 (-3); Push 9 12%nat 8].

Example C10_static_nonvacuous :
  c_kind st_cfg = KStatic
  /\ delivered idn idn st_cfg (init [0; 1]%nat ex_fs0) st_ops
     = [Some None; None; Some (Some [Some 10%nat]); Some (Some [Some 10%nat]); None;
        Some (Some [Some 10%nat]); None]
  /\ s_buf (final idn idn st_cfg (init [0; 1]%nat ex_fs0) st_ops) = [(0, OnDisk (3, 7, 0)%nat)]
  /\ s_fs (final idn idn st_cfg (init [0; 1]%nat ex_fs0) st_ops) = ex_fs0 ++ [((3, 7, 0)%nat, 10%nat)]
  /\ s_fs (final idn idn st_cfg (init [0; 1]%nat ex_fs0) (st_ops ++ [Finalize])) = ex_fs0
  /\ s_buf (final idn idn (unlimited st_cfg) (init [0; 1]%nat ex_fs0) st_ops) = [(0, InRam 10%nat 48)].
Proof. vm_compute. repeat split; reflexivity. Qed.

(** two publications per time stamp (limit 0, NextTime): both are buffered and spilled, a request at
    the duplicated time is answered with the first of the two, eviction and finalize remove every file *)
Definition dup_cfg : config := mkc KNext (Some 0) 3%nat 7%nat.
Definition dup_ops : list (op nat nat) :=
  [Push 0 10%nat 8; Push 10 11%nat 8; Push 10 12%nat 8; Pull 0 10; Push 20 13%nat 8; Push 20 14%nat 8; Pull 0 15].

Example C10_duplicate_times_nonvacuous :
  refused (c_kind dup_cfg) (s_buf (final idn idn dup_cfg (init [0%nat] ex_fs0) (firstn 2 dup_ops))) = false
  /\ s_buf (final idn idn dup_cfg (init [0%nat] ex_fs0) (firstn 3 dup_ops))
     = [(0, OnDisk (3, 7, 0)%nat); (10, OnDisk (3, 7, 1)%nat); (10, OnDisk (3, 7, 2)%nat)]
  /\ delivered idn idn dup_cfg (init [0%nat] ex_fs0) dup_ops
     = [None; None; None; Some (Some [Some 11%nat]); None; None; Some (Some [Some 13%nat])]
  /\ delivered idn idn (unlimited dup_cfg) (init [0%nat] []) dup_ops
     = delivered idn idn dup_cfg (init [0%nat] ex_fs0) dup_ops
  /\ s_fs (final idn idn dup_cfg (init [0%nat] ex_fs0) dup_ops)
     = ex_fs0 ++ [((3, 7, 2)%nat, 12%nat); ((3, 7, 3)%nat, 13%nat); ((3, 7, 4)%nat, 14%nat)]
  /\ s_fs (final idn idn dup_cfg (init [0%nat] ex_fs0) (dup_ops ++ [Finalize])) = ex_fs0.
Proof. vm_compute. repeat split; reflexivity. Qed.

Print Assumptions C10_transparent.
Print Assumptions C10_reads_succeed.
Print Assumptions C10_files_confined.
Print Assumptions C10_files_exact.
Print Assumptions C10_clean_after_finalize.
Print Assumptions C10_foreign_untouched.
Print Assumptions C10_fs_restored.
Print Assumptions C10_static_refusal_independent.
Print Assumptions C10_static_single_entry.
Print Assumptions C10_push_appends.
