From Coq Require Import List ZArith Bool.
From FV Require Import Base Spill.
From FVP Require Import Spill_proofs.
Import ListNotations.
Open Scope Z_scope.
Theorem C10_stub : forall (E X : Type) (f : E -> X) t0 b, last_time t0 (mapb f b) = last_time t0 b.
Proof. exact @last_time_map. Qed.
Print Assumptions C10_stub.
