(** C18 — Masked data: compression round-trips and mask rules are as documented.
    Model: FV.Mask on FV.Arr (to_compressed / from_compressed / prepare / masks_compatible /
    masks_equal / Info.accepts (mask part) / metadata exchange over a link).
    This file contains only statements; proofs are in FVP.Mask_proofs (and FVP.Arr_proofs).
    Arrays have ANY rank (shape = list of any length); the property's "up to 3 dimensions" is a
    special case. *)
From Coq Require Import List ZArith Bool Arith.
From FV Require Import Base Arr Mask.
From FVP Require Import Arr_proofs Mask_proofs.
Import ListNotations.

(** [uses_mask w arg m]: the helpers work with mask [m], given either as the mask of a MaskedArray
    (masked-array call form, the [mask] argument is then ignored) or as separate [mask] argument
    next to a plain array.  Quantified (pint) arrays behave like their magnitudes. *)

(** Round trip: for every array [a] of any shape, every mask [m] of that shape, both memory orders,
    both call forms, with or without extra keyword arguments: expanding the compressed vector with
    the same shape, order and mask yields a MaskedArray with exactly the mask [m] whose entry at
    every unmasked position is the original value of that position (masked positions carry none). *)
Theorem C18_roundtrip :
  forall (A : Type) (a : arr A) (m : arr bool) (o : order) (w : ownmask) (arg : mspec) (kw : bool),
    uses_mask w arg m -> ashape m = ashape a ->
    exists d,
      from_compressed (to_compressed a w o arg) (ashape a) o (MBits m) kw = FcMasked d (Some m)
      /\ ashape d = ashape a
      /\ forall idx, in_range (ashape a) idx ->
           (aget m idx = false -> aget d idx = Some (aget a idx))
           /\ (aget m idx = true -> aget d idx = None).
Proof. exact roundtrip. Qed.

(** The mask-free forms (mask argument None / FLEX / NONE / nomask, or a MaskedArray with nomask):
    every value returns to its position; the result is a plain array, or a MaskedArray without
    masked entries when nomask or keyword arguments are given; Mask.NONE with keyword arguments
    is refused (FinamDataError). *)
Theorem C18_roundtrip_unmasked :
  forall (A : Type) (a : arr A) (o : order) (w : ownmask) (arg : mspec) (kw : bool),
    uses_no_mask w arg ->
    let eff := effective_mask w arg in
    match from_compressed (to_compressed a w o arg) (ashape a) o eff kw with
    | FcErr => kw = true /\ eff = MNone
    | FcPlain d =>
        kw = false /\ is_mask eff = false /\ ashape d = ashape a
        /\ forall idx, in_range (ashape a) idx -> aget d idx = Some (aget a idx)
    | FcMasked d mm =>
        mm = None /\ (kw = true \/ eff = MNomask) /\ ashape d = ashape a
        /\ forall idx, in_range (ashape a) idx -> aget d idx = Some (aget a idx)
    end.
Proof. exact roundtrip_unmasked. Qed.

(** The compressed vector consists of the values at the unmasked multi-indices, listed in the
    requested memory order ([indices o] enumerates the shape in C or Fortran order); its length is
    the number of unmasked entries (which does not depend on the order). *)
Theorem C18_compress_length :
  forall (A : Type) (a : arr A) (m : arr bool) (o : order) (w : ownmask) (arg : mspec),
    uses_mask w arg m -> ashape m = ashape a ->
    to_compressed a w o arg
      = map (aget a) (filter (fun idx => negb (aget m idx)) (indices o (ashape m)))
    /\ length (to_compressed a w o arg) = unmasked_count m.
Proof.
  intros A a m o w arg Hu Hs. split.
  - exact (compressed_spec A a m o w arg Hu Hs).
  - exact (compressed_length A a m o w arg Hu Hs).
Qed.

(** Preparing plain (not yet masked) data of any accepted payload form — flat vector, grid-shaped,
    grid-shaped with time axis — for a grid of any data shape and either memory order under an
    info with the fixed mask [m] yields exactly the mask [m] (C-order listing of the result's mask
    = C-order listing of [m]); under nomask an all-false mask of the grid's size; and the data are
    the payload laid out in the grid's order. *)
Theorem C18_prepare_mask :
  forall (A : Type) (sh : shape) (o : order) (form : payload_form) (vals : list A) (d : A) (m : arr bool),
    ashape m = sh -> length vals = size sh ->
    snd (prepare_mask sh o form vals d None (MBits m)) = Some (ravel OC m)
    /\ (exists bits, snd (prepare_mask sh o form vals d None MNomask) = Some bits
          /\ length bits = size sh /\ forall b, In b bits -> b = false)
    /\ (forall im, mask_specified im = false -> snd (prepare_mask sh o form vals d None im) = None)
    /\ forall idx, in_range sh idx ->
         nth (flat OC sh idx) (fst (prepare_mask sh o form vals d None (MBits m))) d
         = nth (match form with Flat => flat o sh idx | _ => flat OC sh idx end) vals d.
Proof.
  intros A sh o form vals d m Hs Hl. repeat split.
  - apply prepare_fixed_mask; auto.
  - apply prepare_nomask.
  - intros im Him. apply prepare_unmasked; auto.
  - intros idx Hi. apply prepare_data; auto.
Qed.

(** Acceptance during connect.  [doc_accepts c cg p pg] is the documented relation "a consumer
    with mask specification [c] on grid [cg] accepts a producer with [p] on [pg]":
      FLEX consumer  : every producer whose mask is set (FLEX, NONE, nomask, explicit);
      NONE consumer  : only NONE producers;
      fixed consumer (nomask or explicit bits): only fixed producers whose mask is equal after
        [to_canonical] on both grids (nomask = all-false; a side without grid is compared as is);
      an unset producer mask is never accepted (and an unset consumer mask never asks).
    [masks_compatible] decides exactly this relation, in both directions of the call. *)
Theorem C18_acceptance_table :
  forall (c p : mspec) (cg pg : option gspec),
    (masks_compatible c p false cg pg = true <-> doc_accepts c cg p pg)
    /\ masks_compatible p c true pg cg = masks_compatible c p false cg pg
    /\ masks_compatible c MUnset false cg pg = false
    /\ (c <> MUnset -> (accepts_mask c cg p pg false = true <-> doc_accepts c cg p pg)).
Proof.
  intros c p cg pg. split; [apply acceptance_table|]. split; [apply compatible_direction|].
  split; [apply unset_producer_refused|]. apply accepts_consumer.
Qed.

(** A whole metadata exchange over a link (output side check, grid adoption, input side check):
    if it succeeds for a consumer with a set mask, the documented relation holds between the two
    ends and the input ends up with the producer's mask; and if the relation holds it succeeds. *)
Theorem C18_exchange :
  forall (om im : mspec) (og ig : option gspec),
    im <> MUnset ->
    (forall r, exchange om og im ig = Some r ->
       r = om /\ doc_accepts im ig om (match og with Some g => Some g | None => ig end))
    /\ (forall g', (match og with Some g => Some g | None => ig end) = Some g' ->
          doc_accepts im ig om og -> doc_accepts im ig om (Some g') ->
          exchange om og im ig = Some om).
Proof.
  intros om im og ig Him. split.
  - intros r H. eapply exchange_sound; eauto.
  - intros g' Eg H1 H2. eapply exchange_complete; eauto.
Qed.

(** "Equal after accounting for the layout" is meaningful: [to_canonical] loses nothing
    ([from_canonical] inverts it for every layout, any rank, any axes_increase vector). *)
Theorem C18_canonical_invertible :
  forall (A : Type) (g : gspec) (a : arr A), arr_eq (from_canonical g (to_canonical g a)) a.
Proof. exact from_to_canonical. Qed.

(** A re-used Info object that is mutated between calls (grid replaced by one of the other memory
    order / another layout, mask replaced, copy_with, copy, accepts in between): the result of a
    [prepare] depends only on the CURRENT fields of the info, never on the history; in particular
    (with C18_prepare_mask) it applies exactly the current fixed mask. *)
Theorem C18_prepare_history_independent :
  forall (st : info_state) (ops1 : list info_op) (form : payload_form) (vals : list Z) (ops2 : list info_op),
    let cur := info_final st ops1 in
    nth (length ops1) (info_run st (ops1 ++ IPrepare form vals :: ops2)) SNothing
    = let r := prepare_mask (i_shape cur) (i_order cur) form vals 0%Z None (i_mask cur) in
      SPrep (fst r) (snd r).
Proof. exact prepare_history_independent. Qed.

(** State left behind by a refused call: an assignment [info.mask = m] (or [copy_with(mask=m)])
    whose explicit mask does not have the grid's data shape is refused (FinamMetaDataError) and
    leaves the info exactly as it was, so every later prepare / accepts behaves as if the refused
    call had never happened; and in every reachable state the info's explicit mask has the
    grid's data shape. *)
Theorem C18_refused_unchanged :
  forall (st : info_state) (op : info_op) (ops : list info_op),
    snd (info_step st op) = SRefused ->
    fst (info_step st op) = st
    /\ info_run st (op :: ops) = SRefused :: info_run st ops.
Proof.
  intros st op ops H. split; [apply refused_unchanged | apply refused_invisible]; exact H.
Qed.

Theorem C18_mask_fits_grid :
  forall (st : info_state) (ops : list info_op),
    mask_fits (i_shape st) (i_mask st) = true ->
    mask_fits (i_shape (info_final st ops)) (i_mask (info_final st ops)) = true.
Proof. intros st ops H. exact (info_final_wf ops st H). Qed.

(** * Non-vacuity *)

Definition ex_a : arr Z := of_list OC [3; 2] [10; 11; 12; 13; 14; 15]%Z 0%Z.
Definition ex_m : arr bool := of_list OC [3; 2] [true; false; false; false; false; true] false.

(** 3x2 array, partial mask, Fortran order, separate-mask form: hypotheses hold, the compressed
    vector is in F order and the expansion restores the unmasked values *)
Example C18_roundtrip_nonvacuous :
  uses_mask Plain (MBits ex_m) ex_m /\ ashape ex_m = ashape ex_a
  /\ to_compressed ex_a Plain OF (MBits ex_m) = [12; 14; 11; 13]%Z
  /\ unmasked_count ex_m = 4
  /\ fc_observe (from_compressed [12; 14; 11; 13]%Z [3; 2] OF (MBits ex_m) false)
     = RMasked [3; 2] [None; Some 11; Some 12; Some 13; Some 14; None]%Z
               [true; false; false; false; false; true].
Proof. repeat split; try (vm_compute; reflexivity). right. split; reflexivity. Qed.

Example C18_roundtrip_unmasked_nonvacuous :
  uses_no_mask Plain MNomask
  /\ fc_observe (from_compressed (to_compressed ex_a Plain OF MNomask) [3; 2] OF MNomask false)
     = RMasked [3; 2] [Some 10; Some 11; Some 12; Some 13; Some 14; Some 15]%Z
               [false; false; false; false; false; false].
Proof. split; [right; split; [reflexivity|discriminate]|vm_compute; reflexivity]. Qed.

(** flat payload on a Fortran-ordered 3x2 grid under a fixed, non-symmetric mask *)
Definition ex_m2 : arr bool := of_list OC [3; 2] [true; true; false; false; false; false] false.
Example C18_prepare_nonvacuous :
  ashape ex_m2 = [3; 2] /\ length [0; 1; 2; 3; 4; 5]%Z = size [3; 2]
  /\ prepare_mask [3; 2] OF Flat [0; 1; 2; 3; 4; 5]%Z 0%Z None (MBits ex_m2)
     = ([0; 3; 1; 4; 2; 5]%Z, Some [true; true; false; false; false; false]).
Proof. repeat split; vm_compute; reflexivity. Qed.

(** the same physical mask on a 2x3 grid and on its transposed, y-flipped layout is accepted;
    the raw-equal bit pattern on a flipped layout is not; FLEX accepts; NONE refuses nomask *)
Definition ex_p : arr bool := of_list OC [2; 3] [true; false; false; false; false; false] false.
Definition ex_c : arr bool := of_list OC [3; 2] [false; false; false; false; true; false] false.
Example C18_acceptance_nonvacuous :
  masks_compatible (MBits ex_c) (MBits ex_p) false
     (Some (GStruct true [true; false])) (Some (GStruct false [true; true])) = true
  /\ masks_compatible (MBits ex_p) (MBits ex_p) false
     (Some (GStruct false [true; false])) (Some (GStruct false [true; true])) = false
  /\ masks_compatible MFlex (MBits ex_p) false None None = true
  /\ masks_compatible MNone MNomask false None None = false
  /\ exchange (MBits ex_p) (Some (GStruct false [true; true])) (MBits ex_c)
       (Some (GStruct true [true; false])) <> None.
Proof. repeat split; try (vm_compute; reflexivity). intro H. vm_compute in H. discriminate H. Qed.

(** flat prepare on an F-ordered 3x2 grid, grid replaced by the C-ordered one, flat prepare again:
    both results carry exactly the fixed mask *)
Example C18_history_nonvacuous :
  info_run (mkinfo [3; 2] OF (GStruct false [true; true]) (MBits ex_m2))
    [IPrepare Flat [0; 1; 2; 3; 4; 5]%Z; ISetGrid OC (GStruct false [true; true]);
     IPrepare Flat [0; 1; 2; 3; 4; 5]%Z]
  = [SPrep [0; 3; 1; 4; 2; 5]%Z (Some [true; true; false; false; false; false]); SNothing;
     SPrep [0; 1; 2; 3; 4; 5]%Z (Some [true; true; false; false; false; false])].
Proof. vm_compute. reflexivity. Qed.

(** a transposed (2x3 instead of 3x2) mask is refused and the following flat prepare still
    applies the old fixed mask *)
Example C18_refused_nonvacuous :
  let st := mkinfo [3; 2] OC (GStruct false [true; true]) (MBits ex_m2) in
  let bad := ISetMask (mkbits [2; 3] [false; false; true; false; false; true]) in
  snd (info_step st bad) = SRefused
  /\ mask_fits (i_shape st) (i_mask st) = true
  /\ info_run st [bad; IPrepare Flat [0; 1; 2; 3; 4; 5]%Z]
     = [SRefused; SPrep [0; 1; 2; 3; 4; 5]%Z (Some [true; true; false; false; false; false])].
Proof. repeat split; vm_compute; reflexivity. Qed.

Print Assumptions C18_roundtrip.
Print Assumptions C18_roundtrip_unmasked.
Print Assumptions C18_compress_length.
Print Assumptions C18_prepare_mask.
Print Assumptions C18_acceptance_table.
Print Assumptions C18_exchange.
Print Assumptions C18_canonical_invertible.
Print Assumptions C18_prepare_history_independent.
Print Assumptions C18_refused_unchanged.
Print Assumptions C18_mask_fits_grid.
