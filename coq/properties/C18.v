From Coq Require Import List ZArith Bool Arith.
From FV Require Import Base Arr Mask.
From FVP Require Import Arr_proofs Mask_proofs.
Import ListNotations.

Theorem C18_compress_length : forall A (a : arr A) (m : arr bool) (o : order),
  ashape m = ashape a ->
  to_compressed a (OwnBits m) o MUnset
  = map (aget a) (filter (fun idx => negb (aget m idx)) (indices o (ashape a))).
Proof. exact compressed_spec. Qed.
Print Assumptions C18_compress_length.
