(** C17 — Units: compatibility is dimensional equality, conversion is physically exact.
    Model: FV.Units (compatible_units / equivalent_units / _cache_units / to_units / prepare /
    Info.accepts / Output >> Input link; pint is an oracle modelled by the catalogue table).
    This file contains only statements; proofs are in FVP.Units_proofs. *)
From Coq Require Import List ZArith QArith Bool Arith.
From FV Require Import Base Units.
From FVP Require Import Units_proofs.
Import ListNotations.
Open Scope Q_scope.

(** History independence.  [Un] is any universe of pint.Unit objects whose identity [cid]
    (the key of the memo) determines the physical unit ([faithful]); [c] any memo that is
    sound for it (e.g. the empty one, or the memo left by any earlier session).  For EVERY
    session [ops] over [Un] — queries, conversions, links, cache clears anywhere — every answer
    of the memoised code equals the pure dimensional-analysis answer [pure_res], which does
    not look at the memo. *)
Theorem C17_memo_pure :
  forall (Un : list uent) (ops : list op) (c : cache),
    faithful Un -> sound Un c -> incl (ops_ents ops) Un ->
    run c ops = map pure_res ops.
Proof. exact memo_pure. Qed.

(** The same, literally as "answers do not depend on which pairs were queried before",
    and instantiated on the catalogue. *)
Theorem C17_history_independent :
  (forall (Un : list uent) (h1 h2 ops : list op),
      faithful Un -> incl (ops_ents h1) Un -> incl (ops_ents h2) Un -> incl (ops_ents ops) Un ->
      run (final [] h1) ops = run (final [] h2) ops)
  /\ faithful catalogue
  /\ (forall ops, incl (ops_ents ops) catalogue -> c17_model ops = map pure_res ops).
Proof. exact (conj history_independent (conj catalogue_faithful catalogue_session)). Qed.

(** [compatible] is dimensional equality, hence an equivalence relation; [convert] is the
    affine map of dimensional analysis, functorial (composition, identity) and invertible. *)
Theorem C17_compat_equiv :
  (forall u v, compatible u v = true <-> dims u = dims v)
  /\ (forall u, compatible u u = true)
  /\ (forall u v, compatible u v = compatible v u)
  /\ (forall u v w, compatible u v = true -> compatible v w = true -> compatible u w = true)
  /\ (forall u v x, wf v ->
        convert u v x == (factor u / factor v) * x + (offset u - offset v) / factor v)
  /\ (forall u x, wf u -> convert u u x == x)
  /\ (forall u v w x, wf v -> wf w -> convert v w (convert u v x) == convert u w x)
  /\ (forall u v x, wf u -> wf v -> convert v u (convert u v x) == x)
  /\ (forall u v, equivalent u v = true <-> dims u = dims v /\ convert u v 1 == 1)
  /\ (forall u v, wf u -> wf v -> equivalent u v = equivalent v u).
Proof.
  exact (conj compatible_iff (conj compatible_refl (conj compatible_sym (conj compatible_trans
        (conj convert_affine (conj convert_id (conj convert_compose (conj convert_inverse
        (conj equivalent_iff equivalent_sym))))))))).
Qed.

(** Relabelling changes no number.  The unconditional statement [C17_equivalent_relabel_full]
    is FALSE for abstract offset units ("converting 1 gives 1" does not make an affine map the
    identity), see [C17_equiv_not_identity_example]; it is proved (i) for all units under the
    hypothesis that the offsets agree and (ii) unconditionally for all pairs of the catalogue.
    In the modelled branches the relabelled number is passed on syntactically unchanged. *)
Definition C17_equivalent_relabel_full : Prop :=
  forall u v, wf u -> wf v -> equivalent u v = true -> forall x, convert u v x == x.

Theorem C17_equivalent_relabel_partial :
  (forall u v, wf v -> equivalent u v = true -> offset u == offset v ->
               forall x, convert u v x == x)
  /\ (forall a b, In a catalogue -> In b catalogue -> equivalent (uu a) (uu b) = true ->
               forall x, convert (uu a) (uu b) x == x)
  /\ (forall a b x, equivalent (uu a) (uu b) = true -> p_prepare a b x = inl (a, false, x))
  /\ (forall a b x, equivalent (uu b) (uu a) = true ->
               exists e, p_to_units a b true x = inl (e, false, x) /\ cid e = cid b).
Proof.
  exact (conj equivalent_relabel (conj relabel_catalogue (conj relabel_prepare relabel_to_units))).
Qed.

Theorem C17_equiv_not_identity_example :
  (wf ex_u /\ wf ex_v /\ equivalent ex_u ex_v = true /\ ~ convert ex_u ex_v 0 == 0)
  /\ ~ C17_equivalent_relabel_full.
Proof. exact (conj equiv_not_identity relabel_full_false). Qed.

(** Refusal.  With a sound memo [c] (any history), for units [a], [b] of different dimension:
    prepare -> FinamDataError, to_units -> pint's DimensionalityError, accepts -> False,
    a link between them -> FinamMetaDataError, data published in [a] on an output declared in
    [b] -> FinamDataError.  For units of equal dimension none of them refuses. *)
Theorem C17_refuse :
  forall (Un : list uent) (c : cache) (a b : uent),
    faithful Un -> sound Un c -> In a Un -> In b Un ->
    (compatible (uu a) (uu b) = false ->
       (forall x, fst (step c (Prepare a b x)) = RErr ErrData)
       /\ (forall chk x, fst (step c (ToUnits a b chk x)) = RErr ErrDim)
       /\ fst (step c (Accepts a b)) = RBool false
       /\ (forall k x, (forall k', k = Some k' -> In k' Un) ->
             fst (step c (Link k a b x)) = RErr ErrMeta)
       /\ (forall d x, In d Un -> compatible (uu b) (uu d) = true ->
             fst (step c (Link (Some a) b d x)) = RErr ErrData))
    /\ (compatible (uu a) (uu b) = true ->
       (forall x, exists u cv y, fst (step c (Prepare a b x)) = RVal u cv y)
       /\ (forall chk x, exists u cv y, fst (step c (ToUnits a b chk x)) = RVal u cv y)
       /\ fst (step c (Accepts a b)) = RBool true).
Proof. exact refuse. Qed.

(** What arrives over a link.  Universe with faithful identities, positive factors and
    equal offsets on equivalent pairs (all three hold for the catalogue): output declared in
    [a], data published in [k] (or bare), consumer asks for [b], all of one dimension.  The
    link is not refused, the received data is labelled with the consumer's unit and its number
    is the dimensional-analysis conversion of the published number from [k] (resp. [a]) to [b]. *)
Theorem C17_link_exact :
  forall (Un : list uent) (k a b : uent) (x : Q),
    faithful Un -> (forall u, In u Un -> wf (uu u)) -> offsets_ok Un ->
    In k Un -> In a Un -> In b Un ->
    compatible (uu k) (uu a) = true -> compatible (uu a) (uu b) = true ->
    (exists us cs xs cv y,
        p_link (Some k) a b x = RLink us cs xs (cid b) cv y /\ y == convert (uu k) (uu b) x)
    /\ (exists cv y,
        p_link None a b x = RLink (cid a) false x (cid b) cv y /\ y == convert (uu a) (uu b) x).
Proof. exact link_exact. Qed.

Theorem C17_catalogue_ok :
  faithful catalogue /\ (forall u, In u catalogue -> wf (uu u)) /\ offsets_ok catalogue.
Proof. exact (conj catalogue_faithful (conj catalogue_wf catalogue_offsets_ok)). Qed.

(** Conversion commutes with masking: the cells visible under any mask carry exactly the
    converted numbers (the correspondence judges gridded, masked payloads cell by cell). *)
Theorem C17_convert_commutes_mask :
  forall u v (m : list bool) (l : list Q),
    mask_with m (map (convert u v) l) = map (option_map (convert u v)) (mask_with m l).
Proof. exact convert_commutes_mask. Qed.

(** n reads of the same link / conversion (a static input pulled n times, a timed one re-read)
    give n copies of the dimensional-analysis answer. *)
Theorem C17_repeated_reads :
  forall (Un : list uent) (o : op) (n : nat) (c : cache),
    faithful Un -> sound Un c -> incl (op_ents o) Un ->
    run c (repeat o n) = repeat (pure_res o) n.
Proof. exact repeated_reads. Qed.

(** A link through an adapter that changes the units (asks upstream without units, delivers the
    numbers labelled [d]): the consumer's units [b] are judged against the DELIVERED units.  With any
    sound memo: different dimension -> refused with FinamMetaDataError, whatever the output declares.
    Equal dimension -> delivered with the consumer's label, the number is the dimensional-analysis
    conversion from [d] to [b] of the number the output holds (which is the published number
    converted from [k] to the output's units [a]). *)
Theorem C17_adapter_link :
  (forall Un c k a d b x, faithful Un -> sound Un c ->
     (forall k', k = Some k' -> In k' Un) -> In a Un -> In d Un -> In b Un ->
     compatible (uu d) (uu b) = false ->
     fst (step c (ALink k a d b x)) = RErr ErrMeta)
  /\ (forall Un k a d b x,
     faithful Un -> (forall u, In u Un -> wf (uu u)) -> offsets_ok Un ->
     In k Un -> In a Un -> In d Un -> In b Un ->
     compatible (uu k) (uu a) = true -> compatible (uu d) (uu b) = true ->
     exists us cs xs cv y,
       p_alink (Some k) a d b x = RLink us cs xs (cid b) cv y
       /\ y == convert (uu d) (uu b) xs
       /\ (exists se, In se Un /\ cid se = us
             /\ convert (uu se) (uu a) xs == convert (uu k) (uu a) x)).
Proof. exact (conj alink_refuse alink_exact). Qed.

(* g published on a kg output, adapter delivers mm, consumer m / consumer kg *)
Example C17_adapter_link_nonvacuous :
  fst (step [] (ALink (Some (U 14)) (U 13) (U 3) (U 0) 1500)) = RLink 10 true (1500#1000) 0 true (1500#1000000)
  /\ fst (step [] (ALink (Some (U 14)) (U 13) (U 3) (U 13) 1500)) = RErr ErrMeta
  /\ compatible (uu (U 3)) (uu (U 13)) = false /\ compatible (uu (U 13)) (uu (U 13)) = true.
Proof. repeat split; vm_compute; reflexivity. Qed.

(** A state declared in [a] reset with [full_like(template, Quantity(x, f))] and published to a
    consumer in [b]: refused (pint's DimensionalityError) when [f] and [a] differ in dimension,
    otherwise the consumer receives the dimensional-analysis conversion of the FILL VALUE from its
    own units [f] to [b].
    A component computing in its input's own units [m] between a generator in [s] and a consumer in
    [d] (output info derived from the input's info, plain doubled magnitudes pushed): refused with
    FinamMetaDataError when a link joins different dimensions, otherwise the middle output holds
    2 * convert s m x (labelled [m]) and the consumer receives its conversion from [m] to [d]. *)
Theorem C17_fill_and_chain :
  (forall Un f a b x,
     faithful Un -> (forall u, In u Un -> wf (uu u)) -> offsets_ok Un -> In a Un -> In b Un ->
     (compatible (uu f) (uu a) = false -> p_fill f a b x = RErr ErrDim)
     /\ (compatible (uu f) (uu a) = true -> compatible (uu a) (uu b) = true ->
         exists us xs y, p_fill f a b x = RLink us true xs (cid b) true y
                         /\ y == convert (uu f) (uu b) x))
  /\ (forall Un s m d x,
     faithful Un -> (forall u, In u Un -> wf (uu u)) -> offsets_ok Un ->
     In s Un -> In m Un -> In d Un ->
     (compatible (uu s) (uu m) = false \/ compatible (uu m) (uu d) = false ->
        p_chain s m d x = RErr ErrMeta)
     /\ (compatible (uu s) (uu m) = true -> compatible (uu m) (uu d) = true ->
         exists cs xs cv z, p_chain s m d x = RLink (cid m) cs xs (cid d) cv z
           /\ xs == 2 * convert (uu s) (uu m) x
           /\ z == convert (uu m) (uu d) (2 * convert (uu s) (uu m) x))).
Proof. exact (conj fill_exact chain_exact). Qed.

(* 1.5 km filled into an m state, consumer cm;  generator m -> component in mm -> consumer m *)
Example C17_fill_and_chain_nonvacuous :
  convert (uu (U 2)) (uu (U 4)) (15#10) == 150000
  /\ (exists us xs y, fst (step [] (Fill (U 2) (U 0) (U 4) (15#10))) = RLink us true xs 3 true y /\ y == 150000)
  /\ (exists cs xs cv z, fst (step [] (Chain (U 0) (U 3) (U 0) (15#10))) = RLink 2 cs xs 0 cv z
        /\ xs == 3000 /\ z == 3)
  /\ fst (step [] (Chain (U 0) (U 6) (U 0) 1)) = RErr ErrMeta.
Proof.
  split; [vm_compute; reflexivity|]. split; [|split].
  - vm_compute. do 3 eexists. split; reflexivity.
  - vm_compute. do 4 eexists. repeat split; reflexivity.
  - vm_compute. reflexivity.
Qed.

(** A relaying component with its own units on BOTH sides between a generator in [s] and a
    consumer in [d]: input declared in [m], output declared in [o]; it publishes [g] times the pulled
    magnitudes as a quantity labelled [m] (TimeTrigger with in_info and out_info, g = 1) or as plain
    numbers meant in [o] ([bare]).  Refused with FinamMetaDataError when a link joins different
    dimensions, with FinamDataError when the labelled payload does not fit the output's units;
    otherwise the consumer receives, labelled [d], the dimensional-analysis conversion of
    g * convert s m x  from [m] (labelled payload) resp. [o] (plain numbers) to [d]. *)
Theorem C17_relay :
  (forall Un s m o d bare g x,
     faithful Un -> (forall u, In u Un -> wf (uu u)) -> offsets_ok Un ->
     In s Un -> In m Un -> In o Un -> In d Un ->
     compatible (uu s) (uu m) = true -> compatible (uu o) (uu d) = true ->
     (bare = false -> compatible (uu m) (uu o) = true) ->
     exists us cs xs cv z, p_relay s m o d bare g x = RLink us cs xs (cid d) cv z
       /\ z == convert (uu (if bare then o else m)) (uu d) (g * convert (uu s) (uu m) x))
  /\ (forall Un s m o d bare g x,
     faithful Un -> (forall u, In u Un -> wf (uu u)) -> offsets_ok Un ->
     In s Un -> In m Un -> In o Un -> In d Un ->
     (compatible (uu s) (uu m) = false \/ compatible (uu o) (uu d) = false ->
        p_relay s m o d bare g x = RErr ErrMeta)
     /\ (compatible (uu s) (uu m) = true -> compatible (uu o) (uu d) = true ->
         bare = false -> compatible (uu m) (uu o) = false ->
         p_relay s m o d bare g x = RErr ErrData)).
Proof. exact (conj relay_exact relay_refuse). Qed.

(* m -> TimeTrigger(In mm, Out km) -> cm: 1.5 m arrives as 150 cm; In mm / Out s refused *)
Example C17_relay_nonvacuous :
  (exists us cs xs cv z, fst (step [] (Relay (U 0) (U 3) (U 2) (U 4) false 1 (15#10))) = RLink us cs xs 3 cv z
        /\ z == 150)
  /\ fst (step [] (Relay (U 0) (U 3) (U 6) (U 6) false 1 1)) = RErr ErrData
  /\ fst (step [] (Relay (U 0) (U 3) (U 2) (U 6) true 2 1)) = RErr ErrMeta.
Proof.
  split; [|split; vm_compute; reflexivity].
  vm_compute. do 5 eexists. split; reflexivity.
Qed.

(** Non-vacuity. *)
(* a session on the catalogue with repeated / reversed pairs, a clear, a relabel, offsets, a
   refused link; memoised answers = pure answers, and they are not all trivial *)
Definition ex_ops : list op :=
  [Equiv (U 0) (U 0); Equiv (U 0) (U 2); Compat (U 0) (U 2); Equiv (U 2) (U 0); Clear;
   Compat (U 2) (U 0); Equiv (U 26) (U 24); ToUnits (U 26) (U 24) true (5#2);
   ToUnits (U 40) (U 41) true 1; Prepare (U 0) (U 6) 1;
   Link (Some (U 3)) (U 0) (U 2) (5#2); Link (Some (U 3)) (U 0) (U 6) 1].
Example C17_memo_pure_nonvacuous :
  incl (ops_ents ex_ops) catalogue
  /\ run [] ex_ops =
     [RBool true; RBool false; RBool true; RBool false; RUnit; RBool true; RBool true;
      RVal 18 false (5#2); RVal 29 true (5483#20); RErr ErrData;
      RLink 0 true (5#2000) 1 true (5#2000000); RErr ErrMeta]
  /\ length (final [] ex_ops) = 8%nat.
Proof.
  split; [|split; vm_compute; reflexivity].
  intros e He. unfold ex_ops, ops_ents in He. cbn [flat_map op_ents app] in He.
  repeat (destruct He as [<-|He]; [unfold U; apply nth_In; apply Nat.ltb_lt; vm_compute; reflexivity|]).
  destruct He.
Qed.

(* compatible / equivalent on concrete units: m vs km (compatible, not equivalent),
   Hz vs 1/s (equivalent, different identity), m vs s (incompatible), degC -> K affine *)
Example C17_compat_equiv_nonvacuous :
  compatible (uu (U 0)) (uu (U 2)) = true /\ equivalent (uu (U 0)) (uu (U 2)) = false
  /\ equivalent (uu (U 26)) (uu (U 24)) = true /\ Nat.eqb (cid (U 26)) (cid (U 24)) = false
  /\ compatible (uu (U 0)) (uu (U 6)) = false
  /\ wf (uu (U 40)) /\ wf (uu (U 42))
  /\ convert (uu (U 42)) (uu (U 40)) (-40) == -40      (* -40 degF = -40 degC *)
  /\ convert (uu (U 40)) (uu (U 41)) 1 == 27415 # 100.
Proof. repeat split; vm_compute; reflexivity. Qed.

Example C17_refuse_nonvacuous :
  In (U 0) catalogue /\ In (U 6) catalogue /\ compatible (uu (U 0)) (uu (U 6)) = false
  /\ fst (step [] (Prepare (U 0) (U 6) 1)) = RErr ErrData
  (* memo hit on the sound entry (meter, second) -> (false, false) *)
  /\ fst (step [((0, 4), (false, false))]%nat (Link None (U 0) (U 6) 1)) = RErr ErrMeta
  /\ compatible (uu (U 0)) (uu (U 3)) = true
  /\ fst (step [] (Prepare (U 0) (U 3) 1)) = RVal 2 true 1000.
Proof. repeat split; vm_compute; auto 10. Qed.

Example C17_link_exact_nonvacuous :   (* mm/d published on an m/s output, consumer km/h *)
  p_link (Some (U 29)) (U 27) (U 32) 86400 = RLink 20 true (86400#86400000) 22 true (1555200#432000000)
  /\ convert (uu (U 29)) (uu (U 32)) 86400 == 36 # 10000.
Proof. split; vm_compute; reflexivity. Qed.

Print Assumptions C17_memo_pure.
Print Assumptions C17_history_independent.
Print Assumptions C17_compat_equiv.
Print Assumptions C17_equivalent_relabel_partial.
Print Assumptions C17_equiv_not_identity_example.
Print Assumptions C17_refuse.
Print Assumptions C17_link_exact.
Print Assumptions C17_catalogue_ok.
Print Assumptions C17_convert_commutes_mask.
Print Assumptions C17_repeated_reads.
Print Assumptions C17_adapter_link.
Print Assumptions C17_fill_and_chain.
Print Assumptions C17_relay.
