(** C01 — the scheduler never updates a component before its input data exists.
    Model: FV.Sched (Composition.run / _update_recursive / _find_dependencies and the time-shifting
    adapters).  Only statements here; proofs in FVP.Sched_proofs / FVP.Adapters_proofs. *)
From Coq Require Import List ZArith Bool.
From FV Require Import Base Sched SchedSparse.
From FVP Require Import Adapters_proofs Sched_proofs SchedSparse_proofs SparseC01_proofs.
Import ListNotations.
Open Scope Z_scope.

(** Whenever [_update_recursive] (any state, any chain, any fuel) ends up updating a component [u]:
    for every input of [u] whose link is not cut by a dependency-breaking adapter, the time-stepped
    source has published at or beyond the time the link needs for [u]'s announced next time ... *)
Theorem C01_available :
  forall fuel cs st acc c chain tgt u st' acc' e,
    update_rec fuel cs st acc c chain tgt = UUpdated u st' acc' e ->
    forall k inp lt,
      nth_error (c_inputs (getc cs u)) k = Some inp ->
      link_req cs st u k inp (next_time cs st u) = Some lt ->
      is_time cs (fst (i_src inp)) = true ->
      lt <= s_time st (fst (i_src inp)).
Proof.
  intros fuel cs st acc c chain tgt u st' acc' e H k inp lt Hk Hr Ti.
  destruct (update_rec_props fuel cs st acc c chain tgt) as [_ HB].
  destruct (HB _ _ _ _ H) as [_ [_ [Hs _]]].
  destruct fuel as [|fuel]; [destruct Hs|]. destruct (Hs k inp lt Hk Hr) as [H1 _]. exact (H1 Ti).
Qed.

(** ... and through pull-based components, to any nesting depth ([servedn], FVP.Sched_proofs). *)
Theorem C01_available_through_pull_based :
  forall fuel cs st acc c chain tgt u st' acc' e,
    update_rec fuel cs st acc c chain tgt = UUpdated u st' acc' e ->
    servedn fuel cs st u (next_time cs st u).
Proof.
  intros fuel cs st acc c chain tgt u st' acc' e H.
  destruct (update_rec_props fuel cs st acc c chain tgt) as [_ HB].
  destruct (HB _ _ _ _ H) as [_ [_ [Hs _]]]. exact Hs.
Qed.

(** The time the driver checks IS the time that reaches the end of the pulled part of the link when
    the component pulls (all chains, all adapter states): the availability above is about the
    request that is actually made. *)
Theorem C01_checked_time_is_requested_time :
  forall ch ss init pt t lt,
    sched_walk ch ss init pt false t = Some lt -> pull_time ch ss init pt t = lt.
Proof. exact sched_req_is_actual. Qed.

(** Consequently, in a valid composition ([wf]) and a state satisfying the invariant, none of the pulls
    of the update fails with a time-range or no-data error. *)
Theorem C01_pull_ok :
  forall cs, wf cs -> forall fuel st acc c chain tgt u st' acc' e,
    Inv cs st ->
    update_rec fuel cs st acc c chain tgt = UUpdated u st' acc' e ->
    e <> Some ETime /\ e <> Some ENoData.
Proof.
  intros cs W fuel st acc c chain tgt u st' acc' e Hinv H.
  destruct (update_rec_ok cs W _ _ _ _ _ _ _ _ _ _ Hinv H) as [_ [_ [G _]]]. exact G.
Qed.

(** Whole runs: for every valid composition, every end time and every amount of fuel, the run never
    ends with a time or no-data error. *)
Theorem C01_run_never_fails_on_data :
  forall cs endt fuel o st acc,
    wf cs -> run fuel cs endt = (o, st, acc) -> o <> OTime /\ o <> ONoData.
Proof. exact run_good. Qed.

(** The correspondence check of C01 evaluates FV.SchedSparse — the scheduler model generalised to components that
    publish their outputs only at every p-th update (the driver reads the time of the OUTPUT, not its owner's clock).
    With all periods 1 it is the model of the theorems above: same outcome, same event trace, same final times, for
    every composition, end time and fuel. *)
Theorem C01_sparse_model_refines_dense :
  forall cs endt fuel, sp_model (dense_as_sparse (cs, endt, fuel)) = sched_model (cs, endt, fuel).
Proof. exact sparse_refines_dense. Qed.

(** The property itself for sparse publishers, all publication periods [pe]: whenever the driver advances [u], every
    dependency of [u] is served for [u]'s announced time with respect to what has actually been PUBLISHED (the source
    view [with_time st pub] of the state) ... *)
Theorem C01_available_sparse :
  forall fuel cs pe st pub acc c chain tgt u st' pub' acc' e,
    update_rec_sp fuel cs pe st pub acc c chain tgt = USUpdated u st' pub' acc' e ->
    servedn fuel cs (with_time st pub) u (next_time cs st u).
Proof.
  intros fuel cs pe st pub acc c chain tgt u st' pub' acc' e H.
  destruct (update_rec_sp_props fuel cs pe st pub acc c chain tgt) as [_ HB].
  destruct (HB _ _ _ _ _ H) as [_ [_ Hs]]. exact Hs.
Qed.

(** ... and no run of a valid composition ends with a time or no-data error, whatever the periods. *)
Theorem C01_run_never_fails_on_data_sparse :
  forall cs pe endt fuel o st acc,
    wf cs -> run_sp fuel cs pe endt = (o, st, acc) -> o <> OTime /\ o <> ONoData.
Proof. intros cs pe endt fuel o st acc. apply run_sp_good. Qed.

(** Non-vacuity: a valid composition with a delay in front of a buffering adapter (finding F2), a
    pull-based component read through two outputs (finding F9) and a DelayToPull link. *)
Definition ex_cs : composition :=
  [ mkC (KTime 0 [3; 2] true) 0
        [ mkIn (1, 0)%nat [ABuf; AFixed 4];
          mkIn (2, 0)%nat [];
          mkIn (2, 1)%nat [APass];
          mkIn (1, 0)%nat [AToPull 2 0] ];
    mkC (KTime 0 [2] false) 1 [];
    mkC KPull 2 [ mkIn (1, 0)%nat [AFixed 1] ] ].

Example C01_nonvacuous :
  wf ex_cs /\
  (let '(o, st, acc) := run 100 ex_cs 12 in
   o = OOk /\ final_times ex_cs st = [13; 14; 0] /\ length acc = 72%nat).
Proof. split; [apply wf_b_sound; vm_compute; reflexivity|vm_compute; auto]. Qed.

Print Assumptions C01_available.
Print Assumptions C01_sparse_model_refines_dense.
Print Assumptions C01_available_sparse.
Print Assumptions C01_run_never_fails_on_data_sparse.
Print Assumptions C01_available_through_pull_based.
Print Assumptions C01_checked_time_is_requested_time.
Print Assumptions C01_pull_ok.
Print Assumptions C01_run_never_fails_on_data.
