(** C15 — Canonical form and conversion between compatible grids preserve located values.
    Model: FV.GridCanon on FV.Grid (grid_base.py to_canonical / from_canonical / get_transform_to /
    compatible_with / __eq__, sdk/input.py exchange_info + _convert_and_check).
    This file contains only statements; proofs are in FVP.GridCanon_proofs.

    Vocabulary: an array is a shape with an index function; [canon_shape g] is the shape of canonical
    data (located axes in xyz order); [layout_idx g c] is the index, in the data layout of [g], of
    the element whose canonical index is [c]; [coord_at g i] (FV.Grid, see C14_index_coord) is the
    coordinate of the element at data index [i]; [loc_axes g] are the increasing axes (cell axes for
    cell data). *)
From Coq Require Import List ZArith QArith Bool Arith Lia.
From FV Require Import Base Grid GridCanon.
From FVP Require Import Grid_proofs GridCanon_proofs.
Import ListNotations.
Open Scope nat_scope.

(** Round trip, every layout, every array of the grid's data shape (resp. canonical shape):
    both conversions succeed and the composition is the identity, pointwise. *)
Theorem C15_roundtrip :
  forall (A : Type) (g : grid),
    (forall a : arr A, a_shape a = data_shape g ->
       exists b a', to_canonical g a = Some b /\ from_canonical g b = Some a' /\
                    a_shape b = canon_shape g /\ a_shape a' = a_shape a /\
                    forall i, inb (data_shape g) i -> a_get a' i = a_get a i) /\
    (forall b : arr A, a_shape b = canon_shape g ->
       exists a b', from_canonical g b = Some a /\ to_canonical g a = Some b' /\
                    a_shape a = data_shape g /\ a_shape b' = a_shape b /\
                    forall c, inb (canon_shape g) c -> a_get b' c = a_get b c).
Proof. intros A g. split; [apply roundtrip_data|apply roundtrip_canon]. Qed.

(** Canonical data is indexed in x, y, z order along the increasing axes: element [c] of the
    canonical array is the element of the original data (index [layout_idx g c], a valid index)
    whose coordinate, by the grid's own data axes, is [(x_c0, y_c1, z_c2)] of the increasing axes. *)
Theorem C15_canonical_indexing :
  forall (A : Type) (g : grid) (a : arr A) (c : list nat),
    wf_grid g -> a_shape a = data_shape g -> inb (canon_shape g) c ->
    exists b, to_canonical g a = Some b /\ a_shape b = canon_shape g /\
              a_get b c = a_get a (layout_idx g c) /\
              inb (data_shape g) (layout_idx g c) /\
              coord_at g (layout_idx g c) = coords (loc_axes g) c.
Proof. intros A. exact (@canonical_indexing A). Qed.

(** compatible_with is true exactly when the two grids have the same dimension, crs, data location
    and the same increasing axes ([same_locations]), whatever order / axes_reversed / axes_increase. *)
Theorem C15_compatible_iff :
  forall g h : grid, wf_axes g -> wf_axes h ->
    (compatible g h = true <->
     gdim g = gdim h /\ g_crs g = g_crs h /\ g_pts g = g_pts h /\
     Forall2 (Forall2 Qeq) (g_axes g) (g_axes h)).
Proof. exact compatible_iff. Qed.

(** Link Output(grid g) >> Input(grid h), g and h compatible, data [d] with a leading time axis of
    any length [T]: the data is delivered, has shape [T :: data_shape h], canonical shapes agree, and
    for every time index and every canonical index [c] (i.e. every physical location, by
    C15_canonical_indexing and C15_compatible_iff) the delivered value at the element of [h] located
    there is the source value at the element of [g] located there; grids with equal layout get the
    very same array. *)
Theorem C15_link_transform :
  forall (A : Type) (g h : grid) (d : arr A) (T : nat),
    wf_axes g -> wf_axes h -> 1 <= gdim g -> compatible g h = true ->
    a_shape d = T :: data_shape g ->
    exists out,
      link_deliver g h d = LOk out /\
      a_shape out = T :: data_shape h /\
      canon_shape g = canon_shape h /\
      (forall t c, inb (canon_shape h) c ->
         a_get out (t :: layout_idx h c) = a_get d (t :: layout_idx g c)) /\
      (grid_eq g h = true -> out = d).
Proof. intros A. exact (@link_transform A). Qed.

(** Companion of C15_link_transform: for compatible grids, the element of [g] and the element of [h]
    with the same canonical index [c] are valid data indices located at the same coordinates (as given
    by each grid's own data axes), so "same canonical index" above means "same physical location". *)
Theorem C15_link_locations :
  forall (g h : grid) (c : list nat),
    wf_axes g -> wf_axes h -> compatible g h = true -> inb (canon_shape g) c ->
    inb (data_shape g) (layout_idx g c) /\ inb (data_shape h) (layout_idx h c) /\
    Forall2 Qeq (coord_at g (layout_idx g c)) (coord_at h (layout_idx h c)).
Proof. exact link_locations. Qed.

(** A static input (Input.pull_data with its cache) read any number of times delivers, every time,
    exactly what a single conversion of the source data delivers (to which C15_link_transform
    applies): the transformation is applied once per delivered data set, never to cached data. *)
Theorem C15_static_reads_stable :
  forall (A : Type) (g h : grid) (d : arr A) (n : nat),
    static_reads g h None d n = repeat (link_deliver g h d) n.
Proof. intros A. exact (@static_reads_stable A). Qed.

(** Flat data: a source component may push a 1-D array of data_size entries "in the grid's order";
    tools.prepare reshapes it to [1 :: data_shape g] in order [g_c g] ([flat_arr]).  Over a link between
    compatible grids, the delivered element of [h] with canonical index [c] is entry
    [flat order data_shape (layout_idx g c)] of the flat array, i.e. (C14_index_coord) the entry whose
    position in [data_points g] is that physical location, for every order and axes_reversed. *)
Theorem C15_link_flat :
  forall (A : Type) (d0 : A) (g h : grid) (vals : list A),
    wf_axes g -> wf_axes h -> 1 <= gdim g -> compatible g h = true ->
    exists out,
      link_deliver g h (flat_arr d0 g vals) = LOk out /\
      a_shape out = 1 :: data_shape h /\
      forall c, inb (canon_shape h) c ->
        a_get out (0 :: layout_idx h c) = nth (flat (g_c g) (data_shape g) (layout_idx g c)) vals d0.
Proof. intros A. exact (@link_flat A). Qed.

(** Relay: a component whose input declares its own grid [m] (compatible with the source's [g]) and
    which describes the data it passes on by the info its input's exchange returned (grid [m]),
    followed by a consumer on grid [h] compatible with [m]: the consumer receives, for any three
    layouts and a time axis of any length, every value at the physical location it has in the source. *)
Theorem C15_relay_transform :
  forall (A : Type) (g m h : grid) (d : arr A) (T : nat),
    wf_axes g -> wf_axes m -> wf_axes h -> 1 <= gdim g ->
    compatible g m = true -> compatible m h = true ->
    a_shape d = T :: data_shape g ->
    exists out,
      relay_deliver g m h d = LOk out /\
      a_shape out = T :: data_shape h /\
      canon_shape g = canon_shape h /\
      forall t c, inb (canon_shape h) c ->
        a_get out (t :: layout_idx h c) = a_get d (t :: layout_idx g c).
Proof. intros A. exact (@relay_transform A). Qed.

(** Living grid objects: for every list of grids and every script of comparisons
    (compatible_with, ==, get_transform_to between any two objects, the same partner repeatedly),
    data_location changes and copies, each answer is the pure function of the two objects' CURRENT
    records (to which C15_compatible_iff applies), whatever was asked or set before. *)
Theorem C15_compat_current :
  forall (st : list grid) (ops : list gop), Forall answer_ok (gtrace st ops).
Proof. intros st ops. apply compat_current. Qed.

(** ** Non-vacuity: a 3x4 point grid in F layout and the same locations reversed / y decreasing *)
Definition ex_axes : list (list Q) := [[0#1; 1#1; 3#1]; [5#1; 7#1; 8#1; 12#1]]%Q.
Definition ex_g : grid := mkgrid ex_axes [true; true] false false true 0 false.
Definition ex_h : grid := mkgrid ex_axes [true; false] true true true 0 false.
Definition ex_d : arr Z := arr_of_list 0%Z [1; 3; 4] [0; 10; 20; 30; 1; 11; 21; 31; 2; 12; 22; 32]%Z.

Lemma ex_wf_g : wf_axes ex_g.
Proof. split; [split; [reflexivity|repeat constructor]|repeat constructor]. Qed.
Lemma ex_wf_h : wf_axes ex_h.
Proof. split; [split; [reflexivity|repeat constructor]|repeat constructor]. Qed.

Example C15_roundtrip_nonvacuous :
  data_shape ex_h = [4; 3] /\ canon_shape ex_h = [3; 4] /\
  option_map list_of_arr (to_canonical ex_h (arr_of_list 0%Z [4; 3] [1; 2; 3; 4; 5; 6; 7; 8; 9; 10; 11; 12]%Z))
    = Some [10; 7; 4; 1; 11; 8; 5; 2; 12; 9; 6; 3]%Z.
Proof. repeat split. Qed.

Example C15_canonical_indexing_nonvacuous :
  inb (canon_shape ex_h) [2; 1] /\ layout_idx ex_h [2; 1] = [2; 2] /\
  coord_at ex_h [2; 2] = [3#1; 7#1]%Q.
Proof. split; [repeat constructor|]. split; reflexivity. Qed.

Example C15_compatible_iff_nonvacuous :
  compatible ex_g ex_h = true /\ grid_eq ex_g ex_h = false /\
  compatible ex_g (mkgrid [[0#1; 1#1; 3#1]; [5#1; 7#1; 8#1]]%Q [true; true] false false true 0 false) = false.
Proof. repeat split. Qed.

Example C15_link_transform_nonvacuous :
  wf_axes ex_g /\ wf_axes ex_h /\ compatible ex_g ex_h = true /\ a_shape ex_d = 1 :: data_shape ex_g /\
  match link_deliver ex_g ex_h ex_d with
  | LOk out => a_shape out = [1; 4; 3] /\
               list_of_arr out = [30; 31; 32; 20; 21; 22; 10; 11; 12; 0; 1; 2]%Z
  | _ => False
  end.
Proof.
  split; [exact ex_wf_g|]. split; [exact ex_wf_h|]. split; [reflexivity|]. split; [reflexivity|].
  vm_compute. split; reflexivity.
Qed.

Print Assumptions C15_roundtrip.
Print Assumptions C15_canonical_indexing.
Print Assumptions C15_compatible_iff.
Example C15_link_locations_nonvacuous :
  inb (canon_shape ex_g) [2; 1] /\ layout_idx ex_g [2; 1] = [2; 1] /\ layout_idx ex_h [2; 1] = [2; 2] /\
  coord_at ex_g [2; 1] = coord_at ex_h [2; 2].
Proof. split; [repeat constructor|]. repeat split. Qed.

Example C15_static_reads_stable_nonvacuous :
  map (fun r => match r with LOk out => list_of_arr out | _ => [] end) (static_reads ex_g ex_h None ex_d 3) =
  repeat [30; 31; 32; 20; 21; 22; 10; 11; 12; 0; 1; 2]%Z 3.
Proof. vm_compute. reflexivity. Qed.

(** compare, switch the location of a copy / of the object, compare with the same partner again *)
Example C15_compat_current_nonvacuous :
  map (fun x => snd x) (gtrace [ex_g; ex_h] [GCompat 0 1; GCopy 0; GSet 2 false; GCompat 2 1; GCompat 1 2;
                                             GSet 1 false; GCompat 2 1; GTrans 0 1; GEq 2 2]) =
  [GB true; GCopied; GSetR true; GB false; GB false; GSetR true; GB true; GT TErr; GB true].
Proof. vm_compute. reflexivity. Qed.

Example C15_link_flat_nonvacuous :
  match link_deliver ex_h ex_g (flat_arr 0%Z ex_h [1; 2; 3; 4; 5; 6; 7; 8; 9; 10; 11; 12]%Z) with
  | LOk out => list_of_arr out = [10; 7; 4; 1; 11; 8; 5; 2; 12; 9; 6; 3]%Z
  | _ => False
  end.
Proof. vm_compute. reflexivity. Qed.

Definition ex_m : grid := mkgrid ex_axes [false; true] true false true 0 false.
Example C15_relay_transform_nonvacuous :
  compatible ex_g ex_m = true /\ compatible ex_m ex_h = true /\ grid_eq ex_g ex_m = false /\ grid_eq ex_m ex_h = false /\
  match relay_deliver ex_g ex_m ex_h ex_d, link_deliver ex_g ex_m ex_d with
  | LOk out, LOk mid => list_of_arr out = [30; 31; 32; 20; 21; 22; 10; 11; 12; 0; 1; 2]%Z /\
                        list_of_arr mid = [2; 12; 22; 32; 1; 11; 21; 31; 0; 10; 20; 30]%Z
  | _, _ => False
  end.
Proof. vm_compute. repeat split. Qed.

Print Assumptions C15_relay_transform.
Print Assumptions C15_link_flat.
Print Assumptions C15_compat_current.
Print Assumptions C15_static_reads_stable.
Print Assumptions C15_link_transform.
Print Assumptions C15_link_locations.
