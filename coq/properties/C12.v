(** C12 — Time integration adapters conserve the integral.
    Model: FV.TimeInteg (TimeIntegrationAdapter._source_updated/_get_data, AvgOverTime._interpolate,
    SumOverTime._interpolate of src/finam/adapters/time_integration.py; eviction from time.py).
    This file contains only statements; proofs are in FVP.TimeInteg_proofs.

    [run_i true c init_i ops] = the pull results of the real (evicting) adapter with configuration
    [c] on the script [ops]; [spec_run_i c [] None ops] = for every pull at [p1], with [p0] the
    previous pull (the first publication time before the first pull), evaluated on the FULL history
    published so far ([spec_pull_i]):
      p0 < p1, sum      : [integral step per_time H p0 p1]  (per_time: value x seconds; else the
                          sum of the relative weights, no time factor)
      p0 < p1, average  : [integral step true H p0 p1 / seconds (p1 - p0)]
      initial pull      : the first published value (x initial_interval for per-time sums)
    [integral] is the sum over consecutive publications of closed-form areas
    [antider (dcl p1) - antider (dcl p0)] under the linear / step interpolant ([TimeInteg.seg_area]).
    [valid_i [] None ops]: publication times strictly increase; every in-range pull is strictly later
    than the previous one (or is the initial pull at the first publication time); out-of-range
    pulls may occur anywhere.  Results are compared with [==] on Q ([res_equiv]). *)
From Coq Require Import List ZArith QArith Bool.
From FV Require Import Base TimeInterp TimeInteg.
From FVP Require Import TimeInterp_proofs TimeInteg_proofs.
Import ListNotations.
Open Scope Z_scope.

Theorem C12_sum_is_integral : forall (step : option Q) (per_time : bool) (initial_interval : Z) ops,
  let c := mk_cfg false step per_time initial_interval in
  valid_i [] None ops ->
  Forall2 res_equiv (run_i true c init_i ops) (spec_run_i c [] None ops).
Proof. intros step per_time ii ops c. exact (adapter_is_integral true c ops). Qed.

Theorem C12_avg : forall (step : option Q) ops,
  let c := mk_cfg true step false 0 in
  valid_i [] None ops ->
  Forall2 res_equiv (run_i true c init_i ops) (spec_run_i c [] None ops).
Proof. intros step ops c. exact (adapter_is_integral true c ops). Qed.

(** The integral is additive over every split point (any p0, p1, p2, any history, linear and
    every step position, per-time and absolute): the total over a period does not depend on how it
    is partitioned. *)
Theorem C12_conservation : forall (step : option Q) (per_time : bool) H p0 p1 p2,
  (integral step per_time H p0 p1 + integral step per_time H p1 p2 == integral step per_time H p0 p2)%Q.
Proof. exact integral_additive. Qed.

(** ... and so do the deliveries of the sum adapter itself: after any valid script with lower bound
    [p], pulling at [t1] and then at [t2] delivers in total what one pull at [t2] delivers
    (by induction: any partition of [p, t2] into consumer steps). *)
Theorem C12_conservation_adapter : forall (step : option Q) (per_time : bool) (initial_interval : Z) ops p t1 t2,
  let c := mk_cfg false step per_time initial_interval in
  valid_i [] None ops -> bound_after [] None ops = Some p ->
  in_range (pubs [] ops) t1 = true -> in_range (pubs [] ops) t2 = true ->
  p < t1 -> t1 < t2 ->
  let s := final_i true c init_i ops in
  exists a b d,
    snd (get_data_i true c s t1) = IOk a /\
    snd (get_data_i true c (fst (get_data_i true c s t1)) t2) = IOk b /\
    snd (get_data_i true c s t2) = IOk d /\
    (a + b == d)%Q.
Proof. intros step per_time ii ops p t1 t2 c. exact (conservation_split true c ops p t1 t2 eq_refl). Qed.

(** Publications later than the upper bound do not change an integral (so "the history so far"
    and the final history give the same value). *)
Theorem C12_later_publications_irrelevant : forall step per_time p0 p1 H t0 v0 e,
  inc_from t0 (H ++ [e]) -> p0 <= last_time t0 H -> p1 <= last_time t0 H ->
  (integral step per_time (((t0, v0) :: H) ++ [e]) p0 p1 == integral step per_time ((t0, v0) :: H) p0 p1)%Q.
Proof. intros step per_time p0 p1. exact (integral_extend step per_time p0 p1). Qed.

(** Every average lies within the range of the values that contribute to it: if [m <= v <= M] for
    both end values of every publication interval that meets (p0, p1), then [m <= average <= M]. *)
Theorem C12_avg_in_range : forall (step : option Q) H p0 p1 (m M : Q),
  increasing H -> in_range H p0 = true -> in_range H p1 = true -> p0 < p1 ->
  bounded_contrib m M H p0 p1 ->
  (m <= integral step true H p0 p1 / secs (p1 - p0) <= M)%Q.
Proof. exact avg_in_range. Qed.

(** The closed-form areas are the integral of the interpolant: within one publication interval
    the linear area is the trapezoid under the straight line, the step area is the rectangle under
    the older value up to the step position and under the newer value behind it. *)
Theorem C12_area_linear : forall t0 v0 t1 v1 x y,
  t0 < t1 -> t0 <= x -> x <= y -> y <= t1 ->
  let f := fun z => (v0 + (inject_Z (z - t0) / inject_Z (t1 - t0)) * (v1 - v0))%Q in
  (seg_area None (t0, v0) (t1, v1) x y * secs (t1 - t0) == secs (y - x) * ((f x + f y) * (1 # 2)))%Q.
Proof. exact area_linear. Qed.

Theorem C12_area_step : forall s t0 v0 t1 v1 x y,
  t0 < t1 -> t0 <= x -> x <= y -> y <= t1 ->
  let pos := fun z => (inject_Z (z - t0) / inject_Z (t1 - t0))%Q in
  ((pos y <= s)%Q -> (seg_area (Some s) (t0, v0) (t1, v1) x y * secs (t1 - t0) == secs (y - x) * v0)%Q) /\
  ((s <= pos x)%Q -> (seg_area (Some s) (t0, v0) (t1, v1) x y * secs (t1 - t0) == secs (y - x) * v1)%Q).
Proof. exact area_step. Qed.

(** Discarding old buffer entries never changes a result. *)
Theorem C12_eviction_invisible : forall c ops,
  valid_i [] None ops -> Forall2 res_equiv (run_i true c init_i ops) (run_i false c init_i ops).
Proof. exact eviction_invisible_i. Qed.

(** ** Non-vacuity: publications at 0s, 4s, 12s, 13s; initial pull, pulls finer and coarser than the
    source steps, across publications, an out-of-range pull in the middle, evictions. *)
Definition ex_ops : list op :=
  [Pull 1; Push 0 (1#1); Pull 0; Push 4000000 (3#1); Pull 2000000; Pull 9000000; Pull 4000000;
   Push 12000000 (-1#1); Push 13000000 (5#1); Pull 5000000; Pull 12500000; Pull 13000000].

Definition ires_eqb (a b : ires) : bool :=
  match a, b with
  | IOk x, IOk y => Qeq_bool x y
  | IErrTime, IErrTime => true
  | IErrNoData, IErrNoData => true
  | _, _ => false
  end.

Example C12_nonvacuous_valid :
  valid_i [] None ex_ops /\ bound_after [] None ex_ops = Some 13000000
  /\ final_i true (mk_cfg true None false 0) init_i ex_ops
     = mk_ist [(12000000, -1#1); (13000000, 5#1)] (Some 13000000).
Proof. split; [vm_compute; intuition discriminate|]. split; vm_compute; reflexivity. Qed.

Example C12_nonvacuous_results :
  (* per-time linear sum, initial_interval 1 s: total 3+5+11/4+11/2+7/4 = 18 = integral over [0s,13s] *)
  list_eqb ires_eqb (run_i true (mk_cfg false None true 1000000) init_i ex_ops)
    [IErrNoData; IOk 1; IOk 3; IErrTime; IOk 5; IOk (11#4); IOk (11#2); IOk (7#4)] = true
  (* absolute step sum, step position 1/4 *)
  /\ list_eqb ires_eqb (run_i true (mk_cfg false (Some (1#4)) false 0) init_i ex_ops)
    [IErrNoData; IOk 1; IOk 1; IErrTime; IOk (3#2); IOk (3#8); IOk (5#8); IOk (5#2)] = true
  (* linear average and step average with step position 1/2 *)
  /\ list_eqb ires_eqb (run_i true (mk_cfg true None false 0) init_i ex_ops)
    [IErrNoData; IOk 1; IOk (3#2); IErrTime; IOk (5#2); IOk (11#4); IOk (11#15); IOk (7#2)] = true
  /\ list_eqb ires_eqb (run_i true (mk_cfg true (Some (1#2)) false 0) init_i ex_ops)
    [IErrNoData; IOk 1; IOk 1; IErrTime; IOk 3; IOk 3; IOk (3#5); IOk 5] = true.
Proof. vm_compute. auto. Qed.

Example C12_nonvacuous_split :
  let ops := [Push 0 (1#1); Pull 0; Push 4000000 (3#1); Push 12000000 (-1#1)] in
  valid_i [] None ops /\ bound_after [] None ops = Some 0
  /\ in_range (pubs [] ops) 3000000 = true /\ in_range (pubs [] ops) 7000000 = true
  /\ bounded_contrib (-1) 3 (pubs [] ops) 3000000 7000000 /\ increasing (pubs [] ops)
  /\ inc_from 0 ([(4000000, 3#1)] ++ [(12000000, -1#1)]).
Proof. vm_compute. intuition discriminate. Qed.

Print Assumptions C12_sum_is_integral.
Print Assumptions C12_avg.
Print Assumptions C12_conservation.
Print Assumptions C12_conservation_adapter.
Print Assumptions C12_later_publications_irrelevant.
Print Assumptions C12_avg_in_range.
Print Assumptions C12_area_linear.
Print Assumptions C12_area_step.
Print Assumptions C12_eviction_invisible.
