From Coq Require Import List ZArith QArith Bool.
From FV Require Import Base TimeInterp TimeInteg.
From FVP Require Import TimeInteg_proofs.
Import ListNotations.
Open Scope Z_scope.
Theorem C12_tmp : forall ev c t, snd (get_data_i ev c init_i t) = IErrNoData.
Proof. exact tmp_nodata. Qed.
Print Assumptions C12_tmp.
