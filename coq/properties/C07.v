(** C07 — After connect both ends of every link agree on metadata; conflicts are rejected.
    Model: FV.Info (Info.accepts / copy_with, masks_compatible / masks_equal, Output.get_info,
    Input.exchange_info, Adapter.get_info with the request / response rewrites of plain, SumOverTime and
    regridding adapters).  Specification predicates ([agrees_from], [input_end_agrees],
    [output_end_agrees], [mask_accept_spec], [conflict], [conflict_out], [fully_set], [single]) are defined at
    the top of FVP.Info_proofs.  This file contains only statements. *)
From Coq Require Import List ZArith QArith Bool Permutation.
From FV Require Import Base Info.
From FVP Require Import Info_proofs.
Import ListNotations.
Open Scope Z_scope.

(** C07_agree.  One producer output with info [oi], static or not, and ANY list [cs] of consumers, each
    behind ANY chain of adapters (plain / SumOverTime / regridding, any length), exchanging in the order
    of [cs].  If every exchange succeeds then ([agrees_from], by induction over [cs]) for every consumer,
    with [d] the info delivered to it, [arr] its request as it arrives at the output after the adapters'
    rewrites, [ob]/[oa] the producer info before/after its exchange:
    - input end ([input_end_agrees]): the input's grid, units, mask are set, all meta entries are set, time
      is set unless the link is static; its grid is [compatible] with the delivered grid; its units have the
      delivered units' dimension; the mask it stated is satisfied by the delivered mask
      ([mask_accept_spec], the documented table) and the input carries the delivered mask; every field
      the consumer left unset equals the delivered value and every field it stated is kept;
    - output end ([output_end_agrees]): the producer info has no unset field afterwards (time exempt when
      static), stated producer fields are kept and were acceptable for the arriving request (grid
      compatible, units of equal dimension, mask table), unset producer fields equal the arriving request's;
      the time of a STATIC output is never changed (it stays as stated, set or unset), and a consumer of it
      keeps its own stated time or, having none, carries the producer's (possibly unset) time;
    - for plain adapters (Scale, AvgOverTime, ...) the delivered info IS the producer's and the arriving
      request IS the consumer's, so the two statements relate input and output directly;
    and afterwards all consumers are counted and the output's data gate is open. *)
Theorem C07_agree :
  forall (oi : info) (st : bool) (cs : list consumer) (o' : ostate) (infos : list info),
    run_all (init_out (Some oi) st (length cs)) cs = (o', XOk infos) ->
    exists oz, o_info o' = Some oz /\ agrees_from st oi cs infos oz /\ length infos = length cs
               /\ data_gate_open o' = true.
Proof. exact agree_main. Qed.

(** The mask acceptance computed by the code (masks_compatible, receiver view) is exactly the documented
    relation [mask_accept_spec]. *)
Theorem C07_mask_relation :
  forall m dg up ug, masks_compatible (Some m) up false dg ug = Some true <-> mask_accept_spec m dg up ug.
Proof. exact masks_compatible_spec_in. Qed.

(** C07_reject.  For any adapter chain and any output state with producer info [ob]:
    (a) if the request arriving at the output conflicts with the producer's info (both grids set and not
        compatible, both units set with different dimension, or a stated mask the producer's mask does not
        satisfy) the exchange is refused (FinamMetaDataError; "other" only if a mask canonicalisation
        raises), the output state is unchanged, and while not all consumers have exchanged the data
        gate is closed: push_data / get_data raise FinamNoDataError;
    (b) if the info delivered to the input conflicts with the consumer's info the exchange is refused. *)
Theorem C07_reject :
  forall chain o req ob arr,
    o_info o = Some ob -> arriving chain req = XOk arr ->
    (conflict_out ob arr ->
       fst (input_exchange chain o req) = o /\ is_refusal (snd (input_exchange chain o req))
       /\ ((o_exch o < o_conn o)%nat -> data_gate_open (fst (input_exchange chain o req)) = false))
    /\
    (forall o' d, chain_get_info chain o req = (o', XOk d) -> conflict req d ->
       is_refusal (snd (input_exchange chain o req))).
Proof. exact reject_main. Qed.

(** A refused exchange anywhere in the consumer list makes the whole connect fail: no input infos. *)
Theorem C07_reject_aborts :
  forall cs1 c cs2 o,
    (forall o1, is_refusal (snd (input_exchange (c_chain c) o1 (c_info c)))) ->
    forall l, snd (run_all o (cs1 ++ c :: cs2)) <> XOk l.
Proof. exact run_all_refusal. Qed.

(** Without a producer info no exchange succeeds (FinamNoDataError: the connect loop retries later). *)
Theorem C07_no_info :
  forall cs o o' r, cs <> [] -> o_info o = None -> run_all o cs = (o', r) -> forall l, r <> XOk l.
Proof. exact no_info_no_exchange. Qed.

(** C07_fanout_order.  If the producer's grid, units, all meta entries and (unless the output is static:
    a static output never adopts a time) its time are set, every consumer
    gets exactly the info it would get alone ([single]), so for any permutation [cs'] of the consumers the
    exchange succeeds as well, every consumer receives the same info, and the producer info is the same. *)
Theorem C07_fanout_order :
  forall oi st n cs cs' l,
    fully_set st oi -> Permutation cs cs' ->
    snd (run_all (init_out (Some oi) st n) cs) = XOk l ->
    Forall2 (fun c ii => single st oi c = XOk ii) cs l /\
    exists l', snd (run_all (init_out (Some oi) st n) cs') = XOk l'
               /\ Permutation (combine cs l) (combine cs' l')
               /\ o_info (fst (run_all (init_out (Some oi) st n) cs')) = o_info (fst (run_all (init_out (Some oi) st n) cs)).
Proof. exact fanout_order_main. Qed.

(** If the producer leaves grid / units / time unset, the FIRST requester decides: the value is the one of
    the request arriving first and it is still the producer's value after all later exchanges (which were
    checked against it, by C07_agree). *)
Theorem C07_first_requester_decides :
  forall st ob c cs ii iis oz,
    agrees_from st ob (c :: cs) (ii :: iis) oz ->
    exists arr oa, arriving (c_chain c) (c_info c) = XOk arr /\
      (i_grid ob = None -> i_grid oa = i_grid arr /\ i_grid oz = i_grid arr) /\
      (i_units ob = None -> i_units oa = i_units arr /\ i_units oz = i_units arr) /\
      (st = false -> i_time ob = None -> i_time oa = i_time arr /\ i_time oz = i_time arr).
Proof. exact first_requester_decides. Qed.

(** * Non-vacuity *)
Definition gU43 := mkG KStruct 10 0 2 false [true; true] [3; 2]%nat.
Definition gU43r := mkG KStruct 10 0 2 true [true; true] [2; 3]%nat.
Definition gU53 := mkG KStruct 11 0 2 false [true; true] [4; 2]%nat.
Definition uM := mkU [1; 0] 1.
Definition uKM := mkU [1; 0] (1000 # 1).
Definition uMS := mkU [1; -1] 1.
Definition bitsA := B2 [[true; false]; [false; false]; [false; false]].
Definition bitsAr := B2 [[true; false; false]; [false; false; false]].   (* the same mask in reversed layout *)

(** producer: grid and time unset, explicit mask; three consumers: direct with the mask in another layout,
    behind Scale with unset units, behind SumOverTime + RegridNearest onto another grid *)
Definition ex_out := mkI None None (Some (MBits bitsA)) (Some uMS) [(1, Some 5); (2, None)].
Definition ex_cs := [
  mkC [] (mkI (Some 0) (Some gU43) (Some (MBits bitsA)) (Some uMS) [(2, Some 7)]);
  mkC [APlain] (mkI None (Some gU43r) (Some (MBits bitsAr)) None [(1, None)]);
  mkC [ARegrid None None None; ASum true [(uMS, uM)]] (mkI (Some 9) (Some gU53) (Some MFlex) (Some uKM) [])
].
Example C07_agree_nonvacuous :
  exists o' infos, run_all (init_out (Some ex_out) false (length ex_cs)) ex_cs = (o', XOk infos)
                   /\ length infos = 3%nat
                   /\ map i_grid infos = [Some gU43; Some gU43r; Some gU53]
                   /\ map i_units infos = [Some uMS; Some uMS; Some uKM]
                   /\ option_map i_grid (o_info o') = Some (Some gU43).
Proof. eexists. eexists. vm_compute. repeat split; reflexivity. Qed.

(** conflicts: (a) incompatible grid arriving at the producer through a plain adapter,
    (b) the grid delivered by a regridding adapter conflicts with the consumer's *)
Definition ex_full := mkI (Some 0) (Some gU43) (Some MFlex) (Some uM) [].
Example C07_reject_nonvacuous_out :
  let o := init_out (Some ex_full) false 2 in
  let req := mkI (Some 0) (Some gU53) (Some MFlex) (Some uM) [] in
  o_info o = Some ex_full /\ arriving [APlain] req = XOk req /\ conflict_out ex_full req /\ (o_exch o < o_conn o)%nat
  /\ input_exchange [APlain] o req = (o, XMeta).
Proof.
  simpl. repeat split; auto.
  left. exists gU43, gU53. repeat split; reflexivity.
Qed.
Example C07_reject_nonvacuous_in :
  let o := init_out (Some ex_full) false 1 in
  let req := mkI (Some 0) (Some gU43) (Some MFlex) (Some uM) [] in
  exists o' d, chain_get_info [ARegrid None (Some gU53) None] o (mkI (Some 0) None (Some MFlex) (Some uM) []) = (o', XOk d)
               /\ conflict req d.
Proof.
  eexists. eexists. split; [vm_compute; reflexivity|].
  left. exists gU43, gU53. repeat split; reflexivity.
Qed.

(** fan-out with a fully set producer: the two orders give the same infos *)
Definition ex_c1 := mkC [] (mkI None (Some gU43r) (Some MFlex) (Some uKM) [(1, Some 3)]).
Definition ex_c2 := mkC [APlain] (mkI (Some 4) None (Some MFlex) None []).
Example C07_fanout_nonvacuous :
  fully_set false ex_full /\ Permutation [ex_c1; ex_c2] [ex_c2; ex_c1]
  /\ exists l, snd (run_all (init_out (Some ex_full) false 2) [ex_c1; ex_c2]) = XOk l /\ length l = 2%nat.
Proof.
  split; [|split].
  - unfold fully_set, ex_full. simpl. repeat split; try discriminate. constructor.
  - apply perm_swap.
  - eexists. vm_compute. split; reflexivity.
Qed.

(** ... and with the producer's grid unset the result DOES depend on the order: the first requester's
    layout becomes the producer's (this is what the code does; C05 restricts its domain accordingly) *)
Definition ex_nogrid := mkI (Some 0) None (Some MFlex) (Some uM) [].
Definition ex_d1 := mkC [] (mkI (Some 0) (Some gU43) (Some MFlex) (Some uM) []).
Definition ex_d2 := mkC [] (mkI (Some 0) (Some gU43r) (Some MFlex) (Some uM) []).
Example C07_first_requester_example :
  option_map i_grid (o_info (fst (run_all (init_out (Some ex_nogrid) false 2) [ex_d1; ex_d2]))) = Some (Some gU43)
  /\ option_map i_grid (o_info (fst (run_all (init_out (Some ex_nogrid) false 2) [ex_d2; ex_d1]))) = Some (Some gU43r).
Proof. vm_compute. split; reflexivity. Qed.

Print Assumptions C07_agree.
Print Assumptions C07_mask_relation.
Print Assumptions C07_reject.
Print Assumptions C07_reject_aborts.
Print Assumptions C07_no_info.
Print Assumptions C07_fanout_order.
Print Assumptions C07_first_requester_decides.
