(** C06 — Iterative connect converges or reports exactly the stuck components.
    Model: FV.Connect (ConnectHelper.connect, Composition._connect_components, the parts of
    sdk.Output / sdk.Input they use).  This file contains only statements; proofs are in
    FVP.Connect_proofs. *)
From Coq Require Import List ZArith Bool Arith.
From FV Require Import Base Connect.
From FVP Require Import Connect_proofs.
Import ListNotations.
Local Open Scope nat_scope.

(** For EVERY coupling setup [sp] (any dependency shape, any transfer rules), every list of
    components in any order: the connect loop, started with [#items + #components + 2] units of
    fuel (one per round), never runs out of fuel and performs at most
    [#items + #components + 1] rounds (ping round included). *)
Theorem C06_terminates :
  forall (sp : spec) (cs : list comp),
    r_out (connect_run sp cs) <> OutOfFuel
    /\ r_iters (connect_run sp cs) <= length (all_items sp cs) + length cs + 1.
Proof. exact run_terminates. Qed.

(** One helper call, from ANY state [w] with ANY arguments [a]: done items stay done; the call
    answers CONNECTED iff every declared item of the component is done afterwards; otherwise
    CONNECTING iff some declared item became done in this call, CONNECTING_IDLE iff none did. *)
Theorem C06_progress_iff :
  forall (sp : spec) (c : comp) (a : args) (w w' : world) (st : status),
    helper_connect sp c a w = (w', st) ->
    (forall it, done w it = true -> done w' it = true)
    /\ (st = CONNECTED <-> (forall it, In it (declared sp c) -> done w' it = true))
    /\ (st = CONNECTING <->
        (exists it, In it (declared sp c) /\ done w' it = false)
        /\ (exists it, In it (declared sp c) /\ done w it = false /\ done w' it = true))
    /\ (st = CONNECTING_IDLE <->
        (exists it, In it (declared sp c) /\ done w' it = false)
        /\ (forall it, In it (declared sp c) -> done w' it = done w it))
    /\ st <> INITIALIZED.
Proof. exact progress_iff. Qed.

(** A component is never reported connected while one of its declared exchanges is outstanding:
    for a single call, and for every component after the whole loop (whatever the outcome). *)
Theorem C06_connected_sound :
  (forall (sp : spec) (c : comp) (a : args) (w w' : world),
      helper_connect sp c a w = (w', CONNECTED) ->
      forall it, In it (declared sp c) -> done w' it = true)
  /\ (forall (sp : spec) (cs : list comp) (c : comp) (st : status),
         In (c, st) (r_comps (connect_run sp cs)) -> st = CONNECTED ->
         forall it, In it (declared sp c) -> done (r_world (connect_run sp cs)) it = true).
Proof. exact connected_sound. Qed.


(** The report of a failed connect is exact (components listed once, slots not shared): the loop
    ends normally only with EVERY declared exchange of every component done; otherwise the
    circular-coupling error lists, in list order, exactly the positions of the components that
    still have an outstanding declared exchange ([stuck_idx], characterised below), and at least one.
    (Operational form; [C06_fixpoint_full] below relates it to derivability.) *)
Theorem C06_stall_set :
  forall (sp : spec) (cs : list comp),
    disjoint_slots cs ->
    let r := connect_run sp cs in
    (r_out r = Success ->
     forall c, In c cs -> forall it, In it (declared sp c) -> done (r_world r) it = true)
    /\ (forall L, r_out r = Circular L -> L = stuck_idx sp (r_world r) 0 cs /\ L <> []).
Proof. exact run_stall_set. Qed.

(** [n] is listed iff the [n]-th component has an outstanding declared exchange *)
Theorem C06_stuck_idx_exact :
  forall (sp : spec) (w : world) (cs : list comp) (n : nat),
    In n (stuck_idx sp w 0 cs) <->
    exists c, nth_error cs n = Some c /\ exists it, In it (declared sp c) /\ done w it = false.
Proof. exact stuck_idx_exact. Qed.

(** The final set of done items is the LEAST FIXED POINT of the declarative derivation rules
    [step] (FV.Connect): for every well-formed setup (each slot owned by exactly one component,
    [sp_ins] = the owned inputs) an item is done after the loop iff it is derivable; if every
    declared item is derivable (the dependencies are acyclic / well-founded) the loop ends with
    Success; otherwise the circular-coupling error lists exactly the positions of the components
    that own an underivable declared item. *)
Theorem C06_fixpoint_full :
  forall (sp : spec) (cs : list comp),
    wf_setup sp cs ->
    let r := connect_run sp cs in
    (forall it, done (r_world r) it = true <-> derivable sp cs it)
    /\ ((forall c it, In c cs -> In it (declared sp c) -> derivable sp cs it) -> r_out r = Success)
    /\ (forall L, r_out r = Circular L ->
                  forall n, In n L <-> exists c, nth_error cs n = Some c
                                                 /\ exists it, In it (declared sp c) /\ ~ derivable sp cs it).
Proof. exact fixpoint_full_holds. Qed.

(** Initial data, for EVERY setup and whatever the outcome: an output whose data was pushed holds
    exactly the publications of [pushed_entries]: nothing without targets, one untimed entry when
    static, one entry at the composition start when the time [t] of its exchanged info equals the
    start, else one at the composition start and one at [t] - all carrying the payload the producer
    provides; and every pulled initial value is the payload provided by the producer of the source. *)
Theorem C06_initial_data :
  forall (sp : spec) (cs : list comp),
    let w := r_world (connect_run sp cs) in
    (forall o, o_dpushed (wo w o) = true ->
               exists t p, o_hinfo (wo w o) = Some t
                           /\ (exists ds, os_prov_data (sp_out sp o) = Some (ds, p))
                           /\ o_data (wo w o) =
                              (if no_targets sp o then []
                               else if os_static (sp_out sp o) then [(None, p)]
                               else if (t =? sp_start sp)%Z then [(Some t, p)]
                               else [(Some (sp_start sp), p); (Some t, p)]))
    /\ (forall o, o_dpushed (wo w o) = false -> o_data (wo w o) = [])
    /\ (forall i p, in_data (wi w i) = Some p ->
                    exists ds, os_prov_data (sp_out sp (is_src (sp_in sp i))) = Some (ds, p)).
Proof. exact initial_data. Qed.

(** Non-vacuity.  A ring of three components, each pulling its predecessor's initial data and
    publishing its own only after the pull, with one breaker (component 1 publishes at once);
    component 0 starts one day later than the composition. *)
Definition ex_day : Z := 86400000000%Z.
Definition ex_ins : list ispec :=
  [mk_ispec 2 (Some ex_day) None None true; mk_ispec 0 (Some 0%Z) None None true; mk_ispec 1 (Some 0%Z) None None true].
Definition ex_outs (breaker : bool) : list ospec :=
  [mk_ospec false None (Some ([], ex_day)) None (Some ([DPull 0], 10)) false;
   mk_ospec false None (Some ([], 0%Z)) None (Some (if breaker then [] else [DPull 1], 11)) false;
   mk_ospec false None (Some ([], 0%Z)) None (Some ([DPull 2], 12)) false].
Definition ex_comps : list comp := [mk_comp [0] [0] true; mk_comp [1] [1] true; mk_comp [2] [2] true].
Definition ex_sp (breaker : bool) : spec := mk_sp ex_ins (ex_outs breaker) 0%Z.

Example C06_nonvacuous_success :
  let r := connect_run (ex_sp true) ex_comps in
  r_out r = Success /\ r_iters r = 6 /\ map snd (r_comps r) = [CONNECTED; CONNECTED; CONNECTED]
  /\ o_data (wo (r_world r) 0) = [(Some 0%Z, 10); (Some ex_day, 10)]
  /\ in_data (wi (r_world r) 1) = Some 10
  /\ In (1, CONNECTING_IDLE) (r_events r) /\ In (1, CONNECTING) (r_events r).
Proof. vm_compute. repeat split; auto 20. Qed.

Example C06_nonvacuous_stall :
  let r := connect_run (ex_sp false) ex_comps in
  r_out r = Circular [0; 1; 2] /\ Nat.leb (r_iters r) (length (all_items (ex_sp false) ex_comps) + 3 + 1) = true
  /\ done (r_world r) (IOutInfo 0) = true /\ done (r_world r) (IDataPushed 0) = false.
Proof. vm_compute. repeat split; auto. Qed.

Example C06_nonvacuous_wf : wf_setup (ex_sp false) ex_comps /\ disjoint_slots ex_comps.
Proof.
  assert (D : disjoint_slots ex_comps) by (split; simpl; repeat constructor; simpl; intuition discriminate).
  split; [|exact D]. split; [exact D|]. split; [simpl; repeat constructor; simpl; intuition discriminate|].
  intros i. unfold own_in. simpl. tauto.
Qed.

Example C06_nonvacuous_stall_set :
  let r := connect_run (ex_sp false) ex_comps in
  stuck_idx (ex_sp false) (r_world r) 0 ex_comps = [0; 1; 2]
  /\ o_dpushed (wo (r_world (connect_run (ex_sp true) ex_comps)) 0) = true.
Proof. vm_compute. split; reflexivity. Qed.

(** with the breaker every declared item is derivable, without it the pulls are not *)
Example C06_nonvacuous_fixpoint :
  derivable (ex_sp true) ex_comps (IPulled 1)
  /\ ~ derivable (ex_sp false) ex_comps (IPulled 1)
  /\ derivable (ex_sp false) ex_comps (IOutInfo 0).
Proof.
  assert (WT : wf_setup (ex_sp true) ex_comps).
  { assert (D : disjoint_slots ex_comps) by (split; simpl; repeat constructor; simpl; intuition discriminate).
    split; [exact D|]. split; [simpl; repeat constructor; simpl; intuition discriminate|].
    intros i. unfold own_in. simpl. tauto. }
  destruct C06_nonvacuous_wf as [WF _].
  split; [|split].
  - apply (proj1 (C06_fixpoint_full _ _ WT)). vm_compute. reflexivity.
  - intros H. apply (proj1 (C06_fixpoint_full _ _ WF)) in H. vm_compute in H. discriminate.
  - apply (proj1 (C06_fixpoint_full _ _ WF)). vm_compute. reflexivity.
Qed.

(** a single call that makes progress without completing, from the initial state *)
Example C06_nonvacuous_call :
  exists w', helper_connect (ex_sp true) (mk_comp [1] [1] true) (prov_args (ex_sp true) (init_world (ex_sp true)))
                            (init_world (ex_sp true)) = (w', CONNECTING)
             /\ done w' (IInfoPushed 1) = true /\ done w' (IInInfo 1) = false.
Proof. eexists. vm_compute. repeat split. Qed.

Print Assumptions C06_terminates.
Print Assumptions C06_progress_iff.
Print Assumptions C06_connected_sound.
Print Assumptions C06_stall_set.
Print Assumptions C06_stuck_idx_exact.
Print Assumptions C06_fixpoint_full.
Print Assumptions C06_initial_data.
