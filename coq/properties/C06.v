(** C06 — Iterative connect converges or reports exactly the stuck components.
    Model: FV.Connect (ConnectHelper.connect, Composition._connect_components, the parts of
    sdk.Output / sdk.Input they use).  This file contains only statements; proofs are in
    FVP.Connect_proofs. *)
From Coq Require Import List ZArith Bool Arith.
From FV Require Import Base Connect.
From FVP Require Import Connect_proofs.
Import ListNotations.
Local Open Scope nat_scope.

(** For EVERY coupling setup [sp] (any dependency shape, any transfer rules), every list of
    components in any order: the connect loop, started with [#items + #components + 2] units of
    fuel (one per round), never runs out of fuel and performs at most
    [#items + #components + 1] rounds (ping round included). *)
Theorem C06_terminates :
  forall (sp : spec) (cs : list comp),
    r_out (connect_run sp cs) <> OutOfFuel
    /\ r_iters (connect_run sp cs) <= length (all_items sp cs) + length cs + 1.
Proof. exact run_terminates. Qed.

(** One helper call, from ANY state [w] with ANY arguments [a]: done items stay done; the call
    answers CONNECTED iff every declared item of the component is done afterwards; otherwise
    CONNECTING iff some declared item became done in this call, CONNECTING_IDLE iff none did. *)
Theorem C06_progress_iff :
  forall (sp : spec) (c : comp) (a : args) (w w' : world) (st : status),
    helper_connect sp c a w = (w', st) ->
    (forall it, done w it = true -> done w' it = true)
    /\ (st = CONNECTED <-> (forall it, In it (declared sp c) -> done w' it = true))
    /\ (st = CONNECTING <->
        (exists it, In it (declared sp c) /\ done w' it = false)
        /\ (exists it, In it (declared sp c) /\ done w it = false /\ done w' it = true))
    /\ (st = CONNECTING_IDLE <->
        (exists it, In it (declared sp c) /\ done w' it = false)
        /\ (forall it, In it (declared sp c) -> done w' it = done w it))
    /\ st <> INITIALIZED.
Proof. exact progress_iff. Qed.

(** A component is never reported connected while one of its declared exchanges is outstanding:
    for a single call, and for every component after the whole loop (whatever the outcome). *)
Theorem C06_connected_sound :
  (forall (sp : spec) (c : comp) (a : args) (w w' : world),
      helper_connect sp c a w = (w', CONNECTED) ->
      forall it, In it (declared sp c) -> done w' it = true)
  /\ (forall (sp : spec) (cs : list comp) (c : comp) (st : status),
         In (c, st) (r_comps (connect_run sp cs)) -> st = CONNECTED ->
         forall it, In it (declared sp c) -> done (r_world (connect_run sp cs)) it = true).
Proof.
  split.
  - intros sp c a w w' H. exact (proj1 (proj1 (proj2 (progress_iff sp c a w w' CONNECTED H))) eq_refl).
  - exact run_sound.
Qed.

(** Non-vacuity.  A ring of three components, each pulling its predecessor's initial data and
    publishing its own only after the pull, with one breaker (component 1 publishes at once);
    component 0 starts one day later than the composition. *)
Definition ex_day : Z := 86400000000%Z.
Definition ex_ins : list ispec :=
  [mk_ispec 2 (Some ex_day) None None true; mk_ispec 0 (Some 0%Z) None None true; mk_ispec 1 (Some 0%Z) None None true].
Definition ex_outs (breaker : bool) : list ospec :=
  [mk_ospec false None (Some ([], ex_day)) None (Some ([DPull 0], 10));
   mk_ospec false None (Some ([], 0%Z)) None (Some (if breaker then [] else [DPull 1], 11));
   mk_ospec false None (Some ([], 0%Z)) None (Some ([DPull 2], 12))].
Definition ex_comps : list comp := [mk_comp [0] [0] true; mk_comp [1] [1] true; mk_comp [2] [2] true].
Definition ex_sp (breaker : bool) : spec := mk_sp ex_ins (ex_outs breaker) 0%Z.

Example C06_nonvacuous_success :
  let r := connect_run (ex_sp true) ex_comps in
  r_out r = Success /\ r_iters r = 6 /\ map snd (r_comps r) = [CONNECTED; CONNECTED; CONNECTED]
  /\ o_data (wo (r_world r) 0) = [(Some 0%Z, 10); (Some ex_day, 10)]
  /\ in_data (wi (r_world r) 1) = Some 10
  /\ In (1, CONNECTING_IDLE) (r_events r) /\ In (1, CONNECTING) (r_events r).
Proof. vm_compute. repeat split; auto 20. Qed.

Example C06_nonvacuous_stall :
  let r := connect_run (ex_sp false) ex_comps in
  r_out r = Circular [0; 1; 2] /\ Nat.leb (r_iters r) (length (all_items (ex_sp false) ex_comps) + 3 + 1) = true
  /\ done (r_world r) (IOutInfo 0) = true /\ done (r_world r) (IDataPushed 0) = false.
Proof. vm_compute. repeat split; auto. Qed.

(** a single call that makes progress without completing, from the initial state *)
Example C06_nonvacuous_call :
  exists w', helper_connect (ex_sp true) (mk_comp [1] [1] true) (prov_args (ex_sp true) (init_world (ex_sp true)))
                            (init_world (ex_sp true)) = (w', CONNECTING)
             /\ done w' (IInfoPushed 1) = true /\ done w' (IInInfo 1) = false.
Proof. eexists. vm_compute. repeat split. Qed.

Print Assumptions C06_terminates.
Print Assumptions C06_progress_iff.
Print Assumptions C06_connected_sound.
