(** C08 — Data crossing a link keeps its values, time, units and shape.
    Models: FV.OutputM (Output._interpolate / get_data) and FV.LinkData (tools.prepare,
    _check_input_shape, Output.push_data's memory-sharing rule, Input._convert_and_check).
    This file contains only statements; proofs are in FVP.LinkData_proofs. *)
From Coq Require Import List ZArith QArith Bool.
From FV Require Import Base OutputM LinkData.
From FVP Require Import OutputM_proofs LinkData_proofs.
Import ListNotations.

(* ------------------------------------------------------------------ *)
(** ** Time *)

(** For every history [l] of publications with strictly increasing times (payloads of any type)
    and every request time [t]:  an empty history gives the no-data error; a request before the
    oldest retained or after the newest publication gives the time error; every request in
    between is served with a publication of [l] whose distance to [t] is minimal among all
    publications of [l] (so either neighbour at an exact midpoint). *)
Theorem C08_nearest :
  forall (A : Type) (l : hist A) (t : Z),
    increasing l ->
    match l with
    | [] => interpolate l t = ErrNoData
    | (t0, _) :: r =>
        ((t < t0)%Z \/ (last_time t0 r < t)%Z -> interpolate l t = ErrTime)
        /\ ((t0 <= t <= last_time t0 r)%Z ->
            exists tp d, In (tp, d) l /\ interpolate l t = Ok d
              /\ forall e, In e l -> (Z.abs (tp - t) <= Z.abs (fst e - t))%Z)
    end.
Proof. intros A. exact (@nearest A). Qed.

(** The same through the link, for any consumer [k] of the output (whatever the other consumers
    requested before): a pull at [t] (including the eviction it triggers) answers with
    [Input._convert_and_check] of a nearest publication, or refuses as above, leaving the
    history untouched. *)
Theorem C08_link_pull :
  forall (g : gridspec) (tr : option relay) (ui : uspec) (s : lstate) (k : nat) (t : Z),
    increasing (st_hist s) ->
    match st_hist s with
    | [] => lpull g tr ui s k t = (s, RNoData)
    | (t0, _) :: r =>
        ((t < t0)%Z \/ (last_time t0 r < t)%Z -> lpull g tr ui s k t = (s, RTime))
        /\ ((t0 <= t <= last_time t0 r)%Z ->
            exists tp e, In (tp, e) (st_hist s) /\ snd (lpull g tr ui s k t) = deliver g ui (relaid tr e)
              /\ forall x, In x (st_hist s) -> (Z.abs (tp - t) <= Z.abs (fst x - t))%Z)
    end.
Proof. exact link_pull_nearest. Qed.

Example C08_nearest_nonvacuous :
  increasing [(0, 10); (5, 11); (14, 12)]%Z
  /\ map (interpolate [(0, 10); (5, 11); (14, 12)]%Z) [-1; 0; 2; 3; 9; 10; 14; 15]%Z
     = [ErrTime; Ok 10; Ok 10; Ok 11; Ok 11; Ok 12; Ok 12; ErrTime]%Z.
Proof. split; [simpl; repeat split; reflexivity|vm_compute; reflexivity]. Qed.

(* ------------------------------------------------------------------ *)
(** ** Payload: shape, values, units, mask *)

(** Domain.  [has_form g sh f]: the payload's shape [sh] is one of the accepted forms for grid [g]
    - [FShaped]: the grid's data shape (NoGrid: right rank, fixed axes agree),
    - [FTimed]: the same with a leading axis of length one,
    - [FFlat] (grids): one axis of [data_size] elements,
    - [FStacked k] (grids, k >= 2): k time entries at once (finam accepts this; the delivered
      array then has k leading entries - the only form whose leading axis is not one).
    Scalars are [FShaped] on [NoGrid()], lists are arrays; masked arrays have [a_mask = Some _];
    quantities have [p_units = Some _].

    For every payload of the domain published under metadata [inf] (grid, producer units, mask)
    and pulled by a consumer with compatible units [ui]:  [prepare] accepts it, the pull delivers
    an array of shape [form_k f :: cell] ([1 :: consumer data shape] for all forms but
    [FStacked]) in the consumer's units; its element [j, idx] equals (in Q) the affine
    conversion  producer units -> consumer units  of the published element that belongs to
    entry [j], cell [idx] ([src_pos]: flat payloads are laid out in the grid's order, F or C);
    its mask bit there is the demanded one (the payload's own bit for masked payloads, else the
    bit of the metadata's mask at cell [idx], none if no mask is demanded).
    Unit side conditions: non-zero factors, and units identified by [equivalent_units] have
    equal offsets ([relabel_safe]; without it relabelling would not be exact). *)
Theorem C08_payload :
  forall (inf : info) (ui : uspec) (p : payload) (f : form),
    wf_grid (i_grid inf) -> wf_arr (p_arr p) -> wf_mask inf (cell (i_grid inf) (a_shape (p_arr p)) f) ->
    has_form (i_grid inf) (a_shape (p_arr p)) f -> units_ok inf p -> mask_ok (i_mask inf) (p_arr p) = true ->
    compatible (i_units inf) ui = true ->
    unit_ok (i_units inf) -> unit_ok ui ->
    relabel_safe (producer_units (i_units inf) (p_units p)) ui -> relabel_safe (i_units inf) ui ->
    exists e d,
      prepare inf p = POk e /\ deliver (i_grid inf) ui e = RArr d ui
      /\ a_shape d = form_k f :: cell (i_grid inf) (a_shape (p_arr p)) f
      /\ forall j idx, (j < form_k f)%nat -> in_range idx (cell (i_grid inf) (a_shape (p_arr p)) f) ->
           aget d (j :: idx)
           == convert (producer_units (i_units inf) (p_units p)) ui
                (nth (src_pos (i_grid inf) f (a_shape (p_arr p)) j idx) (a_data (p_arr p)) 0%Q)
           /\ mget d (j :: idx) = demanded_mask inf (p_arr p) f j idx.
Proof. exact payload_accepted. Qed.

(** Everything else is refused by [prepare] (hence by [push_data]): a quantity in units of another
    dimension (DataError); a plain payload whose size does not fit the explicit mask of the
    metadata (numpy's MaskError); a payload whose shape is none of the forms (DataError). *)
Theorem C08_payload_refused :
  forall (inf : info) (p : payload),
    wf_grid (i_grid inf) ->
    (forall u, p_units p = Some u -> compatible u (i_units inf) = false -> prepare inf p = PErr EData)
    /\ (units_ok inf p -> mask_ok (i_mask inf) (p_arr p) = false -> prepare inf p = PErr EMask)
    /\ (units_ok inf p -> mask_ok (i_mask inf) (p_arr p) = true ->
        (forall f, ~ has_form (i_grid inf) (a_shape (p_arr p)) f) -> prepare inf p = PErr EData).
Proof. exact payload_refused. Qed.

(** The accepted shapes are exactly the forms: [_check_input_shape] succeeds iff some form fits. *)
Theorem C08_forms_exact :
  forall (g : gridspec) (sh : list nat),
    wf_grid g -> (check_shape g sh <> None <-> exists f, has_form g sh f).
Proof.
  intros g sh Hwf. split.
  - destruct (check_shape g sh) as [lay|] eqn:E; [intros _; exact (accepted_form g sh lay Hwf E)|congruence].
  - intros [f Hf]. rewrite (form_accepted g sh f Hwf Hf). discriminate.
Qed.

(** Non-vacuity: km published flat on an F-ordered 2x3 grid with an explicit mask, read in cm. *)
Definition ex_m := mkU [1; 0; 0]%Z 1 0.
Definition ex_km := mkU [1; 0; 0]%Z 1000 0.
Definition ex_cm := mkU [1; 0; 0]%Z (1 # 100) 0.
Definition ex_inf := mkI (GStruct [2; 3]%nat true) ex_m (MBits [false; true; false; false; false; false]).
Definition ex_pl := mkP (mkA [6]%nat [0; 1; 2; 3; 4; 5]%Q None) (Some ex_km) (Some (0%nat, 0, 48)%Z).
Example C08_payload_nonvacuous :
  wf_grid (i_grid ex_inf) /\ wf_arr (p_arr ex_pl) /\ wf_mask ex_inf [2; 3]%nat
  /\ has_form (i_grid ex_inf) [6]%nat FFlat /\ units_ok ex_inf ex_pl /\ mask_ok (i_mask ex_inf) (p_arr ex_pl) = true
  /\ compatible ex_m ex_cm = true /\ equivalent ex_km ex_cm = false /\ equivalent ex_m ex_cm = false
  /\ (match prepare ex_inf ex_pl with
      | POk e => match deliver (i_grid ex_inf) ex_cm e with
                 | RArr d _ => (a_shape d, map Qred (a_data d), a_mask d)
                 | _ => ([], [], None) end
      | PErr _ => ([], [], None) end)
     = ([1; 2; 3]%nat, [0; 200000; 400000; 100000; 300000; 500000]%Q, Some [false; true; false; false; false; false]).
Proof.
  repeat split; try (vm_compute; reflexivity); try discriminate.
  - repeat constructor.
Qed.

Example C08_refused_nonvacuous :
  prepare ex_inf (mkP (mkA [5]%nat [0; 1; 2; 3; 4]%Q None) None None) = PErr EMask
  /\ prepare (mkI (GStruct [2; 3]%nat true) ex_m MFlex) (mkP (mkA [3; 2]%nat [0; 1; 2; 3; 4; 5]%Q None) None None) = PErr EData
  /\ prepare ex_inf (mkP (mkA [2; 3]%nat [0; 1; 2; 3; 4; 5]%Q None) (Some (mkU [0; 1; 0]%Z 1 0)) None) = PErr EData.
Proof. repeat split; vm_compute; reflexivity. Qed.

(* ------------------------------------------------------------------ *)
(** ** The consumer declares its own [NoGrid] data shape *)

(** A link between two [NoGrid]s is established only if they are compatible ([nogrid_compatible]:
    equal data shapes, a flexible axis only matches a flexible axis; otherwise the exchange fails
    with a metadata error and no data crosses - [c08_model] answers [OExchErr]).  On an
    established link every accepted payload arrives with one leading time entry and a shape that
    fits the CONSUMER's declared data shape (fixed axes agree, flexible axes take any length). *)
Theorem C08_consumer_shape :
  forall (inf : info) (ui : uspec) (p : payload) (f : form) (dsh dsh' : list (option nat)),
    i_grid inf = GNo dsh -> nogrid_compatible dsh dsh' = true ->
    wf_arr (p_arr p) -> wf_mask inf (cell (i_grid inf) (a_shape (p_arr p)) f) ->
    has_form (i_grid inf) (a_shape (p_arr p)) f -> units_ok inf p -> mask_ok (i_mask inf) (p_arr p) = true ->
    compatible (i_units inf) ui = true ->
    exists e d c,
      prepare inf p = POk e /\ deliver (GNo dsh') ui e = RArr d ui
      /\ a_shape d = 1%nat :: c /\ shape_valid c dsh' = true.
Proof. exact consumer_shape. Qed.

Example C08_consumer_shape_nonvacuous :
  let inf := mkI (GNo [Some 2; None]%nat) ex_m MFlex in
  nogrid_compatible [Some 2; None]%nat [Some 2; None]%nat = true
  /\ nogrid_compatible [None; None] [Some 2; None]%nat = false          (* flexible producer -> fixed consumer: refused *)
  /\ nogrid_compatible [Some 2; None]%nat [None; None] = false
  /\ has_form (i_grid inf) [2; 5]%nat FShaped
  /\ c08_model (mkC (mkI (GNo [None]) ex_m MFlex) [mkCo ex_m None (Some [Some 3%nat])], [LPull 0 0%Z]) = [OExchErr].
Proof. repeat split; vm_compute; reflexivity. Qed.

(* ------------------------------------------------------------------ *)
(** ** Producer and consumer store the same structured grid in different layouts *)

(** When the layouts (axes order [l_rev], axis directions [l_inc]) of the two ends differ, the pull
    transforms the stored array ([relayout], applied before unit conversion, see [C08_link_pull]).
    For every grid size, every pair of layouts and every stored array of the producer's shape:
    the result has the consumer's shape, and its element and mask bit at consumer index [ic] of
    time entry [j] are the stored ones at the producer index [ip] ...                          *)
Theorem C08_relayout :
  forall (r : relay) (a : arr) (k : nat),
    a_shape a = k :: lshape (r_dims r) (r_src r) ->
    a_shape (relayout (Some r) a) = k :: lshape (r_dims r) (r_dst r)
    /\ forall j ic, (j < k)%nat -> in_range ic (lshape (r_dims r) (r_dst r)) ->
         let ip := idx_of (r_dims r) (r_src r) (can_of (r_dims r) (r_dst r) ic) in
         aget (relayout (Some r) a) (j :: ic) = aget a (j :: ip)
         /\ mget (relayout (Some r) a) (j :: ic) = mget a (j :: ip).
Proof. exact relayout_spec. Qed.

(** ... where [ip] denotes the same physical cell: the canonical (xyz, increasing) index of [ip]
    in the producer's layout is the canonical index [c] of [ic] in the consumer's layout. *)
Theorem C08_relayout_same_cell :
  forall (dims : list nat) (l : glayout) (c : list nat),
    in_range c dims -> length (l_inc l) = length dims -> can_of dims l (idx_of dims l c) = c.
Proof. exact same_cell. Qed.

(** Non-vacuity: 2x3 cells (x,y); producer reversed ([y,x] arrays) with y decreasing, consumer reversed, both increasing *)
Example C08_relayout_nonvacuous :
  let r := mkR [2; 3]%nat (mkL true [true; false]) (mkL true [true; true]) in
  let a := mkA [1; 3; 2]%nat [1; 2; 3; 4; 5; 6]%Q (Some [true; false; false; false; false; false]) in
  a_shape a = 1%nat :: lshape (r_dims r) (r_src r)
  /\ relayout (Some r) a = mkA [1; 3; 2]%nat [5; 6; 3; 4; 1; 2]%Q (Some [false; false; false; false; true; false])
  /\ in_range [1; 0]%nat (lshape (r_dims r) (r_dst r)).
Proof. repeat split; try (vm_compute; reflexivity). repeat constructor. Qed.

(* ------------------------------------------------------------------ *)
(** ** Memory sharing *)

(** Whatever the state of the output: a payload that [prepare] accepts is refused with DataError,
    the history unchanged, if its memory overlaps the memory of the previously published entry
    ([shares]: same allocation, overlapping bounds - what [np.may_share_memory] tests); otherwise
    it is appended and becomes the previously published entry.  Pulls (with their eviction)
    never change which entry that is.  The memory of a stored entry is the payload's own unless
    [prepare] had to convert units (then it is fresh and shares with nothing). *)
Theorem C08_sharing :
  forall (inf : info) (s : lstate) (t : Z) (p : payload) (e : entry),
    prepare inf p = POk e ->
    (forall e0, last_entry (st_hist s) = Some e0 -> shares (e_buf e0) (e_buf e) = true ->
       lpush inf s t p = (s, Some EData))
    /\ ((forall e0, last_entry (st_hist s) = Some e0 -> shares (e_buf e0) (e_buf e) = false) ->
        lpush inf s t p = (push s t e, None) /\ last_entry (st_hist (push s t e)) = Some e)
    /\ (forall g tr u k t', last_entry (st_hist (fst (lpull g tr u s k t'))) = last_entry (st_hist s))
    /\ e_buf e = match p_units p with
                 | Some u => if equivalent u (i_units inf) then p_buf p else None
                 | None => p_buf p
                 end.
Proof.
  intros inf s t p e Hp. destruct (sharing_rule inf s t p e Hp) as [H1 H2].
  split; [exact H1|]. split; [exact H2|]. split; [intros; apply lpull_last|apply prepare_buf; exact Hp].
Qed.

(** identity tokens: the same (non-empty) buffer always shares with itself *)
Theorem C08_sharing_identity :
  forall (i : nat) (lo hi : Z), (lo < hi)%Z -> shares (Some (i, lo, hi)) (Some (i, lo, hi)) = true.
Proof. exact shares_self. Qed.

Example C08_sharing_nonvacuous :
  let inf := mkI (GNo [None]) ex_m MFlex in
  let pl b u := mkP (mkA [2]%nat [1; 2]%Q None) u b in
  lrun (mkC inf [mkCo ex_m None None]) (linit (mkC inf [mkCo ex_m None None]))
    [LPush 0 (pl (Some (0%nat, 0, 16)%Z) None);     (* a *)
     LPush 1 (pl (Some (0%nat, 0, 16)%Z) None);     (* a again: refused *)
     LPush 2 (pl (Some (0%nat, 8, 24)%Z) None);     (* overlapping view: refused *)
     LPush 3 (pl (Some (0%nat, 16, 32)%Z) None);    (* neighbouring view: accepted *)
     LPush 4 (pl (Some (0%nat, 16, 32)%Z) (Some ex_km)); (* converted: fresh memory, accepted *)
     LPush 5 (pl (Some (1%nat, 0, 16)%Z) None)]     (* other allocation: accepted *)
  = [OPush None; OPush (Some EData); OPush (Some EData); OPush None; OPush None; OPush None].
Proof. vm_compute. reflexivity. Qed.

Print Assumptions C08_nearest.
Print Assumptions C08_link_pull.
Print Assumptions C08_payload.
Print Assumptions C08_payload_refused.
Print Assumptions C08_forms_exact.
Print Assumptions C08_consumer_shape.
Print Assumptions C08_relayout.
Print Assumptions C08_relayout_same_cell.
Print Assumptions C08_sharing.
Print Assumptions C08_sharing_identity.
