(** C08 — Data crossing a link keeps its values, time, units and shape.
    Models: FV.OutputM (Output._interpolate / get_data) and FV.LinkData (tools.prepare,
    _check_input_shape, Output.push_data's memory-sharing rule, Input._convert_and_check).
    This file contains only statements; proofs are in FVP.LinkData_proofs. *)
From Coq Require Import List ZArith QArith Bool.
From FV Require Import Base OutputM LinkData.
From FVP Require Import OutputM_proofs LinkData_proofs.
Import ListNotations.

(** For every history [l] of publications with strictly increasing times (payloads of any type)
    and every request time [t]:  an empty history gives the no-data error; a request before the
    oldest retained or after the newest publication gives the time error; every request in
    between is served with a publication of [l] whose distance to [t] is minimal among all
    publications of [l] (so either neighbour at an exact midpoint). *)
Theorem C08_nearest :
  forall (A : Type) (l : hist A) (t : Z),
    increasing l ->
    match l with
    | [] => interpolate l t = ErrNoData
    | (t0, _) :: r =>
        ((t < t0)%Z \/ (last_time t0 r < t)%Z -> interpolate l t = ErrTime)
        /\ ((t0 <= t <= last_time t0 r)%Z ->
            exists tp d, In (tp, d) l /\ interpolate l t = Ok d
              /\ forall e, In e l -> (Z.abs (tp - t) <= Z.abs (fst e - t))%Z)
    end.
Proof. intros A. exact (@nearest A). Qed.

Example C08_nearest_nonvacuous :
  increasing [(0, 10); (5, 11); (14, 12)]%Z
  /\ map (interpolate [(0, 10); (5, 11); (14, 12)]%Z) [-1; 0; 2; 3; 9; 10; 14; 15]%Z
     = [ErrTime; Ok 10; Ok 10; Ok 11; Ok 11; Ok 12; Ok 12; ErrTime]%Z.
Proof. split; [simpl; repeat split; reflexivity|vm_compute; reflexivity]. Qed.

Print Assumptions C08_nearest.
