From Coq Require Import List Arith Bool.
From FV Require Import Base Validate.
From FVP Require Import Validate_proofs.
Import ListNotations.

Theorem C19_tmp : forall l, snd (run_checks l) = None ->
  fst (run_checks l) = map (fun ck => EvCheck (fst (fst (fst ck))) (snd (fst (fst ck))) (snd (fst ck))) l.
Proof. exact run_checks_events_ok. Qed.
Print Assumptions C19_tmp.
