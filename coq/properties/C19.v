(** C19 — Composition validation rejects exactly the unworkable topologies.
    Model: FV.Validate (Composition.connect / _validate_composition / the four check helpers /
    Composition.metadata["links"] of src/finam/schedule.py).
    This file contains only statements; proofs are in FVP.Validate_proofs, where the link forest
    relations ([tpath], [fpath], [sub]), the five declarative defects and [wf] are defined. *)
From Coq Require Import List Arith Bool Permutation.
From FV Require Import Base Validate.
From FVP Require Import Validate_proofs.
Import ListNotations.

(** For every well-formed link forest (any number of components, any depth, any fan-out):
    the validation (the index loops / work lists of the code, in the code's order) passes iff none
    of the five defects - each an existential statement over the chains of the forest - is present;
    without a defect [_validate_composition] and [connect] do not raise in the validation, with a
    defect both raise FinamConnectError. *)
Theorem C19_exact :
  forall t : topo, wf t ->
    (validate t = VOk <->
     ~ (unconnected t \/ static_mismatch t \/ missing_component t \/ nobranch_fanout t \/ dead_link t))
    /\ (~ (unconnected t \/ static_mismatch t \/ missing_component t \/ nobranch_fanout t \/ dead_link t) ->
        snd (validate_composition t) = RDone /\ snd (connect false t) = RDone)
    /\ ((unconnected t \/ static_mismatch t \/ missing_component t \/ nobranch_fanout t \/ dead_link t) ->
        snd (validate_composition t) = RRaised ConnectError
        /\ snd (connect false t) = RRaised ConnectError).
Proof. exact validate_exact. Qed.

(** After a successful validation the link list reported by [Composition.metadata] (outputs of the
    composition in index order, then the adapters of the de-duplicated adapter set) is a permutation
    of the links created by [>>] in all link trees that touch the composition:
    output→adapter, adapter→adapter, adapter→input, output→input. *)
Theorem C19_links_exact :
  forall t : topo, wf t -> validate t = VOk ->
    Permutation (metadata_links t) (created_links t).
Proof. exact links_exact. Qed.

(** In [Composition.connect]: whenever a component is asked to connect or a slot exchanges anything
    (event [e] at any position of the trace), the composition was not connected before, the
    validation has passed, and all validation checks precede [e]; if the validation fails, connect
    raises FinamConnectError and the trace contains no connect / exchange event at all. *)
Theorem C19_before_exchange :
  forall (t : topo) (already : bool) (ev : list event) (r : result),
    connect already t = (ev, r) ->
    (forall pre e post, ev = pre ++ e :: post -> is_exchange e = true ->
       already = false /\ validate t = VOk /\ exists pre', pre = check_events t ++ pre')
    /\ (validate t <> VOk -> already = false ->
        r = RRaised ConnectError /\ forall e, In e ev -> is_exchange e = false).
Proof. exact connect_order. Qed.

(** One composition object over several [connect()] attempts ([cstate]: connected flag and the
    adapter set remembered by [Composition._adapters]).  If the composition is not connected yet and
    every remembered adapter is (still) below an output of the composition - which is the case when
    links were only added since earlier, rejected attempts - then a [connect()] whose validation
    passes succeeds and the link list reported afterwards (outputs in index order, then the
    remembered adapters with their targets as they are NOW) is a permutation of the created links. *)
Theorem C19_retry_links_exact :
  forall (s : cstate) (t : topo),
    s_connected s = false -> wf t -> validate t = VOk ->
    (forall id, In id (s_adapters s) -> In id (map nid (owned_nodes t))) ->
    forall s' ev r, connect_st s t = (s', (ev, r)) ->
      r = RDone /\ s_connected s' = true
      /\ Permutation (metadata_links_of s' t) (created_links t).
Proof. exact retry_links_exact. Qed.

(** A [connect()] that raises leaves the connected flag as it was and its trace has no component
    connect / exchange event; on a not yet connected composition the error is FinamConnectError from
    the validation and the only thing left behind are adapters found on the links of that wiring. *)
Theorem C19_failed_attempt_clean :
  forall (s : cstate) (t : topo) (s' : cstate) (ev : list event) (e : exc),
    connect_st s t = (s', (ev, RRaised e)) ->
    s_connected s' = s_connected s
    /\ (forall x, In x ev -> is_exchange x = false)
    /\ (s_connected s = false ->
        e = ConnectError /\ validate t <> VOk
        /\ forall id, In id (s_adapters s') ->
             In id (s_adapters s) \/ In id (map nid (collect_raw t))).
Proof. exact failed_attempt_clean. Qed.

(* ------------------------------------------------------------------------- *)
(** Non-vacuity. *)

Definition oA : oslot := mkO (Some 0) 0 false true false.   (* push-type output 0 of component 0 *)
Definition oCb : oslot := mkO (Some 0) 1 false false true.  (* pull-only (callback) output 1 of component 0 *)
Definition iB0 : islot := mkI (Some 1) 0 false false true.  (* plain inputs of component 1 *)
Definition iB1 : islot := mkI (Some 1) 1 false false true.
Definition iB2 : islot := mkI (Some 1) 2 false true false.  (* callback input *)
Definition scale (k : nat) : ada := mkA k false false false.
Definition linear (k : nat) : ada := mkA k true false true.  (* push-based, no-branch *)

(** A.O0 >> Scale; Scale >> B.I0; Scale >> LinearTime >> B.I2(callback); A.O0 >> B.I1; A.O1 unused *)
Definition ex_ok : topo :=
  mkT [(0, 2); (3, 0)]
      [(Some oA, [Node (scale 0) [Leaf iB0; Node (linear 1) [Leaf iB2]]; Leaf iB1]); (Some oCb, [])].

(** A.O0 >> LinearTime >> Scale, fan-out below it (one branch a dead-end adapter);
    A.O1(callback) >> Scale >> B.I1(callback) *)
Definition ex_bad : topo :=
  mkT [(0, 2); (2, 0)]
      [(Some oA, [Node (linear 0) [Node (scale 1) [Leaf iB0; Node (scale 2) []]]]);
       (Some oCb, [Node (scale 3) [Leaf (mkI (Some 1) 1 false true false)]])].

Example C19_exact_nonvacuous :
  wf ex_ok /\ validate ex_ok = VOk
  /\ wf ex_bad /\ nobranch_fanout ex_bad /\ dead_link ex_bad
  /\ validate ex_bad = VErr (CkBranch, 0, 0, KBranch).
Proof.
  split; [apply wfb_wf; vm_compute; reflexivity|].
  split; [vm_compute; reflexivity|].
  split; [apply wfb_wf; vm_compute; reflexivity|].
  split; [|split; [|vm_compute; reflexivity]].
  - exists oA, [Node (linear 0) [Node (scale 1) [Leaf iB0; Node (scale 2) []]]], 0,
      (Node (linear 0) [Node (scale 1) [Leaf iB0; Node (scale 2) []]]),
      [linear 0], (scale 1), [Leaf iB0; Node (scale 2) []].
    simpl. repeat split; auto.
    + econstructor; [left; reflexivity|constructor].
    + exists (linear 0). simpl. auto.
  - exists oCb, [(scale 3, [Leaf (mkI (Some 1) 1 false true false)])],
      (mkI (Some 1) 1 false true false), 1.
    split; [apply all_paths_spec; vm_compute; auto|]. split; [reflexivity|].
    exists [], (false, true), [(false, false)], (true, false), []. simpl. auto.
Qed.

Example C19_links_exact_nonvacuous :
  wf ex_ok /\ validate ex_ok = VOk
  /\ metadata_links ex_ok =
     [(NOut (Some 0) 0, NAda 0); (NOut (Some 0) 0, NIn (Some 1) 1);
      (NAda 0, NIn (Some 1) 0); (NAda 0, NAda 1); (NAda 1, NIn (Some 1) 2)]
  /\ length (created_links ex_ok) = 5.
Proof.
  split; [apply wfb_wf; vm_compute; reflexivity|]. repeat split; vm_compute; reflexivity.
Qed.

Example C19_before_exchange_nonvacuous :
  connect false ex_ok =
    ([EvCheck CkBranch 0 0; EvCheck CkBranch 0 1;
      EvCheck CkInput 1 0; EvCheck CkDead 1 0; EvCheck CkInput 1 1; EvCheck CkDead 1 1;
      EvCheck CkInput 1 2; EvCheck CkDead 1 2; EvCheck CkMissing 0 0;
      EvConnect 0; EvConnect 1], RDone)
  /\ connect false ex_bad = ([EvCheck CkBranch 0 0; EvRaise], RRaised ConnectError)
  /\ connect true ex_ok = ([], RRaised StatusError).
Proof. repeat split; vm_compute; reflexivity. Qed.

(** first attempt: A.O0 >> Scale0 >> B.I0, B.I1 unlinked (rejected);
    repair: Scale0 >> Scale1 >> Scale2 >> B.I1; second attempt *)
Definition ex_first : topo :=
  mkT [(0, 1); (2, 0)] [(Some oA, [Node (scale 0) [Leaf iB0]])].
Definition ex_repaired : topo :=
  mkT [(0, 1); (2, 0)]
      [(Some oA, [Node (scale 0) [Leaf iB0; Node (scale 1) [Node (scale 2) [Leaf iB1]]]])].

Example C19_retry_nonvacuous :
  exists s1 ev1,
    connect_st fresh ex_first = (s1, (ev1, RRaised ConnectError))
    /\ s_connected s1 = false /\ s_adapters s1 = [0]
    /\ wf ex_repaired /\ validate ex_repaired = VOk
    /\ (forall id, In id (s_adapters s1) -> In id (map nid (owned_nodes ex_repaired)))
    /\ metadata_links_of (fst (connect_st s1 ex_repaired)) ex_repaired =
       [(NOut (Some 0) 0, NAda 0); (NAda 0, NIn (Some 1) 0); (NAda 0, NAda 1);
        (NAda 1, NAda 2); (NAda 2, NIn (Some 1) 1)]
    /\ metadata_links_of s1 ex_repaired =   (* what a stale adapter set would report *)
       [(NOut (Some 0) 0, NAda 0); (NAda 0, NIn (Some 1) 0); (NAda 0, NAda 1)].
Proof.
  eexists. eexists. split; [vm_compute; reflexivity|].
  split; [reflexivity|]. split; [reflexivity|].
  split; [apply wfb_wf; vm_compute; reflexivity|]. split; [vm_compute; reflexivity|].
  split; [intros id [<-|[]]; vm_compute; auto|]. split; vm_compute; reflexivity.
Qed.

Print Assumptions C19_exact.
Print Assumptions C19_links_exact.
Print Assumptions C19_before_exchange.
Print Assumptions C19_retry_links_exact.
Print Assumptions C19_failed_attempt_clean.
