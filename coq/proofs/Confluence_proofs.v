(** C05: the final state of a run does not depend on which of several equally advanced components the
    driver takes first (that is all the listing order of the components decides).

    Proved for compositions whose links carry no per-link state (pass-through adapters, fixed delays,
    buffering adapters): the final update counts of ANY two runs that end normally coincide, because each is
    (A) below every "solution" of the constraint system
          every time component reaches the end time, and every update it makes finds its sources far enough,
    and (B) itself such a solution. *)
From Coq Require Import List ZArith Bool Arith Lia.
From FV Require Import Base Sched.
From FVP Require Import Adapters_proofs Sched_proofs.
Import ListNotations.
Open Scope Z_scope.

(** ** stateless links *)
Definition stateless_adapter (a : adapter) : bool :=
  match a with APass | AFixed _ | ABuf => true | _ => false end.

Definition stateless (cs : composition) : Prop :=
  forall c k inp, nth_error (c_inputs (getc cs c)) k = Some inp -> forallb stateless_adapter (i_chain inp) = true.

Lemma sched_walk_stateless ch : forall ss1 ss2 init pt1 pt2 b t,
  forallb stateless_adapter ch = true -> length ss1 = length ch -> length ss2 = length ch ->
  sched_walk ch ss1 init pt1 b t = sched_walk ch ss2 init pt2 b t.
Proof.
  induction ch as [|a ch IH]; intros ss1 ss2 init pt1 pt2 b t H L1 L2; simpl; [reflexivity|].
  destruct ss1 as [|s1 ss1]; [discriminate|]. destruct ss2 as [|s2 ss2]; [discriminate|].
  simpl in H. apply andb_prop in H. destruct H as [Ha H]. simpl in L1, L2. injection L1 as L1. injection L2 as L2.
  destruct b; [apply IH; assumption|].
  destruct a; try discriminate; simpl; apply IH; assumption.
Qed.

(** ** the time of a component after n updates *)
Fixpoint sum_steps (steps : list Z) (n : nat) : Z :=
  match n with O => 0 | S n' => sum_steps steps n' + step_of steps n' end.

Definition tfun (cs : composition) (c : nat) (n : nat) : Z :=
  match c_kind (getc cs c) with KTime s steps _ => s + sum_steps steps n | KPull => 0 end.

Definition TimeInv (cs : composition) (st : state) : Prop :=
  forall c, s_time st c = tfun cs c (s_cnt st c).

Lemma tfun_S cs c n : is_time cs c = true ->
  tfun cs c (S n) = tfun cs c n + match c_kind (getc cs c) with KTime _ steps _ => step_of steps n | KPull => 0 end.
Proof. unfold tfun, is_time. destruct (c_kind (getc cs c)); [intros _; simpl; lia|discriminate]. Qed.

Lemma tfun_mono_strict cs (W : wf cs) c : is_time cs c = true -> forall n m, (n < m)%nat -> tfun cs c n < tfun cs c m.
Proof.
  intros Tc n m H. induction H as [|m H IH].
  - rewrite tfun_S by exact Tc. pose proof (wf_steps cs W c) as Hs. unfold steps_pos in Hs.
    unfold is_time in Tc. destruct (c_kind (getc cs c)) as [s steps ip|]; [|discriminate].
    pose proof (step_of_pos steps n Hs). lia.
  - rewrite tfun_S by exact Tc. pose proof (wf_steps cs W c) as Hs. unfold steps_pos in Hs.
    unfold is_time in Tc. destruct (c_kind (getc cs c)) as [s steps ip|] eqn:K; [|discriminate].
    pose proof (step_of_pos steps m Hs). unfold tfun in *. rewrite K in *. simpl. lia.
Qed.

Lemma tfun_lt_inv cs (W : wf cs) c n m : is_time cs c = true -> tfun cs c n < tfun cs c m -> (n < m)%nat.
Proof.
  intros Tc H. destruct (le_lt_dec m n) as [Hle|]; [|assumption]. exfalso.
  destruct (Nat.eq_dec m n) as [->|Ne]; [lia|].
  pose proof (tfun_mono_strict cs W c Tc m n ltac:(lia)). lia.
Qed.

Lemma next_time_tfun cs st c : TimeInv cs st -> is_time cs c = true -> next_time cs st c = tfun cs c (S (s_cnt st c)).
Proof.
  intros TI Tc. rewrite tfun_S by exact Tc. unfold next_time. rewrite (TI c).
  unfold is_time in Tc. destruct (c_kind (getc cs c)); [reflexivity|discriminate].
Qed.

(** ** the state that corresponds to a vector of update counts *)
Definition stateN (cs : composition) (N : nat -> nat) : state :=
  mkS (fun c => tfun cs c (N c)) N (empty_links cs).

Lemma stateN_Len cs N : forall c k inp, nth_error (c_inputs (getc cs c)) k = Some inp ->
  length (s_link (stateN cs N) c k) = length (i_chain inp).
Proof.
  intros c k inp Hk. simpl. unfold empty_links. rewrite map_length. now rewrite (nth_error_nth _ _ _ Hk).
Qed.

Definition LenInv (cs : composition) (st : state) : Prop :=
  forall c k inp, nth_error (c_inputs (getc cs c)) k = Some inp -> length (s_link st c k) = length (i_chain inp).

Lemma link_req_stateless cs (SL : stateless cs) a b c k inp t :
  LenInv cs a -> LenInv cs b -> nth_error (c_inputs (getc cs c)) k = Some inp ->
  link_req cs a c k inp t = link_req cs b c k inp t.
Proof.
  intros La Lb Hk. unfold link_req, link_dep. destruct (is_static_src cs (i_src inp)); [reflexivity|].
  apply sched_walk_stateless; [exact (SL c k inp Hk)|exact (La c k inp Hk)|exact (Lb c k inp Hk)].
Qed.

(** served is monotone in the source times (for stateless links) *)
Lemma servedn_times_mono cs (SL : stateless cs) n : forall a b c t,
  LenInv cs a -> LenInv cs b -> (forall x, s_time a x <= s_time b x) ->
  servedn n cs a c t -> servedn n cs b c t.
Proof.
  induction n as [|n IH]; intros a b c t La Lb Ht H; [exact H|].
  intros k inp lt Hk Hr. rewrite <- (link_req_stateless cs SL a b c k inp t La Lb Hk) in Hr.
  destruct (H k inp lt Hk Hr) as [H1 H2]. split.
  - intros Ti. specialize (H1 Ti). specialize (Ht (fst (i_src inp))). lia.
  - intros Tp. apply (IH a b); [exact La|exact Lb|exact Ht|exact (H2 Tp)].
Qed.

Definition served (cs : composition) (st : state) (c : nat) (t : Z) : Prop := exists n, servedn n cs st c t.

(** ** solutions of the constraint system *)
Record Sol (cs : composition) (endt : Z) (M : nat -> nat) : Prop := {
  sol_end : forall c, is_time cs c = true -> endt <= tfun cs c (M c);
  sol_served : forall v j, is_time cs v = true -> (1 <= j <= M v)%nat -> served cs (stateN cs M) v (tfun cs v j)
}.

(** (A) a needed update never exceeds a solution *)
Lemma lag_bound cs (W : wf cs) (SL : stateless cs) endt M st :
  Inv cs st -> TimeInv cs st -> Sol cs endt M ->
  (forall c, is_time cs c = true -> (s_cnt st c <= M c)%nat) ->
  forall c t u, lagpath cs st c t u ->
    (is_time cs c = true -> (s_cnt st c < M c)%nat) ->
    (is_time cs c = false -> served cs (stateN cs M) c t) ->
    (s_cnt st u < M u)%nat.
Proof.
  intros [Itime Ilen] TI SM Hle c t u L.
  assert (LM : LenInv cs (stateN cs M)) by (intros x y z Hz; apply stateN_Len; exact Hz).
  (* what the solution says about the target of a node *)
  assert (Node : forall c t, (is_time cs c = true -> (s_cnt st c < M c)%nat) ->
                            (is_time cs c = false -> served cs (stateN cs M) c t) ->
                            served cs (stateN cs M) c (target_of cs st c t)).
  { intros c0 t0 H1 H2. unfold target_of. destruct (is_time cs c0) eqn:Tc.
    - rewrite (next_time_tfun cs st c0 TI Tc). apply (sol_served cs endt M SM c0 _ Tc). specialize (H1 eq_refl). lia.
    - apply H2; reflexivity. }
  induction L as [c t Tc | c t k inp lt u Hk Hr Ts Hlag L IH | c t k inp lt u Hk Hr Tp L IH]; intros H1 H2.
  - exact (H1 Tc).
  - destruct (Node c t H1 H2) as [n Hn].
    destruct n as [|n]; [destruct Hn|].
    rewrite (link_req_stateless cs SL st (stateN cs M) c k inp _ Ilen LM Hk) in Hr.
    destruct (Hn k inp lt Hk Hr) as [Hs _]. specialize (Hs Ts). simpl in Hs.
    apply IH; [|intros E; congruence].
    intros _. apply (tfun_lt_inv cs W _ _ _ Ts). rewrite <- (TI _). lia.
  - destruct (Node c t H1 H2) as [n Hn].
    destruct n as [|n]; [destruct Hn|].
    rewrite (link_req_stateless cs SL st (stateN cs M) c k inp _ Ilen LM Hk) in Hr.
    destruct (Hn k inp lt Hk Hr) as [_ Hp]. specialize (Hp Tp).
    apply IH; [intros E; congruence|]. intros _. exists n. exact Hp.
Qed.

(** ** the invariant of a run *)
Definition Good (cs : composition) (st : state) : Prop :=
  forall v j, is_time cs v = true -> (1 <= j <= s_cnt st v)%nat -> served cs st v (tfun cs v j).

Record RInv (cs : composition) (endt : Z) (st : state) : Prop := {
  ri_inv : Inv cs st;
  ri_time : TimeInv cs st;
  ri_good : Good cs st;
  ri_bound : forall M, Sol cs endt M -> forall c, is_time cs c = true -> (s_cnt st c <= M c)%nat
}.

Definition pick_ok (cs : composition) (pick : state -> option nat) : Prop :=
  forall st,
    match pick st with
    | Some c => is_time cs c = true /\
                forall c', (c' < length cs)%nat -> is_time cs c' = true -> s_time st c <= s_time st c'
    | None => forall c', (c' < length cs)%nat -> is_time cs c' = false
    end.

Lemma pull_list_cnt rec : forall ins k0 s a s' a' e,
  (forall k x s1 a1 s2 a2 e2, rec k x s1 a1 = (s2, a2, e2) -> s_cnt s2 = s_cnt s1) ->
  pull_list rec k0 ins s a = (s', a', e) -> s_cnt s' = s_cnt s.
Proof.
  induction ins as [|x ins IH]; intros k0 s a s' a' e Hrec H; simpl in H; [inversion H; reflexivity|].
  destruct (rec k0 x s a) as [[s2 a2] e2] eqn:R.
  pose proof (Hrec _ _ _ _ _ _ _ R) as E2.
  destruct e2; [inversion H; subst; exact E2|].
  rewrite (IH _ _ _ _ _ _ Hrec H). exact E2.
Qed.

Lemma pull_input_cnt cs fuel : forall s c k x t a s2 a2 e2,
  pull_input fuel cs s c k x t a = (s2, a2, e2) -> s_cnt s2 = s_cnt s.
Proof.
  induction fuel as [|fuel IH]; intros s c k x t a s2 a2 e2 H; simpl in H; [inversion H; reflexivity|].
  destruct (pull_chain _ _ _ _ _) as [[r b] ss']. destruct (is_static_src cs (i_src x)); [inversion H; reflexivity|].
  destruct b; [inversion H; reflexivity|].
  destruct (is_time cs (fst (i_src x))); [inversion H; reflexivity|].
  apply pull_list_cnt in H; [exact H|]. intros k1 x1 s1 a1 s3 a3 e3 R. eapply IH; eauto.
Qed.

Lemma do_update_cnt cs st c acc st' acc' e :
  do_update cs st c acc = (st', acc', e) ->
  s_cnt st' c = S (s_cnt st c) /\ forall x, x <> c -> s_cnt st' x = s_cnt st x.
Proof.
  unfold do_update, pull_all.
  destruct (pull_list _ _ _ _ _) as [[st1 acc1] e1] eqn:PA. intros H. inversion H; subst. clear H.
  assert (E : s_cnt st1 = s_cnt st).
  { apply pull_list_cnt in PA; [exact PA|]. intros k1 x1 s1 a1 s3 a3 e3 R. eapply pull_input_cnt; eauto. }
  cbn [s_cnt]. unfold upd. rewrite E. split; [now rewrite Nat.eqb_refl|].
  intros x Hx. apply Nat.eqb_neq in Hx. now rewrite Hx.
Qed.

Lemma tfun_pull cs c n : is_time cs c = false -> tfun cs c n = 0.
Proof. unfold tfun, is_time. destruct (c_kind (getc cs c)); [discriminate|reflexivity]. Qed.

Lemma init_state_RInv cs endt (W : wf cs) : RInv cs endt (init_state cs).
Proof.
  split.
  - apply init_state_Inv.
  - intros c. unfold init_state, tfun. simpl. destruct (c_kind (getc cs c)); simpl; lia.
  - intros v j _ Hj. simpl in Hj. lia.
  - intros M _ c _. simpl. lia.
Qed.

(** one iteration of the run loop keeps the invariant *)
Lemma rinv_step cs (W : wf cs) (SL : stateless cs) endt pick (PO : pick_ok cs pick) st acc c0 u st' acc' e :
  RInv cs endt st -> any_running st O cs endt = true -> pick st = Some c0 ->
  update_rec (rec_fuel cs) cs st acc c0 [] 0 = UUpdated u st' acc' e ->
  RInv cs endt st'.
Proof.
  intros [Hinv TI G B] AR PK U.
  destruct (update_rec_ok cs W _ _ _ _ _ _ _ _ _ _ Hinv U) as [Su [Lu [_ [I' [T1 T2]]]]].
  destruct (update_rec_props (rec_fuel cs) cs st acc c0 [] 0) as [_ HB].
  destruct (HB _ _ _ _ U) as [Tu [Du _]].
  destruct (do_update_cnt cs st u acc st' acc' e Du) as [C1 C2].
  assert (Le : forall x, s_time st x <= s_time st' x).
  { intros x. destruct (Nat.eq_dec x u) as [->|Ne]; [|rewrite T2 by exact Ne; lia].
    rewrite T1. pose proof (next_time_gt cs W st u Tu). lia. }
  assert (L0 : LenInv cs st) by (destruct Hinv as [_ L]; exact L).
  assert (L1 : LenInv cs st') by (destruct I' as [_ L]; exact L).
  split.
  - exact I'.
  - intros c. destruct (Nat.eq_dec c u) as [->|Ne].
    + rewrite T1, C1. apply next_time_tfun; assumption.
    + rewrite T2, C2 by exact Ne. apply TI.
  - intros v j Tv Hj.
    assert (Old : (1 <= j <= s_cnt st v)%nat -> served cs st' v (tfun cs v j)).
    { intros Hj'. destruct (G v j Tv Hj') as [n Hn]. exists n.
      eapply (servedn_times_mono cs SL n st st'); eauto. }
    destruct (Nat.eq_dec v u) as [->|Ne]; [|rewrite C2 in Hj by exact Ne; auto].
    rewrite C1 in Hj. destruct (Nat.eq_dec j (S (s_cnt st u))) as [->|Nj]; [|apply Old; lia].
    exists (rec_fuel cs). rewrite <- (next_time_tfun cs st u TI Tu).
    eapply (servedn_times_mono cs SL _ st st'); eauto.
  - intros M SM c Tc. destruct (Nat.eq_dec c u) as [->|Ne]; [|rewrite C2 by exact Ne; apply B; assumption].
    rewrite C1.
    assert (H0 : (s_cnt st c0 < M c0)%nat).
    { pose proof (PO st) as POs. rewrite PK in POs. destruct POs as [T0 Min].
      destruct (any_running_true st endt cs O AR) as [j [x [Hj [Hx Hlt]]]]. simpl in Hlt.
      assert (Lj : (j < length cs)%nat) by (apply nth_error_Some; congruence).
      assert (Tj : is_time cs j = true).
      { unfold is_time, getc. rewrite (nth_error_nth _ _ _ Hj). destruct Hx as [s0 [st0 [ip Hx]]]. now rewrite Hx. }
      specialize (Min j Lj Tj).
      apply (tfun_lt_inv cs W _ _ _ T0). rewrite <- (TI c0).
      pose proof (sol_end cs endt M SM c0 T0). lia. }
    assert (Hb := lag_bound cs W SL endt M st Hinv TI SM (B M SM) c0 0 u Lu).
    apply Hb; [intros _; exact H0|].
    pose proof (PO st) as POs. rewrite PK in POs. destruct POs as [T0 _]. intros E; congruence.
Qed.

(** a run that ends normally ends in a state satisfying the invariant, with every component at the end time *)
Lemma run_loop_pick_final cs (W : wf cs) (SL : stateless cs) endt pick (PO : pick_ok cs pick) fuel :
  forall st acc st' acc',
  RInv cs endt st -> any_running st O cs endt = true ->
  run_loop_pick pick fuel cs endt st acc = (OOk, st', acc') ->
  RInv cs endt st' /\ any_running st' O cs endt = false.
Proof.
  induction fuel as [|fuel IH]; intros st acc st' acc' R AR H; cbn [run_loop_pick] in H; [discriminate|].
  destruct (pick st) as [c0|] eqn:PK.
  - destruct (update_rec (rec_fuel cs) cs st acc c0 [] 0) as [u st1 acc1 e1| | |] eqn:U; try discriminate.
    pose proof (rinv_step cs W SL endt pick PO st acc c0 u st1 acc1 e1 R AR PK U) as R1.
    destruct e1 as [[| |]|]; try discriminate.
    destruct (any_running st1 0 cs endt) eqn:AR1.
    + eapply IH; eauto.
    + inversion H; subst. auto.
  - exfalso. pose proof (PO st) as POs. rewrite PK in POs.
    destruct (any_running_true st endt cs O AR) as [j [x [Hj [Hx _]]]].
    assert (Lj : (j < length cs)%nat) by (apply nth_error_Some; congruence).
    specialize (POs j Lj). unfold is_time, getc in POs. rewrite (nth_error_nth _ _ _ Hj) in POs.
    destruct Hx as [s0 [st0 [ip Hx]]]. rewrite Hx in POs. discriminate.
Qed.

(** the update counts of a normally ended run are a solution *)
Lemma final_is_solution cs (SL : stateless cs) endt st :
  RInv cs endt st -> any_running st O cs endt = false -> Sol cs endt (s_cnt st).
Proof.
  intros [Hinv TI G B] AR. split.
  - intros c Tc. rewrite <- (TI c).
    destruct (is_time_kind cs c Tc) as [s [steps [ip K]]].
    assert (Lc : (c < length cs)%nat).
    { destruct (le_lt_dec (length cs) c) as [Hge|]; [|assumption].
      unfold getc in K. rewrite nth_overflow in K by exact Hge. discriminate. }
    destruct (nth_error cs c) as [x|] eqn:E; [|apply nth_error_None in E; lia].
    pose proof (any_running_false st endt cs O AR c x E) as H. simpl in H. apply H.
    unfold getc in K. rewrite (nth_error_nth _ _ _ E) in K. eauto.
  - intros v j Tv Hj. destruct (G v j Tv Hj) as [n Hn]. exists n.
    eapply (servedn_times_mono cs SL n st (stateN cs (s_cnt st))); eauto.
    + destruct Hinv as [_ L]. exact L.
    + intros x y z Hz. apply stateN_Len; exact Hz.
    + intros x. simpl. rewrite (TI x). lia.
Qed.

(** C05: whatever the tie-breaking, two runs that end normally end with the same update counts and times *)
Lemma confluence cs (W : wf cs) (SL : stateless cs) endt pick1 pick2 fuel1 fuel2 st1 acc1 st2 acc2 :
  pick_ok cs pick1 -> pick_ok cs pick2 ->
  any_running (init_state cs) O cs endt = true ->
  run_loop_pick pick1 fuel1 cs endt (init_state cs) [] = (OOk, st1, acc1) ->
  run_loop_pick pick2 fuel2 cs endt (init_state cs) [] = (OOk, st2, acc2) ->
  forall c, is_time cs c = true -> s_cnt st1 c = s_cnt st2 c /\ s_time st1 c = s_time st2 c.
Proof.
  intros P1 P2 AR H1 H2 c Tc.
  destruct (run_loop_pick_final cs W SL endt pick1 P1 fuel1 _ _ _ _ (init_state_RInv cs endt W) AR H1) as [R1 E1].
  destruct (run_loop_pick_final cs W SL endt pick2 P2 fuel2 _ _ _ _ (init_state_RInv cs endt W) AR H2) as [R2 E2].
  pose proof (final_is_solution cs SL endt st1 R1 E1) as S1.
  pose proof (final_is_solution cs SL endt st2 R2 E2) as S2.
  pose proof (ri_bound cs endt st1 R1 _ S2 c Tc) as B1.
  pose proof (ri_bound cs endt st2 R2 _ S1 c Tc) as B2.
  assert (E : s_cnt st1 c = s_cnt st2 c) by lia.
  split; [exact E|]. rewrite (ri_time cs endt st1 R1 c), (ri_time cs endt st2 R2 c), E. reflexivity.
Qed.

(** the picks of the model: list order ([run]) and an arbitrary priority order ([run_prio]) *)
Lemma run_loop_is_pick cs endt fuel : forall st acc,
  run_loop fuel cs endt st acc = run_loop_pick (fun s => pick_min cs s O cs None) fuel cs endt st acc.
Proof.
  induction fuel as [|fuel IH]; intros st acc; cbn [run_loop run_loop_pick]; [reflexivity|].
  destruct (pick_min cs st 0 cs None); [|reflexivity].
  destruct (update_rec (rec_fuel cs) cs st acc n [] 0) as [u st1 acc1 e1| | |]; try reflexivity.
  destruct e1 as [[| |]|]; try reflexivity. destruct (any_running st1 0 cs endt); [apply IH|reflexivity].
Qed.

Lemma pick_min_ok cs : pick_ok cs (fun s => pick_min cs s O cs None).
Proof.
  intros st. destruct (pick_min cs st 0 cs None) as [c|] eqn:E.
  - destruct (pick_min_spec cs st c E) as [_ [Tc H]]. split; [exact Tc|]. intros c' L T'. apply H; assumption.
  - pose proof (pick_min_spec_gen cs st cs O None) as G. rewrite E in G. simpl in G.
    apply G; [intros; reflexivity|intros; lia].
Qed.

Lemma pick_prio_gen cs st : forall prio best,
  (match best with Some b => is_time cs b = true | None => True end) ->
  match pick_prio cs st prio best with
  | Some c => is_time cs c = true /\
              (forall b, best = Some b -> s_time st c <= s_time st b) /\
              (forall c', In c' prio -> is_time cs c' = true -> s_time st c <= s_time st c')
  | None => best = None /\ forall c', In c' prio -> is_time cs c' = false
  end.
Proof.
  induction prio as [|k prio IH]; intros best Hb; simpl.
  - destruct best as [b|]; [|split; [reflexivity|intros c' []]].
    split; [exact Hb|]. split; [intros b' E; inversion E; lia|intros c' []].
  - destruct (is_time cs k) eqn:Tk.
    + destruct best as [b|].
      * destruct (s_time st k <? s_time st b) eqn:E.
        -- apply Z.ltb_lt in E. specialize (IH (Some k) Tk).
           destruct (pick_prio cs st prio (Some k)) as [c|]; [|destruct IH as [IH _]; discriminate].
           destruct IH as [Tc [H1 H2]]. specialize (H1 k eq_refl). split; [exact Tc|]. split.
           ++ intros b' Eb. inversion Eb; subst. lia.
           ++ intros c' [<-|Hin] T'; [exact H1|apply H2; assumption].
        -- apply Z.ltb_ge in E. specialize (IH (Some b) Hb).
           destruct (pick_prio cs st prio (Some b)) as [c|]; [|destruct IH as [IH _]; discriminate].
           destruct IH as [Tc [H1 H2]]. specialize (H1 b eq_refl). split; [exact Tc|]. split.
           ++ intros b' Eb. inversion Eb; subst. exact H1.
           ++ intros c' [<-|Hin] T'; [lia|apply H2; assumption].
      * specialize (IH (Some k) Tk).
        destruct (pick_prio cs st prio (Some k)) as [c|]; [|destruct IH as [IH _]; discriminate].
        destruct IH as [Tc [H1 H2]]. specialize (H1 k eq_refl). split; [exact Tc|]. split; [intros b' Eb; discriminate|].
        intros c' [<-|Hin] T'; [exact H1|apply H2; assumption].
    + specialize (IH best Hb). destruct (pick_prio cs st prio best) as [c|].
      * destruct IH as [Tc [H1 H2]]. split; [exact Tc|]. split; [exact H1|].
        intros c' [<-|Hin] T'; [congruence|apply H2; assumption].
      * destruct IH as [E H]. split; [exact E|]. intros c' [<-|Hin]; [exact Tk|apply H; exact Hin].
Qed.

Lemma pick_prio_ok cs prio :
  (forall c, (c < length cs)%nat -> In c prio) -> pick_ok cs (fun s => pick_prio cs s prio None).
Proof.
  intros Hall st. pose proof (pick_prio_gen cs st prio None I) as G.
  destruct (pick_prio cs st prio None) as [c|].
  - destruct G as [Tc [_ H]]. split; [exact Tc|]. intros c' L T'. apply H; [apply Hall; exact L|exact T'].
  - destruct G as [_ H]. intros c' L. apply H. apply Hall; exact L.
Qed.

(** outcome class: the same for every tie-breaking *)
Lemma run_loop_pick_good cs (W : wf cs) endt pick fuel : forall st acc o st' acc',
  Inv cs st -> run_loop_pick pick fuel cs endt st acc = (o, st', acc') -> o <> OTime /\ o <> ONoData.
Proof.
  induction fuel as [|fuel IH]; intros st acc o st' acc' Hinv H; cbn [run_loop_pick] in H.
  - inversion H; subst. split; discriminate.
  - destruct (pick st) as [c|]; [|inversion H; subst; split; discriminate].
    destruct (update_rec (rec_fuel cs) cs st acc c [] 0) as [u st1 acc1 e1| | |] eqn:U;
      try (inversion H; subst; split; discriminate).
    destruct (update_rec_ok cs W _ _ _ _ _ _ _ _ _ _ Hinv U) as [_ [_ [[G1 G2] [I1 _]]]].
    destruct e1 as [[| |]|]; try congruence.
    + inversion H; subst; split; discriminate.
    + destruct (any_running st1 0 cs endt); [eapply IH; eauto|inversion H; subst; split; discriminate].
Qed.

Lemma run_loop_pick_no_circ cs (W : wf cs) phi rank (Suf : sufficient cs phi rank) endt pick fuel :
  forall st acc o st' acc',
  Inv cs st -> run_loop_pick pick fuel cs endt st acc = (o, st', acc') -> o <> OCirc.
Proof.
  induction fuel as [|fuel IH]; intros st acc o st' acc' Hinv H; cbn [run_loop_pick] in H.
  - inversion H; discriminate.
  - destruct (pick st) as [c|]; [|inversion H; discriminate].
    destruct (update_rec (rec_fuel cs) cs st acc c [] 0) as [u st1 acc1 e1| | |] eqn:U;
      try (inversion H; discriminate).
    + destruct (update_rec_ok cs W _ _ _ _ _ _ _ _ _ _ Hinv U) as [_ [_ [_ [I1 _]]]].
      destruct e1 as [[| |]|]; try (inversion H; discriminate).
      destruct (any_running st1 0 cs endt); [eapply IH; eauto|inversion H; discriminate].
    + exfalso. apply (no_circ cs phi rank Suf st Hinv (rec_fuel cs) acc c [] 0); [intros e []|exact U].
Qed.

(** ** what an output delivers for a served request does not depend on later publications *)
From FV Require Import OutputM.
From FVP Require Import OutputM_proofs.

Lemma interp_loop_prefix {A} (h1 : hist A) : forall prev h2 time,
  (exists e, In e h1 /\ time <= fst e) ->
  interp_loop prev (h1 ++ h2) time = interp_loop prev h1 time.
Proof.
  induction h1 as [|[t d] h1 IH]; intros prev h2 time [e [Hin Hle]]; [destruct Hin|].
  simpl. destruct (t <? time) eqn:E; [|reflexivity].
  apply Z.ltb_lt in E. apply IH. destruct Hin as [<-|Hin]; [simpl in Hle; lia|eauto].
Qed.

Lemma interpolate_prefix {A} (h1 h2 : hist A) time :
  increasing (h1 ++ h2) -> (exists e, In e h1 /\ time <= fst e) ->
  interpolate (h1 ++ h2) time = interpolate h1 time.
Proof.
  intros Hinc [e [Hin Hle]].
  destruct h1 as [|[t0 d0] r1]; [destruct Hin|].
  unfold interpolate. cbn [app].
  assert (L1 : time <= last_time t0 r1).
  { destruct Hin as [<-|Hin]; simpl in Hle.
    - unfold increasing in Hinc. cbn [app] in Hinc.
      assert (I1 : inc_from t0 r1) by (eapply (inc_from_app t0 r1 h2); exact Hinc).
      pose proof (last_time_ge t0 r1 I1). lia.
    - unfold increasing in Hinc. cbn [app] in Hinc.
      assert (I1 : inc_from t0 r1) by (eapply (inc_from_app t0 r1 h2); exact Hinc).
      pose proof (last_time_in t0 r1 e I1 Hin). lia. }
  assert (L2 : time <= last_time t0 (r1 ++ h2)).
  { unfold increasing in Hinc. cbn [app] in Hinc.
    assert (Hin' : In e ((t0, d0) :: r1 ++ h2)) by (destruct Hin as [<-|Hin]; [left; reflexivity|right; apply in_or_app; left; exact Hin]).
    destruct Hin' as [<-|Hin']; [pose proof (last_time_ge t0 (r1 ++ h2) Hinc); simpl in Hle; lia|].
    pose proof (last_time_in t0 (r1 ++ h2) e Hinc Hin'). lia. }
  assert (E1 : (last_time t0 r1 <? time) = false) by (apply Z.ltb_ge; lia).
  assert (E2 : (last_time t0 (r1 ++ h2) <? time) = false) by (apply Z.ltb_ge; lia).
  rewrite E1, E2. destruct (time <? t0); [reflexivity|]. simpl.
  change ((t0, d0) :: r1 ++ h2) with (((t0, d0) :: r1) ++ h2).
  apply (interp_loop_prefix ((t0, d0) :: r1) None h2 time). eauto.
Qed.
