(** C04, connect phase of the harness compositions (FV.Sched, [published] / [connect_stuck]): a cycle among
    components that provide their initial data only after their initial pulls is reported — every member is in
    the list of stuck components — and without such waiting nothing is stuck. *)
From Coq Require Import List ZArith Bool Arith Lia.
From FV Require Import Base Sched.
Import ListNotations.

Definition waits (cs : composition) (paps : list bool) (k : nat) : bool :=
  nth k paps false && has_initpull (c_kind (getc cs k)).

(** every member waits for its initial pulls and pulls from another member *)
Definition wait_cycle (cs : composition) (paps : list bool) (cyc : list nat) : Prop :=
  cyc <> [] /\
  forall k, In k cyc -> (k < length cs)%nat /\ waits cs paps k = true /\
                        exists j, In j cyc /\ In j (srcs_of (getc cs k)).

Lemma nth_map_seq {A} (f : nat -> A) n k d : (k < n)%nat -> nth k (map f (seq O n)) d = f k.
Proof.
  intros H. rewrite (nth_indep _ d (f O)) by (rewrite map_length, seq_length; exact H).
  rewrite map_nth. now rewrite seq_nth.
Qed.

Lemma pub_step_member cs paps cyc pub :
  wait_cycle cs paps cyc -> (forall k, In k cyc -> nth k pub false = false) ->
  forall k, In k cyc -> nth k (pub_step cs paps pub) false = false.
Proof.
  intros [_ Hc] Hp k Hk. destruct (Hc k Hk) as [Lk [Wk [j [Hj Hs]]]].
  unfold pub_step. rewrite nth_map_seq by exact Lk. unfold waits in Wk. rewrite Wk. simpl.
  apply not_true_is_false. intros F. rewrite forallb_forall in F. specialize (F j Hs). rewrite (Hp j Hj) in F. discriminate.
Qed.

Lemma pub_iter_member cs paps cyc n : forall pub,
  wait_cycle cs paps cyc -> (forall k, In k cyc -> nth k pub false = false) ->
  forall k, In k cyc -> nth k (pub_iter n cs paps pub) false = false.
Proof.
  induction n as [|n IH]; intros pub Hc Hp k Hk; simpl; [apply Hp; exact Hk|].
  apply IH; auto. intros k' Hk'. eapply pub_step_member; eauto.
Qed.

Lemma nth_all_false {A} (l : list A) k : nth k (map (fun _ => false) l) false = false.
Proof. revert k; induction l as [|x l IH]; intros k; destruct k; simpl; auto. Qed.

Lemma filter_none {A} (f : A -> bool) l : (forall x, In x l -> f x = false) -> filter f l = [].
Proof.
  induction l as [|x l IH]; intros H; [reflexivity|]. simpl. rewrite (H x (or_introl eq_refl)).
  apply IH. intros y Hy. apply H. right; exact Hy.
Qed.

(** C04_connect_cycle_reported *)
Lemma wait_cycle_stuck cs paps cyc :
  wait_cycle cs paps cyc -> forall k, In k cyc -> In k (connect_stuck cs paps).
Proof.
  intros Hc k Hk. pose proof Hc as [_ Hc'].
  destruct (Hc' k Hk) as [Lk _].
  unfold connect_stuck. apply filter_In. split; [apply in_seq; lia|].
  unfold connected_after, published.
  rewrite (pub_iter_member cs paps cyc (length cs) _ Hc); [reflexivity| |exact Hk].
  intros k' _. apply nth_all_false.
Qed.

(** without any waiting component everything publishes at once and nothing is stuck *)
Lemma no_wait_all_connected cs paps :
  (forall k, (k < length cs)%nat -> waits cs paps k = false) ->
  (forall k j, (k < length cs)%nat -> In j (srcs_of (getc cs k)) -> (j < length cs)%nat) ->
  connect_stuck cs paps = [].
Proof.
  intros Hw Hsrc.
  assert (Hstep : forall pub k, (k < length cs)%nat -> nth k (pub_step cs paps pub) false = true).
  { intros pub k Lk. unfold pub_step. rewrite nth_map_seq by exact Lk.
    specialize (Hw k Lk). unfold waits in Hw. rewrite Hw. reflexivity. }
  assert (Hiter : forall n pub, (1 <= n)%nat -> forall k, (k < length cs)%nat -> nth k (pub_iter n cs paps pub) false = true).
  { induction n as [|n IH]; intros pub Hn k Lk; [lia|]. simpl.
    destruct n as [|n]; [simpl; apply Hstep; exact Lk|]. apply IH; [lia|exact Lk]. }
  unfold connect_stuck. apply filter_none. intros k Hk. apply in_seq in Hk.
  assert (Lk : (k < length cs)%nat) by lia.
  unfold connected_after, published.
  rewrite (Hiter (length cs) _ ltac:(lia) k Lk). simpl.
  apply negb_false_iff. apply orb_true_intro. right. apply forallb_forall. intros j Hj.
  apply Hiter; [lia|]. eapply Hsrc; eauto.
Qed.
