(** Proofs about FV.Mask (C18). *)
From Coq Require Import List ZArith Bool Arith Lia.
From FV Require Import Base Arr Mask.
From FVP Require Import Arr_proofs.
Import ListNotations.

Lemma compressed_spec : forall A (a : arr A) (m : arr bool) (o : order),
  ashape m = ashape a ->
  to_compressed a (OwnBits m) o MUnset
  = map (aget a) (filter (fun idx => negb (aget m idx)) (indices o (ashape a))).
Proof.
  intros A a m o Hs. unfold to_compressed. simpl. unfold ravel. rewrite Hs, map_map.
  apply compress_map_filter.
Qed.
