(** Proofs about FV.Mask (C18). *)
From Coq Require Import List ZArith Bool Arith Lia Permutation.
From FV Require Import Base Arr Mask.
From FVP Require Import Arr_proofs.
Import ListNotations.

(** * Small list facts *)

Lemma nth_map_Some : forall A (l : list A) i d, i < length l ->
  nth i (map Some l) None = Some (nth i l d).
Proof.
  induction l as [|x l IH]; simpl; intros i d Hi; [lia|].
  destruct i; auto. apply IH. lia.
Qed.

Lemma nth_map_negb : forall l i, nth i (map negb l) false = negb (nth i l true).
Proof. intros. change false with (negb true). apply map_nth. Qed.

Lemma NoDup_map_inj_in : forall X Y (f : X -> Y) l, NoDup l ->
  (forall x y, In x l -> In y l -> f x = f y -> x = y) -> NoDup (map f l).
Proof.
  induction l as [|a l IH]; simpl; intros Hn Hinj; [constructor|].
  inversion Hn as [|? ? Hna Hnl]; subst. constructor.
  - intro Hin. apply in_map_iff in Hin. destruct Hin as [y [E Hy]].
    assert (y = a) by (apply Hinj; auto). subst. contradiction.
  - apply IH; auto.
Qed.

Lemma filter_length_perm : forall X (f : X -> bool) l l', Permutation l l' ->
  length (filter f l) = length (filter f l').
Proof.
  intros X f l l' H. induction H; simpl; auto.
  - destruct (f x); simpl; auto.
  - destruct (f x); destruct (f y); simpl; auto.
  - congruence.
Qed.

Lemma indices_NoDup : forall o sh, NoDup (indices o sh).
Proof.
  intros o sh. unfold indices. apply NoDup_map_inj_in; [apply seq_NoDup|].
  intros x y Hx Hy E. apply in_seq in Hx. apply in_seq in Hy.
  rewrite <- (flat_unflat o sh x), <- (flat_unflat o sh y), E by lia. reflexivity.
Qed.

(** the two memory orders enumerate the same multi-indices *)
Lemma indices_perm : forall o1 o2 sh, Permutation (indices o1 sh) (indices o2 sh).
Proof.
  intros. apply NoDup_Permutation; try apply indices_NoDup.
  intros idx. split; intro H; apply indices_complete; eapply indices_in_range; eauto.
Qed.

(** * to_compressed *)

(** the mask [m] is the one the helpers use: the array is a MaskedArray with mask [m]
    (masked-array call form) or a plain array and [m] is passed as argument (separate-mask form) *)
Definition uses_mask (w : ownmask) (arg : mspec) (m : arr bool) : Prop :=
  w = OwnBits m \/ (w = Plain /\ arg = MBits m).

(** no entry is masked: plain array with mask argument None / FLEX / NONE / nomask, or a
    MaskedArray with nomask *)
Definition uses_no_mask (w : ownmask) (arg : mspec) : Prop :=
  w = OwnNomask \/ (w = Plain /\ forall m, arg <> MBits m).

Definition unmasked_indices (o : order) (m : arr bool) : list index :=
  filter (fun idx => negb (aget m idx)) (indices o (ashape m)).

(** number of unmasked entries (counted in C order; independent of the order, see below) *)
Definition unmasked_count (m : arr bool) : nat := length (unmasked_indices OC m).

Lemma to_compressed_bits : forall A (a : arr A) m o w arg, uses_mask w arg m ->
  to_compressed a w o arg = compress (map negb (ravel o m)) (ravel o a).
Proof. intros A a m o w arg [->|[-> ->]]; reflexivity. Qed.

Lemma to_compressed_nomask : forall A (a : arr A) o w arg, uses_no_mask w arg ->
  to_compressed a w o arg = ravel o a.
Proof.
  intros A a o w arg [->|[-> Hn]]; [reflexivity|].
  unfold to_compressed. simpl. destruct arg; simpl; auto. exfalso. eapply Hn; eauto.
Qed.

Lemma compressed_spec : forall A (a : arr A) (m : arr bool) (o : order) w arg,
  uses_mask w arg m -> ashape m = ashape a ->
  to_compressed a w o arg = map (aget a) (unmasked_indices o m).
Proof.
  intros A a m o w arg Hu Hs. rewrite (to_compressed_bits _ a m o w arg Hu).
  unfold ravel, unmasked_indices. rewrite Hs, map_map. apply compress_map_filter.
Qed.

Lemma unmasked_count_order : forall o m, length (unmasked_indices o m) = unmasked_count m.
Proof. intros. unfold unmasked_count, unmasked_indices. apply filter_length_perm, indices_perm. Qed.

Lemma compressed_length : forall A (a : arr A) (m : arr bool) (o : order) w arg,
  uses_mask w arg m -> ashape m = ashape a ->
  length (to_compressed a w o arg) = unmasked_count m.
Proof.
  intros. erewrite compressed_spec by eauto. rewrite map_length. apply unmasked_count_order.
Qed.

Lemma compressed_full_length : forall A (a : arr A) o w arg, uses_no_mask w arg ->
  to_compressed a w o arg = map (aget a) (indices o (ashape a)).
Proof. intros. rewrite to_compressed_nomask by auto. reflexivity. Qed.

(** * Round trip *)

Theorem roundtrip : forall A (a : arr A) (m : arr bool) (o : order) w arg kw,
  uses_mask w arg m -> ashape m = ashape a ->
  exists d,
    from_compressed (to_compressed a w o arg) (ashape a) o (MBits m) kw = FcMasked d (Some m)
    /\ ashape d = ashape a
    /\ forall idx, in_range (ashape a) idx ->
         (aget m idx = false -> aget d idx = Some (aget a idx))
         /\ (aget m idx = true -> aget d idx = None).
Proof.
  intros A a m o w arg kw Hu Hs. rewrite (to_compressed_bits _ a m o w arg Hu).
  unfold from_compressed. eexists. split; [reflexivity|]. split; [reflexivity|].
  intros idx Hi. rewrite of_list_get.
  pose proof (flat_lt o _ _ Hi) as Hk. set (k := flat o (ashape a) idx) in *.
  assert (Hkeep : nth k (map negb (ravel o m)) false = negb (aget m idx)).
  { rewrite nth_map_negb. rewrite ravel_nth by (rewrite Hs; auto).
    rewrite Hs. unfold k. rewrite unflat_flat by auto. reflexivity. }
  assert (Hlen : length (map negb (ravel o m)) = length (map Some (ravel o a))).
  { rewrite !map_length, !ravel_length, Hs. reflexivity. }
  rewrite <- compress_map. split; intro Hm.
  - rewrite scatter_compress_kept by (auto; rewrite Hkeep, Hm; reflexivity).
    rewrite (nth_map_Some _ _ _ (aget a idx)) by (rewrite ravel_length; auto).
    rewrite ravel_nth by auto. unfold k. rewrite unflat_flat by auto. reflexivity.
  - apply scatter_dropped. rewrite Hkeep, Hm. reflexivity.
Qed.

(** the unmasked forms: nothing is dropped, the expansion is the plain reshape (a MaskedArray
    without masked entries when nomask / kwargs are given); Mask.NONE with kwargs is refused *)
Theorem roundtrip_unmasked : forall A (a : arr A) (o : order) w arg kw,
  uses_no_mask w arg ->
  let eff := effective_mask w arg in
  match from_compressed (to_compressed a w o arg) (ashape a) o eff kw with
  | FcErr => kw = true /\ eff = MNone
  | FcPlain d =>
      kw = false /\ is_mask eff = false /\ ashape d = ashape a
      /\ forall idx, in_range (ashape a) idx -> aget d idx = Some (aget a idx)
  | FcMasked d mm =>
      mm = None /\ (kw = true \/ eff = MNomask) /\ ashape d = ashape a
      /\ forall idx, in_range (ashape a) idx -> aget d idx = Some (aget a idx)
  end.
Proof.
  intros A a o w arg kw Hu eff. rewrite to_compressed_nomask by auto.
  assert (Hget : forall idx, in_range (ashape a) idx ->
            aget (of_list o (ashape a) (map Some (ravel o a)) None) idx = Some (aget a idx)).
  { intros idx Hi. rewrite of_list_get.
    rewrite (nth_map_Some _ _ _ (aget a idx)) by (rewrite ravel_length; apply flat_lt; auto).
    rewrite ravel_nth by (apply flat_lt; auto). rewrite unflat_flat by auto. reflexivity. }
  assert (Heff : forall m, eff <> MBits m).
  { intros m. unfold eff. destruct Hu as [->|[-> Hn]]; simpl; [discriminate|apply Hn]. }
  unfold from_compressed. destruct eff eqn:E; try (exfalso; eapply Heff; reflexivity);
    destruct kw; simpl; auto 10.
Qed.

(** * prepare *)

Theorem prepare_fixed_mask : forall A sh o form (vals : list A) d (m : arr bool),
  ashape m = sh ->
  snd (prepare_mask sh o form vals d None (MBits m)) = Some (ravel OC m).
Proof.
  intros A sh o form vals d m Hs. unfold prepare_mask. simpl.
  destruct form; simpl; auto. f_equal. subst sh. apply ravel_ext. apply of_list_ravel_eq.
Qed.

Theorem prepare_nomask : forall A sh o form (vals : list A) d,
  exists bits, snd (prepare_mask sh o form vals d None MNomask) = Some bits
    /\ length bits = size sh /\ forall b, In b bits -> b = false.
Proof.
  intros A sh o form vals d. unfold prepare_mask. simpl.
  assert (Hrep : forall x, In x (repeat false (size sh)) -> x = false)
    by (intros x Hx; eapply repeat_spec; eauto).
  destruct form; simpl.
  - eexists. split; [reflexivity|]. split.
    + rewrite ravel_length. reflexivity.
    + intros x Hx. unfold ravel in Hx. apply in_map_iff in Hx. destruct Hx as [idx [E Hidx]].
      subst x. simpl.
      destruct (nth_in_or_default (flat o sh idx) (repeat false (size sh)) false) as [Hin|Hd]; auto.
  - eexists. split; [reflexivity|]. split; [apply repeat_length|exact Hrep].
  - eexists. split; [reflexivity|]. split; [apply repeat_length|exact Hrep].
Qed.

(** the data of a prepared payload: flat payloads are laid out in the grid's order *)
Theorem prepare_data : forall A sh o form (vals : list A) d w im idx,
  length vals = size sh -> in_range sh idx ->
  nth (flat OC sh idx) (fst (prepare_mask sh o form vals d w im)) d
  = nth (match form with Flat => flat o sh idx | _ => flat OC sh idx end) vals d.
Proof.
  intros A sh o form vals d w im idx Hl Hi. unfold prepare_mask. simpl.
  destruct form; simpl; auto.
  rewrite ravel_nth by (simpl; apply flatC_lt; auto). simpl.
  rewrite unflatC_flatC by auto. reflexivity.
Qed.

(** plain data under FLEX / NONE stays unmasked *)
Theorem prepare_unmasked : forall A sh o form (vals : list A) d im,
  mask_specified im = false -> snd (prepare_mask sh o form vals d None im) = None.
Proof. intros A sh o form vals d im H. unfold prepare_mask. rewrite H. reflexivity. Qed.

(** * Acceptance relation *)

Definition all_false (a : arr bool) : Prop :=
  forall idx, in_range (ashape a) idx -> aget a idx = false.

(** equality of two explicit masks after accounting for the grid layouts; a side without grid
    has no layout of its own (it adopts the other side's grid): direct comparison *)
Definition canon_eq (c p : arr bool) (cg pg : option gspec) : Prop :=
  match cg, pg with
  | Some g1, Some g2 => arr_eq (to_canonical g1 c) (to_canonical g2 p)
  | _, _ => arr_eq c p
  end.

(** The documented relation "consumer with mask spec [c] (grid [cg]) accepts a producer with
    mask spec [p] (grid [pg])".  No rule for an unset producer mask, nor for an unset consumer. *)
Inductive doc_accepts : mspec -> option gspec -> mspec -> option gspec -> Prop :=
| DA_flex : forall p cg pg, p <> MUnset -> doc_accepts MFlex cg p pg
| DA_none : forall cg pg, doc_accepts MNone cg MNone pg
| DA_nomask : forall cg pg, doc_accepts MNomask cg MNomask pg
| DA_nomask_bits : forall p cg pg, all_false p -> doc_accepts MNomask cg (MBits p) pg
| DA_bits_nomask : forall c cg pg, all_false c -> doc_accepts (MBits c) cg MNomask pg
| DA_bits : forall c p cg pg, canon_eq c p cg pg -> doc_accepts (MBits c) cg (MBits p) pg.

Lemma any_true_false_iff : forall a, any_true a = false <-> all_false a.
Proof.
  intros a. unfold any_true, all_false. split.
  - intros H idx Hi. destruct (aget a idx) eqn:E; auto.
    assert (Hex : existsb (fun b => b) (ravel OC a) = true).
    { apply existsb_exists. exists true. split; auto. unfold ravel. apply in_map_iff.
      exists idx. split; auto. apply indices_complete; auto. }
    congruence.
  - intros H. destruct (existsb (fun b => b) (ravel OC a)) eqn:E; auto.
    apply existsb_exists in E. destruct E as [b [Hin Hb]]. subst b.
    unfold ravel in Hin. apply in_map_iff in Hin. destruct Hin as [idx [E Hidx]].
    rewrite H in E by (eapply indices_in_range; eauto). discriminate.
Qed.

Lemma flip_loop_shape : forall A inc i (a : arr A), ashape (flip_loop i inc a) = ashape a.
Proof.
  induction inc as [|b r IH]; intros i a; simpl; auto.
  rewrite IH. destruct b; reflexivity.
Qed.

Lemma to_canonical_rank : forall A g (a : arr A),
  length (ashape (to_canonical g a)) = length (ashape a).
Proof.
  intros A g a. destruct g as [|r inc]; simpl; auto.
  rewrite flip_loop_shape. destruct (r && (1 <? length (ashape a))); simpl; auto.
  apply rev_length.
Qed.

Lemma masks_equal_bits : forall t o tg og,
  masks_equal (MBits t) (MBits o) tg og = true <-> canon_eq t o tg og.
Proof.
  intros t o tg og. unfold masks_equal, canon_eq. simpl.
  destruct (length (ashape t) =? length (ashape o)) eqn:El; simpl.
  - destruct tg, og; apply barr_eqb_spec.
  - apply Nat.eqb_neq in El. split; [discriminate|]. intros H. exfalso. apply El.
    destruct tg as [g1|], og as [g2|]; destruct H as [Hs _];
      try (rewrite Hs; reflexivity).
    rewrite <- (to_canonical_rank _ g1 t), <- (to_canonical_rank _ g2 o), Hs. reflexivity.
Qed.

Theorem acceptance_table : forall c p cg pg,
  masks_compatible c p false cg pg = true <-> doc_accepts c cg p pg.
Proof.
  intros c p cg pg. split.
  - intros H. destruct c as [| | | |cb]; destruct p as [| | | |pb]; simpl in H; try discriminate;
      try (constructor; discriminate); try constructor.
    + unfold masks_compatible, masks_equal in H. simpl in H. apply any_true_false_iff.
      destruct (any_true pb); simpl in H; auto; discriminate.
    + unfold masks_compatible, masks_equal in H. simpl in H. apply any_true_false_iff.
      destruct (any_true cb); simpl in H; auto; discriminate.
    + apply masks_equal_bits. exact H.
  - intros H. inversion H; subst; simpl.
    + destruct p; auto; congruence.
    + reflexivity.
    + reflexivity.
    + unfold masks_compatible, masks_equal. simpl. apply any_true_false_iff in H0. rewrite H0. reflexivity.
    + unfold masks_compatible, masks_equal. simpl. apply any_true_false_iff in H0. rewrite H0. reflexivity.
    + apply masks_equal_bits. assumption.
Qed.

(** both directions of the check ask the same question *)
Theorem compatible_direction : forall c p cg pg,
  masks_compatible p c true pg cg = masks_compatible c p false cg pg.
Proof. reflexivity. Qed.

Theorem unset_producer_refused : forall c cg pg, masks_compatible c MUnset false cg pg = false.
Proof. reflexivity. Qed.

(** Info.accepts, consumer side: a consumer whose own mask is set accepts exactly by the table *)
Theorem accepts_consumer : forall c p cg pg, c <> MUnset ->
  (accepts_mask c cg p pg false = true <-> doc_accepts c cg p pg).
Proof.
  intros c p cg pg Hc. rewrite <- acceptance_table. unfold accepts_mask.
  destruct c; try congruence; simpl; rewrite orb_false_r; reflexivity.
Qed.

(** a complete exchange over a link: success means the table holds (consumer mask set), and the
    input ends up with the producer's mask *)
Theorem exchange_sound : forall om og im ig r, im <> MUnset ->
  exchange om og im ig = Some r ->
  r = om /\ doc_accepts im ig om (match og with Some g => Some g | None => ig end).
Proof.
  intros om og im ig r Him H. unfold exchange in H.
  destruct (accepts_mask om og im ig true); [|discriminate].
  destruct (match og with Some g => Some g | None => ig end) as [g'|] eqn:Eg; [|discriminate].
  destruct (is_unset om && is_unset im); [discriminate|].
  destruct (accepts_mask im ig om (Some g') false) eqn:Ea; [|discriminate].
  inversion H; subst. split; auto. apply accepts_consumer; auto.
Qed.

Theorem exchange_complete : forall om og im ig g', im <> MUnset ->
  (match og with Some g => Some g | None => ig end) = Some g' ->
  doc_accepts im ig om og -> doc_accepts im ig om (Some g') ->
  exchange om og im ig = Some om.
Proof.
  intros om og im ig g' Him Eg H1 H2. unfold exchange.
  assert (Ha1 : accepts_mask om og im ig true = true).
  { unfold accepts_mask. rewrite compatible_direction.
    apply acceptance_table in H1. rewrite H1. apply orb_true_r || (rewrite orb_true_r; reflexivity). }
  rewrite Ha1, Eg.
  assert (Hu : is_unset im = false) by (destruct im; auto; congruence).
  rewrite Hu, andb_false_r.
  apply (accepts_consumer im om ig (Some g') Him) in H2. rewrite H2. reflexivity.
Qed.

(** * Layouts: to_canonical is inverted by from_canonical, so "equal after to_canonical"
      means "images of one and the same canonical mask" *)

Fixpoint flips_idx (i : nat) (inc : list bool) (sh : shape) (idx : index) : index :=
  match inc with
  | [] => idx
  | b :: r => let idx' := flips_idx (S i) r sh idx in if b then idx' else flip_idx i sh idx'
  end.

Lemma flip_loop_get : forall A inc i (a : arr A) idx,
  aget (flip_loop i inc a) idx = aget a (flips_idx i inc (ashape a) idx).
Proof.
  induction inc as [|b r IH]; intros i a idx; simpl; auto.
  rewrite IH. destruct b; simpl; reflexivity.
Qed.

Lemma flips_idx_in_range : forall inc i sh idx, in_range sh idx -> in_range sh (flips_idx i inc sh idx).
Proof.
  induction inc as [|b r IH]; intros i sh idx H; simpl; auto.
  destruct b; auto. apply flip_idx_in_range. auto.
Qed.

Lemma flips_idx_flip_comm : forall inc i j sh idx,
  flip_idx j sh (flips_idx i inc sh idx) = flips_idx i inc sh (flip_idx j sh idx).
Proof.
  induction inc as [|b r IH]; intros i j sh idx; simpl; auto.
  destruct b; [apply IH|]. rewrite flip_idx_comm, IH. reflexivity.
Qed.

Lemma flips_idx_involutive : forall inc i sh idx, in_range sh idx ->
  flips_idx i inc sh (flips_idx i inc sh idx) = idx.
Proof.
  induction inc as [|b r IH]; intros i sh idx H; simpl; auto.
  destruct b; [apply IH; auto|].
  rewrite <- flips_idx_flip_comm. rewrite IH by auto. apply flip_idx_involutive. auto.
Qed.

Theorem from_to_canonical : forall A g (a : arr A), arr_eq (from_canonical g (to_canonical g a)) a.
Proof.
  intros A g a. destruct g as [|r inc]; [apply arr_eq_refl|].
  unfold from_canonical, to_canonical.
  destruct (r && (1 <? length (ashape a))) eqn:E.
  - rewrite !flip_loop_shape. simpl. rewrite rev_length, E. split; simpl.
    + rewrite !flip_loop_shape. simpl. apply rev_involutive.
    + rewrite !flip_loop_shape. simpl. intros idx Hi. rewrite rev_involutive in Hi.
      rewrite !flip_loop_get, !flip_loop_shape. simpl.
      rewrite flips_idx_involutive by (apply in_range_rev; auto).
      rewrite rev_involutive. reflexivity.
  - rewrite !flip_loop_shape, E. split; simpl.
    + rewrite !flip_loop_shape. reflexivity.
    + rewrite !flip_loop_shape. intros idx Hi.
      rewrite !flip_loop_get, !flip_loop_shape.
      rewrite flips_idx_involutive by auto. reflexivity.
Qed.

(** * A re-used, mutated Info: the result of prepare depends on the current fields only *)

Lemma info_run_app : forall ops1 st ops2,
  info_run st (ops1 ++ ops2) = info_run st ops1 ++ info_run (info_final st ops1) ops2.
Proof.
  induction ops1 as [|op r IH]; intros st ops2; simpl; auto.
  destruct (info_step st op) as [st' ob] eqn:E. simpl. rewrite IH. reflexivity.
Qed.

Lemma info_run_length : forall ops st, length (info_run st ops) = length ops.
Proof.
  induction ops as [|op r IH]; intros st; simpl; auto.
  destruct (info_step st op). simpl. rewrite IH. reflexivity.
Qed.

Theorem prepare_history_independent : forall st ops1 form vals ops2,
  let cur := info_final st ops1 in
  nth (length ops1) (info_run st (ops1 ++ IPrepare form vals :: ops2)) SNothing
  = let r := prepare_mask (i_shape cur) (i_order cur) form vals 0%Z None (i_mask cur) in
    SPrep (fst r) (snd r).
Proof.
  intros st ops1 form vals ops2 cur. rewrite info_run_app.
  rewrite app_nth2 by (rewrite info_run_length; auto).
  rewrite info_run_length, Nat.sub_diag. reflexivity.
Qed.

(** * Refused operations leave the Info as it was; the mask always fits the grid *)

Theorem refused_unchanged : forall st op,
  snd (info_step st op) = SRefused -> fst (info_step st op) = st.
Proof.
  intros st op H. destruct op; simpl in *; try discriminate; auto.
  - destruct (mask_fits (i_shape st) m); simpl in *; [discriminate|reflexivity].
  - destruct og as [[o g]|]; simpl in *;
      destruct (mask_fits (i_shape st) match om with Some m => m | None => i_mask st end);
      simpl in *; try discriminate; reflexivity.
Qed.

Definition info_wf (st : info_state) : Prop := mask_fits (i_shape st) (i_mask st) = true.

Lemma info_step_wf : forall st op, info_wf st -> info_wf (fst (info_step st op)).
Proof.
  intros st op H. unfold info_wf in *. destruct op; simpl; auto.
  - destruct (mask_fits (i_shape st) m) eqn:E; simpl; auto.
  - destruct og as [[o g]|]; simpl;
      destruct (mask_fits (i_shape st) match om with Some m => m | None => i_mask st end) eqn:E;
      simpl; auto.
Qed.

Theorem info_final_wf : forall ops st, info_wf st -> info_wf (info_final st ops).
Proof.
  induction ops as [|op r IH]; intros st H; simpl; auto.
  apply IH. apply info_step_wf. exact H.
Qed.

(** a refused step is invisible for everything that follows *)
Theorem refused_invisible : forall st op ops,
  snd (info_step st op) = SRefused ->
  info_run st (op :: ops) = SRefused :: info_run st ops.
Proof.
  intros st op ops H. simpl. pose proof (refused_unchanged st op H) as E.
  destruct (info_step st op) as [st' ob]. simpl in *. subst. reflexivity.
Qed.
