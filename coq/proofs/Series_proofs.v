(** C05, received series: what a consumer is delivered by a time-stepped source does not depend on how far the
    source has already been advanced beyond the request — the only thing a different schedule can change. *)
From Coq Require Import List ZArith Bool Arith Lia.
From FV Require Import Base OutputM Sched.
From FVP Require Import Adapters_proofs Sched_proofs Confluence_proofs OutputM_proofs.
Import ListNotations.
Open Scope Z_scope.

(** the publications of time component [s] after [m] updates: (time, publication index), oldest first *)
Definition pubs (cs : composition) (s : nat) (m : nat) : hist nat :=
  map (fun j => (tfun cs s j, j)) (seq O (S m)).

Lemma pubs_split cs s m M : (m <= M)%nat ->
  pubs cs s M = pubs cs s m ++ map (fun j => (tfun cs s j, j)) (seq (S m) (M - m)).
Proof.
  intros H. unfold pubs. replace (S M) with (S m + (M - m))%nat by lia.
  rewrite seq_app, map_app. reflexivity.
Qed.

Lemma inc_from_map_seq cs (W : wf cs) s (Ts : is_time cs s = true) : forall n a t,
  t < tfun cs s a -> inc_from t (map (fun j => (tfun cs s j, j)) (seq a n)).
Proof.
  induction n as [|n IH]; intros a t H; simpl; [exact I|].
  split; [exact H|]. apply IH. apply tfun_mono_strict; auto.
Qed.

Lemma pubs_increasing cs (W : wf cs) s (Ts : is_time cs s = true) M : increasing (pubs cs s M).
Proof.
  unfold increasing, pubs. simpl. apply inc_from_map_seq; auto. apply tfun_mono_strict; auto.
Qed.

(** C05_delivery_schedule_independent: if the source has published at or beyond the requested time (C01) after
    [m] updates, then whatever further updates [M >= m] another schedule has already performed, the same
    publication is delivered. *)
Lemma delivery_schedule_independent cs (W : wf cs) s (Ts : is_time cs s = true) m M r :
  (m <= M)%nat -> r <= tfun cs s m ->
  interpolate (pubs cs s M) r = interpolate (pubs cs s m) r.
Proof.
  intros Hm Hr. rewrite (pubs_split cs s m M Hm).
  apply interpolate_prefix.
  - rewrite <- (pubs_split cs s m M Hm). apply pubs_increasing; assumption.
  - exists (tfun cs s m, m). split; [|exact Hr].
    unfold pubs. apply in_map_iff. exists m. split; [reflexivity|]. apply in_seq. lia.
Qed.
