(** Proofs about the output history model: eviction is invisible (refinement to the
    unbounded output) and the retained history is bounded. *)
From Coq Require Import List ZArith Bool Lia.
From FV Require Import Base OutputM.
Import ListNotations.
Open Scope Z_scope.

Arguments last_time : simpl never.

Section P.
  Context {A : Type}.
  Notation hist := (hist A).
  Notation state := (state A).
  Notation op := (op A).

  (** strictly increasing publication times *)
  Fixpoint inc_from (t : Z) (l : hist) : Prop :=
    match l with [] => True | (t', _) :: r => t < t' /\ inc_from t' r end.
  Definition increasing (l : hist) : Prop :=
    match l with [] => True | (t, _) :: r => inc_from t r end.

  Fixpoint lookup (k : nat) (c : conn) : option (option Z) :=
    match c with
    | [] => None
    | (k', v) :: r => if Nat.eqb k k' then Some v else lookup k r
    end.

  (** a pull by a registered key whose request time does not decrease *)
  Definition pull_ok (c : conn) (k : nat) (t : Z) : Prop :=
    match lookup k c with
    | Some None => True
    | Some (Some t') => t' <= t
    | None => False
    end.

  Definition op_ok (u : state) (o : op) : Prop :=
    match o with
    | Push t d => increasing (st_hist u ++ [(t, d)])
    | Pull k t => pull_ok (st_conn u) k t
    end.

  (** validity of an op sequence, defined on the unbounded (specification) output *)
  Fixpoint valid (u : state) (ops : list op) : Prop :=
    match ops with
    | [] => True
    | o :: r => op_ok u o /\ valid (fst (step_unb u o)) r
    end.

  (* ---------------------------------------------------------------- *)
  (** ** lists of increasing times *)

  Lemma inc_from_lt t l e : inc_from t l -> In e l -> t < fst e.
  Proof.
    revert t; induction l as [|[t' d'] r IH]; intros t H Hin; [contradiction|].
    destruct H as [H1 H2]. destruct Hin as [<-|Hin]; [exact H1|].
    specialize (IH _ H2 Hin). lia.
  Qed.

  Lemma inc_from_weaken t t' l : t' <= t -> inc_from t l -> inc_from t' l.
  Proof. destruct l as [|[t1 d1] r]; simpl; [tauto|]. intros; split; [lia|tauto]. Qed.

  Lemma inc_from_app t l1 l2 :
    inc_from t (l1 ++ l2) -> inc_from t l1 /\ inc_from (last_time t l1) l2.
  Proof.
    revert t; induction l1 as [|[t1 d1] r IH]; intros t H; simpl in *.
    - split; [exact I|exact H].
    - destruct H as [H1 H2]. destruct (IH _ H2) as [Ha Hb]. unfold last_time in *. simpl. tauto.
  Qed.

  Lemma increasing_app_r l1 l2 : increasing (l1 ++ l2) -> increasing l2.
  Proof.
    destruct l1 as [|[t d] r]; [tauto|]. simpl. intros H.
    apply inc_from_app in H. destruct H as [_ H].
    destruct l2 as [|[t2 d2] r2]; simpl in *; tauto.
  Qed.

  Lemma last_time_app t0 (l : hist) (e : Z * A) : last_time t0 (l ++ [e]) = fst e.
  Proof. unfold last_time. rewrite fold_left_app. reflexivity. Qed.

  Lemma last_time_cons t0 t1 (d1 : A) (l : hist) : last_time t0 ((t1, d1) :: l) = last_time t1 l.
  Proof. reflexivity. Qed.

  Lemma last_time_ge t l : inc_from t l -> t <= last_time t l.
  Proof.
    revert t; induction l as [|[t1 d1] r IH]; intros t H; simpl in *.
    - unfold last_time; simpl; lia.
    - rewrite last_time_cons. destruct H as [H1 H2]. specialize (IH _ H2). lia.
  Qed.

  Lemma last_time_in t l e : inc_from t l -> In e l -> fst e <= last_time t l.
  Proof.
    revert t; induction l as [|[t1 d1] r IH]; intros t H Hin; [contradiction|].
    destruct H as [H1 H2]. rewrite last_time_cons. destruct Hin as [<-|Hin].
    - simpl. apply last_time_ge; assumption.
    - apply IH; assumption.
  Qed.

  (* ---------------------------------------------------------------- *)
  (** ** interpolation only looks at the suffix starting at the last entry <= time *)

  Lemma interp_loop_head_prev prev prev' t0 d0 (r : hist) time :
    t0 <= time ->
    interp_loop prev ((t0, d0) :: r) time = interp_loop prev' ((t0, d0) :: r) time.
  Proof.
    intros H. simpl. destruct (t0 <? time) eqn:E1; [reflexivity|].
    destruct (time =? t0) eqn:E2; [reflexivity|]. lia.
  Qed.

  Lemma interp_loop_skip prev pre t0 d0 (r : hist) time :
    (forall e, In e pre -> fst e < time) -> t0 <= time ->
    interp_loop prev (pre ++ (t0, d0) :: r) time = interp_loop None ((t0, d0) :: r) time.
  Proof.
    revert prev; induction pre as [|[t d] p IH]; intros prev Hpre Ht.
    - simpl app. apply interp_loop_head_prev; assumption.
    - simpl app. cbn [interp_loop].
      assert (t < time) as Hlt by (apply (Hpre (t, d)); left; reflexivity).
      replace (t <? time) with true by lia.
      apply IH; [|assumption]. intros e He. apply Hpre. right; assumption.
  Qed.

  Lemma last_time_app_cons ta (pre l : hist) :
    last_time ta (pre ++ l) = last_time (last_time ta pre) l.
  Proof. unfold last_time. rewrite fold_left_app. reflexivity. Qed.

  Lemma interpolate_suffix pre t0 d0 (r : hist) time :
    increasing (pre ++ (t0, d0) :: r) -> t0 <= time ->
    interpolate (pre ++ (t0, d0) :: r) time = interpolate ((t0, d0) :: r) time.
  Proof.
    intros Hinc Ht. destruct pre as [|[tp dp] p]; [reflexivity|].
    simpl app in *. unfold interpolate.
    simpl in Hinc.
    assert (forall e, In e ((tp, dp) :: p) -> fst e < t0) as Hlt.
    { intros e [<-|He].
      - simpl. apply (inc_from_lt tp (p ++ (t0, d0) :: r) (t0, d0) Hinc).
        apply in_or_app; right; left; reflexivity.
      - apply inc_from_app in Hinc. destruct Hinc as [Hp Hr]. simpl in Hr.
        pose proof (last_time_in _ _ _ Hp He). lia. }
    assert (tp < t0) as Htp by (apply (Hlt (tp, dp)); left; reflexivity).
    replace (time <? tp) with false by lia.
    replace (time <? t0) with false by lia.
    rewrite (last_time_app_cons tp p ((t0, d0) :: r)).
    rewrite !last_time_cons. simpl orb.
    destruct (last_time t0 r <? time); [reflexivity|].
    change ((tp, dp) :: p ++ (t0, d0) :: r) with (((tp, dp) :: p) ++ (t0, d0) :: r).
    apply interp_loop_skip; [|assumption].
    intros e He. specialize (Hlt e He). lia.
  Qed.

  (** a successful request lies within the published range *)
  Lemma interpolate_ok_range (l : hist) time d :
    interpolate l time = Ok d ->
    exists t0 d0 r, l = (t0, d0) :: r /\ t0 <= time <= last_time t0 r.
  Proof.
    unfold interpolate. destruct l as [|[t0 d0] r]; [discriminate|].
    destruct (time <? t0) eqn:E1; simpl; [discriminate|].
    destruct (last_time t0 r <? time) eqn:E2; [discriminate|].
    intros _. exists t0, d0, r. split; [reflexivity|lia].
  Qed.

  (* ---------------------------------------------------------------- *)
  (** ** eviction *)

  Lemma evict_spec m (l : hist) :
    increasing l ->
    exists pre, l = pre ++ evict m l
      /\ (l <> [] -> evict m l <> [])
      /\ (pre <> [] -> exists t0 d0 r, evict m l = (t0, d0) :: r /\ t0 <= m)
      /\ (match evict m l with [] => True | _ :: r => forall e, In e r -> m < fst e end).
  Proof.
    induction l as [|[t0 d0] r IH]; intros Hinc.
    - exists []. simpl. repeat split; try tauto.
    - cbn [evict]. destruct r as [|[t1 d1] r'].
      + exists []. simpl. repeat split; try tauto; try discriminate.
      + destruct (t1 <=? m) eqn:E.
        * assert (increasing ((t1, d1) :: r')) as Hinc' by (simpl in *; tauto).
          destruct (IH Hinc') as [pre [H1 [H2 [H3 H4]]]].
          exists ((t0, d0) :: pre). split; [simpl; f_equal; exact H1|].
          split; [intros _; apply H2; discriminate|].
          split; [|exact H4].
          intros _. destruct pre as [|p0 pre'].
          -- cbn [app] in H1. rewrite <- H1. exists t1, d1, r'. split; [reflexivity|lia].
          -- apply H3. discriminate.
        * exists []. split; [reflexivity|]. split; [intros _; discriminate|].
          split; [tauto|].
          intros e [<-|He]; [simpl; lia|].
          simpl in Hinc. destruct Hinc as [_ Hinc].
          pose proof (inc_from_lt _ _ _ Hinc He). lia.
  Qed.

  (* ---------------------------------------------------------------- *)
  (** ** connected keys *)

  Lemma lookup_set_same k t c : lookup k c <> None -> lookup k (set_conn k t c) = Some (Some t).
  Proof.
    induction c as [|[k' v] r IH]; simpl; [congruence|].
    destruct (Nat.eqb k k') eqn:E; simpl; rewrite E; [reflexivity|exact IH].
  Qed.

  Lemma fold_min_le (l : list Z) x : fold_left Z.min l x <= x.
  Proof. revert x; induction l as [|y r IH]; intros x; simpl; [lia|]. specialize (IH (Z.min x y)). lia. Qed.

  Lemma fold_min_in_le (l : list Z) x y : In y l -> fold_left Z.min l x <= y.
  Proof.
    revert x; induction l as [|z r IH]; intros x Hin; [contradiction|]. simpl.
    destruct Hin as [<-|Hin]; [|apply IH; assumption].
    pose proof (fold_min_le r (Z.min x z)). lia.
  Qed.

  Lemma fold_min_ge (l : list Z) x b : b <= x -> (forall y, In y l -> b <= y) -> b <= fold_left Z.min l x.
  Proof.
    revert x; induction l as [|z r IH]; intros x Hx Hl; simpl; [assumption|].
    apply IH; [|intros y Hy; apply Hl; right; assumption].
    specialize (Hl z (or_introl eq_refl)). lia.
  Qed.

  Lemma fold_min_in (l : list Z) x : In (fold_left Z.min l x) (x :: l).
  Proof.
    revert x; induction l as [|y l IH]; intros x; [left; reflexivity|].
    cbn [fold_left]. destruct (IH (Z.min x y)) as [H|H]; [|right; right; exact H].
    simpl in H. destruct (Z.min_spec x y) as [[_ E]|[_ E]]; rewrite E in H at 1; [left|right; left]; exact H.
  Qed.

  Lemma list_min_le l m y : list_min l = Some m -> In y l -> m <= y.
  Proof.
    destruct l as [|x r]; [discriminate|]. simpl. intros [= <-] [<-|Hin].
    - apply fold_min_le.
    - apply fold_min_in_le; assumption.
  Qed.

  Lemma list_min_ge l m b : list_min l = Some m -> (forall y, In y l -> b <= y) -> b <= m.
  Proof.
    destruct l as [|x r]; [discriminate|]. simpl. intros [= <-] H.
    apply fold_min_ge; [apply H; left; reflexivity|intros y Hy; apply H; right; assumption].
  Qed.

  Lemma conn_times_in c l k t : conn_times c = Some l -> In (k, Some t) c -> In t l.
  Proof.
    revert l; induction c as [|[k' [t'|]] r IH]; intros l H Hin; simpl in *; try contradiction; try discriminate.
    destruct (conn_times r) as [l'|]; [|discriminate]. injection H as <-.
    destruct Hin as [Heq|Hin]; [injection Heq as -> ->; left; reflexivity|right; apply IH; [reflexivity|assumption]].
  Qed.

  Lemma conn_times_in_inv c l t : conn_times c = Some l -> In t l -> exists k, In (k, Some t) c.
  Proof.
    revert l; induction c as [|[k' [t'|]] r IH]; intros l H Hin; simpl in *; try discriminate.
    - injection H as <-. contradiction.
    - destruct (conn_times r) as [l'|]; [|discriminate]. injection H as <-.
      destruct Hin as [->|Hin]; [exists k'; left; reflexivity|].
      destruct (IH _ eq_refl Hin) as [k Hk]. exists k; right; assumption.
  Qed.

  Lemma lookup_in k v c : lookup k c = Some v -> In (k, v) c.
  Proof.
    induction c as [|[k' v'] r IH]; simpl; [discriminate|].
    destruct (Nat.eqb k k') eqn:E; [apply Nat.eqb_eq in E; subst; intros [= ->]; left; reflexivity|].
    intros H; right; apply IH; assumption.
  Qed.

  Lemma conn_min_le_lookup c m k t : conn_min c = Some m -> lookup k c = Some (Some t) -> m <= t.
  Proof.
    unfold conn_min. destruct (conn_times c) as [l|] eqn:E; [|discriminate].
    intros Hm Hl. apply lookup_in in Hl. eapply list_min_le; [exact Hm|].
    eapply conn_times_in; eassumption.
  Qed.

  Lemma conn_min_none_lookup c k : lookup k c = Some None -> conn_min c = None.
  Proof.
    unfold conn_min. intros H. apply lookup_in in H.
    assert (conn_times c = None) as ->; [|reflexivity].
    induction c as [|[k' [t'|]] r IH]; simpl in *; [contradiction| |reflexivity].
    destruct H as [H|H]; [discriminate|]. rewrite (IH H). reflexivity.
  Qed.

  (** entries of the updated key set: the new request, or an old entry of another position *)
  Lemma in_set_conn k t c k' v : In (k', v) (set_conn k t c) -> (k' = k /\ v = Some t) \/ In (k', v) c.
  Proof.
    induction c as [|[k2 v2] r IH]; simpl.
    - intros [[= <- <-]|[]]; left; split; reflexivity.
    - destruct (Nat.eqb k k2) eqn:E; simpl.
      + apply Nat.eqb_eq in E; subst k2. intros [[= <- <-]|H]; [left; split; reflexivity|right; right; assumption].
      + intros [H|H]; [right; left; assumption|]. destruct (IH H) as [H'|H']; [left; assumption|right; right; assumption].
  Qed.

  (** every value of the old min's list is >= old min; the new list consists of old values
      (of other positions) and the new request *)
  Lemma conn_min_mono c k t m m' :
    pull_ok c k t -> conn_min c = Some m -> conn_min (set_conn k t c) = Some m' -> m <= m'.
  Proof.
    unfold pull_ok. intros Hok Hm Hm'.
    destruct (lookup k c) as [[tk|]|] eqn:El; try contradiction.
    2:{ rewrite (conn_min_none_lookup _ _ El) in Hm. discriminate. }
    pose proof (conn_min_le_lookup _ _ _ _ Hm El) as Hmk.
    unfold conn_min in Hm, Hm'.
    destruct (conn_times c) as [l|] eqn:E1; [|discriminate].
    destruct (conn_times (set_conn k t c)) as [l'|] eqn:E2; [|discriminate].
    eapply list_min_ge; [exact Hm'|].
    intros y Hy. destruct (conn_times_in_inv _ _ _ E2 Hy) as [k' Hk'].
    apply in_set_conn in Hk'. destruct Hk' as [[_ [= ->]]|Hin]; [lia|].
    eapply list_min_le; [exact Hm|]. eapply conn_times_in; eassumption.
  Qed.

  Lemma conn_min_le_new c k t m' :
    lookup k c <> None -> conn_min (set_conn k t c) = Some m' -> m' <= t.
  Proof.
    intros Hl Hm'. eapply conn_min_le_lookup; [exact Hm'|]. apply lookup_set_same; assumption.
  Qed.

  (* ---------------------------------------------------------------- *)
  (** ** the simulation invariant *)

  Record Inv (s u : state) : Prop := {
    inv_conn : st_conn s = st_conn u;
    inv_inc : increasing (st_hist u);
    inv_suffix : exists pre, st_hist u = pre ++ st_hist s
        /\ (st_hist u <> [] -> st_hist s <> [])
        /\ (pre <> [] -> exists m t0 d0 r, conn_min (st_conn s) = Some m
                                  /\ st_hist s = (t0, d0) :: r /\ t0 <= m);
  }.

  Lemma Inv_init keys : Inv (init keys) (init keys).
  Proof.
    constructor; simpl; [reflexivity|exact I|].
    exists []. simpl. repeat split; tauto.
  Qed.

  Lemma interpolate_inv s u k time :
    Inv s u -> pull_ok (st_conn u) k time ->
    interpolate (st_hist s) time = interpolate (st_hist u) time.
  Proof.
    intros [Hc Hinc [pre [Hpre [Hne Hhead]]]] Hok.
    destruct pre as [|p0 pre']; [simpl in Hpre; congruence|].
    destruct Hhead as [m [t0 [d0 [r [Hm [Hs Ht0]]]]]]; [discriminate|].
    rewrite Hpre, Hs in *. symmetry. apply interpolate_suffix; [assumption|].
    unfold pull_ok in Hok. rewrite <- Hc in Hok.
    destruct (lookup k (st_conn s)) as [[tk|]|] eqn:El; try contradiction.
    - pose proof (conn_min_le_lookup _ _ _ _ Hm El). lia.
    - rewrite (conn_min_none_lookup _ _ El) in Hm. discriminate.
  Qed.

  Lemma step_inv s u o :
    Inv s u -> op_ok u o ->
    Inv (fst (step s o)) (fst (step_unb u o)) /\ fst (snd (step s o)) = snd (step_unb u o).
  Proof.
    intros HI Hok. destruct o as [t d|k t].
    - (* push *)
      simpl. split; [|reflexivity].
      destruct HI as [Hc Hinc [pre [Hpre [Hne Hhead]]]].
      constructor; simpl; [assumption|exact Hok|].
      exists pre. rewrite Hpre, app_assoc. split; [reflexivity|].
      split; [intros _; destruct (st_hist s); discriminate|].
      intros Hp. destruct (Hhead Hp) as [m [t0 [d0 [r [Hm [Hs Ht0]]]]]].
      exists m, t0, d0, (r ++ [(t, d)]). rewrite Hs. repeat split; assumption.
    - (* pull *)
      simpl in Hok. pose proof (interpolate_inv s u k t HI Hok) as Heq.
      unfold step, step_unb, get_data, get_data_unb. rewrite Heq.
      destruct (interpolate (st_hist u) t) as [d| |] eqn:Ei; simpl; try (split; [assumption|reflexivity]).
      split; [|reflexivity].
      destruct HI as [Hc Hinc [pre [Hpre [Hne Hhead]]]].
      unfold clear_data.
      destruct (conn_min (set_conn k t (st_conn s))) as [m'|] eqn:Em'.
      + (* eviction runs *)
        assert (increasing (st_hist s)) as Hincs by (rewrite Hpre in Hinc; eapply increasing_app_r; exact Hinc).
        destruct (evict_spec m' (st_hist s) Hincs) as [pre2 [H1 [H2 [H3 H4]]]].
        constructor; simpl; [rewrite Hc; reflexivity|assumption|].
        exists (pre ++ pre2). split; [rewrite Hpre at 1; rewrite H1 at 1; apply app_assoc|].
        split; [intros Hu; apply H2; apply Hne; assumption|].
        intros Hpp.
        destruct pre2 as [|q pre2'].
        * (* nothing evicted now: the old head is still the head *)
          rewrite app_nil_r in Hpp. destruct (Hhead Hpp) as [m [t0 [d0 [r [Hm [Hs Ht0]]]]]].
          simpl in H1. rewrite <- H1. exists m', t0, d0, r. split; [exact Em'|]. split; [assumption|].
          assert (m <= m'); [|lia].
          eapply conn_min_mono; [|exact Hm|exact Em']. rewrite Hc. exact Hok.
        * destruct H3 as [t0 [d0 [r [He Ht0]]]]; [discriminate|].
          exists m', t0, d0, r. repeat split; assumption.
      + constructor; simpl; [rewrite Hc; reflexivity|assumption|].
        exists pre. split; [assumption|]. split; [assumption|].
        intros Hp. destruct (Hhead Hp) as [m [t0 [d0 [r [Hm [Hs Ht0]]]]]].
        (* all keys had pulled before, so they still have *)
        exfalso.
        unfold pull_ok in Hok. rewrite <- Hc in Hok.
        destruct (lookup k (st_conn s)) as [[tk|]|] eqn:El; try contradiction.
        2:{ rewrite (conn_min_none_lookup _ _ El) in Hm. discriminate. }
        clear - Hm Em' El.
        unfold conn_min in *.
        destruct (conn_times (st_conn s)) as [l|] eqn:E1; [|discriminate].
        assert (exists l', conn_times (set_conn k t (st_conn s)) = Some l' /\ l' <> []) as [l' [E2 Hne]].
        { clear Hm Em'. revert l E1 El. induction (st_conn s) as [|[k2 [t2|]] c IH]; intros l E1 El; simpl in *; try discriminate.
          destruct (conn_times c) as [lc|] eqn:Ec; [|discriminate].
          destruct (Nat.eqb k k2) eqn:E; simpl.
          - rewrite Ec. eexists; split; [reflexivity|discriminate].
          - destruct (IH _ eq_refl El) as [l' [-> _]]. eexists; split; [reflexivity|discriminate]. }
        rewrite E2 in Em'. destruct l'; [congruence|discriminate].
  Qed.

  Theorem refines_unbounded_gen ops : forall s u,
    Inv s u -> valid u ops -> map fst (run s ops) = run_unb u ops.
  Proof.
    induction ops as [|o r IH]; intros s u HI Hv; [reflexivity|].
    destruct Hv as [Hok Hv]. destruct (step_inv s u o HI Hok) as [HI' Hobs].
    cbn [run run_unb].
    destruct (step s o) as [s' x] eqn:Es. destruct (step_unb u o) as [u' y] eqn:Eu.
    simpl in *. rewrite Hobs. f_equal. apply IH; assumption.
  Qed.

  Theorem refines_unbounded keys ops :
    valid (init keys) ops -> map fst (run (init keys) ops) = run_unb (init keys) ops.
  Proof. apply refines_unbounded_gen, Inv_init. Qed.

  (* ---------------------------------------------------------------- *)
  (** ** boundedness *)

  Definition newer_than (m : Z) (h : hist) : nat := length (filter (fun e => m <? fst e) h).

  (** all retained entries but the oldest are newer than the slowest consumer's last request,
      and no consumer has requested beyond the newest publication *)
  Record Bnd (s : state) : Prop := {
    bnd_inc : increasing (st_hist s);
    bnd_tail : forall m, conn_min (st_conn s) = Some m ->
               match st_hist s with [] => True | _ :: r => forall e, In e r -> m < fst e end;
    bnd_req : forall k t, In (k, Some t) (st_conn s) ->
               exists t0 d0 r, st_hist s = (t0, d0) :: r /\ t <= last_time t0 r;
  }.

  Lemma Bnd_init keys : Bnd (init keys).
  Proof.
    constructor; simpl; [exact I|tauto|].
    intros k t Hin. apply in_map_iff in Hin. destruct Hin as [x [Hx _]]. discriminate.
  Qed.

  Lemma newer_than_all m (r : hist) : (forall e, In e r -> m < fst e) -> newer_than m r = length r.
  Proof.
    unfold newer_than. induction r as [|e r IH]; intros H; [reflexivity|]. simpl.
    replace (m <? fst e) with true by (specialize (H e (or_introl eq_refl)); lia).
    simpl. f_equal. apply IH. intros e' He'. apply H; right; assumption.
  Qed.

  Lemma Bnd_length s m : Bnd s -> conn_min (st_conn s) = Some m ->
    (length (st_hist s) <= 1 + newer_than m (st_hist s))%nat.
  Proof.
    intros [_ Ht _] Hm. specialize (Ht m Hm). destruct (st_hist s) as [|e r]; [simpl; lia|].
    unfold newer_than in *. simpl. pose proof (newer_than_all m r Ht) as H. unfold newer_than in H.
    destruct (m <? fst e); simpl; lia.
  Qed.

  Lemma evict_last m (l : hist) t0 d0 r :
    l = (t0, d0) :: r -> exists t0' d0' r', evict m l = (t0', d0') :: r' /\ last_time t0' r' = last_time t0 r.
  Proof.
    revert t0 d0 r. induction l as [|e l IH]; intros t0 d0 r [= -> ->].
    cbn [evict]. destruct r as [|[t1 d1] r'].
    - exists t0, d0, []. split; reflexivity.
    - destruct (t1 <=? m).
      + destruct (IH t1 d1 r' eq_refl) as [a [b [c [H1 H2]]]]. exists a, b, c. split; [assumption|].
        rewrite H2. reflexivity.
      + exists t0, d0, ((t1, d1) :: r'). split; reflexivity.
  Qed.

  Lemma evict_increasing m (l : hist) : increasing l -> increasing (evict m l).
  Proof.
    intros H. destruct (evict_spec m l H) as [pre [H1 _]].
    rewrite H1 in H. eapply increasing_app_r; exact H.
  Qed.

  Lemma step_bnd s o : Bnd s ->
    (match o with Push t d => increasing (st_hist s ++ [(t, d)]) | Pull _ _ => True end) ->
    Bnd (fst (step s o)).
  Proof.
    intros [Hinc Htail Hreq] Hok. destruct o as [t d|k t]; simpl.
    - constructor; simpl; [assumption| |].
      + intros m Hm. specialize (Htail m Hm).
        destruct (st_hist s) as [|[t0 d0] r] eqn:Eh; simpl; [tauto|].
        intros e He. apply in_app_or in He. destruct He as [He|[<-|[]]]; [apply Htail; assumption|].
        (* the new publication is newer than the newest, which no request exceeds *)
        simpl.
        unfold conn_min in Hm. destruct (conn_times (st_conn s)) as [l|] eqn:El; [|discriminate].
        destruct l as [|x l']; [discriminate|].
        assert (In m (x :: l')) as Hmin by (simpl in Hm; injection Hm as <-; apply fold_min_in).
        destruct (conn_times_in_inv _ _ _ El Hmin) as [k Hk].
        destruct (Hreq k m Hk) as [t0' [d0' [r' [[= <- <- <-] Hle]]]].
        simpl in Hok. apply inc_from_app in Hok. destruct Hok as [_ Hok]. simpl in Hok. lia.
      + intros k t' Hin. destruct (Hreq k t' Hin) as [t0 [d0 [r [Hs Hle]]]].
        exists t0, d0, (r ++ [(t, d)]). rewrite Hs. split; [reflexivity|].
        rewrite last_time_app. simpl. rewrite Hs in Hok. simpl in Hok.
        apply inc_from_app in Hok. destruct Hok as [_ Hok]. simpl in Hok. lia.
    - unfold get_data. destruct (interpolate (st_hist s) t) as [d| |] eqn:Ei; simpl;
        try (constructor; assumption).
      destruct (interpolate_ok_range _ _ _ Ei) as [t0 [d0 [r [Hs Hrange]]]].
      unfold clear_data.
      destruct (conn_min (set_conn k t (st_conn s))) as [m'|] eqn:Em'; constructor; simpl.
      + apply evict_increasing; assumption.
      + intros m Hm. rewrite Em' in Hm. injection Hm as <-.
        destruct (evict_spec m' (st_hist s) Hinc) as [pre [_ [_ [_ H4]]]]. exact H4.
      + intros k' t' Hin. destruct (evict_last m' _ _ _ _ Hs) as [a [b [c [He Hl]]]].
        exists a, b, c. split; [assumption|]. rewrite Hl.
        apply in_set_conn in Hin. destruct Hin as [[_ [= ->]]|Hin]; [lia|].
        destruct (Hreq _ _ Hin) as [t0' [d0' [r' [Hs' Hle]]]]. rewrite Hs in Hs'. injection Hs' as <- <- <-. assumption.
      + assumption.
      + intros m Hm. congruence.
      + intros k' t' Hin. exists t0, d0, r. split; [assumption|].
        apply in_set_conn in Hin. destruct Hin as [[_ [= ->]]|Hin]; [lia|].
        destruct (Hreq _ _ Hin) as [t0' [d0' [r' [Hs' Hle]]]]. rewrite Hs in Hs'. injection Hs' as <- <- <-. assumption.
  Qed.

  Fixpoint final_unb (u : state) (ops : list op) : state :=
    match ops with [] => u | o :: r => final_unb (fst (step_unb u o)) r end.

  Lemma newer_than_app m (a b : hist) : (newer_than m (a ++ b) = newer_than m a + newer_than m b)%nat.
  Proof. unfold newer_than. rewrite filter_app, app_length. reflexivity. Qed.

  Lemma reach_inv ops : forall s u,
    Inv s u -> Bnd s -> valid u ops -> Inv (final s ops) (final_unb u ops) /\ Bnd (final s ops).
  Proof.
    induction ops as [|o r IH]; intros s u HI HB Hv; [split; assumption|].
    destruct Hv as [Hok Hv]. cbn [final final_unb].
    destruct (step_inv s u o HI Hok) as [HI' _].
    apply IH; [assumption| |assumption].
    apply step_bnd; [assumption|].
    destruct o as [t d|k t]; [|exact I].
    simpl in Hok. destruct HI as [_ _ [pre [Hpre _]]]. rewrite Hpre, <- app_assoc in Hok.
    eapply increasing_app_r; exact Hok.
  Qed.

  (** in every reachable state in which all consumers have pulled, the retained history is no longer
      than one plus the number of publications newer than the slowest consumer's last request *)
  Theorem bounded keys ops m :
    valid (init keys) ops ->
    conn_min (st_conn (final (init keys) ops)) = Some m ->
    (length (st_hist (final (init keys) ops))
       <= 1 + newer_than m (st_hist (final_unb (init keys) ops)))%nat.
  Proof.
    intros Hv Hm.
    destruct (reach_inv ops _ _ (Inv_init keys) (Bnd_init keys) Hv) as [HI HB].
    pose proof (Bnd_length _ _ HB Hm) as H.
    destruct HI as [_ _ [pre [Hpre _]]]. rewrite Hpre, newer_than_app. lia.
  Qed.

  (* ---------------------------------------------------------------- *)
  (** ** what is retained: exactly the newest publications, unchanged and in order *)

  Lemma inc_from_app_lt t pre t0 d0 (r : hist) :
    inc_from t (pre ++ (t0, d0) :: r) -> t < t0 /\ (forall e, In e pre -> fst e < t0).
  Proof.
    revert t; induction pre as [|[t1 d1] p IH]; intros t H.
    - simpl in H. destruct H as [H _]. split; [exact H|intros e []].
    - simpl in H. destruct H as [H1 H2]. destruct (IH _ H2) as [Ha Hb]. split; [lia|].
      intros e [<-|Hin]; [simpl; exact Ha|apply Hb; exact Hin].
  Qed.

  Lemma increasing_app_lt pre t0 d0 (r : hist) e :
    increasing (pre ++ (t0, d0) :: r) -> In e pre -> fst e < t0.
  Proof.
    destruct pre as [|[t1 d1] p]; [intros _ []|]. simpl. intros H Hin.
    destruct (inc_from_app_lt _ _ _ _ _ H) as [Ha Hb].
    destruct Hin as [<-|Hin]; [simpl; exact Ha|apply Hb; exact Hin].
  Qed.

  (** In every reachable state the retained history is a suffix of the unlimited history (same entries, same
      order, same payloads); it is empty only if nothing was published; nothing at all is discarded before every
      consumer has pulled; and every discarded publication is strictly older than a retained publication that is
      itself at or before the slowest consumer's last request (so no consumer can need it again). *)
  Theorem retained_suffix keys ops :
    valid (init keys) ops ->
    exists pre,
      st_hist (final_unb (init keys) ops) = pre ++ st_hist (final (init keys) ops)
      /\ (st_hist (final_unb (init keys) ops) <> [] -> st_hist (final (init keys) ops) <> [])
      /\ (conn_min (st_conn (final (init keys) ops)) = None -> pre = [])
      /\ (forall m, conn_min (st_conn (final (init keys) ops)) = Some m ->
            pre <> [] ->
            exists t0 d0 r, st_hist (final (init keys) ops) = (t0, d0) :: r /\ t0 <= m
                            /\ forall e, In e pre -> fst e < t0).
  Proof.
    intros Hv.
    destruct (reach_inv ops _ _ (Inv_init keys) (Bnd_init keys) Hv) as [[Hc Hinc [pre [Hpre [Hne Hhead]]]] _].
    exists pre. split; [exact Hpre|]. split; [exact Hne|]. split.
    - intros Hnone. destruct pre as [|p0 pre']; [reflexivity|].
      destruct Hhead as [m [t0 [d0 [r [Hm _]]]]]; [discriminate|]. rewrite Hm in Hnone. discriminate.
    - intros m Hm Hp. destruct (Hhead Hp) as [m' [t0 [d0 [r [Hm' [Hs Ht0]]]]]].
      rewrite Hm in Hm'. injection Hm' as <-.
      exists t0, d0, r. split; [exact Hs|]. split; [exact Ht0|].
      intros e Hin. rewrite Hpre, Hs in Hinc. eapply increasing_app_lt; eassumption.
  Qed.

  (** the connection table (who pulled last when) is the one of the unlimited output *)
  Theorem conn_same keys ops :
    valid (init keys) ops ->
    st_conn (final (init keys) ops) = st_conn (final_unb (init keys) ops).
  Proof.
    intros Hv.
    destruct (reach_inv ops _ _ (Inv_init keys) (Bnd_init keys) Hv) as [[Hc _ _] _]. exact Hc.
  Qed.
End P.
