From Coq Require Import List ZArith QArith Bool Lia.
From FV Require Import Base TimeInterp.
Import ListNotations.
Open Scope Z_scope.

Lemma get_data_above ev k b t0 v0 r t :
  b = (t0, v0) :: r -> last_time t0 r < t -> snd (get_data ev k b t) = ErrTime.
Proof.
  intros -> H. unfold get_data. destruct (Z.ltb_spec (last_time t0 r) t); [reflexivity|lia].
Qed.
