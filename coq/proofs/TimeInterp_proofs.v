(** Proofs about the time-interpolation adapters (model FV.TimeInterp):
    every pull of the evicting adapter returns the mathematical definition evaluated on the
    full publication history; range errors; eviction is invisible; characterisation of the
    definitions themselves. *)
From Coq Require Import List ZArith QArith Bool Lia Lqa.
From FV Require Import Base TimeInterp.
Import ListNotations.
Open Scope Z_scope.

Arguments last_time : simpl never.

(** strictly increasing publication times *)
Fixpoint inc_from (t : Z) (l : buf) : Prop :=
  match l with [] => True | (t', _) :: r => t < t' /\ inc_from t' r end.
Definition increasing (l : buf) : Prop :=
  match l with [] => True | (t, _) :: r => inc_from t r end.

(** a publication must be newer than everything published before *)
Definition push_ok (H : buf) (t : Z) : Prop :=
  match H with [] => True | (t0, _) :: r => last_time t0 r < t end.

(** an in-range request must not be older than the previous in-range request *)
Definition req_ok (lr : option Z) (t : Z) : Prop :=
  match lr with None => True | Some l => l <= t end.

(** Domain of the property: [H] = publications so far, [lr] = last in-range request.
    Out-of-range requests are allowed anywhere (they raise and change nothing). *)
Fixpoint valid (H : buf) (lr : option Z) (ops : list op) : Prop :=
  match ops with
  | [] => True
  | Push t v :: r => push_ok H t /\ valid (H ++ [(t, v)]) lr r
  | Pull t :: r => if in_range H t then req_ok lr t /\ valid H (Some t) r
                   else valid H lr r
  end.

Fixpoint lastreq (H : buf) (lr : option Z) (ops : list op) : option Z :=
  match ops with
  | [] => lr
  | Push t v :: r => lastreq (H ++ [(t, v)]) lr r
  | Pull t :: r => lastreq H (if in_range H t then Some t else lr) r
  end.

(* ------------------------------------------------------------------ *)
(** ** increasing lists *)

Lemma last_time_nil t : last_time t [] = t.
Proof. reflexivity. Qed.

Lemma last_time_cons t0 e (l : buf) : last_time t0 (e :: l) = last_time (fst e) l.
Proof. reflexivity. Qed.

Lemma last_time_app_cons t0 (l : buf) e r : last_time t0 (l ++ e :: r) = last_time (fst e) r.
Proof. unfold last_time. rewrite fold_left_app. reflexivity. Qed.

Lemma inc_from_lt t l e : inc_from t l -> In e l -> t < fst e.
Proof.
  revert t; induction l as [|[t' d'] r IH]; intros t H Hin; [contradiction|].
  destruct H as [H1 H2]. destruct Hin as [<-|Hin]; [exact H1|].
  specialize (IH _ H2 Hin). lia.
Qed.

Lemma inc_from_increasing t l : inc_from t l -> increasing l.
Proof. destruct l as [|[t1 d1] r]; simpl; tauto. Qed.

Lemma inc_from_last_ge t l : inc_from t l -> t <= last_time t l.
Proof.
  revert t; induction l as [|[t1 d1] r IH]; intros t H.
  - rewrite last_time_nil; lia.
  - destruct H as [H1 H2]. rewrite last_time_cons. simpl. specialize (IH _ H2). lia.
Qed.

Lemma inc_from_app t l e :
  inc_from t (l ++ [e]) <-> inc_from t l /\ last_time t l < fst e.
Proof.
  revert t; induction l as [|[t1 d1] r IH]; intros t; simpl.
  - rewrite last_time_nil. destruct e; simpl; tauto.
  - rewrite last_time_cons. simpl. rewrite IH. tauto.
Qed.

Lemma inc_from_app_r t l1 l2 : inc_from t (l1 ++ l2) -> inc_from (last_time t l1) l2.
Proof.
  revert t; induction l1 as [|[t1 d1] r IH]; intros t H; simpl in *.
  - exact H.
  - rewrite last_time_cons. simpl. apply IH. tauto.
Qed.

Lemma increasing_app_r l1 l2 : increasing (l1 ++ l2) -> increasing l2.
Proof.
  destruct l1 as [|[t d] r]; [tauto|]. simpl. intros H.
  apply inc_from_app_r in H. exact (inc_from_increasing _ _ H).
Qed.

Lemma increasing_push H t v : increasing H -> push_ok H t -> increasing (H ++ [(t, v)]).
Proof.
  destruct H as [|[t0 v0] r]; simpl; [tauto|].
  intros Hi Hp. apply inc_from_app. simpl. tauto.
Qed.

(** everything in front of an entry is older than it *)
Lemma increasing_app_lt pre e0 r e :
  increasing (pre ++ e0 :: r) -> In e pre -> fst e < fst e0.
Proof.
  induction pre as [|[ta va] pre IH]; intros Hi Hin; [contradiction|].
  simpl in Hi. destruct Hin as [<-|Hin].
  - simpl. apply (inc_from_lt _ _ e0 Hi). apply in_or_app; right; left; reflexivity.
  - apply IH; [|exact Hin]. exact (inc_from_increasing _ _ Hi).
Qed.

(** everything behind an entry is newer than it *)
Lemma increasing_app_gt pre e0 r e :
  increasing (pre ++ e0 :: r) -> In e r -> fst e0 < fst e.
Proof.
  intros Hi Hin. apply increasing_app_r in Hi. destruct e0 as [t0 v0]. simpl in *.
  exact (inc_from_lt _ _ _ Hi Hin).
Qed.

(* ------------------------------------------------------------------ *)
(** ** the bracketing publications *)

Definition flo (t : Z) := fun (acc : option (Z * Q)) (e : Z * Q) => if fst e <=? t then Some e else acc.
Definition fhi (t : Z) := fun e : Z * Q => t <=? fst e.

Arguments flo : simpl never.
Arguments fhi : simpl never.

Lemma lo_entry_fold H t : lo_entry H t = fold_left (flo t) H None.
Proof. reflexivity. Qed.
Lemma hi_entry_find H t : hi_entry H t = find (fhi t) H.
Proof. reflexivity. Qed.

Lemma flo_le t acc e : fst e <= t -> flo t acc e = Some e.
Proof. intros H. unfold flo. destruct (Z.leb_spec (fst e) t); [reflexivity|lia]. Qed.
Lemma flo_gt t acc e : t < fst e -> flo t acc e = acc.
Proof. intros H. unfold flo. destruct (Z.leb_spec (fst e) t); [lia|reflexivity]. Qed.
Lemma fhi_true t e : t <= fst e -> fhi t e = true.
Proof. intros H. unfold fhi. apply Z.leb_le. exact H. Qed.
Lemma fhi_false t e : fst e < t -> fhi t e = false.
Proof. intros H. unfold fhi. apply Z.leb_gt. exact H. Qed.

Lemma flo_newer t l acc : (forall e, In e l -> t < fst e) -> fold_left (flo t) l acc = acc.
Proof.
  revert acc; induction l as [|e r IH]; intros acc Hall; [reflexivity|].
  simpl. rewrite flo_gt by (apply Hall; left; reflexivity).
  apply IH. intros e' He'. apply Hall. right; exact He'.
Qed.

Lemma fhi_older t l l' : (forall e, In e l -> fst e < t) -> find (fhi t) (l ++ l') = find (fhi t) l'.
Proof.
  induction l as [|e r IH]; intros Hall; [reflexivity|].
  simpl. rewrite fhi_false by (apply Hall; left; reflexivity).
  apply IH. intros e' He'. apply Hall. right; exact He'.
Qed.

(** value selected by each definition from the bracketing publications [l] (at or before [t])
    and [h] (at or after [t]) *)
Definition sel (k : kind) (t : Z) (l h : Z * Q) : Q :=
  match k with
  | KNext => snd h
  | KPrev => snd l
  | KLinear => if fst l =? fst h then snd l
               else (snd l + (inject_Z (t - fst l) / inject_Z (fst h - fst l)) * (snd h - snd l))%Q
  | KStep s => if fst l =? fst h then snd l
               else if Qle_bool (inject_Z (t - fst l) / inject_Z (fst h - fst l))%Q s then snd l else snd h
  end.

Lemma spec_some k H t l h :
  lo_entry H t = Some l -> hi_entry H t = Some h -> spec k H t = Some (sel k t l h).
Proof.
  intros Hl Hh. destruct l as [t0 v0], h as [t1 v1].
  destruct k; simpl; unfold next_spec, prev_spec, lin_spec, step_spec; rewrite ?Hl, ?Hh; reflexivity.
Qed.

Lemma spec_ext k H H' t :
  lo_entry H t = lo_entry H' t -> hi_entry H t = hi_entry H' t -> spec k H t = spec k H' t.
Proof.
  intros Hl Hh. destruct k; simpl; unfold next_spec, prev_spec, lin_spec, step_spec;
    rewrite ?Hl, ?Hh; reflexivity.
Qed.

(** entries in front of a retained entry that is not newer than [t] do not matter *)
Lemma suffix_entries pre e0 r t :
  increasing (pre ++ e0 :: r) -> fst e0 <= t ->
  lo_entry (pre ++ e0 :: r) t = lo_entry (e0 :: r) t /\
  hi_entry (pre ++ e0 :: r) t = hi_entry (e0 :: r) t.
Proof.
  intros Hi Hle. split.
  - rewrite !lo_entry_fold, fold_left_app. simpl. rewrite !flo_le by exact Hle. reflexivity.
  - rewrite !hi_entry_find. apply fhi_older.
    intros e He. pose proof (increasing_app_lt _ _ _ _ Hi He). lia.
Qed.

(* ------------------------------------------------------------------ *)
(** ** the loops compute the definition *)

Lemma sel_same k t e : sel k t e e = snd e.
Proof. destruct k; simpl; rewrite ?Z.eqb_refl; reflexivity. Qed.

Lemma sel_combine k t p c : fst p < fst c -> sel k t p c = combine k t p c.
Proof.
  intros Hlt. destruct k; simpl; try reflexivity.
  - destruct (Z.eqb_spec (fst p) (fst c)); [lia|]. reflexivity.
  - destruct (Z.eqb_spec (fst p) (fst c)); [lia|].
    unfold Qgt_bool, rel_pos. destruct (Qle_bool _ s); reflexivity.
Qed.

Lemma loop_sel k t : forall l p,
  inc_from (fst p) l -> fst p < t -> t <= last_time (fst p) l ->
  exists lo hi, fold_left (flo t) l (Some p) = Some lo /\ find (fhi t) l = Some hi /\
                interp_loop k t p l = Ok (sel k t lo hi).
Proof.
  induction l as [|[tc d] r IH]; intros p Hinc Hlt Hle.
  - rewrite last_time_nil in Hle. lia.
  - destruct Hinc as [Hpc Hr]. rewrite last_time_cons in Hle. simpl in Hle.
    assert (Hnewer : forall x, x <= tc -> forall e, In e r -> x < fst e).
    { intros x Hx e He. pose proof (inc_from_lt _ _ _ Hr He). lia. }
    simpl.
    destruct (Z.ltb_spec tc t) as [Hct|Hct].
    + rewrite flo_le by (simpl; lia). rewrite fhi_false by (simpl; lia).
      apply (IH (tc, d)); simpl; assumption || lia.
    + rewrite fhi_true by (simpl; lia).
      destruct (Z.eqb_spec t tc) as [Heq|Hne].
      * subst tc. rewrite flo_le by (simpl; lia).
        exists (t, d), (t, d). rewrite flo_newer by (apply Hnewer; lia).
        rewrite sel_same. auto.
      * rewrite flo_gt by (simpl; lia).
        exists p, (tc, d). rewrite flo_newer by (apply Hnewer; lia).
        rewrite sel_combine by (simpl; lia). auto.
Qed.

Lemma in_range_cons t0 v0 r t :
  in_range ((t0, v0) :: r) t = true <-> t0 <= t <= last_time t0 r.
Proof. simpl. rewrite andb_true_iff, !Z.leb_le. tauto. Qed.

Lemma interpolate_sel k b t :
  increasing b -> in_range b t = true ->
  exists lo hi, lo_entry b t = Some lo /\ hi_entry b t = Some hi /\
                interpolate k b t = Ok (sel k t lo hi).
Proof.
  destruct b as [|[t0 v0] r]; intros Hinc Hr; [discriminate|].
  apply in_range_cons in Hr. simpl in Hinc.
  assert (Hnewer : forall e, In e r -> t0 < fst e) by (intros e He; exact (inc_from_lt _ _ _ Hinc He)).
  rewrite lo_entry_fold, hi_entry_find.
  destruct (Z.eq_dec t0 t) as [Heq|Hne].
  - (* request exactly at the oldest retained entry *)
    subst t0. exists (t, v0), (t, v0). simpl fold_left. simpl find.
    rewrite flo_le by (simpl; lia). rewrite fhi_true by (simpl; lia).
    rewrite flo_newer by (intros e He; exact (Hnewer e He)).
    rewrite sel_same. simpl snd. repeat split.
    destruct r as [|e1 r1]; [reflexivity|].
    unfold interpolate. unfold interp_loop; fold interp_loop.
    rewrite Z.ltb_irrefl, Z.eqb_refl. reflexivity.
  - destruct r as [|e1 r1].
    + rewrite last_time_nil in Hr. lia.
    + destruct (loop_sel k t (e1 :: r1) (t0, v0)) as [lo [hi [H1 [H2 H3]]]]; simpl; try tauto; try lia.
      exists lo, hi.
      split; [|split].
      * simpl fold_left. rewrite (flo_le t None (t0, v0)) by (simpl; lia). exact H1.
      * simpl find. rewrite (fhi_false t (t0, v0)) by (simpl; lia). exact H2.
      * unfold interpolate. unfold interp_loop; fold interp_loop.
        destruct (Z.ltb_spec t0 t); [|lia]. exact H3.
Qed.

(* ------------------------------------------------------------------ *)
(** ** eviction *)

Lemma clear_cached_suffix t b : exists pre, b = pre ++ clear_cached t b.
Proof.
  induction b as [|e0 r IH]; [exists []; reflexivity|].
  simpl. destruct r as [|[t1 v1] r1]; [exists []; reflexivity|].
  destruct (t1 <=? t); [|exists []; reflexivity].
  destruct IH as [pre Hpre]. exists (e0 :: pre). simpl. f_equal. exact Hpre.
Qed.

Lemma clear_cached_first t : forall b e0 r,
  b = e0 :: r -> fst e0 <= t -> exists e1 r1, clear_cached t b = e1 :: r1 /\ fst e1 <= t.
Proof.
  induction b as [|e r IH]; intros e0 r0 Hb Hle; [discriminate|].
  injection Hb as -> ->. simpl. destruct r0 as [|[t1 v1] r1]; [exists e0, []; auto|].
  destruct (Z.leb_spec t1 t) as [H1|H1]; [|exists e0, ((t1, v1) :: r1); auto].
  apply (IH (t1, v1) r1); [reflexivity|exact H1].
Qed.

(* ------------------------------------------------------------------ *)
(** ** the invariant: the retained buffer is a suffix of the history whose first entry is not
       newer than the last in-range request *)

Arguments clear_cached : simpl never.

Definition Inv (H b : buf) (lr : option Z) : Prop :=
  increasing H /\
  exists pre, H = pre ++ b /\
    match lr with
    | None => pre = []
    | Some l => exists e0 r, b = e0 :: r /\ fst e0 <= l
    end.

Lemma Inv_init : Inv [] [] None.
Proof. split; [exact I|]. exists []. auto. Qed.

Lemma Inv_push H b lr t v :
  Inv H b lr -> push_ok H t -> Inv (H ++ [(t, v)]) (source_updated b t v) lr.
Proof.
  intros [Hinc [pre [HH Hlr]]] Hp. split; [apply increasing_push; assumption|].
  exists pre. unfold source_updated. split; [rewrite HH, app_assoc; reflexivity|].
  destruct lr as [l|]; [|exact Hlr].
  destruct Hlr as [e0 [r [-> Hle]]]. exists e0, (r ++ [(t, v)]). auto.
Qed.

Lemma first_le_retained pre e0 r h0 x hr :
  increasing (pre ++ e0 :: r) -> pre ++ e0 :: r = (h0, x) :: hr -> h0 <= fst e0.
Proof.
  intros Hinc Heq. destruct pre as [|a pre'].
  - simpl in Heq. injection Heq as -> _. simpl. lia.
  - simpl in Heq. injection Heq as -> _.
    pose proof (increasing_app_lt ((h0, x) :: pre') e0 r (h0, x) Hinc (or_introl eq_refl)).
    simpl in *. lia.
Qed.

Lemma pull_step ev k H b lr t :
  Inv H b lr ->
  (in_range H t = true -> req_ok lr t) ->
  snd (get_data ev k b t) = spec_pull k H t /\
  Inv H (fst (get_data ev k b t)) (if in_range H t then Some t else lr).
Proof.
  intros HI Hreq. pose proof HI as [Hinc [pre [HH Hlr]]].
  destruct b as [|[t0 v0] r].
  - (* nothing buffered: nothing published *)
    assert (pre = []) as -> by (destruct lr as [l|]; [destruct Hlr as [? [? [? _]]]; discriminate|exact Hlr]).
    simpl in HH. subst H. simpl. split; [reflexivity|exact HI].
  - destruct H as [|[h0 x] hr]; [destruct pre; discriminate|].
    assert (Hh0 : h0 <= t0) by exact (first_le_retained pre (t0, v0) r h0 x hr ltac:(rewrite <- HH; exact Hinc) (eq_sym HH)).
    assert (Hlast : last_time h0 hr = last_time t0 r).
    { destruct pre as [|a pre'].
      - simpl in HH. injection HH as -> -> ->. reflexivity.
      - simpl in HH. injection HH as _ ->. apply last_time_app_cons. }
    destruct (in_range ((h0, x) :: hr) t) eqn:Hr.
    + (* in range *)
      specialize (Hreq eq_refl). apply in_range_cons in Hr.
      assert (Ht0 : t0 <= t).
      { destruct lr as [l|]; simpl in Hreq.
        - destruct Hlr as [e0 [r' [Hb Hle]]]. injection Hb as <- _. simpl in Hle. lia.
        - subst pre. simpl in HH. injection HH as -> _ _. lia. }
      assert (Hincb : increasing ((t0, v0) :: r)) by (rewrite HH in Hinc; exact (increasing_app_r _ _ Hinc)).
      assert (Hrb : in_range ((t0, v0) :: r) t = true) by (apply in_range_cons; lia).
      destruct (interpolate_sel k _ t Hincb Hrb) as [lo [hi [Hlo [Hhi Hval]]]].
      assert (Hspec : spec k ((h0, x) :: hr) t = Some (sel k t lo hi)).
      { rewrite HH. destruct (suffix_entries pre (t0, v0) r t) as [E1 E2];
          [rewrite <- HH; exact Hinc|exact Ht0|].
        apply spec_some; [rewrite E1; exact Hlo|rewrite E2; exact Hhi]. }
      unfold get_data.
      destruct (Z.ltb_spec (last_time t0 r) t); [lia|]. destruct (Z.ltb_spec t t0); [lia|].
      simpl orb. cbv iota. rewrite Hval. simpl fst. simpl snd.
      split.
      * unfold spec_pull. replace (in_range ((h0, x) :: hr) t) with true
          by (symmetry; apply in_range_cons; lia).
        rewrite Hspec. reflexivity.
      * split; [exact Hinc|].
        destruct ev.
        -- destruct (clear_cached_suffix t ((t0, v0) :: r)) as [pre' Hpre'].
           destruct (clear_cached_first t _ (t0, v0) r eq_refl Ht0) as [e1 [r1 [Hc Hle]]].
           exists (pre ++ pre'). split.
           ++ rewrite <- app_assoc. rewrite Hc in Hpre'. rewrite Hc. rewrite <- Hpre'. exact HH.
           ++ exists e1, r1. auto.
        -- exists pre. split; [exact HH|]. exists (t0, v0), r. auto.
    + (* outside the published range *)
      assert (Hout : t < h0 \/ last_time h0 hr < t).
      { pose proof Hr as Hr'. simpl in Hr'. apply andb_false_iff in Hr'. rewrite !Z.leb_gt in Hr'. tauto. }
      unfold get_data.
      replace ((last_time t0 r <? t) || (t <? t0)) with true.
      2:{ symmetry. apply orb_true_iff. rewrite !Z.ltb_lt. lia. }
      split; [simpl snd; unfold spec_pull; rewrite Hr; reflexivity|simpl fst; exact HI].
Qed.

(* ------------------------------------------------------------------ *)
(** ** main results *)

Lemma run_spec_gen ev k : forall ops H b lr,
  Inv H b lr -> valid H lr ops -> run ev k b ops = spec_run k H ops.
Proof.
  induction ops as [|[t v|t] r IH]; intros H b lr HI Hv; [reflexivity| |].
  - destruct Hv as [Hp Hv]. simpl. apply (IH _ _ lr); [apply Inv_push; assumption|exact Hv].
  - simpl in Hv. simpl.
    destruct (pull_step ev k H b lr t HI) as [Hres HI'].
    { intros Hr. rewrite Hr in Hv. tauto. }
    destruct (get_data ev k b t) as [b' x]. simpl in *. subst x. f_equal.
    destruct (in_range H t); [apply (IH _ _ (Some t)); tauto|apply (IH _ _ lr); assumption].
Qed.

Lemma final_inv ev k : forall ops H b lr,
  Inv H b lr -> valid H lr ops -> Inv (pubs H ops) (final ev k b ops) (lastreq H lr ops).
Proof.
  induction ops as [|[t v|t] r IH]; intros H b lr HI Hv; [exact HI| |].
  - destruct Hv as [Hp Hv]. simpl. apply IH; [apply Inv_push; assumption|exact Hv].
  - simpl in Hv. simpl.
    destruct (pull_step ev k H b lr t HI) as [_ HI'].
    { intros Hr. rewrite Hr in Hv. tauto. }
    apply IH; [exact HI'|]. destruct (in_range H t); tauto.
Qed.

Lemma valid_app : forall o1 H lr o2,
  valid H lr (o1 ++ o2) <-> valid H lr o1 /\ valid (pubs H o1) (lastreq H lr o1) o2.
Proof.
  induction o1 as [|[t v|t] r IH]; intros H lr o2; simpl; [tauto| |].
  - rewrite IH. tauto.
  - destruct (in_range H t); rewrite IH; tauto.
Qed.

(** every pull of the (evicting or not) adapter returns the definition on the history so far *)
Theorem adapter_is_definition ev k ops :
  valid [] None ops -> run ev k [] ops = spec_run k [] ops.
Proof. intros Hv. exact (run_spec_gen ev k ops [] [] None Inv_init Hv). Qed.

Theorem eviction_invisible k ops :
  valid [] None ops -> run true k [] ops = run false k [] ops.
Proof. intros Hv. rewrite !adapter_is_definition by exact Hv. reflexivity. Qed.

(** one more request after any valid script *)
Lemma after_script ev k ops t :
  valid [] None (ops ++ [Pull t]) ->
  snd (get_data ev k (final ev k [] ops) t) = spec_pull k (pubs [] ops) t.
Proof.
  intros Hv. apply valid_app in Hv. destruct Hv as [Hv1 Hv2].
  pose proof (final_inv ev k ops [] [] None Inv_init Hv1) as HI.
  apply (pull_step ev k _ _ _ t HI). intros Hr. simpl in Hv2. rewrite Hr in Hv2. tauto.
Qed.

Theorem out_of_range_raises ev k ops t :
  valid [] None ops -> in_range (pubs [] ops) t = false ->
  snd (get_data ev k (final ev k [] ops) t) =
  match pubs [] ops with [] => ErrNoData | _ => ErrTime end.
Proof.
  intros Hv Hr. rewrite after_script.
  - unfold spec_pull. rewrite Hr. reflexivity.
  - apply valid_app. split; [exact Hv|]. simpl. rewrite Hr. exact I.
Qed.

(* ------------------------------------------------------------------ *)
(** ** the definitions are what their names say *)

Lemma lo_entry_snoc H x t :
  lo_entry (H ++ [x]) t = if fst x <=? t then Some x else lo_entry H t.
Proof. rewrite !lo_entry_fold, fold_left_app. reflexivity. Qed.

(** [lo_entry] is the last entry (in list order) with time [<= t] *)
Lemma lo_entry_split H t e :
  lo_entry H t = Some e ->
  exists l1 l2, H = l1 ++ e :: l2 /\ fst e <= t /\ forall e', In e' l2 -> t < fst e'.
Proof.
  revert e. induction H as [|x H IH] using rev_ind; intros e He; [discriminate|].
  rewrite lo_entry_snoc in He. destruct (Z.leb_spec (fst x) t) as [Hx|Hx].
  - injection He as <-. exists H, []. repeat split; [exact Hx|]. intros ? [].
  - destruct (IH _ He) as [l1 [l2 [-> [Hle Hall]]]].
    exists l1, (l2 ++ [x]). rewrite <- app_assoc. repeat split; [exact Hle|].
    intros e' He'. apply in_app_or in He'. destruct He' as [He'|[<-|[]]]; [auto|exact Hx].
Qed.

(** [hi_entry] is the first entry (in list order) with time [>= t] *)
Lemma hi_entry_split H t e :
  hi_entry H t = Some e ->
  exists l1 l2, H = l1 ++ e :: l2 /\ t <= fst e /\ forall e', In e' l1 -> fst e' < t.
Proof.
  rewrite hi_entry_find. induction H as [|x H IH]; intros He; [discriminate|].
  simpl in He. unfold fhi at 1 in He. destruct (Z.leb_spec t (fst x)) as [Hx|Hx].
  - injection He as <-. exists [], H. repeat split; [exact Hx|]. intros ? [].
  - destruct (IH He) as [l1 [l2 [-> [Hle Hall]]]].
    exists (x :: l1), l2. repeat split; [exact Hle|].
    intros e' [<-|He']; [exact Hx|auto].
Qed.

(** the last publication at or before [t] / the first at or after [t] *)
Definition latest_at_or_before (H : buf) (t : Z) (e : Z * Q) : Prop :=
  In e H /\ fst e <= t /\ forall e', In e' H -> fst e' <= t -> fst e' <= fst e.
Definition earliest_at_or_after (H : buf) (t : Z) (e : Z * Q) : Prop :=
  In e H /\ t <= fst e /\ forall e', In e' H -> t <= fst e' -> fst e <= fst e'.

Lemma lo_entry_sound H t e :
  increasing H -> lo_entry H t = Some e -> latest_at_or_before H t e.
Proof.
  intros Hinc He. destruct (lo_entry_split _ _ _ He) as [l1 [l2 [-> [Hle Hall]]]].
  split; [apply in_or_app; right; left; reflexivity|]. split; [exact Hle|].
  intros e' Hin Hle'. apply in_app_or in Hin. destruct Hin as [Hin|[<-|Hin]].
  - pose proof (increasing_app_lt _ _ _ _ Hinc Hin). lia.
  - lia.
  - specialize (Hall _ Hin). lia.
Qed.

Lemma hi_entry_sound H t e :
  increasing H -> hi_entry H t = Some e -> earliest_at_or_after H t e.
Proof.
  intros Hinc He. destruct (hi_entry_split _ _ _ He) as [l1 [l2 [-> [Hle Hall]]]].
  split; [apply in_or_app; right; left; reflexivity|]. split; [exact Hle|].
  intros e' Hin Hle'. apply in_app_or in Hin. destruct Hin as [Hin|[<-|Hin]].
  - specialize (Hall _ Hin). lia.
  - lia.
  - pose proof (increasing_app_gt _ _ _ _ Hinc Hin). lia.
Qed.

(** the brackets of a request at a publication time / strictly between two consecutive ones *)
Lemma entries_at l1 e l2 :
  increasing (l1 ++ e :: l2) ->
  lo_entry (l1 ++ e :: l2) (fst e) = Some e /\ hi_entry (l1 ++ e :: l2) (fst e) = Some e.
Proof.
  intros Hinc. destruct (suffix_entries l1 e l2 (fst e) Hinc (Z.le_refl _)) as [-> ->].
  rewrite lo_entry_fold, hi_entry_find. simpl.
  rewrite flo_le by lia. rewrite fhi_true by lia.
  split; [|reflexivity]. apply flo_newer.
  intros e' He'. exact (increasing_app_gt _ _ _ _ Hinc He').
Qed.

Lemma entries_between l1 e0 e1 l2 t :
  increasing (l1 ++ e0 :: e1 :: l2) -> fst e0 < t < fst e1 ->
  lo_entry (l1 ++ e0 :: e1 :: l2) t = Some e0 /\ hi_entry (l1 ++ e0 :: e1 :: l2) t = Some e1.
Proof.
  intros Hinc Ht. destruct (suffix_entries l1 e0 (e1 :: l2) t Hinc ltac:(lia)) as [-> ->].
  rewrite lo_entry_fold, hi_entry_find. simpl.
  rewrite (flo_le t None e0) by lia. rewrite (fhi_false t e0) by lia.
  rewrite (flo_gt t _ e1) by lia. rewrite (fhi_true t e1) by lia.
  split; [|reflexivity]. apply flo_newer.
  intros e' He'.
  assert (Hinc' : increasing ((l1 ++ [e0]) ++ e1 :: l2)) by (rewrite <- app_assoc; exact Hinc).
  pose proof (increasing_app_gt _ _ _ _ Hinc' He'). lia.
Qed.

Lemma in_range_member H e : increasing H -> In e H -> in_range H (fst e) = true.
Proof.
  intros Hinc Hin. destruct H as [|[t0 v0] r]; [contradiction|].
  apply in_range_cons. simpl in Hinc. destruct Hin as [<-|Hin]; simpl.
  - pose proof (inc_from_last_ge _ _ Hinc). lia.
  - apply in_split in Hin. destruct Hin as [l1 [l2 ->]].
    pose proof (inc_from_lt _ _ e Hinc ltac:(apply in_or_app; right; left; reflexivity)).
    rewrite last_time_app_cons.
    pose proof (inc_from_app_r _ _ _ Hinc) as Hr. simpl in Hr. destruct e as [te ve]. simpl in *.
    destruct Hr as [_ Hr]. pose proof (inc_from_last_ge _ _ Hr). lia.
Qed.

(** at a publication time every definition gives the published value *)
Theorem spec_at_publication k H t v :
  increasing H -> In (t, v) H -> spec_pull k H t = Ok v.
Proof.
  intros Hinc Hin. pose proof (in_range_member H (t, v) Hinc Hin) as Hr. simpl in Hr.
  unfold spec_pull. rewrite Hr. destruct H as [|h0 hr]; [contradiction|].
  apply in_split in Hin. destruct Hin as [l1 [l2 Heq]]. rewrite Heq in *.
  destruct (entries_at l1 (t, v) l2 Hinc) as [Hlo Hhi]. simpl fst in *.
  rewrite (spec_some k _ _ _ _ Hlo Hhi), sel_same. reflexivity.
Qed.

Lemma pubs_increasing : forall ops H lr, increasing H -> valid H lr ops -> increasing (pubs H ops).
Proof.
  induction ops as [|[t v|t] r IH]; intros H lr Hinc Hv; [exact Hinc| |].
  - destruct Hv as [Hp Hv]. simpl. apply (IH _ lr); [apply increasing_push; assumption|exact Hv].
  - simpl in *. destruct (in_range H t); [apply (IH _ (Some t)); tauto|apply (IH _ lr); assumption].
Qed.

Theorem at_publication ev k ops t v :
  valid [] None (ops ++ [Pull t]) -> In (t, v) (pubs [] ops) ->
  snd (get_data ev k (final ev k [] ops) t) = Ok v.
Proof.
  intros Hv Hin. rewrite after_script by exact Hv.
  apply spec_at_publication; [|exact Hin].
  apply valid_app in Hv. destruct Hv as [Hv _]. exact (pubs_increasing ops [] None I Hv).
Qed.

(** between two consecutive publications the linear definition is the straight line, and it
    passes through both publications *)
Theorem lin_spec_formula l1 t0 v0 t1 v1 l2 t :
  increasing (l1 ++ (t0, v0) :: (t1, v1) :: l2) -> t0 <= t <= t1 ->
  exists v, lin_spec (l1 ++ (t0, v0) :: (t1, v1) :: l2) t = Some v /\
            (v == v0 + (inject_Z (t - t0) / inject_Z (t1 - t0)) * (v1 - v0))%Q.
Proof.
  intros Hinc Ht.
  assert (Hlt : t0 < t1).
  { pose proof (increasing_app_gt l1 (t0, v0) ((t1, v1) :: l2) (t1, v1) Hinc (or_introl eq_refl)).
    simpl in *. lia. }
  assert (Hnz : ~ (inject_Z (t1 - t0) == 0)%Q).
  { intros E. unfold Qeq in E. simpl in E. lia. }
  destruct (Z.eq_dec t t0) as [->|Hn0]; [|destruct (Z.eq_dec t t1) as [->|Hn1]].
  - destruct (entries_at l1 (t0, v0) ((t1, v1) :: l2) Hinc) as [Hlo Hhi]. simpl fst in *.
    exists v0. split.
    + pose proof (spec_some KLinear _ _ _ _ Hlo Hhi) as E. simpl in E. rewrite Z.eqb_refl in E. exact E.
    + rewrite Z.sub_diag. unfold Qdiv. setoid_replace (inject_Z 0) with 0%Q by reflexivity. ring.
  - assert (Hinc' : increasing ((l1 ++ [(t0, v0)]) ++ (t1, v1) :: l2)) by (rewrite <- app_assoc; exact Hinc).
    destruct (entries_at _ (t1, v1) l2 Hinc') as [Hlo Hhi]. simpl fst in *.
    rewrite <- app_assoc in Hlo, Hhi. simpl in Hlo, Hhi.
    exists v1. split.
    + pose proof (spec_some KLinear _ _ _ _ Hlo Hhi) as E. simpl in E. rewrite Z.eqb_refl in E. exact E.
    + field. exact Hnz.
  - destruct (entries_between l1 (t0, v0) (t1, v1) l2 t Hinc) as [Hlo Hhi]; [simpl; lia|].
    pose proof (spec_some KLinear _ _ _ _ Hlo Hhi) as E. simpl in E.
    destruct (Z.eqb_spec t0 t1); [lia|]. eexists. split; [exact E|reflexivity].
Qed.

(** strictly between two consecutive publications the step definition switches from the older
    to the newer value exactly when the relative position exceeds [s] *)
Theorem step_spec_formula s l1 t0 v0 t1 v1 l2 t :
  increasing (l1 ++ (t0, v0) :: (t1, v1) :: l2) -> t0 < t < t1 ->
  step_spec s (l1 ++ (t0, v0) :: (t1, v1) :: l2) t =
  Some (if Qle_bool (inject_Z (t - t0) / inject_Z (t1 - t0))%Q s then v0 else v1).
Proof.
  intros Hinc Ht.
  destruct (entries_between l1 (t0, v0) (t1, v1) l2 t Hinc) as [Hlo Hhi]; [simpl; lia|].
  pose proof (spec_some (KStep s) _ _ _ _ Hlo Hhi) as E. simpl in E.
  destruct (Z.eqb_spec t0 t1); [lia|]. exact E.
Qed.

Theorem next_spec_sound H t v :
  increasing H -> next_spec H t = Some v -> exists e, earliest_at_or_after H t e /\ snd e = v.
Proof.
  unfold next_spec. intros Hinc E. destruct (hi_entry H t) as [e|] eqn:He; [|discriminate].
  injection E as <-. exists e. split; [exact (hi_entry_sound _ _ _ Hinc He)|reflexivity].
Qed.

Theorem prev_spec_sound H t v :
  increasing H -> prev_spec H t = Some v -> exists e, latest_at_or_before H t e /\ snd e = v.
Proof.
  unfold prev_spec. intros Hinc E. destruct (lo_entry H t) as [e|] eqn:He; [|discriminate].
  injection E as <-. exists e. split; [exact (lo_entry_sound _ _ _ Hinc He)|reflexivity].
Qed.

(** within the published range every definition is defined (so [spec_pull] never falls back to
    its error default for an in-range request) *)
Theorem spec_defined k H t :
  increasing H -> in_range H t = true -> exists v, spec k H t = Some v.
Proof.
  intros Hinc Hr. destruct (interpolate_sel k H t Hinc Hr) as [lo [hi [Hlo [Hhi _]]]].
  eexists. exact (spec_some k _ _ _ _ Hlo Hhi).
Qed.
