(** The request series with DelayToPull links (generalisation of FVP.Trace_proofs): the events of the j-th update of a
    component are a function [ublock2 cs c j] of the component and the update INDEX alone — the link states a pull goes
    through are the canonical ones [lafter cs c inp (j-1)] of FVP.Confluence2_proofs — so per component the sequence of
    blocks is the same for every order. *)
From Coq Require Import List ZArith Bool Lia Arith.
From FV Require Import Base Sched.
From FVP Require Import Adapters_proofs Sched_proofs Confluence_proofs Confluence2_proofs.
Import ListNotations.
Open Scope Z_scope.

Fixpoint pevents2_list (rec : nat -> input -> list ev -> list ev) (k : nat) (ins : list input) (a : list ev) : list ev :=
  match ins with
  | [] => a
  | x :: rest => pevents2_list rec (S k) rest (rec k x a)
  end.

(** events of the pull of input [i] of [c] for [t] when the link is in state [ss] (pull-based components below it have
    stateless links in empty state) *)
Fixpoint pevents2 (fuel : nat) (cs : composition) (c i : nat) (inp : input) (ss : list (list Z)) (t : Z) (acc : list ev) : list ev :=
  match fuel with
  | O => acc
  | S fuel' =>
      let src := i_src inp in
      let '(r, b, _) := pull_chain (i_chain inp) ss (init_of cs src) None t in
      let acc1 := EP c i t :: acc in
      if is_static_src cs src then ES (fst src) (snd src) r :: acc1
      else if b then EB c i r :: acc1
      else if is_time cs (fst src) then ES (fst src) (snd src) r :: acc1
      else pevents2_list (fun k x a => pevents2 fuel' cs (fst src) k x (lempty x) r a) O (c_inputs (getc cs (fst src)))
             (ES (fst src) (snd src) r :: acc1)
  end.

(** the block of the [j]-th update (j >= 1) of time component [c] *)
Definition ublock2 (cs : composition) (c : nat) (j : nat) (acc : list ev) : list ev :=
  pevents2_list (fun k x a => pevents2 (S (length cs)) cs c k x (lafter cs c x (pred j)) (tfun cs c j) a) O
    (c_inputs (getc cs c)) (EU c (tfun cs c j) :: acc).

Definition trace2 (cs : composition) (us : list (nat * nat)) : list ev :=
  fold_left (fun a u => ublock2 cs (fst u) (snd u) a) us [].

(** a successful pull over links in canonical state produces exactly [pevents2]; the canonical state of the links of
    pull-based components is kept *)
Definition PullCanon (cs : composition) (st : state) : Prop :=
  forall p y inp, is_time cs p = false -> nth_error (c_inputs (getc cs p)) y = Some inp -> s_link st p y = lempty inp.

Lemma pull_list_events2 cs c (prec : nat -> input -> state -> list ev -> state * list ev * option err)
  (erec : nat -> input -> list ev -> list ev) (P : state -> Prop) :
  (forall k x s a s' a', nth_error (c_inputs (getc cs c)) k = Some x -> P s ->
      prec k x s a = (s', a', None) -> a' = erec k x a /\ P s') ->
  forall ins k0 s a s' a',
    (forall j x, nth_error ins j = Some x -> nth_error (c_inputs (getc cs c)) (k0 + j) = Some x) ->
    P s -> pull_list prec k0 ins s a = (s', a', None) ->
    a' = pevents2_list erec k0 ins a /\ P s'.
Proof.
  intros Hrec. induction ins as [|x ins IH]; intros k0 s a s' a' Hidx L H; simpl in H.
  - inversion H; subst. simpl. auto.
  - destruct (prec k0 x s a) as [[s2 a2] e2] eqn:R. destruct e2 as [e2|]; [inversion H|].
    assert (Hx : nth_error (c_inputs (getc cs c)) k0 = Some x).
    { specialize (Hidx O x eq_refl). now rewrite Nat.add_0_r in Hidx. }
    destruct (Hrec _ _ _ _ _ _ Hx L R) as [E2 L2]. subst a2. simpl.
    apply (IH (S k0) s2 _ s' a'); [|exact L2|exact H].
    intros j y Hj. specialize (Hidx (S j) y Hj). now replace (S k0 + j)%nat with (k0 + S j)%nat by lia.
Qed.

Lemma pull_input_events2 cs (W : wf cs) (NP : nopush cs) fuel : forall st c i inp t acc st' acc',
  nth_error (c_inputs (getc cs c)) i = Some inp -> PullCanon cs st ->
  pull_input fuel cs st c i inp t acc = (st', acc', None) ->
  acc' = pevents2 fuel cs c i inp (s_link st c i) t acc /\ PullCanon cs st'.
Proof.
  induction fuel as [|fuel IH]; intros st c i inp t acc st' acc' Hi PC H; [simpl in H; discriminate|].
  assert (PC' : PullCanon cs st').
  { destruct (pull_input_links cs W _ _ _ _ _ _ _ _ _ _ Hi H) as [_ [_ [C _]]].
    intros p y inp0 Tp Hy. rewrite (C p y Tp). apply PC; assumption. }
  split; [|exact PC'].
  simpl in H. cbn [pevents2].
  rewrite (pull_chain_nopush (i_chain inp) (s_link st c i) (init_of cs (i_src inp)) (ptime_of cs st (i_src inp)) None t (NP c i inp Hi)) in H.
  destruct (pull_chain (i_chain inp) (s_link st c i) (init_of cs (i_src inp)) None t) as [[r b] ss'] eqn:E.
  destruct (is_static_src cs (i_src inp)); [inversion H; subst; reflexivity|].
  destruct b.
  { destruct (_ && _); inversion H; subst; reflexivity. }
  destruct (is_time cs (fst (i_src inp))) eqn:Ts.
  { destruct (_ && _); inversion H; subst; reflexivity. }
  set (p0 := fst (i_src inp)) in *.
  set (st1 := mkS (s_time st) (s_cnt st) (upd2 (s_link st) c i ss')) in *.
  assert (PC1 : PullCanon cs st1).
  { intros p y inp0 Tp Hy. unfold st1; simpl. destruct (Nat.eq_dec p c) as [->|Ne].
    - destruct (Nat.eq_dec y i) as [->|Ny].
      + rewrite upd2_this. rewrite Hi in Hy. inversion Hy; subst inp0.
        pose proof (wf_chain cs W c i inp Hi) as Wc. unfold chain_wf in Wc. apply andb_prop in Wc. destruct Wc as [_ Wcons].
        rewrite Tp in Wcons.
        pose proof (pull_chain_no_topull (i_chain inp) (s_link st c i) (init_of cs (i_src inp)) None t Wcons) as N.
        rewrite E in N. simpl in N. rewrite N. apply PC; assumption.
      + rewrite upd2_other by congruence. apply PC; assumption.
    - rewrite upd2_other by congruence. apply PC; assumption. }
  destruct (pull_list_events2 cs p0 (fun k x s a => pull_input fuel cs s p0 k x r a)
              (fun k x a => pevents2 fuel cs p0 k x (lempty x) r a) (PullCanon cs)) with
      (ins := c_inputs (getc cs p0)) (k0 := O) (s := st1) (a := ES p0 (snd (i_src inp)) r :: EP c i t :: acc) (s' := st') (a' := acc')
    as [EA _]; [|intros j x Hj; exact Hj|exact PC1|exact H|exact EA].
  intros k x s a s2 a2 Hk Ps R. destruct (IH _ _ _ _ _ _ _ _ Hk Ps R) as [EA P2]. split; [|exact P2].
  rewrite EA. rewrite (Ps p0 k x Ts Hk). reflexivity.
Qed.

Lemma LinkInv_PullCanon cs st : LinkInv cs st -> PullCanon cs st.
Proof.
  intros LI p y inp Tp Hy. rewrite (LI p y inp Hy). unfold canon_link. now rewrite Hy, Tp.
Qed.

Lemma do_update_events2 cs (W : wf cs) (NP : nopush cs) st c acc st' acc' :
  is_time cs c = true -> TimeInv cs st -> LinkInv cs st ->
  do_update cs st c acc = (st', acc', None) -> acc' = ublock2 cs c (S (s_cnt st c)) acc.
Proof.
  intros Tc TI LI H. unfold do_update, pull_all in H.
  destruct (pull_list _ _ _ _ _) as [[st1 acc1] e1] eqn:PA. inversion H; subst. clear H.
  unfold ublock2. cbn [pred]. rewrite <- (next_time_tfun cs st c TI Tc).
  set (nt := next_time cs st c) in *.
  (* invariant while the inputs are pulled one after the other: links of [c] not yet pulled are still canonical *)
  set (P := fun (k : nat) (s : state) => PullCanon cs s /\
               forall y inp, (k <= y)%nat -> nth_error (c_inputs (getc cs c)) y = Some inp -> s_link s c y = lafter cs c inp (s_cnt st c)).
  assert (G : forall ins k0 s a s' a',
             (forall j x, nth_error ins j = Some x -> nth_error (c_inputs (getc cs c)) (k0 + j) = Some x) ->
             P k0 s ->
             pull_list (fun k x s a => pull_input (S (length cs)) cs s c k x nt a) k0 ins s a = (s', a', None) ->
             a' = pevents2_list (fun k x a => pevents2 (S (length cs)) cs c k x (lafter cs c x (s_cnt st c)) nt a) k0 ins a).
  { induction ins as [|x ins IHi]; intros k0 s a s' a' Hidx [Pc Pl] Hp; cbn [pull_list] in Hp; [inversion Hp; reflexivity|].
    destruct (pull_input (S (length cs)) cs s c k0 x nt a) as [[s2 a2] e2] eqn:R. destruct e2 as [e2|]; [discriminate Hp|].
    assert (Hx : nth_error (c_inputs (getc cs c)) k0 = Some x).
    { specialize (Hidx O x eq_refl). now rewrite Nat.add_0_r in Hidx. }
    destruct (pull_input_events2 cs W NP _ _ _ _ _ _ _ _ _ Hx Pc R) as [EA P2].
    destruct (pull_input_links cs W _ _ _ _ _ _ _ _ _ _ Hx R) as [_ [_ [_ [D _]]]].
    cbn [pevents2_list]. rewrite <- (Pl k0 x (Nat.le_refl k0) Hx). rewrite <- EA.
    apply (IHi (S k0) s2 a2 s' a'); [| |exact Hp].
    - intros j y Hj. specialize (Hidx (S j) y Hj). now replace (S k0 + j)%nat with (k0 + S j)%nat by lia.
    - split; [exact P2|]. intros y inp0 Hy Hinp. rewrite D; [apply Pl; [lia|exact Hinp]|exact Tc|].
      intros E0. inversion E0. lia. }
  apply (G (c_inputs (getc cs c)) O st (EU c nt :: acc) st1 acc'); [intros j x Hj; exact Hj| |exact PA].
  split; [apply LinkInv_PullCanon; exact LI|].
  intros y inp _ Hy. rewrite (LI c y inp Hy). unfold canon_link. now rewrite Hy, Tc.
Qed.

(** ** the run *)
Definition ups2_of (c : nat) (us : list (nat * nat)) : list (nat * nat) := filter (fun u => Nat.eqb (fst u) c) us.
Definition canon2 (c : nat) (n : nat) : list (nat * nat) := map (fun j => (c, S j)) (seq O n).

Record TrInv2 (cs : composition) (st : state) (acc : list ev) (us : list (nat * nat)) : Prop := {
  tr2_acc : acc = trace2 cs us;
  tr2_ups : forall c, is_time cs c = true -> ups2_of c us = canon2 c (s_cnt st c)
}.

Lemma run_loop_pick_trace2 cs (W : wf cs) (NP : nopush cs) endt pick (PO : pick_ok cs pick) fuel :
  forall st acc us st' acc',
  RInv2 cs endt st -> any_running st O cs endt = true -> TrInv2 cs st acc us ->
  run_loop_pick pick fuel cs endt st acc = (OOk, st', acc') ->
  exists us', TrInv2 cs st' acc' us'.
Proof.
  induction fuel as [|fuel IH]; intros st acc us st' acc' R AR TR H; cbn [run_loop_pick] in H; [discriminate|].
  destruct (pick st) as [c0|] eqn:PK; [|inversion H; subst; exists us; exact TR].
  destruct (update_rec (rec_fuel cs) cs st acc c0 [] 0) as [u st1 acc1 e1| | |] eqn:U; try discriminate.
  destruct e1 as [[| |]|]; try discriminate.
  pose proof (rinv2_step cs W NP endt pick PO st acc c0 u st1 acc1 R AR PK U) as R1.
  destruct (update_rec_props (rec_fuel cs) cs st acc c0 [] 0) as [_ HB].
  destruct (HB _ _ _ _ U) as [Tu [Du _]].
  destruct (do_update_cnt cs st u acc st1 acc1 None Du) as [C1 C2].
  pose proof (do_update_events2 cs W NP st u acc st1 acc1 Tu (r2_time cs endt st R) (r2_link cs endt st R) Du) as EA.
  assert (TR1 : TrInv2 cs st1 acc1 (us ++ [(u, S (s_cnt st u))])).
  { destruct TR as [TA TU]. split.
    - unfold trace2. rewrite fold_left_app. simpl. fold (trace2 cs us). rewrite <- TA. exact EA.
    - intros c Tc. unfold ups2_of. rewrite filter_app. simpl.
      destruct (Nat.eqb u c) eqn:E.
      + apply Nat.eqb_eq in E. subst c. rewrite C1. unfold canon2. rewrite seq_S, map_app. simpl. f_equal. apply TU; exact Tc.
      + apply Nat.eqb_neq in E. rewrite app_nil_r. rewrite C2 by congruence. apply TU; exact Tc. }
  destruct (any_running st1 0 cs endt) eqn:AR1.
  - eapply IH; eauto.
  - inversion H; subst. eexists; exact TR1.
Qed.

(** C05: with DelayToPull links too, the trace of every order is a concatenation of per-update blocks that are functions
    of (component, update index) alone, and per component the blocks are the same *)
Lemma series_order_independent2 cs (W : wf cs) (NP : nopush cs) endt pick1 pick2 fuel1 fuel2 st1 acc1 st2 acc2 :
  pick_ok cs pick1 -> pick_ok cs pick2 ->
  any_running (init_state cs) O cs endt = true ->
  run_loop_pick pick1 fuel1 cs endt (init_state cs) [] = (OOk, st1, acc1) ->
  run_loop_pick pick2 fuel2 cs endt (init_state cs) [] = (OOk, st2, acc2) ->
  exists us1 us2,
    acc1 = trace2 cs us1 /\ acc2 = trace2 cs us2 /\
    forall c, is_time cs c = true -> ups2_of c us1 = ups2_of c us2 /\ ups2_of c us1 = canon2 c (s_cnt st1 c).
Proof.
  intros P1 P2 AR H1 H2.
  assert (I0 : TrInv2 cs (init_state cs) [] []) by (split; [reflexivity|intros c _; reflexivity]).
  destruct (run_loop_pick_trace2 cs W NP endt pick1 P1 fuel1 _ _ _ _ _ (init_state_RInv2 cs endt W) AR I0 H1) as [us1 [A1 U1]].
  destruct (run_loop_pick_trace2 cs W NP endt pick2 P2 fuel2 _ _ _ _ _ (init_state_RInv2 cs endt W) AR I0 H2) as [us2 [A2 U2]].
  exists us1, us2. split; [exact A1|]. split; [exact A2|].
  intros c Tc.
  destruct (confluence2 cs W NP endt pick1 pick2 fuel1 fuel2 st1 acc1 st2 acc2 P1 P2 AR H1 H2 c Tc) as [E _].
  split; [|apply U1; exact Tc]. rewrite (U1 c Tc), (U2 c Tc), E. reflexivity.
Qed.
