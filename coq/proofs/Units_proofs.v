(** Proofs about FV.Units (property C17). *)
From Coq Require Import List ZArith QArith Qabs Bool Lia Lqa Setoid.
From FV Require Import Base Units.
Import ListNotations.
Open Scope Q_scope.

(** * Dimensional analysis *)

Definition wf (u : unit) : Prop := 0 < factor u.

Lemma wf_nz : forall u, wf u -> ~ factor u == 0.
Proof. unfold wf. intros u Hu He. rewrite He in Hu. apply (Qlt_irrefl 0 Hu). Qed.

Lemma list_eqb_Z_eq : forall l1 l2 : list Z, list_eqb Z.eqb l1 l2 = true <-> l1 = l2.
Proof.
  induction l1 as [|x r IH]; intros [|y s]; simpl; split; intros H; try reflexivity; try discriminate.
  - apply andb_true_iff in H. destruct H as [Hxy Hr]. apply Z.eqb_eq in Hxy. apply IH in Hr. now subst.
  - inversion H; subst. rewrite Z.eqb_refl. simpl. now apply IH.
Qed.

Lemma compatible_iff : forall u v, compatible u v = true <-> dims u = dims v.
Proof. intros u v. unfold compatible. apply list_eqb_Z_eq. Qed.

Lemma compatible_refl : forall u, compatible u u = true.
Proof. intros u. now apply compatible_iff. Qed.

Lemma compatible_sym : forall u v, compatible u v = compatible v u.
Proof.
  intros u v. destruct (compatible u v) eqn:E1, (compatible v u) eqn:E2; auto.
  - apply compatible_iff in E1. symmetry in E1. apply compatible_iff in E1. congruence.
  - apply compatible_iff in E2. symmetry in E2. apply compatible_iff in E2. congruence.
Qed.

Lemma compatible_trans : forall u v w,
  compatible u v = true -> compatible v w = true -> compatible u w = true.
Proof. intros u v w H1 H2. apply compatible_iff in H1, H2. apply compatible_iff. congruence. Qed.

Lemma convert_affine : forall u v x, wf v ->
  convert u v x == (factor u / factor v) * x + (offset u - offset v) / factor v.
Proof. intros u v x Hv. unfold convert. field. now apply wf_nz. Qed.

Lemma convert_id : forall u x, wf u -> convert u u x == x.
Proof. intros u x Hu. unfold convert. field. now apply wf_nz. Qed.

Lemma convert_compose : forall u v w x, wf v -> wf w ->
  convert v w (convert u v x) == convert u w x.
Proof. intros u v w x Hv Hw. unfold convert. field. split; now apply wf_nz. Qed.

Lemma convert_proper : forall u v x y, x == y -> convert u v x == convert u v y.
Proof. intros u v x y H. unfold convert. now rewrite H. Qed.

(** converting there and back is the identity: no information is lost *)
Lemma convert_inverse : forall u v x, wf u -> wf v -> convert v u (convert u v x) == x.
Proof. intros u v x Hu Hv. rewrite convert_compose by assumption. now apply convert_id. Qed.

Lemma div_eq_1 : forall n d : Q, ~ d == 0 -> n / d == 1 -> n == d.
Proof.
  intros n d Hd H. setoid_replace n with ((n / d) * d) by (field; assumption). rewrite H. ring.
Qed.

Lemma equivalent_iff : forall u v,
  equivalent u v = true <-> dims u = dims v /\ convert u v 1 == 1.
Proof.
  intros u v. unfold equivalent. rewrite andb_true_iff, compatible_iff, Qeq_bool_iff. tauto.
Qed.

Lemma equivalent_compatible : forall u v, equivalent u v = true -> compatible u v = true.
Proof. intros u v H. unfold equivalent in H. now apply andb_true_iff in H. Qed.

Lemma equivalent_sym : forall u v, wf u -> wf v -> equivalent u v = equivalent v u.
Proof.
  assert (A : forall u v, wf u -> wf v -> equivalent u v = true -> equivalent v u = true).
  { intros u v Hu Hv H. apply equivalent_iff in H. destruct H as [Hd H1]. apply equivalent_iff.
    split; [congruence|].
    unfold convert in *. apply wf_nz in Hu. apply wf_nz in Hv.
    assert (E : 1 * factor u + offset u - offset v == factor v) by (apply div_eq_1; assumption).
    setoid_replace (1 * factor v + offset v - offset u) with (factor u) by (rewrite <- E; ring).
    field. assumption. }
  intros u v Hu Hv. destruct (equivalent u v) eqn:E1, (equivalent v u) eqn:E2; auto.
  - apply A in E1; auto. congruence.
  - apply A in E2; auto. congruence.
Qed.

(** equivalent + equal offsets => the conversion is the identity map *)
Lemma equivalent_relabel : forall u v, wf v ->
  equivalent u v = true -> offset u == offset v -> forall x, convert u v x == x.
Proof.
  intros u v Hv He Ho x. apply equivalent_iff in He. destruct He as [_ H1].
  pose proof (wf_nz _ Hv) as Hnz. unfold convert in *.
  apply div_eq_1 in H1; [|assumption].
  assert (E : factor u == factor v) by (rewrite <- H1, Ho; ring).
  rewrite E, Ho. field. assumption.
Qed.

(** the statement without the offset hypothesis is false *)
Definition ex_u : unit := mkU [0%Z] 1 0.
Definition ex_v : unit := mkU [0%Z] 2 (-1).
Lemma equiv_not_identity :
  wf ex_u /\ wf ex_v /\ equivalent ex_u ex_v = true /\ ~ convert ex_u ex_v 0 == 0.
Proof. repeat split; try reflexivity. intros H. vm_compute in H. discriminate. Qed.

Definition relabel_full : Prop :=
  forall u v, wf u -> wf v -> equivalent u v = true -> forall x, convert u v x == x.
Lemma relabel_full_false : ~ relabel_full.
Proof.
  intros H. destruct equiv_not_identity as (Hu & Hv & He & Hn). apply Hn. now apply H.
Qed.

(** converting and then masking = masking and then converting the visible cells *)
Lemma convert_commutes_mask : forall u v m l,
  mask_with m (map (convert u v) l) = map (option_map (convert u v)) (mask_with m l).
Proof.
  intros u v m. induction m as [|b mt IH]; intros [|x lt]; simpl; try reflexivity.
  rewrite IH. destruct b; reflexivity.
Qed.

(** * The memo *)

Definition faithful (l : list uent) : Prop :=
  forall a b, In a l -> In b l -> cid a = cid b -> uu a = uu b.

Definition sound (Un : list uent) (c : cache) : Prop :=
  forall a b r, In a Un -> In b Un -> lookup (cid a, cid b) c = Some r -> r = pure_pair a b.

Lemma sound_nil : forall Un, sound Un [].
Proof. intros Un a b r _ _ H. discriminate. Qed.

Lemma key_eqb_iff : forall k1 k2, key_eqb k1 k2 = true <-> k1 = k2.
Proof.
  intros [a b] [c d]. unfold key_eqb. simpl. rewrite andb_true_iff, !Nat.eqb_eq.
  split; [intros [-> ->]; reflexivity | intros H; inversion H; auto].
Qed.

Lemma query_ex : forall Un c a b, faithful Un -> sound Un c -> In a Un -> In b Un ->
  exists c', query c a b = (pure_pair a b, c') /\ sound Un c'.
Proof.
  intros Un c a b HF HS Ha Hb. unfold query. destruct (lookup (cid a, cid b) c) as [r|] eqn:EL.
  - exists c. split; [|assumption]. f_equal. now apply (HS a b).
  - eexists. split; [reflexivity|].
    intros a' b' r Ha' Hb' HL. simpl in HL.
    destruct (key_eqb (cid a', cid b') (cid a, cid b)) eqn:EK.
    + apply key_eqb_iff in EK. inversion EK as [[E1 E2]]. inversion HL; subst r.
      unfold pure_pair. rewrite (HF a' a Ha' Ha E1), (HF b' b Hb' Hb E2). reflexivity.
    + now apply (HS a' b').
Qed.

Ltac use_query HF HS Ha Hb c' E S :=
  let H := fresh in
  destruct (query_ex _ _ _ _ HF HS Ha Hb) as (c' & E & S); rewrite E; clear E; cbn [fst snd pure_pair].

Lemma to_units_ex : forall Un c a b chk x, faithful Un -> sound Un c -> In a Un -> In b Un ->
  exists c', m_to_units c a b chk x = (p_to_units a b chk x, c') /\ sound Un c'.
Proof.
  intros Un c a b chk x HF HS Ha Hb. unfold m_to_units, p_to_units.
  destruct (Nat.eqb (cid b) (cid a)); [eauto|].
  destruct chk; cbn [andb]; [|eauto].
  use_query HF HS Hb Ha c1 E S1.
  destruct (equivalent (uu b) (uu a)); eauto.
Qed.

Lemma prepare_ex : forall Un c a b x, faithful Un -> sound Un c -> In a Un -> In b Un ->
  exists c', m_prepare c a b x = (p_prepare a b x, c') /\ sound Un c'.
Proof.
  intros Un c a b x HF HS Ha Hb. unfold m_prepare, p_prepare.
  use_query HF HS Ha Hb c1 E S1.
  destruct (compatible (uu a) (uu b)); cbn [negb]; [|eauto].
  use_query HF S1 Ha Hb c2 E S2.
  destruct (equivalent (uu a) (uu b)); cbn [negb]; eauto.
Qed.

Lemma accepts_ex : forall Un c a b, faithful Un -> sound Un c -> In a Un -> In b Un ->
  exists c', m_accepts c a b = (compatible (uu a) (uu b), c') /\ sound Un c'.
Proof.
  intros Un c a b HF HS Ha Hb. unfold m_accepts. use_query HF HS Ha Hb c1 E S1. eauto.
Qed.

Lemma p_prepare_ent : forall a b x e cv y, p_prepare a b x = inl (e, cv, y) -> e = a \/ e = b.
Proof.
  intros a b x e cv y. unfold p_prepare, pint_to.
  destruct (compatible (uu a) (uu b)); cbn [negb]; [|discriminate].
  destruct (equivalent (uu a) (uu b)); cbn [negb]; intros H; inversion H; auto.
Qed.

Lemma p_to_units_ent : forall a b chk x e cv y, p_to_units a b chk x = inl (e, cv, y) -> e = a \/ e = b.
Proof.
  intros a b chk x e cv y. unfold p_to_units, pint_to.
  destruct (Nat.eqb (cid b) (cid a)); [intros H; inversion H; auto|].
  destruct (chk && equivalent (uu b) (uu a)); [intros H; inversion H; auto|].
  destruct (compatible (uu a) (uu b)); intros H; inversion H; auto.
Qed.

Lemma link_ex : forall Un c k a b x, faithful Un -> sound Un c ->
  (forall k', k = Some k' -> In k' Un) -> In a Un -> In b Un ->
  exists c', m_link c k a b x = (p_link k a b x, c') /\ sound Un c'.
Proof.
  intros Un c k a b x HF HS Hk Ha Hb. unfold m_link, p_link.
  destruct (accepts_ex _ c a b HF HS Ha Hb) as (c1 & E1 & S1). rewrite E1. clear E1.
  destruct (compatible (uu a) (uu b)); cbn [negb]; [|eauto].
  destruct (accepts_ex _ c1 b a HF S1 Hb Ha) as (c2 & E2 & S2). rewrite E2. clear E2.
  destruct (compatible (uu b) (uu a)); cbn [negb]; [|eauto].
  assert (P : exists c3,
    (match k with None => (inl (a, false, x), c2) | Some k0 => m_prepare c2 k0 a x end)
    = (match k with None => inl (a, false, x) | Some k0 => p_prepare k0 a x end, c3)
    /\ sound Un c3).
  { destruct k as [k0|]; [|eauto]. apply prepare_ex; auto. }
  destruct P as (c3 & E3 & S3). rewrite E3. clear E3.
  set (st := match k with None => inl (a, false, x) | Some k0 => p_prepare k0 a x end).
  assert (Hse : forall e cv y, st = inl (e, cv, y) -> In e Un).
  { intros e cv y H. subst st. destruct k as [k0|].
    - apply p_prepare_ent in H. destruct H; subst; auto.
    - inversion H; subst; auto. }
  destruct st as [[[se cs] xs]|e]; [|eauto].
  assert (Hs : In se Un) by (eapply Hse; reflexivity).
  destruct (to_units_ex _ c3 se b true xs HF S3 Hs Hb) as (c4 & E4 & S4). rewrite E4. clear E4.
  destruct (p_to_units se b true xs) as [[[ge cv] xg]|e] eqn:EG; [|eauto].
  assert (Hg : In ge Un) by (apply p_to_units_ent in EG; destruct EG; subst; auto).
  use_query HF S4 Hb Hg c5 E S5.
  destruct (compatible (uu b) (uu ge)); cbn [negb]; eauto.
Qed.

Lemma alink_ex : forall Un c k a d b x, faithful Un -> sound Un c ->
  (forall k', k = Some k' -> In k' Un) -> In a Un -> In d Un -> In b Un ->
  exists c', m_alink c k a d b x = (p_alink k a d b x, c') /\ sound Un c'.
Proof.
  intros Un c k a d b x HF HS Hk Ha Hd Hb. unfold m_alink, p_alink.
  destruct (accepts_ex _ c b d HF HS Hb Hd) as (c1 & E1 & S1). rewrite E1. clear E1.
  destruct (compatible (uu b) (uu d)); cbn [negb]; [|eauto].
  assert (P : exists c2,
    (match k with None => (inl (a, false, x), c1) | Some k0 => m_prepare c1 k0 a x end)
    = (match k with None => inl (a, false, x) | Some k0 => p_prepare k0 a x end, c2)
    /\ sound Un c2).
  { destruct k as [k0|]; [|eauto]. apply prepare_ex; auto. }
  destruct P as (c2 & E2 & S2). rewrite E2. clear E2.
  destruct (match k with None => inl (a, false, x) | Some k0 => p_prepare k0 a x end)
    as [[[se cs] xs]|e]; [|eauto].
  destruct (prepare_ex _ c2 d d xs HF S2 Hd Hd) as (c3 & E3 & S3). rewrite E3. clear E3.
  destruct (p_prepare d d xs) as [[[de cd] xd]|e] eqn:ED; [|eauto].
  assert (Hde : In de Un) by (apply p_prepare_ent in ED; destruct ED; subst; auto).
  destruct (to_units_ex _ c3 de b true xd HF S3 Hde Hb) as (c4 & E4 & S4). rewrite E4. clear E4.
  destruct (p_to_units de b true xd) as [[[ge cv] xg]|e] eqn:EG; [|eauto].
  assert (Hg : In ge Un) by (apply p_to_units_ent in EG; destruct EG; subst; auto).
  use_query HF S4 Hb Hg c5 E S5.
  destruct (compatible (uu b) (uu ge)); cbn [negb]; eauto.
Qed.

Lemma fill_ex : forall Un c f a b x, faithful Un -> sound Un c -> In a Un -> In b Un ->
  exists c', m_fill c f a b x = (p_fill f a b x, c') /\ sound Un c'.
Proof.
  intros Un c f a b x HF HS Ha Hb. unfold m_fill, p_fill.
  destruct (compatible (uu f) (uu a)); [|eauto].
  destruct (link_ex Un c (Some a) a b (convert (uu f) (uu a) x) HF HS) as (c1 & E & S1); auto.
  - intros k' Hk. inversion Hk; subst; auto.
  - rewrite E. eauto.
Qed.

Lemma chain_ex : forall Un c s m d x, faithful Un -> sound Un c -> In s Un -> In m Un -> In d Un ->
  exists c', m_chain c s m d x = (p_chain s m d x, c') /\ sound Un c'.
Proof.
  intros Un c s m d x HF HS Hs Hm Hd. unfold m_chain, p_chain.
  destruct (link_ex Un c None s m x HF HS) as (c1 & E1 & S1); auto; [intros k' Hk; discriminate|].
  rewrite E1. clear E1.
  destruct (p_link None s m x) as [|?|? ? ?|us cs xs u cv y|e]; try (eexists; split; [reflexivity|assumption]).
  destruct (link_ex Un c1 None m d (2 * y) HF S1) as (c2 & E2 & S2); auto; [intros k' Hk; discriminate|].
  rewrite E2. exists c2. split; [|assumption]. destruct (p_link None m d (2 * y)); reflexivity.
Qed.

Lemma relay_ex : forall Un c s m o d bare g x, faithful Un -> sound Un c ->
  In s Un -> In m Un -> In o Un -> In d Un ->
  exists c', m_relay c s m o d bare g x = (p_relay s m o d bare g x, c') /\ sound Un c'.
Proof.
  intros Un c s m o d bare g x HF HS Hs Hm Ho Hd. unfold m_relay, p_relay.
  destruct (link_ex Un c None s m x HF HS) as (c1 & E1 & S1); auto; [intros k' Hk; discriminate|].
  rewrite E1. clear E1.
  destruct (p_link None s m x) as [|?|? ? ?|us cs xs u cv y|e]; try (eexists; split; [reflexivity|assumption]).
  destruct (link_ex Un c1 (if bare then None else Some m) o d (g * y) HF S1) as (c2 & E2 & S2); auto.
  { intros k' Hk. destruct bare; [discriminate|]. inversion Hk; subst; auto. }
  rewrite E2. exists c2. split; [|assumption].
  destruct (p_link (if bare then None else Some m) o d (g * y)); reflexivity.
Qed.

Lemma step_ex : forall Un c o, faithful Un -> sound Un c -> incl (op_ents o) Un ->
  exists c', step c o = (pure_res o, c') /\ sound Un c'.
Proof.
  intros Un c o HF HS HI.
  destruct o as [|a b|a b|a b|a b|a b chk x|a b x|k a b x|k a d b x|f a b x|s m d x|s m o d bare g x]; cbn [step pure_res].
  - exists []. split; [reflexivity|apply sound_nil].
  - assert (Ha : In a Un) by (apply HI; simpl; auto). assert (Hb : In b Un) by (apply HI; simpl; auto).
    use_query HF HS Ha Hb c1 E S1. eauto.
  - assert (Ha : In a Un) by (apply HI; simpl; auto). assert (Hb : In b Un) by (apply HI; simpl; auto).
    use_query HF HS Ha Hb c1 E S1. eauto.
  - eauto.
  - assert (Ha : In a Un) by (apply HI; simpl; auto). assert (Hb : In b Un) by (apply HI; simpl; auto).
    destruct (accepts_ex _ c a b HF HS Ha Hb) as (c1 & E1 & S1). rewrite E1. eauto.
  - assert (Ha : In a Un) by (apply HI; simpl; auto). assert (Hb : In b Un) by (apply HI; simpl; auto).
    destruct (to_units_ex _ c a b chk x HF HS Ha Hb) as (c1 & E1 & S1). rewrite E1. eauto.
  - assert (Ha : In a Un) by (apply HI; simpl; auto). assert (Hb : In b Un) by (apply HI; simpl; auto).
    destruct (prepare_ex _ c a b x HF HS Ha Hb) as (c1 & E1 & S1). rewrite E1. eauto.
  - apply link_ex; auto.
    + intros k' ->. apply HI. simpl. auto.
    + apply HI. destruct k; simpl; auto.
    + apply HI. destruct k; simpl; auto.
  - apply alink_ex; auto.
    + intros k' ->. apply HI. simpl. auto.
    + apply HI. destruct k; simpl; auto.
    + apply HI. destruct k; simpl; auto.
    + apply HI. destruct k; simpl; auto 6.
  - apply fill_ex; auto; apply HI; simpl; auto.
  - apply chain_ex; auto; apply HI; simpl; auto.
  - apply relay_ex; auto; apply HI; simpl; auto.
Qed.

(** Main refinement: from any sound memo (in particular the empty one), for every session of
    queries / conversions / clears over a universe of units whose identity is faithful, every
    answer is the pure dimensional-analysis answer. *)
Theorem memo_pure : forall (Un : list uent) (ops : list op) (c : cache),
  faithful Un -> sound Un c -> incl (ops_ents ops) Un ->
  run c ops = map pure_res ops.
Proof.
  intros Un ops. induction ops as [|o t IH]; intros c HF HS HI; [reflexivity|].
  unfold ops_ents in HI. simpl in HI. apply incl_app_inv in HI. destruct HI as [HIo HIt].
  destruct (step_ex Un c o HF HS HIo) as (c1 & E1 & S1).
  simpl. rewrite E1. f_equal. now apply IH.
Qed.

(** reading the same thing n times (e.g. a static input pulled n times) gives n copies of the
    pure answer *)
Lemma repeated_reads : forall Un o n c, faithful Un -> sound Un c -> incl (op_ents o) Un ->
  run c (repeat o n) = repeat (pure_res o) n.
Proof.
  intros Un o n c HF HS HI. rewrite (memo_pure Un); auto.
  - induction n as [|n IH]; simpl; [reflexivity|now rewrite IH].
  - unfold ops_ents. induction n as [|n IH]; simpl; [intros e []|]. apply incl_app; assumption.
Qed.

Lemma final_sound : forall Un ops c, faithful Un -> sound Un c -> incl (ops_ents ops) Un ->
  sound Un (final c ops).
Proof.
  intros Un ops. induction ops as [|o t IH]; intros c HF HS HI; [assumption|].
  unfold ops_ents in HI. simpl in HI. apply incl_app_inv in HI. destruct HI as [HIo HIt].
  destruct (step_ex Un c o HF HS HIo) as (c1 & E1 & S1).
  simpl. rewrite E1. simpl. now apply IH.
Qed.

(** History independence in the literal form: whatever was asked before (two arbitrary
    histories, with clears anywhere), the same session gets the same answers. *)
Theorem history_independent : forall (Un : list uent) (h1 h2 ops : list op),
  faithful Un -> incl (ops_ents h1) Un -> incl (ops_ents h2) Un -> incl (ops_ents ops) Un ->
  run (final [] h1) ops = run (final [] h2) ops.
Proof.
  intros Un h1 h2 ops HF H1 H2 HO.
  rewrite (memo_pure Un ops (final [] h1)), (memo_pure Un ops (final [] h2)); auto;
    apply final_sound; auto; apply sound_nil.
Qed.

(** * The catalogue *)

Lemma unit_eqb_eq : forall u v, unit_eqb u v = true -> u = v.
Proof.
  intros [d1 [n1 p1] [m1 q1]] [d2 [n2 p2] [m2 q2]]. unfold unit_eqb. simpl.
  rewrite !andb_true_iff. intros [[[[H1 H2] H3] H4] H5].
  apply list_eqb_Z_eq in H1. apply Z.eqb_eq in H2, H4. apply Pos.eqb_eq in H3, H5. now subst.
Qed.

Lemma faithfulb_faithful : forall l, faithfulb l = true -> faithful l.
Proof.
  intros l H a b Ha Hb E. unfold faithfulb in H. rewrite forallb_forall in H.
  specialize (H a Ha). rewrite forallb_forall in H. specialize (H b Hb).
  rewrite E, Nat.eqb_refl in H. simpl in H. now apply unit_eqb_eq.
Qed.

Lemma catalogue_faithful : faithful catalogue.
Proof. apply faithfulb_faithful. vm_compute. reflexivity. Qed.

Lemma wfb_wf : forall u, wfb u = true -> wf u.
Proof.
  intros u H. unfold wfb in H. apply andb_true_iff in H. destruct H as [H1 H2].
  apply Qle_bool_iff in H1. apply negb_true_iff in H2. unfold wf.
  apply Qle_lt_or_eq in H1. destruct H1 as [H1|H1]; [assumption|].
  exfalso. assert (Qeq_bool (factor u) 0 = true) by (apply Qeq_bool_iff; now symmetry). congruence.
Qed.

Lemma catalogue_wf : forall e, In e catalogue -> wf (uu e).
Proof.
  assert (H : forallb (fun e => wfb (uu e)) catalogue = true) by (vm_compute; reflexivity).
  rewrite forallb_forall in H. intros e He. apply wfb_wf. now apply H.
Qed.

Definition offsets_ok (l : list uent) : Prop :=
  forall a b, In a l -> In b l -> equivalent (uu a) (uu b) = true -> offset (uu a) == offset (uu b).

Lemma equiv_offsetsb_ok : forall l, equiv_offsetsb l = true -> offsets_ok l.
Proof.
  intros l H a b Ha Hb E. unfold equiv_offsetsb in H. rewrite forallb_forall in H.
  specialize (H a Ha). rewrite forallb_forall in H. specialize (H b Hb).
  rewrite E in H. simpl in H. now apply Qeq_bool_iff.
Qed.

Lemma catalogue_offsets_ok : offsets_ok catalogue.
Proof. apply equiv_offsetsb_ok. vm_compute. reflexivity. Qed.

(** On the catalogue the full relabelling statement holds. *)
Theorem relabel_catalogue : forall a b, In a catalogue -> In b catalogue ->
  equivalent (uu a) (uu b) = true -> forall x, convert (uu a) (uu b) x == x.
Proof.
  intros a b Ha Hb E x. apply equivalent_relabel; auto.
  - now apply catalogue_wf.
  - now apply catalogue_offsets_ok.
Qed.

Lemma catalogue_session : forall ops, incl (ops_ents ops) catalogue -> run [] ops = map pure_res ops.
Proof.
  intros ops H. apply (memo_pure catalogue); auto using catalogue_faithful, sound_nil.
Qed.

(** * Relabelling in the modelled branches: the number is passed on untouched *)

Lemma relabel_prepare : forall a b x,
  equivalent (uu a) (uu b) = true -> p_prepare a b x = inl (a, false, x).
Proof.
  intros a b x E. unfold p_prepare. rewrite (equivalent_compatible _ _ E), E. reflexivity.
Qed.

(** [to_units(Quantity(x, a), b, check_equivalent=True)] with [b] equivalent to [a]:
    the same number, labelled with (a unit identical to) [b], no conversion reported *)
Lemma relabel_to_units : forall a b x,
  equivalent (uu b) (uu a) = true ->
  exists e, p_to_units a b true x = inl (e, false, x) /\ cid e = cid b.
Proof.
  intros a b x E. unfold p_to_units. destruct (Nat.eqb (cid b) (cid a)) eqn:EC.
  - exists a. split; [reflexivity|]. apply Nat.eqb_eq in EC. congruence.
  - rewrite E. cbn [andb]. exists b. split; reflexivity.
Qed.

(** * Refusal *)

Lemma incompatible_cid : forall Un a b, faithful Un -> In a Un -> In b Un ->
  compatible (uu a) (uu b) = false -> Nat.eqb (cid b) (cid a) = false.
Proof.
  intros Un a b HF Ha Hb H. destruct (Nat.eqb (cid b) (cid a)) eqn:E; [|reflexivity].
  apply Nat.eqb_eq in E. rewrite (HF b a Hb Ha E), compatible_refl in H. discriminate.
Qed.

Lemma refuse_pure : forall Un a b, faithful Un -> In a Un -> In b Un ->
  compatible (uu a) (uu b) = false ->
  (forall x, pure_res (Prepare a b x) = RErr ErrData)
  /\ (forall chk x, pure_res (ToUnits a b chk x) = RErr ErrDim)
  /\ pure_res (Accepts a b) = RBool false
  /\ (forall k x, pure_res (Link k a b x) = RErr ErrMeta)
  /\ (forall c x, compatible (uu b) (uu c) = true -> pure_res (Link (Some a) b c x) = RErr ErrData).
Proof.
  intros Un a b HF Ha Hb H. repeat split.
  - intros x. cbn. unfold p_prepare. rewrite H. reflexivity.
  - intros chk x. cbn. unfold p_to_units. rewrite (incompatible_cid Un a b HF Ha Hb H).
    assert (E : equivalent (uu b) (uu a) = false).
    { destruct (equivalent (uu b) (uu a)) eqn:E; [|reflexivity].
      apply equivalent_compatible in E. rewrite compatible_sym in E. congruence. }
    rewrite E, andb_false_r. unfold pint_to. rewrite H. reflexivity.
  - cbn. now rewrite H.
  - intros k x. cbn. unfold p_link. rewrite H. reflexivity.
  - intros c x Hc. cbn. unfold p_link. rewrite Hc. rewrite (compatible_sym (uu c)), Hc. cbn [negb].
    unfold p_prepare. rewrite H. reflexivity.
Qed.

(** never refused when compatible; the link delivers the consumer's unit *)
Lemma accept_pure : forall a b, compatible (uu a) (uu b) = true ->
  (forall x, exists e cv y, p_prepare a b x = inl (e, cv, y))
  /\ (forall chk x, exists e cv y, p_to_units a b chk x = inl (e, cv, y))
  /\ pure_res (Accepts a b) = RBool true.
Proof.
  intros a b H. repeat split.
  - intros x. unfold p_prepare, pint_to. rewrite H. cbn [negb].
    destruct (equivalent (uu a) (uu b)); cbn [negb]; eauto.
  - intros chk x. unfold p_to_units, pint_to. rewrite H.
    destruct (Nat.eqb (cid b) (cid a)); [eauto|].
    destruct (chk && equivalent (uu b) (uu a)); eauto.
  - cbn. now rewrite H.
Qed.

Lemma step_fst : forall Un c o, faithful Un -> sound Un c -> incl (op_ents o) Un ->
  fst (step c o) = pure_res o.
Proof.
  intros Un c o HF HS HI. destruct (step_ex Un c o HF HS HI) as (c1 & E & _). now rewrite E.
Qed.

Theorem refuse :
  forall (Un : list uent) (c : cache) (a b : uent),
    faithful Un -> sound Un c -> In a Un -> In b Un ->
    (compatible (uu a) (uu b) = false ->
       (forall x, fst (step c (Prepare a b x)) = RErr ErrData)
       /\ (forall chk x, fst (step c (ToUnits a b chk x)) = RErr ErrDim)
       /\ fst (step c (Accepts a b)) = RBool false
       /\ (forall k x, (forall k', k = Some k' -> In k' Un) ->
             fst (step c (Link k a b x)) = RErr ErrMeta)
       /\ (forall d x, In d Un -> compatible (uu b) (uu d) = true ->
             fst (step c (Link (Some a) b d x)) = RErr ErrData))
    /\ (compatible (uu a) (uu b) = true ->
       (forall x, exists u cv y, fst (step c (Prepare a b x)) = RVal u cv y)
       /\ (forall chk x, exists u cv y, fst (step c (ToUnits a b chk x)) = RVal u cv y)
       /\ fst (step c (Accepts a b)) = RBool true).
Proof.
  intros Un c a b HF HS Ha Hb.
  assert (I2 : forall u v, In u Un -> In v Un -> incl [u; v] Un).
  { intros u v Hu Hv e [<-|[<-|[]]]; assumption. }
  split; intros H.
  - destruct (refuse_pure Un a b HF Ha Hb H) as (P1 & P2 & P3 & P4 & P5).
    repeat split.
    + intros x. rewrite (step_fst Un); auto. apply I2; auto.
    + intros chk x. rewrite (step_fst Un); auto. apply I2; auto.
    + rewrite (step_fst Un); auto. apply I2; auto.
    + intros k x Hk. rewrite (step_fst Un); auto.
      destruct k as [k0|]; simpl; [|apply I2; auto].
      intros e [<-|He]; [apply Hk; reflexivity|apply (I2 a b); auto].
    + intros d x Hd Hbd. rewrite (step_fst Un); auto.
      simpl. intros e [<-|He]; [assumption|apply (I2 b d); auto].
  - destruct (accept_pure a b H) as (P1 & P2 & P3).
    repeat split.
    + intros x. rewrite (step_fst Un); auto; [|apply I2; auto]. cbn [pure_res].
      destruct (P1 x) as (e & cv & y & E). rewrite E. simpl. eauto.
    + intros chk x. rewrite (step_fst Un); auto; [|apply I2; auto]. cbn [pure_res].
      destruct (P2 chk x) as (e & cv & y & E). rewrite E. simpl. eauto.
    + rewrite (step_fst Un); auto. apply I2; auto.
Qed.

(** * End to end: what arrives over a link *)

Lemma p_prepare_value : forall Un a b x e cv y,
  (forall u, In u Un -> wf (uu u)) -> offsets_ok Un -> In a Un -> In b Un ->
  p_prepare a b x = inl (e, cv, y) ->
  (e = a \/ e = b) /\ compatible (uu a) (uu b) = true /\ convert (uu e) (uu b) y == convert (uu a) (uu b) x.
Proof.
  intros Un a b x e cv y HW HO Ha Hb. unfold p_prepare, pint_to.
  destruct (compatible (uu a) (uu b)) eqn:EC; cbn [negb]; [|discriminate].
  destruct (equivalent (uu a) (uu b)) eqn:EE; cbn [negb]; intros H; inversion H; subst.
  - repeat split; auto; try reflexivity.
  - repeat split; auto. apply convert_id. auto.
Qed.

Lemma p_to_units_value : forall Un a b x e cv y,
  faithful Un -> (forall u, In u Un -> wf (uu u)) -> offsets_ok Un -> In a Un -> In b Un ->
  p_to_units a b true x = inl (e, cv, y) ->
  cid e = cid b /\ uu e = uu b /\ y == convert (uu a) (uu b) x.
Proof.
  intros Un a b x e cv y HF HW HO Ha Hb. unfold p_to_units, pint_to.
  destruct (Nat.eqb (cid b) (cid a)) eqn:EC.
  - intros H; inversion H; subst. apply Nat.eqb_eq in EC.
    pose proof (HF _ _ Hb Ha EC) as EU. repeat split; auto.
    rewrite <- EU. symmetry. apply convert_id. auto.
  - cbn [andb]. destruct (equivalent (uu b) (uu a)) eqn:EE.
    + intros H; inversion H; subst. repeat split; auto.
      symmetry. apply equivalent_relabel; auto.
      * rewrite equivalent_sym; auto.
      * symmetry. apply HO; auto.
    + destruct (compatible (uu a) (uu b)); intros H; inversion H; subst. repeat split; auto; try reflexivity.
Qed.

Theorem link_exact : forall Un k a b x,
  faithful Un -> (forall u, In u Un -> wf (uu u)) -> offsets_ok Un ->
  In k Un -> In a Un -> In b Un ->
  compatible (uu k) (uu a) = true -> compatible (uu a) (uu b) = true ->
  (exists us cs xs cv y,
      p_link (Some k) a b x = RLink us cs xs (cid b) cv y /\ y == convert (uu k) (uu b) x)
  /\ (exists cv y,
      p_link None a b x = RLink (cid a) false x (cid b) cv y /\ y == convert (uu a) (uu b) x).
Proof.
  intros Un k a b x HF HW HO Hk Ha Hb Hka Hab.
  assert (Hba : compatible (uu b) (uu a) = true) by (rewrite compatible_sym; assumption).
  split.
  - unfold p_link. rewrite Hab, Hba. cbn [negb].
    destruct (proj1 (accept_pure k a Hka) x) as (se & cs & xs & EP). rewrite EP.
    destruct (p_prepare_value Un k a x se cs xs HW HO Hk Ha EP) as (Hse & _ & EV).
    assert (Hs : In se Un) by (destruct Hse; subst; auto).
    assert (Hsb : compatible (uu se) (uu b) = true).
    { destruct Hse; subst; auto. eapply compatible_trans; eauto. }
    destruct (proj1 (proj2 (accept_pure se b Hsb)) true xs) as (ge & cv & xg & EG). rewrite EG.
    destruct (p_to_units_value Un se b xs ge cv xg HF HW HO Hs Hb EG) as (E1 & E2 & E3).
    rewrite E2, compatible_refl. cbn [negb]. rewrite E1.
    do 5 eexists. split; [reflexivity|].
    rewrite E3. rewrite <- (convert_compose (uu se) (uu a) (uu b)) by auto.
    rewrite (convert_proper _ _ _ _ EV). apply convert_compose; auto.
  - unfold p_link. rewrite Hab, Hba. cbn [negb].
    destruct (proj1 (proj2 (accept_pure a b Hab)) true x) as (ge & cv & xg & EG). rewrite EG.
    destruct (p_to_units_value Un a b x ge cv xg HF HW HO Ha Hb EG) as (E1 & E2 & E3).
    rewrite E2, compatible_refl. cbn [negb]. rewrite E1.
    do 2 eexists. split; [reflexivity|]. exact E3.
Qed.

(** * A link through a unit-changing adapter: the consumer's units are judged against the units the
      adapter DELIVERS *)

Lemma alink_refuse_pure : forall k a d b x,
  compatible (uu d) (uu b) = false -> p_alink k a d b x = RErr ErrMeta.
Proof.
  intros k a d b x H. unfold p_alink. rewrite compatible_sym, H. reflexivity.
Qed.

Theorem alink_refuse : forall Un c k a d b x, faithful Un -> sound Un c ->
  (forall k', k = Some k' -> In k' Un) -> In a Un -> In d Un -> In b Un ->
  compatible (uu d) (uu b) = false ->
  fst (step c (ALink k a d b x)) = RErr ErrMeta.
Proof.
  intros Un c k a d b x HF HS Hk Ha Hd Hb H. cbn [step].
  destruct (alink_ex Un c k a d b x HF HS Hk Ha Hd Hb) as (c1 & E & _). rewrite E. simpl.
  now apply alink_refuse_pure.
Qed.

Theorem alink_exact : forall Un k a d b x,
  faithful Un -> (forall u, In u Un -> wf (uu u)) -> offsets_ok Un ->
  In k Un -> In a Un -> In d Un -> In b Un ->
  compatible (uu k) (uu a) = true -> compatible (uu d) (uu b) = true ->
  exists us cs xs cv y,
    p_alink (Some k) a d b x = RLink us cs xs (cid b) cv y
    /\ y == convert (uu d) (uu b) xs
    /\ (exists se, In se Un /\ cid se = us /\ convert (uu se) (uu a) xs == convert (uu k) (uu a) x).
Proof.
  intros Un k a d b x HF HW HO Hk Ha Hd Hb Hka Hdb.
  unfold p_alink. rewrite (compatible_sym (uu b)), Hdb. cbn [negb].
  destruct (proj1 (accept_pure k a Hka) x) as (se & cs & xs & EP). rewrite EP.
  destruct (p_prepare_value Un k a x se cs xs HW HO Hk Ha EP) as (Hse & _ & EV).
  assert (Hs : In se Un) by (destruct Hse; subst; auto).
  destruct (proj1 (accept_pure d d (compatible_refl (uu d))) xs) as (de & cd & xd & ED). rewrite ED.
  destruct (p_prepare_value Un d d xs de cd xd HW HO Hd Hd ED) as (Hde & _ & EVd).
  assert (Ede : de = d) by (destruct Hde; assumption). subst de.
  assert (Exd : xd == xs).
  { rewrite <- (convert_id (uu d) xd) by auto. rewrite EVd. apply convert_id. auto. }
  destruct (proj1 (proj2 (accept_pure d b Hdb)) true xd) as (ge & cv & xg & EG). rewrite EG.
  destruct (p_to_units_value Un d b xd ge cv xg HF HW HO Hd Hb EG) as (E1 & E2 & E3).
  rewrite E2, compatible_refl. cbn [negb]. rewrite E1.
  do 5 eexists. split; [reflexivity|]. split.
  - rewrite E3. apply convert_proper. exact Exd.
  - exists se. repeat split; auto.
Qed.

(** * full_like with a fill value in foreign units, and a component computing in its input's own units *)

Theorem fill_exact : forall Un f a b x,
  faithful Un -> (forall u, In u Un -> wf (uu u)) -> offsets_ok Un ->
  In a Un -> In b Un ->
  (compatible (uu f) (uu a) = false -> p_fill f a b x = RErr ErrDim)
  /\ (compatible (uu f) (uu a) = true -> compatible (uu a) (uu b) = true ->
      exists us xs y, p_fill f a b x = RLink us true xs (cid b) true y
                      /\ y == convert (uu f) (uu b) x).
Proof.
  intros Un f a b x HF HW HO Ha Hb. split; intros Hfa.
  - unfold p_fill. now rewrite Hfa.
  - intros Hab. unfold p_fill. rewrite Hfa.
    destruct (link_exact Un a a b (convert (uu f) (uu a) x) HF HW HO Ha Ha Hb (compatible_refl _) Hab)
      as ((us & cs & xs & cv & y & E & EY) & _).
    rewrite E. simpl. do 3 eexists. split; [reflexivity|].
    rewrite EY. apply convert_compose; auto.
Qed.

Theorem chain_exact : forall Un s m d x,
  faithful Un -> (forall u, In u Un -> wf (uu u)) -> offsets_ok Un ->
  In s Un -> In m Un -> In d Un ->
  (compatible (uu s) (uu m) = false \/ compatible (uu m) (uu d) = false ->
     p_chain s m d x = RErr ErrMeta)
  /\ (compatible (uu s) (uu m) = true -> compatible (uu m) (uu d) = true ->
      exists cs xs cv z, p_chain s m d x = RLink (cid m) cs xs (cid d) cv z
        /\ xs == 2 * convert (uu s) (uu m) x
        /\ z == convert (uu m) (uu d) (2 * convert (uu s) (uu m) x)).
Proof.
  intros Un s m d x HF HW HO Hs Hm Hd. split.
  - intros H. unfold p_chain.
    destruct (compatible (uu s) (uu m)) eqn:Esm.
    + destruct H as [H|H]; [discriminate|].
      destruct (link_exact Un s s m x HF HW HO Hs Hs Hm (compatible_refl _) Esm)
        as (_ & (cv & y & E & _)). rewrite E.
      unfold p_link. rewrite H. reflexivity.
    + unfold p_link. rewrite Esm. reflexivity.
  - intros Hsm Hmd. unfold p_chain.
    destruct (link_exact Un s s m x HF HW HO Hs Hs Hm (compatible_refl _) Hsm)
      as (_ & (cv & y & E & EY)). rewrite E.
    destruct (link_exact Un m m d (2 * y) HF HW HO Hm Hm Hd (compatible_refl _) Hmd)
      as (_ & (cv2 & z & E2 & EZ)). rewrite E2.
    do 4 eexists. split; [reflexivity|]. split.
    + now rewrite EY.
    + rewrite EZ. apply convert_proper. now rewrite EY.
Qed.

(** * A relaying component with its own units on both sides *)

Theorem relay_exact : forall Un s m o d bare g x,
  faithful Un -> (forall u, In u Un -> wf (uu u)) -> offsets_ok Un ->
  In s Un -> In m Un -> In o Un -> In d Un ->
  compatible (uu s) (uu m) = true -> compatible (uu o) (uu d) = true ->
  (bare = false -> compatible (uu m) (uu o) = true) ->
  exists us cs xs cv z, p_relay s m o d bare g x = RLink us cs xs (cid d) cv z
    /\ z == convert (uu (if bare then o else m)) (uu d) (g * convert (uu s) (uu m) x).
Proof.
  intros Un s m o d bare g x HF HW HO Hs Hm Ho Hd Hsm Hod Hmo. unfold p_relay.
  destruct (link_exact Un s s m x HF HW HO Hs Hs Hm (compatible_refl _) Hsm)
    as (_ & (cv & y & E & EY)). rewrite E.
  destruct bare.
  - destruct (link_exact Un o o d (g * y) HF HW HO Ho Ho Hd (compatible_refl _) Hod)
      as (_ & (cv2 & z & E2 & EZ)). rewrite E2.
    do 5 eexists. split; [reflexivity|]. rewrite EZ. apply convert_proper. now rewrite EY.
  - destruct (link_exact Un m o d (g * y) HF HW HO Hm Ho Hd (Hmo eq_refl) Hod)
      as ((us & cs & xs & cv2 & z & E2 & EZ) & _). rewrite E2.
    do 5 eexists. split; [reflexivity|]. rewrite EZ. apply convert_proper. now rewrite EY.
Qed.

Theorem relay_refuse : forall Un s m o d bare g x,
  faithful Un -> (forall u, In u Un -> wf (uu u)) -> offsets_ok Un ->
  In s Un -> In m Un -> In o Un -> In d Un ->
  (compatible (uu s) (uu m) = false \/ compatible (uu o) (uu d) = false ->
     p_relay s m o d bare g x = RErr ErrMeta)
  /\ (compatible (uu s) (uu m) = true -> compatible (uu o) (uu d) = true ->
      bare = false -> compatible (uu m) (uu o) = false ->
      p_relay s m o d bare g x = RErr ErrData).
Proof.
  intros Un s m o d bare g x HF HW HO Hs Hm Ho Hd. split.
  - intros H. unfold p_relay. destruct (compatible (uu s) (uu m)) eqn:Esm.
    + destruct H as [H|H]; [discriminate|].
      destruct (link_exact Un s s m x HF HW HO Hs Hs Hm (compatible_refl _) Esm)
        as (_ & (cv & y & E & _)). rewrite E.
      unfold p_link. rewrite H. reflexivity.
    + unfold p_link. rewrite Esm. reflexivity.
  - intros Hsm Hod Hb Hmo. subst bare. unfold p_relay.
    destruct (link_exact Un s s m x HF HW HO Hs Hs Hm (compatible_refl _) Hsm)
      as (_ & (cv & y & E & _)). rewrite E.
    unfold p_link. rewrite Hod, (compatible_sym (uu d)), Hod. cbn [negb].
    unfold p_prepare. rewrite Hmo. reflexivity.
Qed.
