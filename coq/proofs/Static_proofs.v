(** Proofs for C20: static output / static input / provider time through adapter chains /
    WeightedSum with its memo (refinement to the memo-free function). *)
From Coq Require Import List ZArith QArith Qabs Qminmax Bool Lia Permutation.
From FV Require Import Base Static.
Import ListNotations.
Open Scope Z_scope.

(* ------------------------------------------------------------------------- *)
(** * 1. static output *)

Section SOP.
  Context {A : Type}.

  (** what a static output that holds [d] (after the info exchange) answers to an op *)
  Definition so_obs_held (d : A) (o : sop A) (x : sobs A) : Prop :=
    match o with
    | SExch => x = XNone
    | SPush _ => x = XPush (Err EStatic)       (* further publications are refused *)
    | SGet _ => x = XGet (Ok d)                (* any request time, also None: the held value *)
    end.

  Definition so_holds (s : sout A) (d : A) : Prop := s = mkSO true (Some d).

  Lemma so_step_held (s : sout A) (d : A) (o : sop A) :
    so_holds s d -> so_holds (fst (so_step s o)) d /\ so_obs_held d o (snd (so_step s o)).
  Proof.
    intros ->. destruct o as [|d'|t]; simpl; unfold so_holds; auto.
  Qed.

  Lemma so_run_held (d : A) (ops : list (sop A)) :
    forall s, so_holds s d -> Forall2 (so_obs_held d) ops (so_run s ops).
  Proof.
    induction ops as [|o r IH]; intros s Hs; simpl; [constructor|].
    destruct (so_step_held s d o Hs) as [H1 H2].
    destruct (so_step s o) as [s' x] eqn:E. simpl in *.
    constructor; [exact H2|]. apply IH. exact H1.
  Qed.

  Lemma so_final_held (d : A) (ops : list (sop A)) :
    forall s, so_holds s d -> so_holds (so_final s ops) d.
  Proof.
    induction ops as [|o r IH]; intros s Hs; simpl; [exact Hs|].
    apply IH. apply (so_step_held s d o Hs).
  Qed.

  (** an accepted publication leaves the output holding exactly that value *)
  Lemma so_push_accepted (s : sout A) (d : A) :
    snd (so_push s d) = Ok tt -> so_holds (fst (so_push s d)) d /\ so_exch s = true /\ so_data s = None.
  Proof.
    unfold so_push, so_holds. destruct s as [e [x|]]; destruct e; simpl; intros H; try discriminate; auto.
  Qed.

  Lemma so_push_empty (s : sout A) (d : A) :
    so_exch s = true -> so_data s = None -> so_push s d = (mkSO true (Some d), Ok tt).
  Proof. destruct s as [e x]; simpl; intros -> ->. reflexivity. Qed.

  Definition accepted (x : sobs A) : bool :=
    match x with XPush (Ok _) => true | _ => false end.

  Lemma so_held_none_accepted (d : A) ops :
    forall s, so_holds s d -> length (filter accepted (so_run s ops)) = 0%nat.
  Proof.
    intros s Hs. pose proof (so_run_held d ops s Hs) as F.
    induction F as [|o x ops' xs H _ IH]; simpl; [reflexivity|].
    destruct o; simpl in H; subst x; simpl; exact IH.
  Qed.

  Lemma so_accept_at_most_once (ops : list (sop A)) :
    forall s, (length (filter accepted (so_run s ops)) <= 1)%nat.
  Proof.
    induction ops as [|o r IH]; intros s; simpl; [lia|].
    destruct o as [|d|t]; simpl.
    - apply IH.
    - destruct (so_push s d) as [s' x] eqn:E. simpl.
      destruct x as [[]|e]; simpl.
      + pose proof (so_push_accepted s d) as H. rewrite E in H. simpl in H.
        destruct (H eq_refl) as [Hh _].
        rewrite (so_held_none_accepted d r s' Hh). lia.
      + apply IH.
    - apply IH.
  Qed.

  Theorem static_output_main :
    forall (pre post : list (sop A)) (d : A),
      let s := so_final so_init pre in
      (* (a) an output that had its info exchanged and holds nothing accepts the publication *)
      (so_exch s = true -> so_data s = None -> snd (so_step s (SPush d)) = XPush (Ok tt))
      (* (b) once accepted: every later request - any time or none - returns it unchanged and
             every further publication is refused with FinamStaticDataError *)
      /\ (snd (so_step s (SPush d)) = XPush (Ok tt) ->
          Forall2 (so_obs_held d) post (so_run (fst (so_step s (SPush d))) post))
      (* (c) over the whole history at most one publication is accepted *)
      /\ (length (filter accepted (so_run so_init (pre ++ SPush d :: post))) <= 1)%nat.
  Proof.
    intros pre post d s. split; [|split].
    - intros He Hd. simpl. rewrite (so_push_empty s d He Hd). reflexivity.
    - simpl. destruct (so_push s d) as [s' x] eqn:E. simpl. intros H. inversion H as [Hx].
      pose proof (so_push_accepted s d) as Hp. rewrite E in Hp. simpl in Hp.
      destruct (Hp Hx) as [Hh _]. apply so_run_held. exact Hh.
    - apply so_accept_at_most_once.
  Qed.
End SOP.

(** where the single entry lives (RAM or spill file) is invisible: for every memory limit and
    payload size the results are those of the plain static output *)
Lemma som_step_erase {A : Type} k limit size (s : soutm A) n (o : sop A) :
  som_erase (fst (fst (som_step k limit size (s, n) o))) = fst (so_step (som_erase s) o)
  /\ fst (snd (som_step k limit size (s, n) o)) = snd (so_step (som_erase s) o).
Proof.
  destruct s as [e [[d b]|]]; destruct o as [|d'|t]; destruct e; simpl; auto.
Qed.

Theorem som_run_erase {A : Type} k limit size (ops : list (sop A)) :
  forall s n, map fst (som_run k limit size (s, n) ops) = so_run (som_erase s) ops.
Proof.
  induction ops as [|o r IH]; intros s n; [reflexivity|].
  cbn [som_run so_run].
  destruct (som_step_erase k limit size s n o) as [H1 H2].
  destruct (som_step k limit size (s, n) o) as [[s' n'] x].
  destruct (so_step (som_erase s) o) as [u y].
  cbn [fst snd map] in *. rewrite IH. subst u y. reflexivity.
Qed.

(* ------------------------------------------------------------------------- *)
(** * 2. static input *)

Section SIP.
  Context {A St : Type}.
  Context (src_get : St -> option Z -> St * res A).
  Context (conv : A -> A).

  (** the same source with a counter of the calls that reach it *)
  Definition counted (s : St * nat) (t : option Z) : (St * nat) * res A :=
    let '(s', r) := src_get (fst s) t in ((s', S (snd s)), r).

  Lemma si_run_cached (d : A) (ts : list (option Z)) :
    forall (s : St), si_run src_get conv (Some d) s ts = (map (fun _ => Ok d) ts, s).
  Proof.
    induction ts as [|t r IH]; intros s; simpl; [reflexivity|]. rewrite IH. reflexivity.
  Qed.

  (** number of results up to and including the first success *)
  Fixpoint until_ok (rs : list (res A)) : nat :=
    match rs with
    | [] => O
    | Ok _ :: _ => 1%nat
    | Err _ :: r => S (until_ok r)
    end.

  (** failures, then (possibly) one value repeated for ever *)
  Fixpoint errs_then_const (rs : list (res A)) : Prop :=
    match rs with
    | [] => True
    | Err _ :: r => errs_then_const r
    | Ok d :: r => Forall (fun x => x = Ok d) r
    end.

  Lemma Forall_map_const {X Y : Type} (y : Y) (l : list X) : Forall (fun x => x = y) (map (fun _ => y) l).
  Proof. induction l; simpl; constructor; auto. Qed.

  Lemma si_run_shape (ts : list (option Z)) :
    forall (s : St), errs_then_const (fst (si_run src_get conv None s ts)).
  Proof.
    induction ts as [|t r IH]; intros s; simpl; [exact I|].
    destruct (src_get s t) as [s' [d|e]] eqn:E.
    - rewrite si_run_cached. simpl. apply Forall_map_const.
    - specialize (IH s'). destruct (si_run src_get conv None s' r) as [xs s'']. simpl in *. exact IH.
  Qed.

  Lemma si_run_cached_counted (d : A) (ts : list (option Z)) (s : St * nat) :
    si_run counted conv (Some d) s ts = (map (fun _ => Ok d) ts, s).
  Proof.
    revert s. induction ts as [|t r IH]; intros s; simpl; [reflexivity|]. rewrite IH. reflexivity.
  Qed.

  Lemma counted_eq (s : St * nat) (t : option Z) :
    counted s t = ((fst (src_get (fst s) t), S (snd s)), snd (src_get (fst s) t)).
  Proof. unfold counted. destruct (src_get (fst s) t); reflexivity. Qed.

  Lemma si_run_fetches (ts : list (option Z)) :
    forall (s : St) (n : nat),
      snd (snd (si_run counted conv None (s, n) ts))
      = (n + until_ok (fst (si_run counted conv None (s, n) ts)))%nat.
  Proof.
    induction ts as [|t r IH]; intros s n; simpl; [lia|].
    rewrite (counted_eq (s, n) t). simpl. destruct (src_get s t) as [s' [d|e]] eqn:E; simpl.
    - rewrite si_run_cached_counted. simpl. lia.
    - specialize (IH s' (S n)).
      destruct (si_run counted conv None (s', S n) r) as [xs [s'' k]]. simpl in *. lia.
  Qed.

  Lemma until_ok_errs_then_const_successes (rs : list (res A)) :
    (until_ok rs <= length rs)%nat.
  Proof. induction rs as [|[d|e] r IH]; simpl; lia. Qed.

  Theorem static_input_main :
    (* (a) a cached value is served for every later request (any time or none) and the source is
           not contacted any more *)
    (forall d ts (s : St * nat), si_run counted conv (Some d) s ts = (map (fun _ => Ok d) ts, s))
    (* (b) from the empty cache: the results are failures followed by one value for ever ... *)
    /\ (forall ts (s : St * nat), errs_then_const (fst (si_run counted conv None s ts)))
    (* (c) ... and the number of fetches equals the number of requests up to and including the
           first successful one: a successful fetch happens at most once *)
    /\ (forall ts s n, snd (snd (si_run counted conv None (s, n) ts))
                       = (n + until_ok (fst (si_run counted conv None (s, n) ts)))%nat).
  Proof.
    split; [|split].
    - intros. apply si_run_cached_counted.
    - intros ts s. revert s.
      induction ts as [|t r IH]; intros s; simpl; [exact I|].
      rewrite (counted_eq s t). destruct (src_get (fst s) t) as [s' [d|e]] eqn:E; simpl.
      + rewrite si_run_cached_counted. simpl. apply Forall_map_const.
      + specialize (IH (s', S (snd s))).
        destruct (si_run counted conv None (s', S (snd s)) r) as [xs s'']. simpl in *. exact IH.
    - apply si_run_fetches.
  Qed.
End SIP.

(* ------------------------------------------------------------------------- *)
(** * 3. adapter chains: the time that reaches the provider *)

Section ChainP.
  Context {St : Type}.
  Context (src : St -> Z -> St * res Q).
  Context (note : nat -> Z -> St -> St).

  Fixpoint chain_notes (c : list (nat * adapter)) (s : St) (t : Z) : St :=
    match c with
    | [] => s
    | (id, a) :: r => chain_notes r (note id t s) (with_delay a t)
    end.

  Lemma map_res_compose {X Y W : Type} (f : X -> Y) (g : Y -> W) (r : res X) :
    map_res g (map_res f r) = map_res (fun x => g (f x)) r.
  Proof. destruct r; reflexivity. Qed.

  Lemma map_res_ext {X Y : Type} (f g : X -> Y) (r : res X) :
    (forall x, f x = g x) -> map_res f r = map_res g r.
  Proof. intros H. destruct r; simpl; [rewrite H|]; reflexivity. Qed.

  (** the provider is called once, with [chain_time c t]; its data come back scaled *)
  Lemma pull_chain_spec (c : list (nat * adapter)) :
    forall s t,
      pull_chain src note c s t =
      (fst (src (chain_notes c s t) (chain_time c t)),
       map_res (chain_scale c) (snd (src (chain_notes c s t) (chain_time c t)))).
  Proof.
    induction c as [|[id a] r IH]; intros s t; simpl.
    - destruct (src s t) as [s' x]. simpl. destruct x; reflexivity.
    - rewrite IH. simpl. f_equal. rewrite map_res_compose. reflexivity.
  Qed.
End ChainP.

Fixpoint sum_delay (c : list (nat * adapter)) : Z :=
  match c with
  | [] => 0
  | (_, AScale _) :: r => sum_delay r
  | (_, ADelay d _) :: r => d + sum_delay r
  end.

(** every delay adapter of the link has a non-negative delay and the link's initial time *)
Fixpoint chain_ok (c : list (nat * adapter)) (init : Z) : Prop :=
  match c with
  | [] => True
  | (_, AScale _) :: r => chain_ok r init
  | (_, ADelay d i) :: r => 0 <= d /\ i = init /\ chain_ok r init
  end.

Lemma sum_delay_nonneg c init : chain_ok c init -> 0 <= sum_delay c.
Proof.
  induction c as [|[id [k|d i]] r IH]; simpl; intros H; [lia|auto|].
  destruct H as (Hd & _ & Hr). specialize (IH Hr). lia.
Qed.

Lemma chain_time_fixed c init :
  chain_ok c init -> forall t, init <= t -> chain_time c t = Z.max (t - sum_delay c) init.
Proof.
  induction c as [|[id [k|d i]] r IH]; simpl; intros H t Ht.
  - lia.
  - apply IH; assumption.
  - destruct H as (Hd & -> & Hr). pose proof (sum_delay_nonneg r init Hr) as Hs.
    destruct (t - d <? init) eqn:E.
    + apply Z.ltb_lt in E. rewrite (IH Hr init (Z.le_refl _)). lia.
    + apply Z.ltb_ge in E. rewrite (IH Hr (t - d) E). lia.
Qed.

(** instance with a call log: the provider records the time it is invoked with *)
Definition logging_provider (id : nat) (f : Z -> res Q) (s : list (nat * Z)) (t : Z)
  : list (nat * Z) * res Q := ((id, t) :: s, f t).

Theorem callback_time_main :
  forall (c : list (nat * adapter)) (id : nat) (f : Z -> res Q) (log : list (nat * Z)) (t : Z),
    pull_chain (logging_provider id f) (fun _ _ s => s) c log t
    = ((id, chain_time c t) :: log, map_res (chain_scale c) (f (chain_time c t))).
Proof.
  intros. rewrite pull_chain_spec. unfold logging_provider. simpl.
  assert (H : forall c s t, chain_notes (fun (_ : nat) (_ : Z) (s : list (nat * Z)) => s) c s t = s).
  { clear. induction c as [|[i a] r IH]; intros; simpl; auto. }
  rewrite H. reflexivity.
Qed.

(* ------------------------------------------------------------------------- *)
(** * 4. WeightedSum *)

Fixpoint collect (l : list (res Q)) : res (list Q) :=
  match l with
  | [] => Ok []
  | Err e :: _ => Err e
  | Ok q :: r => map_res (cons q) (collect r)
  end.

Section WSP.
  Context {St : Type}.
  Context (pull : St -> nat -> Z -> St * res Q).
  Context (units : list Q).
  (** what input [i] answers for time [t] *)
  Context (src : nat -> Z -> res Q).
  (** the answers are determined by input and time (the sources may change state arbitrarily) *)
  Context (Hans : forall s i t, snd (pull s i t) = src i t).

  Definition answers (n i : nat) (t : Z) : res (list Q) :=
    collect (map (fun j => src j t) (seq i n)).

  (** the memo-free function: pull every input at [t], sum value * weight *)
  Definition ws_spec (n : nat) (t : Z) : res Q := map_res (wsum units) (answers n 0 t).

  Lemma pull_all_answers n : forall i s t, snd (pull_all pull n i s t) = answers n i t.
  Proof.
    unfold answers. induction n as [|m IH]; intros i s t; simpl; [reflexivity|].
    pose proof (Hans s i t) as H. destruct (pull s i t) as [s1 r]. simpl in H. subst r.
    destruct (src i t) as [q|e]; [|reflexivity].
    specialize (IH (S i) s1 t). destruct (pull_all pull m (S i) s1 t) as [s2 rs]. simpl in *.
    rewrite IH. reflexivity.
  Qed.

  Lemma collect_length l x : collect l = Ok x -> length x = length l.
  Proof.
    revert x. induction l as [|[q|e] r IH]; simpl; intros x H.
    - inversion H. reflexivity.
    - destruct (collect r) as [y|e']; simpl in H; [|discriminate]. inversion H. simpl. f_equal. auto.
    - discriminate.
  Qed.

  Lemma answers_length n i t x : answers n i t = Ok x -> length x = n.
  Proof. unfold answers. intros H. apply collect_length in H. rewrite map_length, seq_length in H. exact H. Qed.

  Lemma all_some_map_some {X : Type} (l : list X) : all_some (map Some l) = Some l.
  Proof. induction l; simpl; [reflexivity|]. rewrite IHl. reflexivity. Qed.

  (** validated, initial data present *)
  Definition ws_ready (w : wstate) : Prop :=
    ws_valid w = true /\ all_some (ws_fetched w) <> None.

  (** the memo is consistent: it stores the memo-free result of the time it remembers *)
  Definition memo_ok (n : nat) (w : wstate) : Prop :=
    length (ws_fetched w) = n /\ forall t0, ws_last w = Some t0 -> ws_spec n t0 = Ok (ws_out w).

  Lemma optZ_eqb_true a b : optZ_eqb a b = true <-> a = b.
  Proof.
    destruct a as [x|], b as [y|]; simpl; split; intros H; try discriminate; try reflexivity.
    - apply Z.eqb_eq in H. subst. reflexivity.
    - inversion H. apply Z.eqb_refl.
  Qed.

  Lemma ws_get_step n w s t :
    ws_ready w -> memo_ok n w ->
    snd (ws_get pull units w s t) = ws_spec n t
    /\ ws_ready (fst (fst (ws_get pull units w s t)))
    /\ memo_ok n (fst (fst (ws_get pull units w s t))).
  Proof.
    intros [Hv Hf] [Hn Hm]. unfold ws_get.
    destruct (all_some (ws_fetched w)) as [ind|] eqn:Ei; [|contradiction].
    destruct (optZ_eqb (ws_last w) (Some t)) eqn:El.
    - apply optZ_eqb_true in El. simpl. split; [symmetry; apply Hm; exact El|].
      split; [split; [exact Hv|rewrite Ei; discriminate]|split; assumption].
    - rewrite Hv.
      pose proof (pull_all_answers (length (ws_fetched w)) 0 s t) as Hp.
      destruct (pull_all pull (length (ws_fetched w)) 0 s t) as [s' r]. simpl in Hp. subst r.
      rewrite Hn. unfold ws_spec.
      destruct (answers n 0 t) as [l|e] eqn:Ea; simpl.
      + split; [reflexivity|]. split.
        * split; [reflexivity|]. simpl. rewrite all_some_map_some. discriminate.
        * split; simpl.
          -- rewrite map_length. apply (answers_length n 0 t l Ea).
          -- intros t0 H0. inversion H0. subst t0. unfold ws_spec. rewrite Ea. reflexivity.
      + split; [reflexivity|]. split; [split; [exact Hv|rewrite Ei; discriminate]|split; assumption].
  Qed.

  (** Refinement of the memoised state machine to the memo-free function, for ALL request
      sequences (any length, repeated / decreasing / arbitrary times). *)
  Lemma ws_run_spec n ts :
    forall w s, ws_ready w -> memo_ok n w ->
      fst (ws_run pull units w s ts) = map (ws_spec n) ts.
  Proof.
    induction ts as [|t r IH]; intros w s Hr Hm; simpl; [reflexivity|].
    destruct (ws_get_step n w s t Hr Hm) as (H1 & H2 & H3).
    destruct (ws_get pull units w s t) as [[w' s'] x]. simpl in *.
    specialize (IH w' s' H2 H3). destruct (ws_run pull units w' s' r) as [xs s'']. simpl in *.
    rewrite H1, IH. reflexivity.
  Qed.

  Lemma ws_ready_forget w : ws_ready w -> ws_ready (mkW (ws_fetched w) (ws_valid w) None (ws_out w)).
  Proof. intros [H1 H2]; split; assumption. Qed.

  Lemma memo_ok_forget n w : length (ws_fetched w) = n -> memo_ok n (mkW (ws_fetched w) (ws_valid w) None (ws_out w)).
  Proof. intros H; split; [exact H|]. simpl. intros t0 H0. discriminate. Qed.

  Lemma ws_run_nomemo_spec n ts :
    forall w s, ws_ready w -> length (ws_fetched w) = n ->
      fst (ws_run_nomemo pull units w s ts) = map (ws_spec n) ts.
  Proof.
    induction ts as [|t r IH]; intros w s Hr Hn; simpl; [reflexivity|].
    unfold ws_get_nomemo.
    destruct (ws_get_step n _ s t (ws_ready_forget w Hr) (memo_ok_forget n w Hn)) as (H1 & H2 & H3).
    destruct (ws_get pull units (mkW (ws_fetched w) (ws_valid w) None (ws_out w)) s t) as [[w' s'] x].
    simpl in *. specialize (IH w' s' H2 (proj1 H3)).
    destruct (ws_run_nomemo pull units w' s' r) as [xs s'']. simpl in *.
    rewrite H1, IH. reflexivity.
  Qed.

  Theorem ws_memo_refines n ts w s :
    ws_ready w -> memo_ok n w ->
    fst (ws_run pull units w s ts) = fst (ws_run_nomemo pull units w s ts).
  Proof.
    intros Hr Hm. rewrite (ws_run_spec n ts w s Hr Hm).
    rewrite (ws_run_nomemo_spec n ts w s Hr (proj1 Hm)). reflexivity.
  Qed.
End WSP.

(** The sum: value * weight * SI factor over the input pairs. *)
Fixpoint interleave (vs ws : list Q) : list Q :=
  match vs, ws with
  | v :: vs', w :: ws' => v :: w :: interleave vs' ws'
  | _, _ => []
  end.

Fixpoint sum3 (us vs ws : list Q) : Q :=
  match us, vs, ws with
  | u :: us', v :: vs', w :: ws' => (v * u) * w + sum3 us' vs' ws'
  | _, _, _ => 0
  end%Q.

Lemma wsum_si_sum3 us : forall vs ws,
  length vs = length us -> length ws = length us ->
  (wsum_si us (interleave vs ws) == sum3 us vs ws)%Q.
Proof.
  induction us as [|u us' IH]; intros vs ws Hv Hw; simpl.
  - destruct vs; [|discriminate]. simpl. reflexivity.
  - destruct vs as [|v vs']; [discriminate|]. destruct ws as [|w ws']; [discriminate|].
    simpl in *. rewrite (IH vs' ws'); [|lia|lia]. ring.
Qed.

(** in SI units the result is the sum of (value in SI) * weight *)
Lemma wsum_SI u0 us l : ~ (u0 == 0)%Q -> (wsum (u0 :: us) l * u0 == wsum_si (u0 :: us) l)%Q.
Proof.
  intros H. unfold wsum. rewrite Qred_correct. field. exact H.
Qed.

(** the pull log of one (re)computation: every input exactly once, in order, at the requested time *)
Definition logging_pull (src : nat -> Z -> res Q) (s : list (nat * Z)) (i : nat) (t : Z)
  : list (nat * Z) * res Q := ((i, t) :: s, src i t).

Lemma pull_all_log src n : forall i s t x,
  snd (pull_all (logging_pull src) n i s t) = Ok x ->
  fst (pull_all (logging_pull src) n i s t) = rev (map (fun j => (j, t)) (seq i n)) ++ s.
Proof.
  induction n as [|m IH]; intros i s t x H; simpl in *; [reflexivity|].
  destruct (src i t) as [q|e] eqn:E; [|discriminate].
  specialize (IH (S i) ((i, t) :: s) t).
  destruct (pull_all (logging_pull src) m (S i) ((i, t) :: s) t) as [s2 rs] eqn:Ep. simpl in *.
  destruct rs as [y|e]; [|discriminate]. rewrite (IH y eq_refl). rewrite <- app_assoc. reflexivity.
Qed.

Theorem ws_pulls_main (units : list Q) (src : nat -> Z -> res Q) (w : wstate) (log : list (nat * Z)) (t : Z) :
  ws_valid w = true -> all_some (ws_fetched w) <> None ->
  let n := length (ws_fetched w) in
  let out := ws_get (logging_pull src) units w log t in
  (* memo hit: nothing is pulled, state unchanged *)
  (ws_last w = Some t -> out = (w, log, Ok (ws_out w)))
  (* otherwise, if it succeeds: inputs 0..n-1 were pulled once each, in order, all at time t *)
  /\ (ws_last w <> Some t -> forall q, snd out = Ok q ->
      snd (fst out) = rev (map (fun j => (j, t)) (seq 0 n)) ++ log
      /\ ws_last (fst (fst out)) = Some t /\ ws_out (fst (fst out)) = q).
Proof.
  intros Hv Hf n out. subst out. unfold ws_get.
  destruct (all_some (ws_fetched w)) as [ind|] eqn:Ei; [|contradiction].
  split.
  - intros Hl. rewrite Hl. assert (E : optZ_eqb (Some t) (Some t) = true) by (simpl; apply Z.eqb_refl).
    rewrite E. reflexivity.
  - intros Hl q. destruct (optZ_eqb (ws_last w) (Some t)) eqn:El.
    + exfalso. apply Hl. destruct (ws_last w) as [x|]; simpl in El; [|discriminate].
      apply Z.eqb_eq in El. subst. reflexivity.
    + rewrite Hv. pose proof (pull_all_log src n 0 log t) as Hp. fold n.
      destruct (pull_all (logging_pull src) n 0 log t) as [s' r]. simpl in *.
      destruct r as [l|e]; simpl; intros H; [|discriminate].
      inversion H. split; [apply (Hp l eq_refl)|]. split; reflexivity.
Qed.

(** The memo-free function is the weighted sum: if at time [t] the inputs answer the values [vs]
    and the weights [ws], the result (expressed in the units [u0] of the first value) is, in SI,
    the sum of (value * its SI factor) * weight. *)
Theorem ws_spec_is_sum (u0 : Q) (us : list Q) (src : nat -> Z -> res Q) (vs ws : list Q) (t : Z) (n : nat) :
  ~ (u0 == 0)%Q ->
  length vs = length (u0 :: us) -> length ws = length (u0 :: us) ->
  answers src n 0 t = Ok (interleave vs ws) ->
  exists q, ws_spec (u0 :: us) src n t = Ok q /\ (q * u0 == sum3 (u0 :: us) vs ws)%Q.
Proof.
  intros Hu Hv Hw Ha. unfold ws_spec. rewrite Ha. simpl map_res. eexists. split; [reflexivity|].
  eapply Qeq_trans; [apply wsum_SI; exact Hu|]. apply wsum_si_sum3; assumption.
Qed.

(** A pull-based component adds no failure of its own: if every input answers for time [t],
    so does the weighted sum (the C01 guarantee at the producers carries through the component). *)
Lemma collect_ok (l : list (res Q)) :
  (forall x, In x l -> exists q, x = Ok q) -> exists y, collect l = Ok y.
Proof.
  induction l as [|x r IH]; intros H; simpl; [eexists; reflexivity|].
  destruct (H x (or_introl eq_refl)) as [q ->].
  destruct IH as [y Hy]; [intros z Hz; apply H; right; exact Hz|].
  rewrite Hy. simpl. eexists; reflexivity.
Qed.

Theorem ws_spec_no_new_errors (units : list Q) (src : nat -> Z -> res Q) (n : nat) (t : Z) :
  (forall i, (i < n)%nat -> exists q, src i t = Ok q) -> exists q, ws_spec units src n t = Ok q.
Proof.
  intros H. unfold ws_spec, answers.
  destruct (collect_ok (map (fun j => src j t) (seq 0 n))) as [y Hy].
  - intros x Hx. apply in_map_iff in Hx. destruct Hx as (j & <- & Hj). apply in_seq in Hj. apply H. lia.
  - rewrite Hy. simpl. eexists; reflexivity.
Qed.

Theorem pull_chain_no_new_errors (c : list (nat * adapter)) (id : nat) (f : Z -> res Q) (log : list (nat * Z)) (t : Z) :
  (exists q, f (chain_time c t) = Ok q) ->
  exists q, snd (pull_chain (logging_provider id f) (fun _ _ s => s) c log t) = Ok q.
Proof.
  intros [q Hq]. rewrite callback_time_main. simpl. rewrite Hq. simpl. eexists; reflexivity.
Qed.

(* ------------------------------------------------------------------------- *)
(** * Links with state-dependent delay adapters (DelayToPull) *)

(** on links without DelayToPull the stateful evaluator is the stateless one: the theorems about
    [pull_chain] apply to the evaluator used by the network model *)
Lemma pull_chain_st_plain {St : Type} (src : St -> Z -> St * res Q) (note : nat -> Z -> St -> St)
      (hist : nat -> St -> list Z) (set_hist : nat -> list Z -> St -> St) (c : list (nat * adapter)) :
  forall s t, pull_chain_st src note hist set_hist (plain_chain c) s t = pull_chain src note c s t.
Proof.
  induction c as [|[id a] r IH]; intros s t; simpl; [reflexivity|]. rewrite IH. reflexivity.
Qed.

(** A memo hit of the WeightedSum does not touch its environment at all - whatever the inputs are
    (stateful adapters included): a repeated request for the same time pulls nothing, so it cannot
    advance the pull history of a DelayToPull adapter in front of an input. *)
Lemma ws_get_hit_any {St : Type} (pull : St -> nat -> Z -> St * res Q) (units : list Q)
      (w : wstate) (s : St) (t : Z) :
  all_some (ws_fetched w) <> None -> ws_last w = Some t ->
  ws_get pull units w s t = (w, s, Ok (ws_out w)).
Proof.
  intros Hf Hl. unfold ws_get. destruct (all_some (ws_fetched w)); [|contradiction].
  rewrite Hl. simpl. rewrite Z.eqb_refl. reflexivity.
Qed.

(** one pull of every input per maximal run of equal request times: the number of pulls the
    memoised component makes for a request sequence (validated, all pulls succeeding) *)
Fixpoint distinct_runs (last : option Z) (ts : list Z) : nat :=
  match ts with
  | [] => O
  | t :: r => if optZ_eqb last (Some t) then distinct_runs last r else S (distinct_runs (Some t) r)
  end.

Lemma ws_run_pull_count (units : list Q) (src : nat -> Z -> res Q) (ts : list Z) :
  (forall i t, exists q, src i t = Ok q) ->
  forall (w : wstate) (log : list (nat * Z)),
    ws_valid w = true -> all_some (ws_fetched w) <> None ->
    length (snd (ws_run (logging_pull src) units w log ts))
    = (length log + distinct_runs (ws_last w) ts * length (ws_fetched w))%nat.
Proof.
  intros Hok. induction ts as [|t r IH]; intros w log Hv Hf; simpl; [lia|].
  destruct (optZ_eqb (ws_last w) (Some t)) eqn:El.
  - apply optZ_eqb_true in El. rewrite (ws_get_hit_any _ units w log t Hf El).
    specialize (IH w log Hv Hf). destruct (ws_run (logging_pull src) units w log r) as [xs s'']. simpl in *. exact IH.
  - unfold ws_get. destruct (all_some (ws_fetched w)) as [ind|] eqn:Ei; [|contradiction].
    rewrite El, Hv.
    assert (Hall : exists l, snd (pull_all (logging_pull src) (length (ws_fetched w)) 0 log t) = Ok l
                             /\ length l = length (ws_fetched w)).
    { pose proof (pull_all_answers (logging_pull src) src (fun _ _ _ => eq_refl) (length (ws_fetched w)) 0 log t) as Ha.
      destruct (collect_ok (map (fun j => src j t) (seq 0 (length (ws_fetched w))))) as [y Hy].
      - intros x Hx. apply in_map_iff in Hx. destruct Hx as (j & <- & _). apply Hok.
      - exists y. split; [rewrite Ha; exact Hy|].
        apply collect_length in Hy. rewrite map_length, seq_length in Hy. exact Hy. }
    destruct Hall as (l & Hl & Hlen).
    pose proof (pull_all_log src (length (ws_fetched w)) 0 log t l Hl) as Hlog.
    destruct (pull_all (logging_pull src) (length (ws_fetched w)) 0 log t) as [s' rr]. simpl in Hl, Hlog. subst rr s'.
    set (w' := mkW (map Some l) true (Some t) (wsum units l)).
    assert (Hv' : ws_valid w' = true) by reflexivity.
    assert (Hf' : all_some (ws_fetched w') <> None).
    { unfold w'. simpl. rewrite all_some_map_some. discriminate. }
    specialize (IH w' (rev (map (fun j => (j, t)) (seq 0 (length (ws_fetched w)))) ++ log) Hv' Hf').
    destruct (ws_run (logging_pull src) units w' _ r) as [xs s'']. simpl in *.
    rewrite IH. rewrite app_length, rev_length, !map_length, seq_length, Hlen. lia.
Qed.

(* ------------------------------------------------------------------------- *)
(** * WeightedSum: connect phase, gridded data with missing cells *)

(** in the connect phase the answer comes from the connector's start-time data and is not memoised *)
Lemma ws_connect_phase_no_memo {St : Type} (pull : St -> nat -> Z -> St * res Q) (units : list Q)
      (w : wstate) (s : St) (t : Z) (ind : list Q) :
  ws_valid w = false -> ws_last w = None -> all_some (ws_fetched w) = Some ind ->
  ws_get pull units w s t = (mkW (ws_fetched w) false None (wsum units ind), s, Ok (wsum units ind)).
Proof.
  intros Hv Hl Hf. unfold ws_get. rewrite Hf, Hl, Hv. reflexivity.
Qed.

Definition opt_Qeq (a b : option Q) : Prop :=
  match a, b with
  | Some x, Some y => (x == y)%Q
  | None, None => True
  | _, _ => False
  end.

Lemma opt_Qeq_refl a : opt_Qeq a a.
Proof. destruct a; simpl; [reflexivity|exact I]. Qed.

Lemma opt_Qeq_trans a b c : opt_Qeq a b -> opt_Qeq b c -> opt_Qeq a c.
Proof.
  destruct a, b, c; simpl; intros H1 H2; try contradiction; try exact I.
  rewrite H1. exact H2.
Qed.

(** a cell of the sum is missing iff it is missing in one of the terms *)
Lemma cell_sum_none_iff (l : list (option Q)) : cell_sum l = None <-> In None l.
Proof.
  induction l as [|[x|] r IH]; simpl.
  - split; [discriminate|tauto].
  - destruct (cell_sum r) as [y|].
    + split; [discriminate|]. intros [H|H]; [discriminate|]. apply IH in H. discriminate.
    + split; [intros _; right; apply IH; reflexivity|reflexivity].
  - split; [intros _; left; reflexivity|reflexivity].
Qed.

(** ... and otherwise the sum of the terms *)
Fixpoint qsum_opt (l : list (option Q)) : Q :=
  match l with
  | [] => 0
  | Some x :: r => x + qsum_opt r
  | None :: r => qsum_opt r
  end%Q.

Lemma cell_sum_some (l : list (option Q)) (q : Q) : cell_sum l = Some q -> (q == qsum_opt l)%Q.
Proof.
  revert q. induction l as [|[x|] r IH]; simpl; intros q H.
  - inversion H. reflexivity.
  - destruct (cell_sum r) as [y|]; [|discriminate]. inversion H. rewrite (IH y eq_refl). reflexivity.
  - discriminate.
Qed.

(** the order of the terms (= the order in which the inputs are named) is irrelevant *)
Lemma cell_sum_perm (l l' : list (option Q)) : Permutation l l' -> opt_Qeq (cell_sum l) (cell_sum l').
Proof.
  induction 1 as [|x l l' _ IH|x y l|l l' l'' _ IH1 _ IH2].
  - simpl. reflexivity.
  - simpl. destruct x as [x|]; [|exact I].
    destruct (cell_sum l), (cell_sum l'); simpl in *; try contradiction; try exact I. rewrite IH. reflexivity.
  - simpl. destruct x as [x|], y as [y|]; simpl; try exact I.
    destruct (cell_sum l); simpl; [ring|exact I].
  - eapply opt_Qeq_trans; eassumption.
Qed.
