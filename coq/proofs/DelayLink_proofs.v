(** Proofs about one link with delay adapters (FV.DelayLink): what a pull delivers. *)
From Coq Require Import List ZArith Bool Arith Lia.
From FV Require Import Base OutputM Sched DelayLink.
From FVP Require Import Adapters_proofs.
Import ListNotations.
Open Scope Z_scope.

(** the shifts of the adapters composed in pull order *)
Fixpoint compose_shifts (ch : list adapter) (ss : list (list Z)) (init : Z) (pt : option Z) (t : Z) : Z :=
  match ch, ss with
  | a :: ch', s :: ss' => compose_shifts ch' ss' init pt (with_delay a s init pt t)
  | _, _ => t
  end.

Fixpoint no_buf (ch : list adapter) : bool :=
  match ch with [] => true | ABuf :: _ => false | _ :: r => no_buf r end.

Lemma pull_time_compose ch : forall ss init pt t,
  no_buf ch = true -> pull_time ch ss init pt t = compose_shifts ch ss init pt t.
Proof.
  unfold pull_time.
  induction ch as [|a ch IH]; intros ss init pt t H; simpl; [reflexivity|].
  destruct ss as [|s ss]; [reflexivity|].
  destruct a; simpl in *; try discriminate;
    match goal with |- context [pull_chain ch ss init pt ?x] =>
      specialize (IH ss init pt x H); destruct (pull_chain ch ss init pt x) as [[r b] s2] end;
    simpl in *; exact IH.
Qed.

(** a pull over the link asks the source for exactly the composed time and hands its answer through *)
Lemma lstep_pull ch init s t :
  snd (lstep ch init s (LPull t))
  = Some (pull_time ch (l_ss s) init (l_ptime s) t,
          interpolate (l_hist s) (pull_time ch (l_ss s) init (l_ptime s) t)).
Proof.
  unfold lstep, pull_time.
  destruct (pull_chain ch (l_ss s) init (l_ptime s) t) as [[r b] ss'] eqn:E. simpl.
  destruct (interpolate (l_hist s) r); reflexivity.
Qed.

(** the newest notification is what DelayToPush remembers *)
Lemma lstep_push ch init s t :
  l_ptime (fst (lstep ch init s (LPush t))) = Some t /\
  l_ss (fst (lstep ch init s (LPush t))) = l_ss s.
Proof. split; reflexivity. Qed.
