(** Proofs about one link with delay adapters (FV.DelayLink): what a pull delivers. *)
From Coq Require Import List ZArith Bool Arith Lia.
From FV Require Import Base OutputM Sched DelayLink.
From FVP Require Import Adapters_proofs.
Import ListNotations.
Open Scope Z_scope.

(** the shifts of the adapters composed in pull order *)
Fixpoint compose_shifts (ch : list adapter) (ss : list (list Z)) (init : Z) (pt : option Z) (t : Z) : Z :=
  match ch, ss with
  | a :: ch', s :: ss' => compose_shifts ch' ss' init pt (with_delay a s init pt t)
  | _, _ => t
  end.

Fixpoint no_buf (ch : list adapter) : bool :=
  match ch with [] => true | ABuf :: _ => false | _ :: r => no_buf r end.

Lemma pull_time_compose ch : forall ss init pt t,
  no_buf ch = true -> pull_time ch ss init pt t = compose_shifts ch ss init pt t.
Proof.
  unfold pull_time.
  induction ch as [|a ch IH]; intros ss init pt t H; simpl; [reflexivity|].
  destruct ss as [|s ss]; [reflexivity|].
  destruct a; simpl in *; try discriminate;
    match goal with |- context [pull_chain ch ss init pt ?x] =>
      specialize (IH ss init pt x H); destruct (pull_chain ch ss init pt x) as [[r b] s2] end;
    simpl in *; exact IH.
Qed.

(** a pull over the link asks the source for exactly the composed time and hands its answer through *)
Lemma lstep_pull ch init s t :
  snd (lstep ch init s (LPull t))
  = Some (pull_time ch (l_ss s) init (l_ptime s) t,
          interpolate (l_hist s) (pull_time ch (l_ss s) init (l_ptime s) t)).
Proof.
  unfold lstep, pull_time.
  destruct (pull_chain ch (l_ss s) init (l_ptime s) t) as [[r b] ss'] eqn:E. simpl.
  destruct (interpolate (l_hist s) r); reflexivity.
Qed.

(** the newest notification is what DelayToPush remembers *)
Lemma lstep_push ch init s t :
  l_ptime (fst (lstep ch init s (LPush t))) = Some t /\
  l_ss (fst (lstep ch init s (LPush t))) = l_ss s.
Proof. split; reflexivity. Qed.

(** * A shared trunk (tree cases of the correspondence, DelayLink.c13_tree_check)

    Adapters without per-request state: pass-through, DelayFixed, DelayToPush (its state, the newest notification, is
    written by publications only).  A pull through a chain [sub ++ trunk] whose trunk consists of such adapters
    (a) asks the source for the trunk's shift of the time the sub-chain hands down, and
    (b) leaves the trunk's state as it was.
    Hence several consumers behind one shared trunk do not influence each other: each sees the link  sub ++ trunk
    driven by the publications and its own pulls. *)
Fixpoint no_req_state (ch : list adapter) : bool :=
  match ch with
  | [] => true
  | AToPull _ _ :: _ => false
  | ABuf :: _ => false
  | _ :: r => no_req_state r
  end.

Lemma pull_chain_no_req_state ch : forall ss init pt t,
  no_req_state ch = true -> snd (pull_chain ch ss init pt t) = ss.
Proof.
  induction ch as [|a ch IH]; intros ss init pt t H.
  - destruct ss; reflexivity.
  - destruct ss as [|s ss]; [reflexivity|].
    destruct a; cbn [no_req_state] in H; try discriminate; cbn [pull_chain].
    + specialize (IH ss init pt t H). destruct (pull_chain ch ss init pt t) as [[r b] ss2]. cbn in *. now rewrite IH.
    + specialize (IH ss init pt (with_delay (AFixed d) s init pt t) H).
      destruct (pull_chain ch ss init pt (with_delay (AFixed d) s init pt t)) as [[r b] ss2]. cbn in *. now rewrite IH.
    + specialize (IH ss init pt (with_delay AToPush s init pt t) H).
      destruct (pull_chain ch ss init pt (with_delay AToPush s init pt t)) as [[r b] ss2]. cbn in *. now rewrite IH.
Qed.

Lemma pull_chain_app sub : forall trunk ss1 ss2 init pt t,
  no_buf sub = true -> length ss1 = length sub ->
  pull_chain (sub ++ trunk) (ss1 ++ ss2) init pt t
  = (let '(r1, _, ss1') := pull_chain sub ss1 init pt t in
     let '(r2, b2, ss2') := pull_chain trunk ss2 init pt r1 in
     (r2, b2, ss1' ++ ss2')).
Proof.
  induction sub as [|a sub IH]; intros trunk ss1 ss2 init pt t Hb Hl.
  - destruct ss1; [|discriminate]. cbn [app pull_chain].
    destruct (pull_chain trunk ss2 init pt t) as [[r b] s2]. reflexivity.
  - destruct ss1 as [|s ss1]; [discriminate|]. cbn [length] in Hl. injection Hl as Hl.
    destruct a; cbn [no_buf] in Hb; try discriminate; cbn [app pull_chain].
    + rewrite (IH trunk ss1 ss2 init pt t Hb Hl).
      destruct (pull_chain sub ss1 init pt t) as [[r1 b1] s1'].
      destruct (pull_chain trunk ss2 init pt r1) as [[r2 b2] s2']. reflexivity.
    + rewrite (IH trunk ss1 ss2 init pt _ Hb Hl).
      destruct (pull_chain sub ss1 init pt _) as [[r1 b1] s1'].
      destruct (pull_chain trunk ss2 init pt r1) as [[r2 b2] s2']. reflexivity.
    + rewrite (IH trunk ss1 ss2 init pt _ Hb Hl).
      destruct (pull_chain sub ss1 init pt _) as [[r1 b1] s1'].
      destruct (pull_chain trunk ss2 init pt r1) as [[r2 b2] s2']. reflexivity.
    + rewrite (IH trunk ss1 ss2 init pt _ Hb Hl).
      destruct (pull_chain sub ss1 init pt _) as [[r1 b1] s1'].
      destruct (pull_chain trunk ss2 init pt r1) as [[r2 b2] s2']. reflexivity.
Qed.

Theorem shared_trunk sub trunk ss1 ss2 init pt t :
  no_buf sub = true -> length ss1 = length sub -> no_req_state trunk = true ->
  pull_time (sub ++ trunk) (ss1 ++ ss2) init pt t = pull_time trunk ss2 init pt (pull_time sub ss1 init pt t) /\
  snd (pull_chain (sub ++ trunk) (ss1 ++ ss2) init pt t) = snd (pull_chain sub ss1 init pt t) ++ ss2.
Proof.
  intros Hb Hl Hs. unfold pull_time. rewrite (pull_chain_app sub trunk ss1 ss2 init pt t Hb Hl).
  pose proof (pull_chain_no_req_state trunk ss2 init pt (fst (fst (pull_chain sub ss1 init pt t))) Hs) as Hk.
  destruct (pull_chain sub ss1 init pt t) as [[r1 b1] s1']. cbn [fst snd] in *.
  destruct (pull_chain trunk ss2 init pt r1) as [[r2 b2] s2']. cbn [fst snd] in *. subst s2'. split; reflexivity.
Qed.
