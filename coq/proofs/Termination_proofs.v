(** C03: a run terminates — an explicit amount of fuel beyond which [run] never returns [OFuel].

    Three things can exhaust fuel in the model: the recursion of [_update_recursive] ([rec_fuel]), the
    recursion of a pull through pull-based components, and the run loop itself.  For compositions whose
    links carry pass-through adapters, buffering adapters, DelayToPush and delay adapters with non-negative delays
    (DelayFixed, DelayToPull), and whose pull-based components form no cycle among themselves, none of them does. *)
From Coq Require Import List ZArith Bool Arith Lia.
From FV Require Import Base Sched.
From FVP Require Import Adapters_proofs Sched_proofs Confluence_proofs.
Import ListNotations.
Open Scope Z_scope.

Definition simple_adapter (a : adapter) : bool :=
  match a with
  | APass | ABuf | AToPush => true
  | AFixed d => 0 <=? d
  | AToPull _ extra => 0 <=? extra
  end.

Record term_ok (cs : composition) (rank : nat -> nat) : Prop := {
  to_wf : wf cs;
  to_simple : forall c k inp, nth_error (c_inputs (getc cs c)) k = Some inp ->
                forallb simple_adapter (i_chain inp) = true;
  to_rank : forall c k inp, nth_error (c_inputs (getc cs c)) k = Some inp ->
                is_time cs c = false -> is_time cs (fst (i_src inp)) = false ->
                (rank (fst (i_src inp)) < rank c)%nat;
  to_rank_bound : forall c, (rank c < length cs)%nat
}.

(** ** 1. pulls never run out of fuel *)

Lemma pull_list_nofuel rec : forall ins k0 s a s' a' e,
  (forall k x s1 a1 s2 a2 e2, In x ins -> rec k x s1 a1 = (s2, a2, e2) -> e2 <> Some EFuel) ->
  pull_list rec k0 ins s a = (s', a', e) -> e <> Some EFuel.
Proof.
  induction ins as [|x ins IH]; intros k0 s a s' a' e Hrec H; simpl in H; [inversion H; discriminate|].
  destruct (rec k0 x s a) as [[s2 a2] e2] eqn:R.
  pose proof (Hrec _ _ _ _ _ _ _ (or_introl eq_refl) R) as E2.
  destruct e2 as [e2|]; [inversion H; subst; exact E2|].
  eapply IH; [|exact H]. intros. eapply Hrec; [right; eassumption|eassumption].
Qed.

Definition need_fuel (cs : composition) (rank : nat -> nat) (x : input) : nat :=
  (1 + (if is_time cs (fst (i_src x)) then 0 else 1 + rank (fst (i_src x))))%nat.

Lemma pull_input_nofuel cs rank (T : term_ok cs rank) fuel : forall s c k x t a s2 a2 e2,
  (need_fuel cs rank x <= fuel)%nat ->
  pull_input fuel cs s c k x t a = (s2, a2, e2) -> e2 <> Some EFuel.
Proof.
  unfold need_fuel.
  induction fuel as [|fuel IH]; intros s c k x t a s2 a2 e2 Hf H; [lia|].
  simpl in H. destruct (pull_chain _ _ _ _ _) as [[r b] ss'].
  destruct (is_static_src cs (i_src x)); [inversion H; discriminate|].
  destruct b; [inversion H; destruct (_ && _); discriminate|].
  destruct (is_time cs (fst (i_src x))) eqn:Ts; [inversion H; destruct (_ && _); discriminate|].
  eapply pull_list_nofuel; [|exact H].
  intros k1 x1 s1 a1 s3 a3 e3 Hin R.
  apply In_nth_error in Hin. destruct Hin as [k' Hk'].
  eapply IH; [|exact R].
  destruct (is_time cs (fst (i_src x1))) eqn:T1; [lia|].
  pose proof (to_rank cs rank T (fst (i_src x)) k' x1 Hk' Ts T1). lia.
Qed.

Lemma do_update_nofuel cs rank (T : term_ok cs rank) st c acc st' acc' e :
  do_update cs st c acc = (st', acc', e) -> e <> Some EFuel.
Proof.
  unfold do_update, pull_all.
  destruct (pull_list _ _ _ _ _) as [[st1 acc1] e1] eqn:PL. intros H. inversion H; subst.
  eapply pull_list_nofuel; [|exact PL].
  intros k x s1 a1 s2 a2 e2 Hin R. eapply (pull_input_nofuel cs rank T); [|exact R].
  unfold need_fuel. pose proof (to_rank_bound cs rank T (fst (i_src x))).
  destruct (is_time cs (fst (i_src x))); lia.
Qed.

(** ** 2. the recursion of _update_recursive never runs out of fuel *)

Definition is_free (cs : composition) (chain : list (nat * Z)) (c : nat) : bool :=
  is_time cs c && negb (existsb (key_eqb (c, 0%Z)) chain).

Definition freeT (cs : composition) (chain : list (nat * Z)) : nat :=
  length (filter (is_free cs chain) (seq O (length cs))).

Definition need_rec (cs : composition) (rank : nat -> nat) (chain : list (nat * Z)) (c : nat) : nat :=
  if is_time cs c then
    (if existsb (key_eqb (c, 0%Z)) chain then 1 else freeT cs chain * (length cs + 2))%nat
  else (freeT cs chain * (length cs + 2) + rank c + 2)%nat.

Lemma is_time_lt cs c : is_time cs c = true -> (c < length cs)%nat.
Proof.
  intros H. destruct (le_lt_dec (length cs) c) as [Hge|]; [|assumption].
  unfold is_time, getc in H. rewrite nth_overflow in H by exact Hge. discriminate.
Qed.

Lemma filter_len_mono {A} (f g : A -> bool) l :
  (forall x, In x l -> g x = true -> f x = true) -> (length (filter g l) <= length (filter f l))%nat.
Proof.
  induction l as [|x l IH]; intros H; simpl; [lia|].
  assert (IH' := IH (fun y Hy => H y (or_intror Hy))).
  destruct (g x) eqn:G; [rewrite (H x (or_introl eq_refl) G); simpl; lia|].
  destruct (f x); simpl; lia.
Qed.

Lemma filter_len_lt {A} (f g : A -> bool) l x0 :
  (forall x, In x l -> g x = true -> f x = true) -> In x0 l -> f x0 = true -> g x0 = false ->
  (length (filter g l) < length (filter f l))%nat.
Proof.
  induction l as [|x l IH]; intros H Hin F G; [destruct Hin|]. simpl.
  destruct Hin as [->|Hin].
  - rewrite F, G. simpl. pose proof (filter_len_mono f g l (fun y Hy => H y (or_intror Hy))). lia.
  - assert (IH' := IH (fun y Hy => H y (or_intror Hy)) Hin F G).
    destruct (g x) eqn:Gx; [rewrite (H x (or_introl eq_refl) Gx); simpl; lia|].
    destruct (f x); simpl; lia.
Qed.

Lemma key_eqb_refl k : key_eqb k k = true.
Proof. unfold key_eqb. now rewrite Nat.eqb_refl, Z.eqb_refl. Qed.

Lemma freeT_push_T cs chain c :
  is_time cs c = true -> existsb (key_eqb (c, 0%Z)) chain = false ->
  (freeT cs ((c, 0%Z) :: chain) < freeT cs chain)%nat.
Proof.
  intros Tc Hn. unfold freeT. apply (filter_len_lt _ _ _ c).
  - intros x _ H. unfold is_free in *. apply andb_prop in H. destruct H as [H1 H2].
    rewrite H1. simpl in H2. apply negb_true_iff in H2. apply orb_false_elim in H2. destruct H2 as [_ H2].
    now rewrite H2.
  - apply in_seq. pose proof (is_time_lt cs c Tc). lia.
  - unfold is_free. now rewrite Tc, Hn.
  - unfold is_free. simpl. rewrite key_eqb_refl. simpl. now rewrite andb_false_r.
Qed.

Lemma freeT_push_P cs chain p t :
  is_time cs p = false -> freeT cs ((p, t) :: chain) = freeT cs chain.
Proof.
  intros Tp. unfold freeT. f_equal. apply filter_ext_in. intros x _. unfold is_free. simpl.
  destruct (is_time cs x) eqn:Tx; [|reflexivity]. simpl. f_equal.
  assert (E : key_eqb (x, 0%Z) (p, t) = false).
  { unfold key_eqb. simpl. destruct (Nat.eqb x p) eqn:E; [|reflexivity]. apply Nat.eqb_eq in E. congruence. }
  now rewrite E.
Qed.

Lemma update_rec_nofuel cs rank (T : term_ok cs rank) st acc fuel : forall c chain tgt,
  (need_rec cs rank chain c <= fuel)%nat -> update_rec fuel cs st acc c chain tgt <> UFuel.
Proof.
  induction fuel as [|fuel IH]; intros c chain tgt Hf.
  - exfalso. unfold need_rec in Hf. destruct (is_time cs c) eqn:Tc; [|lia].
    destruct (existsb (key_eqb (c, 0%Z)) chain) eqn:E; [lia|].
    pose proof (freeT_push_T cs chain c Tc E). destruct (freeT cs chain); simpl in Hf; lia.
  - simpl. destruct (existsb (key_eqb (chain_key cs c tgt)) chain) eqn:Ex; [discriminate|].
    intros H.
    set (rec := fun c' t' => update_rec fuel cs st acc c' (chain_key cs c tgt :: chain) t') in H.
    match type of H with dep_loop cs rec ?f ?d = _ => destruct (dep_loop_inv cs rec f d _ H) as [[Hfin _]|[o [lt [Hin Hc]]]] end.
    + destruct (is_time cs c); [destruct (do_update cs st c acc) as [[? ?] ?]|]; discriminate.
    + destruct (find_deps_sound _ _ _ _ _ _ Hin) as [k [inp [Hk [Ho _]]]]. subst o.
      set (src := fst (i_src inp)) in *.
      assert (Hneed : (need_rec cs rank (chain_key cs c tgt :: chain) src <= fuel)%nat).
      { unfold need_rec in *. unfold chain_key in *.
        pose proof (to_rank_bound cs rank T src) as Rb.
        destruct (is_time cs c) eqn:Tc.
        - (* c is a free time component *)
          rewrite Ex in Hf. pose proof (freeT_push_T cs chain c Tc Ex) as Hlt.
          pose proof (is_time_lt cs c Tc) as Lc.
          destruct (is_time cs src) eqn:Ts.
          + destruct (existsb (key_eqb (src, 0%Z)) ((c, 0%Z) :: chain)); nia.
          + nia.
        - rewrite (freeT_push_P cs chain c tgt Tc).
          destruct (is_time cs src) eqn:Ts.
          + destruct (existsb (key_eqb (src, 0%Z)) ((c, tgt) :: chain)); nia.
          + pose proof (to_rank cs rank T c k inp Hk Tc Ts). fold src in H0. nia. }
      destruct Hc as [[Ti Hrec]|[Tp [Hrec _]]]; unfold rec in Hrec; symmetry in Hrec;
        exact (IH _ _ _ Hneed Hrec).
Qed.

Lemma update_rec_top_nofuel cs rank (T : term_ok cs rank) st acc c :
  is_time cs c = true -> update_rec (rec_fuel cs) cs st acc c [] 0 <> UFuel.
Proof.
  intros Tc. apply (update_rec_nofuel cs rank T). unfold need_rec, rec_fuel. rewrite Tc. simpl.
  assert (freeT cs [] <= length cs)%nat.
  { unfold freeT. rewrite <- (seq_length (length cs) O) at 2.
    generalize (seq O (length cs)). intros l. induction l as [|x l IHl]; simpl; [lia|].
    destruct (is_free cs [] x); simpl; lia. }
  nia.
Qed.

(** ** 3. the run loop: all times stay below a bound, every update consumes some of the distance to it *)

(** the remembered pull times of the DelayToPull adapters of a link are bounded by [B] *)
Fixpoint pulls_ok (ch : list adapter) (ss : list (list Z)) (B : Z) : Prop :=
  match ch, ss with
  | a :: ch', s :: ss' =>
      (match a with AToPull _ _ => Forall (fun x => x <= B) s | _ => True end) /\ pulls_ok ch' ss' B
  | _, _ => True
  end.

Lemma pulls_ok_mono ch : forall ss B B', B <= B' -> pulls_ok ch ss B -> pulls_ok ch ss B'.
Proof.
  induction ch as [|a ch IH]; intros ss B B' HB H; [exact I|]. destruct ss as [|s ss]; [exact I|].
  destruct H as [H1 H2]. split; [|eapply IH; eauto].
  destruct a; auto. eapply Forall_impl; [|exact H1]. simpl. intros x Hx. lia.
Qed.

Lemma pulls_ok_no_topull ch : forall ss B, no_topull ch = true -> pulls_ok ch ss B.
Proof.
  induction ch as [|a ch IH]; intros ss B H; [exact I|]. destruct ss as [|s ss]; [exact I|].
  destruct a; simpl in H; try discriminate; (split; [exact I|apply IH; exact H]).
Qed.

Lemma pulls_ok_empty ch B : pulls_ok ch (map (fun _ => []) ch) B.
Proof. induction ch as [|a ch IH]; [exact I|]. simpl. split; [destruct a; auto|exact IH]. Qed.

Lemma hd_le init (s : list Z) B : init <= B -> Forall (fun x => x <= B) s -> hd init s <= B.
Proof. intros Hi H. destruct s as [|x s]; [exact Hi|]. inversion H; subst. assumption. Qed.

Lemma sched_walk_simple_le ch : forall ss init pt b t lt B,
  forallb simple_adapter ch = true -> pulls_ok ch ss B -> t <= B -> init <= B ->
  sched_walk ch ss init pt b t = Some lt -> lt <= B.
Proof.
  induction ch as [|a ch IH]; intros ss init pt b t lt B H P Ht Hi W; simpl in W; [inversion W; lia|].
  destruct ss as [|s ss]; [inversion W; lia|].
  simpl in H. apply andb_prop in H. destruct H as [Ha H]. destruct P as [P1 P2].
  destruct b; [exact (IH _ _ _ _ _ _ _ H P2 Ht Hi W)|].
  destruct a; try discriminate.
  - exact (IH _ _ _ _ _ _ _ H P2 Ht Hi W).
  - simpl in Ha. apply Z.leb_le in Ha. refine (IH _ _ _ _ _ _ _ H P2 _ Hi W). simpl. rewrite clamp_max. lia.
  - simpl in Ha. apply Z.leb_le in Ha. refine (IH _ _ _ _ _ _ _ H P2 _ Hi W). simpl. rewrite clamp_max.
    pose proof (hd_le init s B Hi P1). lia.
  - exact (IH _ _ _ _ _ _ _ H P2 Ht Hi W).
Qed.

Lemma Forall_skipn {A} (P : A -> Prop) n : forall l, Forall P l -> Forall P (skipn n l).
Proof. induction n as [|n IH]; intros l H; [exact H|]. destruct l as [|x l]; [exact H|]. inversion H; subst. apply IH; assumption. Qed.

(** a pull keeps the bound *)
Lemma pull_chain_pulls_ok ch : forall ss init pt t B,
  forallb simple_adapter ch = true -> pulls_ok ch ss B -> t <= B -> init <= B ->
  pulls_ok ch (snd (pull_chain ch ss init pt t)) B.
Proof.
  induction ch as [|a ch IH]; intros ss init pt t B H P Ht Hi; [exact I|].
  destruct ss as [|s ss]; [exact I|].
  simpl in H. apply andb_prop in H. destruct H as [Ha H]. destruct P as [P1 P2].
  destruct a; simpl.
  - specialize (IH ss init pt t B H P2 Ht Hi). destruct (pull_chain ch ss init pt t) as [[r b] s2]. simpl in *. auto.
  - simpl in Ha. apply Z.leb_le in Ha.
    assert (Ht' : clamp init (t - d) <= B) by (rewrite clamp_max; lia).
    specialize (IH ss init pt _ B H P2 Ht' Hi). destruct (pull_chain ch ss init pt (clamp init (t - d))) as [[r b] s2]. simpl in *. auto.
  - simpl in Ha. apply Z.leb_le in Ha. pose proof (hd_le init s B Hi P1) as Hh.
    assert (Ht' : clamp init (hd init s - extra) <= B) by (rewrite clamp_max; lia).
    specialize (IH ss init pt _ B H P2 Ht' Hi).
    destruct (pull_chain ch ss init pt (clamp init (hd init s - extra))) as [[r b] s2]. simpl in *. split; [|exact IH].
    unfold trim. apply Forall_skipn. apply Forall_app. split; [|constructor; [exact Ht|constructor]].
    destruct s; [constructor; [exact Hi|constructor]|exact P1].
  - assert (Ht' : (match pt with None => init | Some p => if p <? t then p else t end) <= B).
    { destruct pt as [p|]; [|exact Hi]. destruct (p <? t) eqn:E; [apply Z.ltb_lt in E; lia|exact Ht]. }
    specialize (IH ss init pt _ B H P2 Ht' Hi).
    destruct (pull_chain ch ss init pt (match pt with None => init | Some p => if p <? t then p else t end)) as [[r b] s2].
    simpl in *. auto.
  - simpl. auto.
Qed.

(** the invariant: for every input of a time component, the remembered pull times are bounded by
    max (bound of the component, initial time of the link) *)
Definition PI (cs : composition) (lk : nat -> nat -> list (list Z)) (bnd : nat -> Z) : Prop :=
  forall c k inp, is_time cs c = true -> nth_error (c_inputs (getc cs c)) k = Some inp ->
    pulls_ok (i_chain inp) (lk c k) (Z.max (bnd c) (init_of cs (i_src inp))).

Definition PInv (cs : composition) (st : state) : Prop := PI cs (s_link st) (s_time st).

Definition all_simple (cs : composition) : Prop :=
  forall c k inp, nth_error (c_inputs (getc cs c)) k = Some inp -> forallb simple_adapter (i_chain inp) = true.

Lemma PI_upd2 cs (AS : all_simple cs) lk bnd c k inp t pt :
  PI cs lk bnd ->
  (is_time cs c = true -> nth_error (c_inputs (getc cs c)) k = Some inp /\ t <= bnd c) ->
  PI cs (upd2 lk c k (snd (pull_chain (i_chain inp) (lk c k) (init_of cs (i_src inp)) pt t))) bnd.
Proof.
  intros P Hc c' k' inp' Tc' Hk'. unfold upd2.
  destruct (Nat.eqb c' c && Nat.eqb k' k) eqn:E; [|apply P; assumption].
  apply andb_prop in E. destruct E as [E1 E2]. apply Nat.eqb_eq in E1, E2. subst c' k'.
  destruct (Hc Tc') as [Hk Ht]. rewrite Hk in Hk'. inversion Hk'; subst inp'.
  apply pull_chain_pulls_ok; [exact (AS c k inp Hk)|apply P; assumption|lia|lia].
Qed.

Lemma pull_list_pres (P : state -> Prop) rec : forall ins k0 s a s' a' e,
  (forall k x s1 a1 s2 a2 e2, P s1 -> rec k x s1 a1 = (s2, a2, e2) -> P s2) ->
  P s -> pull_list rec k0 ins s a = (s', a', e) -> P s'.
Proof.
  induction ins as [|x ins IH]; intros k0 s a s' a' e Hrec Hp H; simpl in H; [inversion H; subst; exact Hp|].
  destruct (rec k0 x s a) as [[s2 a2] e2] eqn:R. pose proof (Hrec _ _ _ _ _ _ _ Hp R) as P2.
  destruct e2; [inversion H; subst; exact P2|]. eapply IH; eauto.
Qed.

Lemma pull_list_pres_idx cs c (P : state -> Prop) rec : forall ins k0 s a s' a' e,
  (forall j x, nth_error ins j = Some x -> nth_error (c_inputs (getc cs c)) (k0 + j) = Some x) ->
  (forall k x s1 a1 s2 a2 e2, nth_error (c_inputs (getc cs c)) k = Some x -> P s1 -> rec k x s1 a1 = (s2, a2, e2) -> P s2) ->
  P s -> pull_list rec k0 ins s a = (s', a', e) -> P s'.
Proof.
  induction ins as [|x ins IH]; intros k0 s a s' a' e Hidx Hrec Hp H; simpl in H; [inversion H; subst; exact Hp|].
  destruct (rec k0 x s a) as [[s2 a2] e2] eqn:R.
  assert (Hx : nth_error (c_inputs (getc cs c)) k0 = Some x).
  { specialize (Hidx O x eq_refl). now rewrite Nat.add_0_r in Hidx. }
  pose proof (Hrec _ _ _ _ _ _ _ Hx Hp R) as P2.
  destruct e2; [inversion H; subst; exact P2|]. eapply (IH (S k0)); eauto.
  intros j y Hj. specialize (Hidx (S j) y Hj). now replace (S k0 + j)%nat with (k0 + S j)%nat by lia.
Qed.

(** pulls change neither times nor counts, and keep [PI] for any bound that covers the pull time *)
Lemma pull_input_PI cs (AS : all_simple cs) bnd fuel : forall st c k inp t acc st' acc' e,
  (is_time cs c = true -> nth_error (c_inputs (getc cs c)) k = Some inp /\ t <= bnd c) ->
  PI cs (s_link st) bnd ->
  pull_input fuel cs st c k inp t acc = (st', acc', e) ->
  PI cs (s_link st') bnd /\ s_time st' = s_time st.
Proof.
  induction fuel as [|fuel IH]; intros st c k inp t acc st' acc' e Hc P H; simpl in H; [inversion H; subst; auto|].
  pose proof (PI_upd2 cs AS (s_link st) bnd c k inp t (ptime_of cs st (i_src inp)) P Hc) as P1.
  destruct (pull_chain (i_chain inp) (s_link st c k) (init_of cs (i_src inp)) (ptime_of cs st (i_src inp)) t) as [[r b] ss'].
  simpl in P1.
  destruct (is_static_src cs (i_src inp)); [inversion H; subst; auto|].
  destruct b; [inversion H; subst; auto|].
  destruct (is_time cs (fst (i_src inp))) eqn:Ts; [inversion H; subst; auto|].
  set (st1 := mkS (s_time st) (s_cnt st) (upd2 (s_link st) c k ss')) in *.
  apply (pull_list_pres (fun s => PI cs (s_link s) bnd /\ s_time s = s_time st)) in H; [exact H| |split; [exact P1|reflexivity]].
  intros k1 x s1 a1 s2 a2 e2 [Q1 Q2] R.
  destruct (IH s1 (fst (i_src inp)) k1 x r a1 s2 a2 e2) as [R1 R2]; [intros E; congruence|exact Q1|exact R|].
  split; [exact R1|congruence].
Qed.

Lemma PI_mono cs lk bnd bnd' : (forall c, bnd c <= bnd' c) -> PI cs lk bnd -> PI cs lk bnd'.
Proof. intros Hb P c k inp Tc Hk. eapply pulls_ok_mono; [|apply P; eassumption]. specialize (Hb c). lia. Qed.

Lemma do_update_PInv cs (W : wf cs) (AS : all_simple cs) st c acc st' acc' e :
  is_time cs c = true -> PInv cs st -> do_update cs st c acc = (st', acc', e) -> PInv cs st'.
Proof.
  intros Tc P H. unfold do_update, pull_all in H.
  set (nt := next_time cs st c) in *.
  destruct (pull_list (fun k x s a => pull_input (S (length cs)) cs s c k x nt a) O (c_inputs (getc cs c)) st (EU c nt :: acc))
    as [[st1 acc1] e1] eqn:PL.
  inversion H; subst st' acc' e. clear H.
  pose proof (next_time_gt cs W st c Tc) as Hgt. fold nt in Hgt.
  set (bnd := upd (s_time st) c nt).
  assert (Hb : forall x, s_time st x <= bnd x).
  { intros x. unfold bnd, upd. destruct (Nat.eqb x c) eqn:E; [apply Nat.eqb_eq in E; subst; lia|lia]. }
  assert (Hbc : bnd c = nt) by (unfold bnd, upd; now rewrite Nat.eqb_refl).
  apply (pull_list_pres_idx cs c (fun s => PI cs (s_link s) bnd /\ s_time s = s_time st)) in PL.
  - destruct PL as [Q1 Q2]. unfold PInv. cbn [s_link s_time]. rewrite Q2. exact Q1.
  - intros j x Hj. exact Hj.
  - intros k x s1 a1 s2 a2 e2 Hx [Q1 Q2] R.
    destruct (pull_input_PI cs AS bnd _ _ _ _ _ _ _ _ _ _ (fun _ => conj Hx (Z.eq_le_incl _ _ (eq_sym Hbc))) Q1 R) as [R1 R2].
    split; [exact R1|congruence].
  - split; [|reflexivity]. eapply PI_mono; [exact Hb|exact P].
Qed.

(** the state after connect *)
Lemma init_pulls_PI cs (AS : all_simple cs) bnd c : forall ins k lk,
  (is_time cs c = true -> t0_of cs <= bnd c) ->
  (forall j x, nth_error ins j = Some x -> nth_error (c_inputs (getc cs c)) (k + j) = Some x) ->
  PI cs lk bnd -> PI cs (init_pulls_from cs c k ins lk) bnd.
Proof.
  induction ins as [|x ins IH]; intros k lk Hb Hidx P; [exact P|]. simpl.
  assert (Hx : nth_error (c_inputs (getc cs c)) k = Some x).
  { specialize (Hidx O x eq_refl). now rewrite Nat.add_0_r in Hidx. }
  pose proof (PI_upd2 cs AS lk bnd c k x (t0_of cs) None P (fun Tc => conj Hx (Hb Tc))) as P1.
  destruct (pull_chain (i_chain x) (lk c k) (init_of cs (i_src x)) None (t0_of cs)) as [[r b] ss']. simpl in P1.
  apply IH; [exact Hb| |exact P1].
  intros j y Hj. specialize (Hidx (S j) y Hj). now replace (S k + j)%nat with (k + S j)%nat by lia.
Qed.

Lemma init_links_PI cs (AS : all_simple cs) bnd :
  (forall c, is_time cs c = true -> t0_of cs <= bnd c) ->
  forall l k lk, (forall j x, nth_error l j = Some x -> nth_error cs (k + j) = Some x) ->
  PI cs lk bnd -> PI cs (init_links cs k l lk) bnd.
Proof.
  intros Hb. induction l as [|x l IH]; intros k lk Hidx P; [exact P|]. simpl.
  assert (Hx : nth_error cs k = Some x).
  { specialize (Hidx O x eq_refl). now rewrite Nat.add_0_r in Hidx. }
  apply IH.
  - intros j y Hj. specialize (Hidx (S j) y Hj). now replace (S k + j)%nat with (k + S j)%nat by lia.
  - destruct (c_kind x) as [s0 steps [|]|] eqn:K; try exact P.
    apply init_pulls_PI; [exact AS|apply Hb| |exact P].
    intros j y Hj. unfold getc. rewrite (nth_error_nth _ _ _ Hx). exact Hj.
Qed.

Lemma init_state_PInv cs (AS : all_simple cs) : PInv cs (init_state cs).
Proof.
  unfold PInv, init_state. cbn [s_link s_time].
  apply init_links_PI; [exact AS| |intros j x Hj; exact Hj|].
  - intros c Tc. pose proof (t0_le_init cs (c, O)) as H. unfold init_of in H. simpl in H.
    unfold is_time in Tc. destruct (c_kind (getc cs c)); [exact H|discriminate].
  - intros c k inp Tc Hk. unfold empty_links. rewrite (nth_error_nth _ _ _ Hk). apply pulls_ok_empty.
Qed.

Definition Smax (cs : composition) : Z :=
  fold_right Z.max 1 (map (S_of cs) (seq O (length cs))).

Lemma fold_max_ge (l : list Z) d x : In x l -> x <= fold_right Z.max d l.
Proof. induction l as [|y l IH]; intros H; [destruct H|]. simpl. destruct H as [->|H]; [lia|]. specialize (IH H). lia. Qed.

Lemma fold_max_ge_d (l : list Z) d : d <= fold_right Z.max d l.
Proof. induction l as [|y l IH]; simpl; lia. Qed.

Lemma S_of_le_Smax cs c : S_of cs c <= Smax cs.
Proof.
  destruct (le_lt_dec (length cs) c) as [Hge|Hlt].
  - unfold S_of, getc. rewrite nth_overflow by exact Hge. simpl. pose proof (fold_max_ge_d (map (S_of cs) (seq 0 (length cs))) 1).
    unfold Smax. lia.
  - unfold Smax. apply fold_max_ge. apply in_map. apply in_seq. lia.
Qed.

Lemma Smax_pos cs : 1 <= Smax cs.
Proof. unfold Smax. apply fold_max_ge_d. Qed.

Lemma update_rec_time_bound cs rank (T : term_ok cs rank) st acc (Hinv : Inv cs st) (HP : PInv cs st) fuel :
  forall c chain tgt u st' acc' e X,
  update_rec fuel cs st acc c chain tgt = UUpdated u st' acc' e ->
  t0_of cs <= X ->
  (is_time cs c = true -> s_time st c <= X) -> (is_time cs c = false -> tgt <= X) ->
  s_time st u <= X + Z.of_nat fuel * Smax cs.
Proof.
  destruct Hinv as [Itime Ilen]. pose proof (Smax_pos cs) as Sp.
  induction fuel as [|fuel IH]; intros c chain tgt u st' acc' e X H HX H1 H2; simpl in H; [discriminate|].
  destruct (existsb (key_eqb (chain_key cs c tgt)) chain); [discriminate|].
  set (rec := fun c' t' => update_rec fuel cs st acc c' (chain_key cs c tgt :: chain) t') in H.
  match type of H with dep_loop cs rec ?f ?d = _ => destruct (dep_loop_inv cs rec f d _ H) as [[Hfin _]|[o [lt [Hin Hc]]]] end.
  - destruct (is_time cs c) eqn:Tc; [|discriminate].
    destruct (do_update cs st c acc) as [[s1 a1] e1]. inversion Hfin; subst. specialize (H1 eq_refl). nia.
  - destruct (find_deps_sound _ _ _ _ _ _ Hin) as [k [inp [Hk [Ho [Hr Hlag]]]]]. subst o.
    set (src := fst (i_src inp)) in *.
    set (tgt' := if is_time cs c then next_time cs st c else tgt) in *.
    assert (Ht' : tgt' <= X + Smax cs).
    { unfold tgt'. destruct (is_time cs c) eqn:Tc.
      - pose proof (next_time_le cs st c Tc). pose proof (S_of_le_Smax cs c). specialize (H1 eq_refl). lia.
      - specialize (H2 eq_refl). lia. }
    assert (Hlt : lt <= Z.max tgt' (init_of cs (i_src inp))).
    { apply link_req_some in Hr. destruct Hr as [_ Hr].
      eapply sched_walk_simple_le; [exact (to_simple cs rank T c k inp Hk)| | | |exact Hr]; [|lia|lia].
      destruct (is_time cs c) eqn:Tc.
      - eapply pulls_ok_mono; [|exact (HP c k inp Tc Hk)].
        pose proof (next_time_gt cs (to_wf cs rank T) st c Tc). unfold tgt'. lia.
      - apply pulls_ok_no_topull.
        pose proof (wf_chain cs (to_wf cs rank T) c k inp Hk) as Wc. unfold chain_wf in Wc. rewrite Tc in Wc.
        apply andb_prop in Wc. destruct Wc as [_ Wc]. exact Wc. }
    replace (X + Z.of_nat (S fuel) * Smax cs) with ((X + Smax cs) + Z.of_nat fuel * Smax cs) by lia.
    destruct Hc as [[Ti Hrec]|[Tp [Hrec _]]]; unfold rec in Hrec; symmetry in Hrec.
    + specialize (Hlag Ti). specialize (Itime src (snd (i_src inp)) Ti).
      assert (init_of cs (i_src inp) = init_of cs (src, snd (i_src inp))) by (unfold src; destruct (i_src inp); reflexivity).
      eapply IH; [exact Hrec|lia|intros _; lia|intros E; congruence].
    + assert (init_of cs (i_src inp) = t0_of cs).
      { unfold init_of. fold src. unfold is_time in Tp. destruct (c_kind (getc cs src)); [discriminate|reflexivity]. }
      eapply IH; [exact Hrec|lia|intros E; congruence|intros _; lia].
Qed.

Definition maxstart (cs : composition) : Z :=
  fold_right Z.max (t0_of cs) (map (fun c => init_of cs (c, O)) (seq O (length cs))).

Definition Bound (cs : composition) (endt : Z) : Z :=
  Z.max (maxstart cs) endt + (Z.of_nat (rec_fuel cs) + 1) * Smax cs.

Definition term (cs : composition) (endt : Z) (st : state) (c : nat) : Z :=
  if is_time cs c then Bound cs endt - s_time st c else 0.

Definition Phi (cs : composition) (endt : Z) (st : state) : Z :=
  fold_right Z.add 0 (map (term cs endt st) (seq O (length cs))).

Definition TB (cs : composition) (endt : Z) (st : state) : Prop :=
  forall c, is_time cs c = true -> s_time st c <= Bound cs endt.

Lemma sum_nonneg (l : list Z) : (forall x, In x l -> 0 <= x) -> 0 <= fold_right Z.add 0 l.
Proof. induction l as [|y l IH]; intros H; simpl; [lia|]. pose proof (H y (or_introl eq_refl)). specialize (IH (fun x Hx => H x (or_intror Hx))). lia. Qed.

Lemma Phi_nonneg cs endt st : TB cs endt st -> 0 <= Phi cs endt st.
Proof.
  intros H. unfold Phi. apply sum_nonneg. intros x Hx. apply in_map_iff in Hx. destruct Hx as [c [<- _]].
  unfold term. destruct (is_time cs c) eqn:Tc; [specialize (H c Tc); lia|lia].
Qed.

Lemma sum_decrease (f g : nat -> Z) (l : list nat) u :
  NoDup l -> In u l -> g u <= f u - 1 -> (forall x, x <> u -> g x = f x) ->
  fold_right Z.add 0 (map g l) <= fold_right Z.add 0 (map f l) - 1.
Proof.
  induction l as [|y l IH]; intros ND Hin Hu Ho; [destruct Hin|].
  inversion ND as [|? ? Hny ND']; subst. simpl. destruct Hin as [->|Hin].
  - assert (E : map g l = map f l).
    { apply map_ext_in. intros x Hx. apply Ho. intros ->. exact (Hny Hx). }
    rewrite E. lia.
  - specialize (IH ND' Hin Hu Ho). rewrite (Ho y) by (intros ->; exact (Hny Hin)). lia.
Qed.

Lemma maxstart_ge cs c o : is_time cs c = true -> init_of cs (c, o) <= maxstart cs.
Proof.
  intros Tc. unfold maxstart. replace (init_of cs (c, o)) with (init_of cs (c, O)) by reflexivity.
  apply fold_max_ge. apply in_map_iff. exists c. split; [reflexivity|]. apply in_seq. pose proof (is_time_lt cs c Tc). lia.
Qed.

Lemma maxstart_ge_t0 cs : t0_of cs <= maxstart cs.
Proof. unfold maxstart. apply fold_max_ge_d. Qed.

(** the run loop does not exhaust [fuel] once [fuel] exceeds the remaining distance [Phi] *)
Lemma run_loop_nofuel cs rank (T : term_ok cs rank) endt fuel : forall st acc o st' acc',
  Inv cs st -> PInv cs st -> TB cs endt st ->
  (any_running st O cs endt = true \/ forall c, is_time cs c = true -> s_time st c <= maxstart cs) ->
  (Z.to_nat (Phi cs endt st) < fuel)%nat ->
  run_loop fuel cs endt st acc = (o, st', acc') -> o <> OFuel.
Proof.
  pose proof (to_wf cs rank T) as W. pose proof (Smax_pos cs) as Sp.
  induction fuel as [|fuel IH]; intros st acc o st' acc' Hinv HP Htb Hx Hf H; [lia|].
  cbn [run_loop] in H.
  destruct (pick_min cs st 0 cs None) as [c0|] eqn:PM; [|inversion H; discriminate].
  destruct (pick_min_spec cs st c0 PM) as [L0 [T0 Min]].
  destruct (update_rec (rec_fuel cs) cs st acc c0 [] 0) as [u st1 acc1 e1| | |] eqn:U.
  - destruct (update_rec_ok cs W _ _ _ _ _ _ _ _ _ _ Hinv U) as [_ [_ [_ [I1 [T1 T2]]]]].
    destruct (update_rec_props (rec_fuel cs) cs st acc c0 [] 0) as [_ HB].
    destruct (HB _ _ _ _ U) as [Tu [Du _]].
    pose proof (do_update_nofuel cs rank T st u acc st1 acc1 e1 Du) as NF.
    destruct e1 as [[| |]|]; try (inversion H; discriminate); [congruence|].
    destruct (any_running st1 0 cs endt) eqn:AR1; [|inversion H; discriminate].
    (* the time of the least advanced component is at most max(maxstart, endt) *)
    assert (HX0 : s_time st c0 <= Z.max (maxstart cs) endt).
    { destruct Hx as [AR|Hs]; [|specialize (Hs c0 T0); lia].
      destruct (any_running_true st endt cs O AR) as [j [x [Hj [Hxk Hlt]]]]. simpl in Hlt.
      assert (Lj : (j < length cs)%nat) by (apply nth_error_Some; congruence).
      assert (Tj : is_time cs j = true).
      { unfold is_time, getc. rewrite (nth_error_nth _ _ _ Hj). destruct Hxk as [s0 [st0 [ip Hxk]]]. now rewrite Hxk. }
      destruct (Min j Lj Tj) as [Hle _]. lia. }
    assert (Hu : s_time st u <= Z.max (maxstart cs) endt + Z.of_nat (rec_fuel cs) * Smax cs).
    { eapply (update_rec_time_bound cs rank T st acc Hinv HP); [exact U| |intros _; exact HX0|intros E; congruence].
      pose proof (maxstart_ge_t0 cs). lia. }
    assert (Hnew : s_time st1 u <= Bound cs endt).
    { rewrite T1. pose proof (next_time_le cs st u Tu). pose proof (S_of_le_Smax cs u). unfold Bound. nia. }
    assert (Htb1 : TB cs endt st1).
    { intros c Tc. destruct (Nat.eq_dec c u) as [->|Ne]; [exact Hnew|]. rewrite T2 by exact Ne. apply Htb; exact Tc. }
    assert (Hphi : Phi cs endt st1 <= Phi cs endt st - 1).
    { unfold Phi. apply (sum_decrease _ _ _ u).
      - apply seq_NoDup.
      - apply in_seq. pose proof (is_time_lt cs u Tu). lia.
      - unfold term. rewrite Tu, T1. pose proof (next_time_gt cs W st u Tu). lia.
      - intros x Hxu. unfold term. rewrite T2 by exact Hxu. reflexivity. }
    pose proof (Phi_nonneg cs endt st1 Htb1). pose proof (Phi_nonneg cs endt st Htb).
    eapply IH; [exact I1|exact (do_update_PInv cs W (to_simple cs rank T) st u acc st1 acc1 None Tu HP Du)|exact Htb1|left; exact AR1| |exact H].
    apply Nat.succ_lt_mono in Hf. lia.
  - exfalso. destruct (update_rec_props (rec_fuel cs) cs st acc c0 [] 0) as [HA _].
    destruct (HA U) as [Hf' _]. congruence.
  - inversion H; discriminate.
  - exfalso. exact (update_rec_top_nofuel cs rank T st acc c0 T0 U).
Qed.

Lemma init_time_is_start cs c : is_time cs c = true -> s_time (init_state cs) c = init_of cs (c, O).
Proof.
  unfold init_state, init_of, is_time; simpl. destruct (c_kind (getc cs c)); [reflexivity|discriminate].
Qed.

Lemma init_TB cs endt : TB cs endt (init_state cs).
Proof.
  intros c Tc. unfold Bound. pose proof (Smax_pos cs).
  assert (s_time (init_state cs) c <= maxstart cs).
  { rewrite (init_time_is_start cs c Tc). apply maxstart_ge; exact Tc. }
  nia.
Qed.

(** C03_terminates *)
Lemma run_terminates cs rank endt :
  term_ok cs rank ->
  exists F, forall fuel o st acc, (F <= fuel)%nat -> run fuel cs endt = (o, st, acc) -> o <> OFuel.
Proof.
  intros T. exists (S (Z.to_nat (Phi cs endt (init_state cs)))).
  intros fuel o st acc Hf H. unfold run in H.
  eapply (run_loop_nofuel cs rank T endt fuel); [apply init_state_Inv|apply init_state_PInv; exact (to_simple cs rank T)|apply init_TB| |lia|exact H].
  right. intros c Tc.
  rewrite (init_time_is_start cs c Tc). apply maxstart_ge; exact Tc.
Qed.
