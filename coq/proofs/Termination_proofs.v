(** C03: a run terminates — an explicit amount of fuel beyond which [run] never returns [OFuel].

    Three things can exhaust fuel in the model: the recursion of [_update_recursive] ([rec_fuel]), the
    recursion of a pull through pull-based components, and the run loop itself.  For compositions whose
    links carry pass-through adapters, non-negative fixed delays and buffering adapters, and whose pull-based
    components form no cycle among themselves, none of them does. *)
From Coq Require Import List ZArith Bool Arith Lia.
From FV Require Import Base Sched.
From FVP Require Import Adapters_proofs Sched_proofs Confluence_proofs.
Import ListNotations.
Open Scope Z_scope.

Definition simple_adapter (a : adapter) : bool :=
  match a with APass | ABuf => true | AFixed d => 0 <=? d | _ => false end.

Record term_ok (cs : composition) (rank : nat -> nat) : Prop := {
  to_wf : wf cs;
  to_simple : forall c k inp, nth_error (c_inputs (getc cs c)) k = Some inp ->
                forallb simple_adapter (i_chain inp) = true;
  to_rank : forall c k inp, nth_error (c_inputs (getc cs c)) k = Some inp ->
                is_time cs c = false -> is_time cs (fst (i_src inp)) = false ->
                (rank (fst (i_src inp)) < rank c)%nat;
  to_rank_bound : forall c, (rank c < length cs)%nat
}.

(** ** 1. pulls never run out of fuel *)

Lemma pull_list_nofuel rec : forall ins k0 s a s' a' e,
  (forall k x s1 a1 s2 a2 e2, In x ins -> rec k x s1 a1 = (s2, a2, e2) -> e2 <> Some EFuel) ->
  pull_list rec k0 ins s a = (s', a', e) -> e <> Some EFuel.
Proof.
  induction ins as [|x ins IH]; intros k0 s a s' a' e Hrec H; simpl in H; [inversion H; discriminate|].
  destruct (rec k0 x s a) as [[s2 a2] e2] eqn:R.
  pose proof (Hrec _ _ _ _ _ _ _ (or_introl eq_refl) R) as E2.
  destruct e2 as [e2|]; [inversion H; subst; exact E2|].
  eapply IH; [|exact H]. intros. eapply Hrec; [right; eassumption|eassumption].
Qed.

Definition need_fuel (cs : composition) (rank : nat -> nat) (x : input) : nat :=
  (1 + (if is_time cs (fst (i_src x)) then 0 else 1 + rank (fst (i_src x))))%nat.

Lemma pull_input_nofuel cs rank (T : term_ok cs rank) fuel : forall s c k x t a s2 a2 e2,
  (need_fuel cs rank x <= fuel)%nat ->
  pull_input fuel cs s c k x t a = (s2, a2, e2) -> e2 <> Some EFuel.
Proof.
  unfold need_fuel.
  induction fuel as [|fuel IH]; intros s c k x t a s2 a2 e2 Hf H; [lia|].
  simpl in H. destruct (pull_chain _ _ _ _ _) as [[r b] ss'].
  destruct (is_static_src cs (i_src x)); [inversion H; discriminate|].
  destruct b; [inversion H; destruct (_ && _); discriminate|].
  destruct (is_time cs (fst (i_src x))) eqn:Ts; [inversion H; destruct (_ && _); discriminate|].
  eapply pull_list_nofuel; [|exact H].
  intros k1 x1 s1 a1 s3 a3 e3 Hin R.
  apply In_nth_error in Hin. destruct Hin as [k' Hk'].
  eapply IH; [|exact R].
  destruct (is_time cs (fst (i_src x1))) eqn:T1; [lia|].
  pose proof (to_rank cs rank T (fst (i_src x)) k' x1 Hk' Ts T1). lia.
Qed.

Lemma do_update_nofuel cs rank (T : term_ok cs rank) st c acc st' acc' e :
  do_update cs st c acc = (st', acc', e) -> e <> Some EFuel.
Proof.
  unfold do_update, pull_all.
  destruct (pull_list _ _ _ _ _) as [[st1 acc1] e1] eqn:PL. intros H. inversion H; subst.
  eapply pull_list_nofuel; [|exact PL].
  intros k x s1 a1 s2 a2 e2 Hin R. eapply (pull_input_nofuel cs rank T); [|exact R].
  unfold need_fuel. pose proof (to_rank_bound cs rank T (fst (i_src x))).
  destruct (is_time cs (fst (i_src x))); lia.
Qed.

(** ** 2. the recursion of _update_recursive never runs out of fuel *)

Definition is_free (cs : composition) (chain : list (nat * Z)) (c : nat) : bool :=
  is_time cs c && negb (existsb (key_eqb (c, 0%Z)) chain).

Definition freeT (cs : composition) (chain : list (nat * Z)) : nat :=
  length (filter (is_free cs chain) (seq O (length cs))).

Definition need_rec (cs : composition) (rank : nat -> nat) (chain : list (nat * Z)) (c : nat) : nat :=
  if is_time cs c then
    (if existsb (key_eqb (c, 0%Z)) chain then 1 else freeT cs chain * (length cs + 2))%nat
  else (freeT cs chain * (length cs + 2) + rank c + 2)%nat.

Lemma is_time_lt cs c : is_time cs c = true -> (c < length cs)%nat.
Proof.
  intros H. destruct (le_lt_dec (length cs) c) as [Hge|]; [|assumption].
  unfold is_time, getc in H. rewrite nth_overflow in H by exact Hge. discriminate.
Qed.

Lemma filter_len_mono {A} (f g : A -> bool) l :
  (forall x, In x l -> g x = true -> f x = true) -> (length (filter g l) <= length (filter f l))%nat.
Proof.
  induction l as [|x l IH]; intros H; simpl; [lia|].
  assert (IH' := IH (fun y Hy => H y (or_intror Hy))).
  destruct (g x) eqn:G; [rewrite (H x (or_introl eq_refl) G); simpl; lia|].
  destruct (f x); simpl; lia.
Qed.

Lemma filter_len_lt {A} (f g : A -> bool) l x0 :
  (forall x, In x l -> g x = true -> f x = true) -> In x0 l -> f x0 = true -> g x0 = false ->
  (length (filter g l) < length (filter f l))%nat.
Proof.
  induction l as [|x l IH]; intros H Hin F G; [destruct Hin|]. simpl.
  destruct Hin as [->|Hin].
  - rewrite F, G. simpl. pose proof (filter_len_mono f g l (fun y Hy => H y (or_intror Hy))). lia.
  - assert (IH' := IH (fun y Hy => H y (or_intror Hy)) Hin F G).
    destruct (g x) eqn:Gx; [rewrite (H x (or_introl eq_refl) Gx); simpl; lia|].
    destruct (f x); simpl; lia.
Qed.

Lemma key_eqb_refl k : key_eqb k k = true.
Proof. unfold key_eqb. now rewrite Nat.eqb_refl, Z.eqb_refl. Qed.

Lemma freeT_push_T cs chain c :
  is_time cs c = true -> existsb (key_eqb (c, 0%Z)) chain = false ->
  (freeT cs ((c, 0%Z) :: chain) < freeT cs chain)%nat.
Proof.
  intros Tc Hn. unfold freeT. apply (filter_len_lt _ _ _ c).
  - intros x _ H. unfold is_free in *. apply andb_prop in H. destruct H as [H1 H2].
    rewrite H1. simpl in H2. apply negb_true_iff in H2. apply orb_false_elim in H2. destruct H2 as [_ H2].
    now rewrite H2.
  - apply in_seq. pose proof (is_time_lt cs c Tc). lia.
  - unfold is_free. now rewrite Tc, Hn.
  - unfold is_free. simpl. rewrite key_eqb_refl. simpl. now rewrite andb_false_r.
Qed.

Lemma freeT_push_P cs chain p t :
  is_time cs p = false -> freeT cs ((p, t) :: chain) = freeT cs chain.
Proof.
  intros Tp. unfold freeT. f_equal. apply filter_ext_in. intros x _. unfold is_free. simpl.
  destruct (is_time cs x) eqn:Tx; [|reflexivity]. simpl. f_equal.
  assert (E : key_eqb (x, 0%Z) (p, t) = false).
  { unfold key_eqb. simpl. destruct (Nat.eqb x p) eqn:E; [|reflexivity]. apply Nat.eqb_eq in E. congruence. }
  now rewrite E.
Qed.

Lemma update_rec_nofuel cs rank (T : term_ok cs rank) st acc fuel : forall c chain tgt,
  (need_rec cs rank chain c <= fuel)%nat -> update_rec fuel cs st acc c chain tgt <> UFuel.
Proof.
  induction fuel as [|fuel IH]; intros c chain tgt Hf.
  - exfalso. unfold need_rec in Hf. destruct (is_time cs c) eqn:Tc; [|lia].
    destruct (existsb (key_eqb (c, 0%Z)) chain) eqn:E; [lia|].
    pose proof (freeT_push_T cs chain c Tc E). destruct (freeT cs chain); simpl in Hf; lia.
  - simpl. destruct (existsb (key_eqb (chain_key cs c tgt)) chain) eqn:Ex; [discriminate|].
    intros H.
    set (rec := fun c' t' => update_rec fuel cs st acc c' (chain_key cs c tgt :: chain) t') in H.
    match type of H with dep_loop cs rec ?f ?d = _ => destruct (dep_loop_inv cs rec f d _ H) as [[Hfin _]|[o [lt [Hin Hc]]]] end.
    + destruct (is_time cs c); [destruct (do_update cs st c acc) as [[? ?] ?]|]; discriminate.
    + destruct (find_deps_sound _ _ _ _ _ _ Hin) as [k [inp [Hk [Ho _]]]]. subst o.
      set (src := fst (i_src inp)) in *.
      assert (Hneed : (need_rec cs rank (chain_key cs c tgt :: chain) src <= fuel)%nat).
      { unfold need_rec in *. unfold chain_key in *.
        pose proof (to_rank_bound cs rank T src) as Rb.
        destruct (is_time cs c) eqn:Tc.
        - (* c is a free time component *)
          rewrite Ex in Hf. pose proof (freeT_push_T cs chain c Tc Ex) as Hlt.
          pose proof (is_time_lt cs c Tc) as Lc.
          destruct (is_time cs src) eqn:Ts.
          + destruct (existsb (key_eqb (src, 0%Z)) ((c, 0%Z) :: chain)); nia.
          + nia.
        - rewrite (freeT_push_P cs chain c tgt Tc).
          destruct (is_time cs src) eqn:Ts.
          + destruct (existsb (key_eqb (src, 0%Z)) ((c, tgt) :: chain)); nia.
          + pose proof (to_rank cs rank T c k inp Hk Tc Ts). fold src in H0. nia. }
      destruct Hc as [[Ti Hrec]|[Tp [Hrec _]]]; unfold rec in Hrec; symmetry in Hrec;
        exact (IH _ _ _ Hneed Hrec).
Qed.

Lemma update_rec_top_nofuel cs rank (T : term_ok cs rank) st acc c :
  is_time cs c = true -> update_rec (rec_fuel cs) cs st acc c [] 0 <> UFuel.
Proof.
  intros Tc. apply (update_rec_nofuel cs rank T). unfold need_rec, rec_fuel. rewrite Tc. simpl.
  assert (freeT cs [] <= length cs)%nat.
  { unfold freeT. rewrite <- (seq_length (length cs) O) at 2.
    generalize (seq O (length cs)). intros l. induction l as [|x l IHl]; simpl; [lia|].
    destruct (is_free cs [] x); simpl; lia. }
  nia.
Qed.

(** ** 3. the run loop: all times stay below a bound, every update consumes some of the distance to it *)

Lemma sched_walk_simple_le ch : forall ss init pt b t lt,
  forallb simple_adapter ch = true ->
  sched_walk ch ss init pt b t = Some lt -> lt <= Z.max t init.
Proof.
  induction ch as [|a ch IH]; intros ss init pt b t lt H W; simpl in W; [inversion W; lia|].
  destruct ss as [|s ss]; [inversion W; lia|].
  simpl in H. apply andb_prop in H. destruct H as [Ha H].
  destruct b; [specialize (IH _ _ _ _ _ _ H W); lia|].
  destruct a; try discriminate.
  - specialize (IH _ _ _ _ _ _ H W). lia.
  - simpl in Ha. apply Z.leb_le in Ha. specialize (IH _ _ _ _ _ _ H W). simpl in IH. rewrite clamp_max in IH. lia.
  - specialize (IH _ _ _ _ _ _ H W). lia.
Qed.

Definition Smax (cs : composition) : Z :=
  fold_right Z.max 1 (map (S_of cs) (seq O (length cs))).

Lemma fold_max_ge (l : list Z) d x : In x l -> x <= fold_right Z.max d l.
Proof. induction l as [|y l IH]; intros H; [destruct H|]. simpl. destruct H as [->|H]; [lia|]. specialize (IH H). lia. Qed.

Lemma fold_max_ge_d (l : list Z) d : d <= fold_right Z.max d l.
Proof. induction l as [|y l IH]; simpl; lia. Qed.

Lemma S_of_le_Smax cs c : S_of cs c <= Smax cs.
Proof.
  destruct (le_lt_dec (length cs) c) as [Hge|Hlt].
  - unfold S_of, getc. rewrite nth_overflow by exact Hge. simpl. pose proof (fold_max_ge_d (map (S_of cs) (seq 0 (length cs))) 1).
    unfold Smax. lia.
  - unfold Smax. apply fold_max_ge. apply in_map. apply in_seq. lia.
Qed.

Lemma Smax_pos cs : 1 <= Smax cs.
Proof. unfold Smax. apply fold_max_ge_d. Qed.

Lemma update_rec_time_bound cs rank (T : term_ok cs rank) st acc (Hinv : Inv cs st) fuel :
  forall c chain tgt u st' acc' e X,
  update_rec fuel cs st acc c chain tgt = UUpdated u st' acc' e ->
  t0_of cs <= X ->
  (is_time cs c = true -> s_time st c <= X) -> (is_time cs c = false -> tgt <= X) ->
  s_time st u <= X + Z.of_nat fuel * Smax cs.
Proof.
  destruct Hinv as [Itime Ilen]. pose proof (Smax_pos cs) as Sp.
  induction fuel as [|fuel IH]; intros c chain tgt u st' acc' e X H HX H1 H2; simpl in H; [discriminate|].
  destruct (existsb (key_eqb (chain_key cs c tgt)) chain); [discriminate|].
  set (rec := fun c' t' => update_rec fuel cs st acc c' (chain_key cs c tgt :: chain) t') in H.
  match type of H with dep_loop cs rec ?f ?d = _ => destruct (dep_loop_inv cs rec f d _ H) as [[Hfin _]|[o [lt [Hin Hc]]]] end.
  - destruct (is_time cs c) eqn:Tc; [|discriminate].
    destruct (do_update cs st c acc) as [[s1 a1] e1]. inversion Hfin; subst. specialize (H1 eq_refl). nia.
  - destruct (find_deps_sound _ _ _ _ _ _ Hin) as [k [inp [Hk [Ho [Hr Hlag]]]]]. subst o.
    set (src := fst (i_src inp)) in *.
    set (tgt' := if is_time cs c then next_time cs st c else tgt) in *.
    assert (Ht' : tgt' <= X + Smax cs).
    { unfold tgt'. destruct (is_time cs c) eqn:Tc.
      - pose proof (next_time_le cs st c Tc). pose proof (S_of_le_Smax cs c). specialize (H1 eq_refl). lia.
      - specialize (H2 eq_refl). lia. }
    assert (Hlt : lt <= Z.max tgt' (init_of cs (i_src inp))).
    { apply link_req_some in Hr. destruct Hr as [_ Hr]. eapply sched_walk_simple_le; [exact (to_simple cs rank T c k inp Hk)|exact Hr]. }
    replace (X + Z.of_nat (S fuel) * Smax cs) with ((X + Smax cs) + Z.of_nat fuel * Smax cs) by lia.
    destruct Hc as [[Ti Hrec]|[Tp [Hrec _]]]; unfold rec in Hrec; symmetry in Hrec.
    + specialize (Hlag Ti). specialize (Itime src (snd (i_src inp)) Ti).
      assert (init_of cs (i_src inp) = init_of cs (src, snd (i_src inp))) by (unfold src; destruct (i_src inp); reflexivity).
      eapply IH; [exact Hrec|lia|intros _; lia|intros E; congruence].
    + assert (init_of cs (i_src inp) = t0_of cs).
      { unfold init_of. fold src. unfold is_time in Tp. destruct (c_kind (getc cs src)); [discriminate|reflexivity]. }
      eapply IH; [exact Hrec|lia|intros E; congruence|intros _; lia].
Qed.

Definition maxstart (cs : composition) : Z :=
  fold_right Z.max (t0_of cs) (map (fun c => init_of cs (c, O)) (seq O (length cs))).

Definition Bound (cs : composition) (endt : Z) : Z :=
  Z.max (maxstart cs) endt + (Z.of_nat (rec_fuel cs) + 1) * Smax cs.

Definition term (cs : composition) (endt : Z) (st : state) (c : nat) : Z :=
  if is_time cs c then Bound cs endt - s_time st c else 0.

Definition Phi (cs : composition) (endt : Z) (st : state) : Z :=
  fold_right Z.add 0 (map (term cs endt st) (seq O (length cs))).

Definition TB (cs : composition) (endt : Z) (st : state) : Prop :=
  forall c, is_time cs c = true -> s_time st c <= Bound cs endt.

Lemma sum_nonneg (l : list Z) : (forall x, In x l -> 0 <= x) -> 0 <= fold_right Z.add 0 l.
Proof. induction l as [|y l IH]; intros H; simpl; [lia|]. pose proof (H y (or_introl eq_refl)). specialize (IH (fun x Hx => H x (or_intror Hx))). lia. Qed.

Lemma Phi_nonneg cs endt st : TB cs endt st -> 0 <= Phi cs endt st.
Proof.
  intros H. unfold Phi. apply sum_nonneg. intros x Hx. apply in_map_iff in Hx. destruct Hx as [c [<- _]].
  unfold term. destruct (is_time cs c) eqn:Tc; [specialize (H c Tc); lia|lia].
Qed.

Lemma sum_decrease (f g : nat -> Z) (l : list nat) u :
  NoDup l -> In u l -> g u <= f u - 1 -> (forall x, x <> u -> g x = f x) ->
  fold_right Z.add 0 (map g l) <= fold_right Z.add 0 (map f l) - 1.
Proof.
  induction l as [|y l IH]; intros ND Hin Hu Ho; [destruct Hin|].
  inversion ND as [|? ? Hny ND']; subst. simpl. destruct Hin as [->|Hin].
  - assert (E : map g l = map f l).
    { apply map_ext_in. intros x Hx. apply Ho. intros ->. exact (Hny Hx). }
    rewrite E. lia.
  - specialize (IH ND' Hin Hu Ho). rewrite (Ho y) by (intros ->; exact (Hny Hin)). lia.
Qed.

Lemma maxstart_ge cs c o : is_time cs c = true -> init_of cs (c, o) <= maxstart cs.
Proof.
  intros Tc. unfold maxstart. replace (init_of cs (c, o)) with (init_of cs (c, O)) by reflexivity.
  apply fold_max_ge. apply in_map_iff. exists c. split; [reflexivity|]. apply in_seq. pose proof (is_time_lt cs c Tc). lia.
Qed.

Lemma maxstart_ge_t0 cs : t0_of cs <= maxstart cs.
Proof. unfold maxstart. apply fold_max_ge_d. Qed.

(** the run loop does not exhaust [fuel] once [fuel] exceeds the remaining distance [Phi] *)
Lemma run_loop_nofuel cs rank (T : term_ok cs rank) endt fuel : forall st acc o st' acc',
  Inv cs st -> TB cs endt st ->
  (any_running st O cs endt = true \/ forall c, is_time cs c = true -> s_time st c <= maxstart cs) ->
  (Z.to_nat (Phi cs endt st) < fuel)%nat ->
  run_loop fuel cs endt st acc = (o, st', acc') -> o <> OFuel.
Proof.
  pose proof (to_wf cs rank T) as W. pose proof (Smax_pos cs) as Sp.
  induction fuel as [|fuel IH]; intros st acc o st' acc' Hinv Htb Hx Hf H; [lia|].
  cbn [run_loop] in H.
  destruct (pick_min cs st 0 cs None) as [c0|] eqn:PM; [|inversion H; discriminate].
  destruct (pick_min_spec cs st c0 PM) as [L0 [T0 Min]].
  destruct (update_rec (rec_fuel cs) cs st acc c0 [] 0) as [u st1 acc1 e1| | |] eqn:U.
  - destruct (update_rec_ok cs W _ _ _ _ _ _ _ _ _ _ Hinv U) as [_ [_ [_ [I1 [T1 T2]]]]].
    destruct (update_rec_props (rec_fuel cs) cs st acc c0 [] 0) as [_ HB].
    destruct (HB _ _ _ _ U) as [Tu [Du _]].
    pose proof (do_update_nofuel cs rank T st u acc st1 acc1 e1 Du) as NF.
    destruct e1 as [[| |]|]; try (inversion H; discriminate); [congruence|].
    destruct (any_running st1 0 cs endt) eqn:AR1; [|inversion H; discriminate].
    (* the time of the least advanced component is at most max(maxstart, endt) *)
    assert (HX0 : s_time st c0 <= Z.max (maxstart cs) endt).
    { destruct Hx as [AR|Hs]; [|specialize (Hs c0 T0); lia].
      destruct (any_running_true st endt cs O AR) as [j [x [Hj [Hxk Hlt]]]]. simpl in Hlt.
      assert (Lj : (j < length cs)%nat) by (apply nth_error_Some; congruence).
      assert (Tj : is_time cs j = true).
      { unfold is_time, getc. rewrite (nth_error_nth _ _ _ Hj). destruct Hxk as [s0 [st0 [ip Hxk]]]. now rewrite Hxk. }
      destruct (Min j Lj Tj) as [Hle _]. lia. }
    assert (Hu : s_time st u <= Z.max (maxstart cs) endt + Z.of_nat (rec_fuel cs) * Smax cs).
    { eapply (update_rec_time_bound cs rank T st acc Hinv); [exact U| |intros _; exact HX0|intros E; congruence].
      pose proof (maxstart_ge_t0 cs). lia. }
    assert (Hnew : s_time st1 u <= Bound cs endt).
    { rewrite T1. pose proof (next_time_le cs st u Tu). pose proof (S_of_le_Smax cs u). unfold Bound. nia. }
    assert (Htb1 : TB cs endt st1).
    { intros c Tc. destruct (Nat.eq_dec c u) as [->|Ne]; [exact Hnew|]. rewrite T2 by exact Ne. apply Htb; exact Tc. }
    assert (Hphi : Phi cs endt st1 <= Phi cs endt st - 1).
    { unfold Phi. apply (sum_decrease _ _ _ u).
      - apply seq_NoDup.
      - apply in_seq. pose proof (is_time_lt cs u Tu). lia.
      - unfold term. rewrite Tu, T1. pose proof (next_time_gt cs W st u Tu). lia.
      - intros x Hxu. unfold term. rewrite T2 by exact Hxu. reflexivity. }
    pose proof (Phi_nonneg cs endt st1 Htb1). pose proof (Phi_nonneg cs endt st Htb).
    eapply IH; [exact I1|exact Htb1|left; exact AR1| |exact H].
    apply Nat.succ_lt_mono in Hf. lia.
  - exfalso. destruct (update_rec_props (rec_fuel cs) cs st acc c0 [] 0) as [HA _].
    destruct (HA U) as [Hf' _]. congruence.
  - inversion H; discriminate.
  - exfalso. exact (update_rec_top_nofuel cs rank T st acc c0 T0 U).
Qed.

Lemma init_time_is_start cs c : is_time cs c = true -> s_time (init_state cs) c = init_of cs (c, O).
Proof.
  unfold init_state, init_of, is_time; simpl. destruct (c_kind (getc cs c)); [reflexivity|discriminate].
Qed.

Lemma init_TB cs endt : TB cs endt (init_state cs).
Proof.
  intros c Tc. unfold Bound. pose proof (Smax_pos cs).
  assert (s_time (init_state cs) c <= maxstart cs).
  { rewrite (init_time_is_start cs c Tc). apply maxstart_ge; exact Tc. }
  nia.
Qed.

(** C03_terminates *)
Lemma run_terminates cs rank endt :
  term_ok cs rank ->
  exists F, forall fuel o st acc, (F <= fuel)%nat -> run fuel cs endt = (o, st, acc) -> o <> OFuel.
Proof.
  intros T. exists (S (Z.to_nat (Phi cs endt (init_state cs)))).
  intros fuel o st acc Hf H. unfold run in H.
  eapply (run_loop_nofuel cs rank T endt fuel); [apply init_state_Inv|apply init_TB| |lia|exact H].
  right. intros c Tc.
  rewrite (init_time_is_start cs c Tc). apply maxstart_ge; exact Tc.
Qed.
