(** Proofs about the regridding model FV.Regrid (C16). *)
From Coq Require Import List ZArith QArith Qabs Bool Arith Lia Lqa.
From FV Require Import Base Arr Regrid.
From FVP Require Import Arr_proofs.
Import ListNotations.

(** * Distances *)

Lemma Qsq_nonneg : forall a : Q, 0 <= a * a.
Proof. intros [n d]. unfold Qle, Qmult. simpl. rewrite Z.mul_1_r. apply Z.square_nonneg. Qed.

Lemma Qsq_zero : forall a : Q, a * a == 0 -> a == 0.
Proof.
  intros [n d]. unfold Qeq, Qmult. simpl. rewrite !Z.mul_1_r. intro H.
  apply Z.mul_eq_0 in H. destruct H; assumption.
Qed.

Lemma dist2_nonneg : forall p q, 0 <= dist2 p q.
Proof.
  induction p as [|x p IH]; intros [|y q]; simpl; try lra.
  specialize (IH q). pose proof (Qsq_nonneg (x - y)). lra.
Qed.

Lemma dist2_sym : forall p q, dist2 p q == dist2 q p.
Proof.
  induction p as [|x p IH]; intros [|y q]; simpl; try lra.
  rewrite (IH q). ring.
Qed.

Lemma dist2_refl : forall p, dist2 p p == 0.
Proof. induction p as [|x p IH]; simpl; [lra|]. rewrite IH. ring. Qed.

(** For points of equal dimension, distance zero means equal coordinates. *)
Lemma dist2_zero_coords : forall p q, length p = length q -> dist2 p q == 0 -> Forall2 Qeq p q.
Proof.
  induction p as [|x p IH]; intros [|y q] Hlen Hd; simpl in *; try discriminate; constructor.
  - pose proof (dist2_nonneg p q). pose proof (Qsq_nonneg (x - y)).
    assert (Hz : (x - y) * (x - y) == 0) by lra. apply Qsq_zero in Hz. lra.
  - apply IH; [lia|]. pose proof (dist2_nonneg p q). pose proof (Qsq_nonneg (x - y)). lra.
Qed.

Lemma coords_dist2_zero : forall p q, Forall2 Qeq p q -> dist2 p q == 0.
Proof. induction 1; simpl; [lra|]. rewrite IHForall2, H. ring. Qed.

Lemma dist2_compat_r : forall p q r, Forall2 Qeq q r -> dist2 p q == dist2 p r.
Proof.
  intros p q r H. revert p. induction H; intros [|a p]; simpl; try lra.
  rewrite (IHForall2 p), H. ring.
Qed.

(** * The oracle for nearest-neighbour search and its computable instance *)

(** KDTree(pts).query(p)[1]: an index of a point of [pts] at minimal distance from [p]. *)
Definition nearest_spec (nearest : point -> list point -> nat) : Prop :=
  forall p pts, pts <> [] ->
    (nearest p pts < length pts)%nat /\
    forall i, (i < length pts)%nat -> dist2 p (nth (nearest p pts) pts []) <= dist2 p (nth i pts []).

Lemma argmin_spec : forall p pts, pts <> [] ->
  (fst (argmin p pts) < length pts)%nat /\
  snd (argmin p pts) = dist2 p (nth (fst (argmin p pts)) pts []) /\
  forall i, (i < length pts)%nat -> snd (argmin p pts) <= dist2 p (nth i pts []).
Proof.
  intros p. induction pts as [|q r IH]; intros Hne; [congruence|].
  destruct r as [|q' r'].
  - simpl. repeat split; [lia|]. intros [|i] Hi; [lra|simpl in Hi; lia].
  - assert (Hr : q' :: r' <> []) by congruence.
    destruct (IH Hr) as (Hlt & Hd & Hmin). clear IH.
    change (argmin p (q :: q' :: r')) with
      (let kd := argmin p (q' :: r') in
       if Qle_bool (dist2 p q) (snd kd) then (0%nat, dist2 p q) else (S (fst kd), snd kd)).
    cbv zeta. destruct (Qle_bool (dist2 p q) (snd (argmin p (q' :: r')))) eqn:E.
    + apply Qle_bool_iff in E. cbn [fst snd]. repeat split.
      * simpl; lia.
      * intros [|i] Hi; [change (nth 0 (q :: q' :: r') []) with q; lra|].
        change (nth (S i) (q :: q' :: r') []) with (nth i (q' :: r') []).
        specialize (Hmin i). simpl in Hi. assert (Hi' : (i < length (q' :: r'))%nat) by (simpl; lia).
        specialize (Hmin Hi'). lra.
    + assert (Hlt' : ~ dist2 p q <= snd (argmin p (q' :: r'))).
      { intro H. apply Qle_bool_iff in H. congruence. }
      cbn [fst snd]. repeat split.
      * simpl in *; lia.
      * exact Hd.
      * intros [|i] Hi.
        -- change (nth 0 (q :: q' :: r') []) with q. apply Qnot_le_lt in Hlt'. lra.
        -- change (nth (S i) (q :: q' :: r') []) with (nth i (q' :: r') []).
           apply Hmin. simpl in *; lia.
Qed.

Theorem nearest_first_spec : nearest_spec nearest_first.
Proof.
  intros p pts Hne. unfold nearest_first.
  destruct (argmin_spec p pts Hne) as (Hlt & Hd & Hmin). split; [exact Hlt|].
  intros i Hi. rewrite <- Hd. apply Hmin, Hi.
Qed.

(** the first argmin: every earlier point is strictly farther *)
Lemma argmin_first : forall p pts i, pts <> [] -> (i < fst (argmin p pts))%nat ->
  snd (argmin p pts) < dist2 p (nth i pts []).
Proof.
  intros p. induction pts as [|q r IH]; intros i Hne Hi; [congruence|].
  destruct r as [|q' r']; [simpl in Hi; lia|].
  assert (Hr : q' :: r' <> []) by congruence.
  change (argmin p (q :: q' :: r')) with
    (let kd := argmin p (q' :: r') in
     if Qle_bool (dist2 p q) (snd kd) then (0%nat, dist2 p q) else (S (fst kd), snd kd)) in *.
  cbv zeta in *. destruct (Qle_bool (dist2 p q) (snd (argmin p (q' :: r')))) eqn:E.
  - cbn [fst] in Hi. lia.
  - cbn [fst snd] in *.
    assert (Hlt' : ~ dist2 p q <= snd (argmin p (q' :: r'))).
    { intro H. apply Qle_bool_iff in H. congruence. }
    apply Qnot_le_lt in Hlt'.
    destruct i as [|i]; [change (nth 0 (q :: q' :: r') []) with q; exact Hlt'|].
    change (nth (S i) (q :: q' :: r') []) with (nth i (q' :: r') []).
    apply IH; [exact Hr|lia].
Qed.

(** * Masks and compressed views *)

Definition wf_mask (m : option (list bool)) (n : nat) : Prop :=
  match m with Some b => length b = n | None => True end.

Definition wf_mk (m : option mk) (n : nat) : Prop :=
  match m with Some (KBits b) => length b = n | _ => True end.

(** element [i] is masked by [m] *)
Definition masked_at (m : option (list bool)) (i : nat) : bool :=
  match m with Some b => nth i b false | None => false end.

Lemma sel_length_le : forall A m (l : list A), (length (sel m l) <= length l)%nat.
Proof.
  intros A [b|] l; simpl; [|lia]. revert l.
  induction b as [|k b IH]; intros [|x l]; simpl; try lia.
  specialize (IH l). destruct (negb k); simpl; lia.
Qed.

(** target side: scattering what was computed on the compressed view *)
Lemma unsel_sel_nth : forall A (g : point -> cell A) m tpts j,
  wf_mask m (length tpts) -> (j < length tpts)%nat ->
  nth j (unsel m (map g (sel m tpts))) CNaN =
    if masked_at m j then CMasked else g (nth j tpts []).
Proof.
  intros A g [b|] tpts j Hwf Hj; simpl in *.
  - revert tpts j Hwf Hj. induction b as [|k b IH]; intros [|p tpts] j Hwf Hj; simpl in *; try lia.
    destruct k; simpl.
    + destruct j as [|j]; [reflexivity|]. apply IH; lia.
    + destruct j as [|j]; [reflexivity|]. apply IH; lia.
  - rewrite (nth_indep _ CNaN (g [])) by (rewrite map_length; exact Hj).
    apply map_nth.
Qed.

Lemma unsel_sel_length : forall A (g : point -> cell A) m tpts,
  wf_mask m (length tpts) -> length (unsel m (map g (sel m tpts))) = length tpts.
Proof.
  intros A g [b|] tpts Hwf; simpl in *.
  - rewrite scatter_length, map_length. exact Hwf.
  - apply map_length.
Qed.

(** source side: every compressed position comes from an unmasked position ... *)
Lemma sel_nth_orig : forall A B m (l1 : list A) (l2 : list B) d1 d2 i,
  wf_mask m (length l1) -> length l2 = length l1 -> (i < length (sel m l1))%nat ->
  exists i', (i' < length l1)%nat /\ masked_at m i' = false /\
             nth i (sel m l1) d1 = nth i' l1 d1 /\ nth i (sel m l2) d2 = nth i' l2 d2.
Proof.
  intros A B [b|] l1 l2 d1 d2 i Hwf Hlen Hi; simpl in *.
  - revert l1 l2 i Hwf Hlen Hi.
    induction b as [|k b IH]; intros [|x l1] [|y l2] i Hwf Hlen Hi; simpl in *; try lia.
    destruct k; simpl in *.
    + destruct (IH l1 l2 i) as (i' & H1 & H2 & H3 & H4); try lia.
      exists (S i'). repeat split; auto; lia.
    + destruct i as [|i].
      * exists 0%nat. repeat split; auto; lia.
      * destruct (IH l1 l2 i) as (i' & H1 & H2 & H3 & H4); try lia.
        exists (S i'). repeat split; auto; lia.
  - exists i. repeat split; auto.
Qed.

(** ... and every unmasked position appears in the compressed view *)
Lemma sel_nth_comp : forall A m (l : list A) d i',
  wf_mask m (length l) -> (i' < length l)%nat -> masked_at m i' = false ->
  exists i, (i < length (sel m l))%nat /\ nth i (sel m l) d = nth i' l d.
Proof.
  intros A [b|] l d i' Hwf Hi Hm; simpl in *.
  - revert l i' Hwf Hi Hm.
    induction b as [|k b IH]; intros [|x l] i' Hwf Hi Hm; simpl in *; try lia.
    destruct k; simpl in *.
    + destruct i' as [|i']; [discriminate|].
      destruct (IH l i') as (i & H1 & H2); try lia; auto.
      exists i. split; auto.
    + destruct i' as [|i'].
      * exists 0%nat. split; [lia|reflexivity].
      * destruct (IH l i') as (i & H1 & H2); try lia; auto.
        exists (S i). split; [lia|exact H2].
  - exists i'. split; auto.
Qed.

Lemma sel_nonempty : forall A m (l : list A) i,
  wf_mask m (length l) -> (i < length l)%nat -> masked_at m i = false -> sel m l <> [].
Proof.
  intros A m l i Hwf Hi Hm Hnil.
  destruct l as [|x l']; [simpl in Hi; lia|].
  destruct (sel_nth_comp A m (x :: l') x i Hwf Hi Hm) as (k & Hk & _).
  rewrite Hnil in Hk. simpl in Hk. lia.
Qed.
