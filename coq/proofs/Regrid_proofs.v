(** Proofs about the regridding model FV.Regrid (C16). *)
From Coq Require Import List ZArith QArith Qabs Bool Arith Lia Lqa.
From FV Require Import Base Arr Regrid.
From FVP Require Import Arr_proofs.
Import ListNotations.

(** * Distances *)

Lemma Qsq_nonneg : forall a : Q, 0 <= a * a.
Proof. intros [n d]. unfold Qle, Qmult. simpl. rewrite Z.mul_1_r. apply Z.square_nonneg. Qed.

Lemma Qsq_zero : forall a : Q, a * a == 0 -> a == 0.
Proof.
  intros [n d]. unfold Qeq, Qmult. simpl. rewrite !Z.mul_1_r. intro H.
  apply Z.mul_eq_0 in H. destruct H; assumption.
Qed.

Lemma dist2_nonneg : forall p q, 0 <= dist2 p q.
Proof.
  induction p as [|x p IH]; intros [|y q]; simpl; try lra.
  specialize (IH q). pose proof (Qsq_nonneg (x - y)). lra.
Qed.

Lemma dist2_sym : forall p q, dist2 p q == dist2 q p.
Proof.
  induction p as [|x p IH]; intros [|y q]; simpl; try lra.
  rewrite (IH q). ring.
Qed.

Lemma dist2_refl : forall p, dist2 p p == 0.
Proof. induction p as [|x p IH]; simpl; [lra|]. rewrite IH. ring. Qed.

(** For points of equal dimension, distance zero means equal coordinates. *)
Lemma dist2_zero_coords : forall p q, length p = length q -> dist2 p q == 0 -> Forall2 Qeq p q.
Proof.
  induction p as [|x p IH]; intros [|y q] Hlen Hd; simpl in *; try discriminate; constructor.
  - pose proof (dist2_nonneg p q). pose proof (Qsq_nonneg (x - y)).
    assert (Hz : (x - y) * (x - y) == 0) by lra. apply Qsq_zero in Hz. lra.
  - apply IH; [lia|]. pose proof (dist2_nonneg p q). pose proof (Qsq_nonneg (x - y)). lra.
Qed.

Lemma coords_dist2_zero : forall p q, Forall2 Qeq p q -> dist2 p q == 0.
Proof. induction 1; simpl; [lra|]. rewrite IHForall2, H. ring. Qed.

Lemma dist2_compat_r : forall p q r, Forall2 Qeq q r -> dist2 p q == dist2 p r.
Proof.
  intros p q r H. revert p. induction H; intros [|a p]; simpl; try lra.
  rewrite (IHForall2 p), H. ring.
Qed.

(** * The oracle for nearest-neighbour search and its computable instance *)

(** KDTree(pts).query(p)[1]: an index of a point of [pts] at minimal distance from [p]. *)
Definition nearest_spec (nearest : point -> list point -> nat) : Prop :=
  forall p pts, pts <> [] ->
    (nearest p pts < length pts)%nat /\
    forall i, (i < length pts)%nat -> dist2 p (nth (nearest p pts) pts []) <= dist2 p (nth i pts []).

Lemma argmin_spec : forall p pts, pts <> [] ->
  (fst (argmin p pts) < length pts)%nat /\
  snd (argmin p pts) = dist2 p (nth (fst (argmin p pts)) pts []) /\
  forall i, (i < length pts)%nat -> snd (argmin p pts) <= dist2 p (nth i pts []).
Proof.
  intros p. induction pts as [|q r IH]; intros Hne; [congruence|].
  destruct r as [|q' r'].
  - simpl. repeat split; [lia|]. intros [|i] Hi; [lra|simpl in Hi; lia].
  - assert (Hr : q' :: r' <> []) by congruence.
    destruct (IH Hr) as (Hlt & Hd & Hmin). clear IH.
    change (argmin p (q :: q' :: r')) with
      (let kd := argmin p (q' :: r') in
       if Qle_bool (dist2 p q) (snd kd) then (0%nat, dist2 p q) else (S (fst kd), snd kd)).
    cbv zeta. destruct (Qle_bool (dist2 p q) (snd (argmin p (q' :: r')))) eqn:E.
    + apply Qle_bool_iff in E. cbn [fst snd]. repeat split.
      * simpl; lia.
      * intros [|i] Hi; [change (nth 0 (q :: q' :: r') []) with q; lra|].
        change (nth (S i) (q :: q' :: r') []) with (nth i (q' :: r') []).
        specialize (Hmin i). simpl in Hi. assert (Hi' : (i < length (q' :: r'))%nat) by (simpl; lia).
        specialize (Hmin Hi'). lra.
    + assert (Hlt' : ~ dist2 p q <= snd (argmin p (q' :: r'))).
      { intro H. apply Qle_bool_iff in H. congruence. }
      cbn [fst snd]. repeat split.
      * simpl in *; lia.
      * exact Hd.
      * intros [|i] Hi.
        -- change (nth 0 (q :: q' :: r') []) with q. apply Qnot_le_lt in Hlt'. lra.
        -- change (nth (S i) (q :: q' :: r') []) with (nth i (q' :: r') []).
           apply Hmin. simpl in *; lia.
Qed.

Theorem nearest_first_spec : nearest_spec nearest_first.
Proof.
  intros p pts Hne. unfold nearest_first.
  destruct (argmin_spec p pts Hne) as (Hlt & Hd & Hmin). split; [exact Hlt|].
  intros i Hi. rewrite <- Hd. apply Hmin, Hi.
Qed.

(** the first argmin: every earlier point is strictly farther *)
Lemma argmin_first : forall p pts i, pts <> [] -> (i < fst (argmin p pts))%nat ->
  snd (argmin p pts) < dist2 p (nth i pts []).
Proof.
  intros p. induction pts as [|q r IH]; intros i Hne Hi; [congruence|].
  destruct r as [|q' r']; [simpl in Hi; lia|].
  assert (Hr : q' :: r' <> []) by congruence.
  change (argmin p (q :: q' :: r')) with
    (let kd := argmin p (q' :: r') in
     if Qle_bool (dist2 p q) (snd kd) then (0%nat, dist2 p q) else (S (fst kd), snd kd)) in *.
  cbv zeta in *. destruct (Qle_bool (dist2 p q) (snd (argmin p (q' :: r')))) eqn:E.
  - cbn [fst] in Hi. lia.
  - cbn [fst snd] in *.
    assert (Hlt' : ~ dist2 p q <= snd (argmin p (q' :: r'))).
    { intro H. apply Qle_bool_iff in H. congruence. }
    apply Qnot_le_lt in Hlt'.
    destruct i as [|i]; [change (nth 0 (q :: q' :: r') []) with q; exact Hlt'|].
    change (nth (S i) (q :: q' :: r') []) with (nth i (q' :: r') []).
    apply IH; [exact Hr|lia].
Qed.

(** * Masks and compressed views *)

Definition wf_mask (m : option (list bool)) (n : nat) : Prop :=
  match m with Some b => length b = n | None => True end.

Definition wf_mk (m : option mk) (n : nat) : Prop :=
  match m with Some (KBits b) => length b = n | _ => True end.

(** element [i] is masked by [m] *)
Definition masked_at (m : option (list bool)) (i : nat) : bool :=
  match m with Some b => nth i b false | None => false end.

Lemma sel_length_le : forall A m (l : list A), (length (sel m l) <= length l)%nat.
Proof.
  intros A [b|] l; simpl; [|lia]. revert l.
  induction b as [|k b IH]; intros [|x l]; simpl; try lia.
  specialize (IH l). destruct (negb k); simpl; lia.
Qed.

(** target side: scattering what was computed on the compressed view *)
Lemma unsel_sel_nth : forall A (g : point -> cell A) m tpts j,
  wf_mask m (length tpts) -> (j < length tpts)%nat ->
  nth j (unsel m (map g (sel m tpts))) CNaN =
    if masked_at m j then CMasked else g (nth j tpts []).
Proof.
  intros A g [b|] tpts j Hwf Hj; simpl in *.
  - revert tpts j Hwf Hj. induction b as [|k b IH]; intros [|p tpts] j Hwf Hj; simpl in *; try lia.
    destruct k; simpl.
    + destruct j as [|j]; [reflexivity|]. apply IH; lia.
    + destruct j as [|j]; [reflexivity|]. apply IH; lia.
  - rewrite (nth_indep _ CNaN (g [])) by (rewrite map_length; exact Hj).
    apply map_nth.
Qed.

Lemma unsel_sel_length : forall A (g : point -> cell A) m tpts,
  wf_mask m (length tpts) -> length (unsel m (map g (sel m tpts))) = length tpts.
Proof.
  intros A g [b|] tpts Hwf; simpl in *.
  - rewrite scatter_length, map_length. exact Hwf.
  - apply map_length.
Qed.

(** source side: every compressed position comes from an unmasked position ... *)
Lemma sel_nth_orig : forall A B m (l1 : list A) (l2 : list B) d1 d2 i,
  wf_mask m (length l1) -> length l2 = length l1 -> (i < length (sel m l1))%nat ->
  exists i', (i' < length l1)%nat /\ masked_at m i' = false /\
             nth i (sel m l1) d1 = nth i' l1 d1 /\ nth i (sel m l2) d2 = nth i' l2 d2.
Proof.
  intros A B [b|] l1 l2 d1 d2 i Hwf Hlen Hi; simpl in *.
  - revert l1 l2 i Hwf Hlen Hi.
    induction b as [|k b IH]; intros [|x l1] [|y l2] i Hwf Hlen Hi; simpl in *; try lia.
    destruct k; simpl in *.
    + destruct (IH l1 l2 i) as (i' & H1 & H2 & H3 & H4); try lia.
      exists (S i'). repeat split; auto; lia.
    + destruct i as [|i].
      * exists 0%nat. repeat split; auto; lia.
      * destruct (IH l1 l2 i) as (i' & H1 & H2 & H3 & H4); try lia.
        exists (S i'). repeat split; auto; lia.
  - exists i. repeat split; auto.
Qed.

(** ... and every unmasked position appears in the compressed view *)
Lemma sel_nth_comp : forall A m (l : list A) d i',
  wf_mask m (length l) -> (i' < length l)%nat -> masked_at m i' = false ->
  exists i, (i < length (sel m l))%nat /\ nth i (sel m l) d = nth i' l d.
Proof.
  intros A [b|] l d i' Hwf Hi Hm; simpl in *.
  - revert l i' Hwf Hi Hm.
    induction b as [|k b IH]; intros [|x l] i' Hwf Hi Hm; simpl in *; try lia.
    destruct k; simpl in *.
    + destruct i' as [|i']; [discriminate|].
      destruct (IH l i') as (i & H1 & H2); try lia; auto.
      exists i. split; auto.
    + destruct i' as [|i'].
      * exists 0%nat. split; [lia|reflexivity].
      * destruct (IH l i') as (i & H1 & H2); try lia; auto.
        exists (S i). split; [lia|exact H2].
  - exists i'. split; auto.
Qed.

Lemma sel_nonempty : forall A m (l : list A) i,
  wf_mask m (length l) -> (i < length l)%nat -> masked_at m i = false -> sel m l <> [].
Proof.
  intros A m l i Hwf Hi Hm Hnil.
  destruct l as [|x l']; [simpl in Hi; lia|].
  destruct (sel_nth_comp A m (x :: l') x i Hwf Hi Hm) as (k & Hk & _).
  rewrite Hnil in Hk. simpl in Hk. lia.
Qed.

Lemma sel_forall2 : forall A B (R : A -> B -> Prop) m (l1 : list A) (l2 : list B) d1 d2,
  wf_mask m (length l2) -> length l1 = length l2 ->
  (forall i, (i < length l2)%nat -> masked_at m i = false -> R (nth i l1 d1) (nth i l2 d2)) ->
  Forall2 R (sel m l1) (sel m l2).
Proof.
  intros A B R [b|] l1 l2 d1 d2 Hwf Hlen H; simpl in *.
  - revert l1 l2 Hwf Hlen H.
    induction b as [|k b IH]; intros [|x l1] [|y l2] Hwf Hlen H; simpl in *; try lia; try constructor.
    destruct k; simpl.
    + apply IH; try lia. intros i Hi Hm. apply (H (S i)); [lia|exact Hm].
    + constructor.
      * apply (H 0%nat); [lia|reflexivity].
      * apply IH; try lia. intros i Hi Hm. apply (H (S i)); [lia|exact Hm].
  - revert l2 Hlen H. induction l1 as [|x l1 IH]; intros [|y l2] Hlen H; simpl in *; try lia; constructor.
    + apply (H 0%nat); [lia|reflexivity].
    + apply IH; [lia|]. intros i Hi Hm. apply (H (S i)); [lia|exact Hm].
Qed.

Lemma Forall2_len : forall A B (R : A -> B -> Prop) l1 l2, Forall2 R l1 l2 -> length l1 = length l2.
Proof. induction 1; simpl; congruence. Qed.

Lemma Forall2_eq_list : forall A (l1 l2 : list A), Forall2 eq l1 l2 -> l1 = l2.
Proof. induction 1; congruence. Qed.

Lemma sel_agree : forall A m (l1 l2 : list A) d,
  wf_mask m (length l1) -> length l2 = length l1 ->
  (forall i, (i < length l1)%nat -> masked_at m i = false -> nth i l1 d = nth i l2 d) ->
  sel m l1 = sel m l2.
Proof.
  intros A m l1 l2 d Hwf Hlen H. apply Forall2_eq_list.
  apply (sel_forall2 A A eq m l1 l2 d d).
  - rewrite Hlen. exact Hwf.
  - symmetry. exact Hlen.
  - intros i Hi Hm. apply H; [rewrite <- Hlen; exact Hi|exact Hm].
Qed.

(** * The output mask *)

(** the explicit mask requested for the target: the adapter's [out_mask], else the target's own *)
Definition requested (am down : option mk) : option (list bool) :=
  match am with
  | Some u => bits_of u
  | None => match down with Some d => bits_of d | None => None end
  end.

Lemma resolve_requested : forall am down om,
  resolve am down = Some om -> bits_of om = requested am down.
Proof.
  intros [u|] [d|] om H; simpl in *; try congruence.
  destruct (compat u d); congruence.
Qed.

Lemma resolve_wf : forall am down om n,
  wf_mk am n -> wf_mk down n -> resolve am down = Some om -> wf_mask (bits_of om) n.
Proof.
  intros [u|] [d|] om n Ha Hd H; simpl in *; try congruence.
  - destruct (compat u d); [|congruence]. inversion H; subst. destruct om; simpl; auto.
  - inversion H; subst. destruct om; simpl; auto.
  - inversion H; subst. destruct om; simpl; auto.
Qed.

(** * Nearest-neighbour regridding *)

Section NearestProofs.
  Context {A : Type}.
  Variable nearest : point -> list point -> nat.
  Hypothesis nearest_ok : nearest_spec nearest.

  (** the element picked for a target point [p]: the value of an unmasked source element whose
      location is at minimal distance from [p] among all unmasked source locations *)
  Lemma nearest_pick : forall smask spts (svals : list A) d p,
    length svals = length spts -> wf_mask smask (length spts) ->
    (exists i, (i < length spts)%nat /\ masked_at smask i = false) ->
    exists i, (i < length spts)%nat /\ masked_at smask i = false /\
      nth (nearest p (sel smask spts)) (sel smask svals) d = nth i svals d /\
      forall i', (i' < length spts)%nat -> masked_at smask i' = false ->
                 dist2 p (nth i spts []) <= dist2 p (nth i' spts []).
  Proof.
    intros smask spts svals d p Hlen Hwf (i0 & Hi0 & Hm0).
    assert (Hne : sel smask spts <> []) by (eapply sel_nonempty; eauto).
    destruct (nearest_ok p _ Hne) as (Hk & Hmin).
    destruct (sel_nth_orig point A smask spts svals [] d _ Hwf Hlen Hk) as (i & Hi & Hm & Hp & Hv).
    exists i. repeat split; auto.
    intros i' Hi' Hm'.
    destruct (sel_nth_comp point smask spts [] i' Hwf Hi' Hm') as (k' & Hk' & Hp').
    rewrite <- Hp, <- Hp'. apply Hmin, Hk'.
  Qed.

  Theorem nearest_correct : forall am down smask src_ma spts (svals : list A) tpts d om cells,
    length svals = length spts -> wf_mask smask (length spts) ->
    wf_mk am (length tpts) -> wf_mk down (length tpts) ->
    (exists i, (i < length spts)%nat /\ masked_at smask i = false) ->
    regrid_nearest nearest am down smask src_ma spts svals tpts d = Done om cells ->
    bits_of om = requested am down /\
    length cells = length tpts /\
    forall j, (j < length tpts)%nat ->
      if masked_at (requested am down) j then nth j cells CNaN = CMasked
      else exists i, (i < length spts)%nat /\ masked_at smask i = false /\
             nth j cells CNaN = CVal (nth i svals d) /\
             forall i', (i' < length spts)%nat -> masked_at smask i' = false ->
               dist2 (nth j tpts []) (nth i spts []) <= dist2 (nth j tpts []) (nth i' spts []).
  Proof.
    intros am down smask src_ma spts svals tpts d om cells Hlen Hwf Ha Hd Hex H.
    unfold regrid_nearest in H.
    destruct (resolve am down) as [om'|] eqn:Hres; [|discriminate].
    destruct (in_data_refused smask src_ma); [discriminate|].
    inversion H; subst om' cells; clear H.
    pose proof (resolve_requested _ _ _ Hres) as Hreq.
    pose proof (resolve_wf _ _ _ _ Ha Hd Hres) as Hwfo.
    rewrite map_map. rewrite <- Hreq.
    split; [reflexivity|]. split; [apply unsel_sel_length; exact Hwfo|].
    intros j Hj. rewrite unsel_sel_nth by assumption.
    destruct (masked_at (bits_of om) j); [reflexivity|].
    destruct (nearest_pick smask spts svals d (nth j tpts []) Hlen Hwf Hex) as (i & Hi & Hm & Hv & Hmin).
    exists i. repeat split; auto. rewrite Hv. reflexivity.
  Qed.

  (** identity on located values: a target location that coincides with exactly one unmasked
      source location receives the value located there *)
  Theorem nearest_identity : forall am down smask src_ma spts (svals : list A) tpts d om cells j i0,
    length svals = length spts -> wf_mask smask (length spts) ->
    wf_mk am (length tpts) -> wf_mk down (length tpts) ->
    regrid_nearest nearest am down smask src_ma spts svals tpts d = Done om cells ->
    (j < length tpts)%nat -> masked_at (requested am down) j = false ->
    (i0 < length spts)%nat -> masked_at smask i0 = false ->
    same_loc (nth j tpts []) (nth i0 spts []) ->
    (forall i, (i < length spts)%nat -> masked_at smask i = false ->
               same_loc (nth j tpts []) (nth i spts []) -> i = i0) ->
    nth j cells CNaN = CVal (nth i0 svals d).
  Proof.
    intros am down smask src_ma spts svals tpts d om cells j i0 Hlen Hwf Ha Hd H Hj Hmj Hi0 Hm0 Hsame Huniq.
    destruct (nearest_correct _ _ _ _ _ _ _ _ _ _ Hlen Hwf Ha Hd (ex_intro _ i0 (conj Hi0 Hm0)) H)
      as (_ & _ & Hall).
    specialize (Hall j Hj). rewrite Hmj in Hall.
    destruct Hall as (i & Hi & Hm & Hv & Hmin).
    assert (i = i0).
    { apply Huniq; auto. unfold same_loc in *.
      specialize (Hmin i0 Hi0 Hm0). pose proof (dist2_nonneg (nth j tpts []) (nth i spts [])). lra. }
    subst i. exact Hv.
  Qed.
End NearestProofs.

(** no hypothesis on the oracle is needed for the following two *)
Theorem nearest_noninterference : forall A nearest am down smask src_ma spts (svals svals' : list A) tpts d,
  length svals = length spts -> length svals' = length spts -> wf_mask smask (length spts) ->
  (forall i, (i < length spts)%nat -> masked_at smask i = false -> nth i svals d = nth i svals' d) ->
  regrid_nearest nearest am down smask src_ma spts svals tpts d =
  regrid_nearest nearest am down smask src_ma spts svals' tpts d.
Proof.
  intros A nearest am down smask src_ma spts svals svals' tpts d H1 H2 Hwf Hag.
  unfold regrid_nearest.
  rewrite (sel_agree A smask svals svals' d); auto.
  - rewrite H1; exact Hwf.
  - congruence.
  - intros i Hi Hm. apply Hag; [rewrite <- H1; exact Hi|exact Hm].
Qed.

Theorem nearest_masked_stay : forall A nearest am down smask src_ma spts (svals : list A) tpts d om cells,
  wf_mk am (length tpts) -> wf_mk down (length tpts) ->
  regrid_nearest nearest am down smask src_ma spts svals tpts d = Done om cells ->
  length cells = length tpts /\
  forall j, (j < length tpts)%nat -> masked_at (requested am down) j = true -> nth j cells CNaN = CMasked.
Proof.
  intros A nearest am down smask src_ma spts svals tpts d om cells Ha Hd H.
  unfold regrid_nearest in H.
  destruct (resolve am down) as [om'|] eqn:Hres; [|discriminate].
  destruct (in_data_refused smask src_ma); [discriminate|].
  inversion H; subst om' cells; clear H.
  pose proof (resolve_requested _ _ _ Hres) as Hreq.
  pose proof (resolve_wf _ _ _ _ Ha Hd Hres) as Hwfo.
  rewrite map_map, <- Hreq. split; [apply unsel_sel_length; exact Hwfo|].
  intros j Hj Hm. rewrite unsel_sel_nth by assumption. rewrite Hm. reflexivity.
Qed.

(** * Linear regridding (unstructured / masked-source path) *)

(** ** the oracle hypotheses, about the interpolator built on the point list [ic] *)

Fixpoint wsum (ws xs : list Q) : Q :=
  match ws, xs with
  | w :: ws', x :: xs' => w * x + wsum ws' xs'
  | _, _ => 0
  end.

Definition coord (k : nat) (p : point) : Q := nth k p 0.

(** [p] is a convex combination of [pts] (all of the dimension of [p]) *)
Definition in_hull (pts : list point) (p : point) : Prop :=
  Forall (fun q => length q = length p) pts /\
  exists ws, length ws = length pts /\ Forall (fun w => 0 <= w) ws /\
             wsum ws (map (fun _ => 1) pts) == 1 /\
             forall k, (k < length p)%nat -> wsum ws (map (coord k) pts) == coord k p.

Definition zeros_of (ic : list point) : list Q := map (fun _ => 0) ic.

(** wherever it is defined, the interpolant of (values rationally equal to) an affine field is that field *)
Definition lin_affine_ok (lin : list point -> list Q -> point -> option Q) (ic : list point) : Prop :=
  forall c0 g vs p v,
    Forall2 (fun x q => x == affine_fn c0 g q) vs ic ->
    lin ic vs p = Some v -> v == affine_fn c0 g p.

(** whether the interpolant is defined at a point does not depend on the values *)
Definition lin_domain_ok (lin : list point -> list Q -> point -> option Q) (ic : list point) : Prop :=
  forall vs p, length vs = length ic -> (lin ic vs p = None <-> lin ic (zeros_of ic) p = None).

(** it is defined exactly on the (closed) convex hull of the points *)
Definition lin_hull_ok (lin : list point -> list Q -> point -> option Q) (ic : list point) : Prop :=
  forall p, lin ic (zeros_of ic) p <> None <-> in_hull ic p.

Lemma existsb_id_false_nth : forall l j, existsb (fun b : bool => b) l = false -> nth j l false = false.
Proof.
  induction l as [|b l IH]; intros [|j] H; simpl in *; auto.
  - apply orb_false_iff in H. tauto.
  - apply orb_false_iff in H. apply IH. tauto.
Qed.

Lemma is_sub_mask_spec : forall m sub, is_sub_mask m sub = true ->
  length m = length sub /\ forall j, nth j m false = true -> nth j sub false = true.
Proof.
  induction m as [|a m IH]; intros [|b sub] H; simpl in *; try discriminate.
  - split; auto.
  - apply andb_true_iff in H. destruct H as [H1 H2]. destruct (IH sub H2) as [Hl Hn].
    split; [lia|]. intros [|j] Hj; simpl in *.
    + subst a. simpl in H1. exact H1.
    + apply Hn, Hj.
Qed.

Lemma nth_map_outside : forall (f : point -> bool) (tpts : list point) j,
  (j < length tpts)%nat -> nth j (map f tpts) false = f (nth j tpts []).
Proof.
  intros f tpts j Hj. rewrite (nth_indep _ false (f [])) by (rewrite map_length; exact Hj).
  apply map_nth.
Qed.

Section LinearProofs.
  Variable nearest : point -> list point -> nat.
  Variable lin : list point -> list Q -> point -> option Q.

  (** the output mask of the no-fill path: [om] covers the requested mask and every target point
      where the interpolator is undefined *)
  Lemma nofill_mask : forall am down tpts (outside : point -> bool) u om,
    wf_mk am (length tpts) ->
    match am with
    | None | Some KFlex => Some (KBits (map outside tpts))
    | Some KNone => if existsb (fun b => b) (map outside tpts) then None else Some KNone
    | Some (KBits b) => if is_sub_mask (map outside tpts) b then Some (KBits b) else None
    end = Some u ->
    resolve (Some u) down = Some om ->
    om = u /\ wf_mask (bits_of om) (length tpts) /\
    (forall j, (j < length tpts)%nat -> masked_at (bits_of om) j = false -> outside (nth j tpts []) = false) /\
    (forall j, (j < length tpts)%nat -> masked_at (requested am down) j = true -> masked_at (bits_of om) j = true).
  Proof.
    intros am down tpts outside u om Ha Hu Hres.
    assert (Hom : om = u).
    { simpl in Hres. destruct down as [d|]; [destruct (compat u d)|]; congruence. }
    subst om. split; [reflexivity|].
    destruct am as [[| |b]|]; simpl in *.
    - (* FLEX *) inversion Hu; subst u; simpl. split; [apply map_length|]. split.
      + intros j Hj Hm. rewrite nth_map_outside in Hm by exact Hj. exact Hm.
      + intros j Hj Hm. discriminate.
    - (* NONE *) destruct (existsb (fun b => b) (map outside tpts)) eqn:E; [discriminate|].
      inversion Hu; subst u; simpl. split; [exact I|]. split.
      + intros j Hj _. rewrite <- (nth_map_outside outside tpts j Hj). apply existsb_id_false_nth, E.
      + intros j Hj Hm. discriminate.
    - (* bits *) destruct (is_sub_mask (map outside tpts) b) eqn:E; [|discriminate].
      inversion Hu; subst u; simpl. split; [exact Ha|]. split.
      + intros j Hj Hm. destruct (is_sub_mask_spec _ _ E) as [_ Hs].
        destruct (outside (nth j tpts [])) eqn:Eo; [|reflexivity].
        rewrite <- (nth_map_outside outside tpts j Hj) in Eo. rewrite (Hs j Eo) in Hm. discriminate.
      + intros j Hj Hm. exact Hm.
    - (* unset *) inversion Hu; subst u; simpl. split; [apply map_length|]. split.
      + intros j Hj Hm. rewrite nth_map_outside in Hm by exact Hj. exact Hm.
      + intros j Hj Hm. destruct down as [[| |d]|]; simpl in *; try discriminate.
        destruct (bool_list_eqb d (map outside tpts)) eqn:E; [|discriminate].
        apply bool_list_eqb_eq in E. subst d. exact Hm.
  Qed.

  Lemma regrid_linear_nofill_inv : forall am down smask src_ma spts svals tpts om cells,
    regrid_linear nearest lin false am down smask src_ma spts svals tpts = Done om cells ->
    let ic := sel smask spts in
    let outside := fun p => isnone (lin ic (zeros_of ic) p) in
    exists u,
      match am with
      | None | Some KFlex => Some (KBits (map outside tpts))
      | Some KNone => if existsb (fun b => b) (map outside tpts) then None else Some KNone
      | Some (KBits b) => if is_sub_mask (map outside tpts) b then Some (KBits b) else None
      end = Some u /\
      resolve (Some u) down = Some om /\
      cells = unsel (bits_of om) (map (lin_cell lin ic (sel smask svals)) (sel (bits_of om) tpts)).
  Proof.
    intros am down smask src_ma spts svals tpts om cells H ic outside.
    unfold regrid_linear in H. cbv zeta in H. fold ic in H. fold (zeros_of ic) in H.
    change (fun p : point => isnone (lin ic (zeros_of ic) p)) with outside in H.
    destruct (match am with
              | None | Some KFlex => Some (KBits (map outside tpts))
              | Some KNone => if existsb (fun b => b) (map outside tpts) then None else Some KNone
              | Some (KBits b) => if is_sub_mask (map outside tpts) b then Some (KBits b) else None
              end) as [u|] eqn:Hu.
    - exists u. split; [reflexivity|].
      assert (H' : match resolve (Some u) down with
                   | None => ErrMeta
                   | Some om0 => if in_data_refused smask src_ma then ErrData
                                 else Done om0 (unsel (bits_of om0) (map (lin_cell lin ic (sel smask svals)) (sel (bits_of om0) tpts)))
                   end = Done om cells).
      { destruct am as [a|]; [exact H|]. destruct down as [d|]; [exact H|discriminate]. }
      clear H. destruct (resolve (Some u) down) as [om0|]; [|discriminate].
      destruct (in_data_refused smask src_ma); [discriminate|].
      inversion H'; subst. split; reflexivity.
    - exfalso. destruct am as [a|]; [discriminate|]. destruct down as [d|]; discriminate.
  Qed.

  Theorem linear_masked_stay : forall fill am down smask src_ma spts svals tpts om cells,
    wf_mk am (length tpts) -> wf_mk down (length tpts) ->
    regrid_linear nearest lin fill am down smask src_ma spts svals tpts = Done om cells ->
    length cells = length tpts /\
    forall j, (j < length tpts)%nat -> masked_at (requested am down) j = true -> nth j cells CNaN = CMasked.
  Proof.
    intros [|] am down smask src_ma spts svals tpts om cells Ha Hd H.
    - unfold regrid_linear in H. cbv zeta in H.
      destruct (resolve am down) as [om'|] eqn:Hres; [|discriminate].
      destruct (in_data_refused smask src_ma); [discriminate|].
      inversion H; subst om' cells; clear H.
      pose proof (resolve_requested _ _ _ Hres) as Hreq.
      pose proof (resolve_wf _ _ _ _ Ha Hd Hres) as Hwfo.
      rewrite <- Hreq. split; [apply unsel_sel_length; exact Hwfo|].
      intros j Hj Hm. rewrite unsel_sel_nth by assumption. rewrite Hm. reflexivity.
    - destruct (regrid_linear_nofill_inv _ _ _ _ _ _ _ _ _ H) as (u & Hu & Hres & Hc).
      destruct (nofill_mask am down tpts _ u om Ha Hu Hres) as (_ & Hwfo & _ & Hreq).
      subst cells. split; [apply unsel_sel_length; exact Hwfo|].
      intros j Hj Hm. rewrite unsel_sel_nth by assumption. rewrite (Hreq j Hj Hm). reflexivity.
  Qed.

  Theorem linear_noninterference : forall fill am down smask src_ma spts svals svals' tpts,
    length svals = length spts -> length svals' = length spts -> wf_mask smask (length spts) ->
    (forall i, (i < length spts)%nat -> masked_at smask i = false -> nth i svals 0 = nth i svals' 0) ->
    regrid_linear nearest lin fill am down smask src_ma spts svals tpts =
    regrid_linear nearest lin fill am down smask src_ma spts svals' tpts.
  Proof.
    intros fill am down smask src_ma spts svals svals' tpts H1 H2 Hwf Hag.
    unfold regrid_linear.
    rewrite (sel_agree Q smask svals svals' 0); auto.
    - rewrite H1; exact Hwf.
    - congruence.
    - intros i Hi Hm. apply Hag; [rewrite <- H1; exact Hi|exact Hm].
  Qed.

  (** *** affine fields *)
  Section Affine.
    Variables (smask : option (list bool)) (spts : list point) (svals : list Q) (c0 : Q) (g : list Q).
    Let ic := sel smask spts.
    Let cv := sel smask svals.
    Hypothesis Hlen : length svals = length spts.
    Hypothesis Hwf : wf_mask smask (length spts).
    Hypothesis lin_affine : lin_affine_ok lin ic.
    Hypothesis lin_domain : lin_domain_ok lin ic.
    (** the source field is affine on the unmasked elements (anything under the mask) *)
    Hypothesis field_affine : forall i, (i < length spts)%nat -> masked_at smask i = false ->
      nth i svals 0 == affine_fn c0 g (nth i spts []).

    Lemma cv_affine : Forall2 (fun x q => x == affine_fn c0 g q) cv ic.
    Proof.
      unfold cv, ic. apply (sel_forall2 Q point _ smask svals spts 0 []); auto.
    Qed.

    Lemma lin_cell_inside : forall p, lin ic (zeros_of ic) p <> None ->
      exists v, lin_cell lin ic cv p = CVal v /\ v == affine_fn c0 g p.
    Proof.
      intros p Hdef. unfold lin_cell.
      destruct (lin ic cv p) as [v|] eqn:E.
      - exists v. split; [reflexivity|]. eapply lin_affine; [apply cv_affine|exact E].
      - exfalso. apply Hdef. exact (proj1 (lin_domain cv p (Forall2_len _ _ _ _ _ cv_affine)) E).
    Qed.

    Theorem linear_affine_nofill : forall am down src_ma tpts om cells,
      lin_hull_ok lin ic ->
      wf_mk am (length tpts) -> wf_mk down (length tpts) ->
      regrid_linear nearest lin false am down smask src_ma spts svals tpts = Done om cells ->
      length cells = length tpts /\
      forall j, (j < length tpts)%nat ->
        (masked_at (requested am down) j = true -> masked_at (bits_of om) j = true) /\
        (~ in_hull ic (nth j tpts []) -> masked_at (bits_of om) j = true) /\
        (masked_at (bits_of om) j = true -> nth j cells CNaN = CMasked) /\
        (masked_at (bits_of om) j = false ->
           in_hull ic (nth j tpts []) /\
           exists v, nth j cells CNaN = CVal v /\ v == affine_fn c0 g (nth j tpts [])).
    Proof.
      intros am down src_ma tpts om cells lin_hull Ha Hd H.
      destruct (regrid_linear_nofill_inv _ _ _ _ _ _ _ _ _ H) as (u & Hu & Hres & Hc).
      fold ic in Hu, Hc. fold cv in Hc.
      destruct (nofill_mask am down tpts _ u om Ha Hu Hres) as (_ & Hwfo & Hin & Hreq).
      subst cells. split; [apply unsel_sel_length; exact Hwfo|].
      intros j Hj.
      assert (Hunm : masked_at (bits_of om) j = false -> lin ic (zeros_of ic) (nth j tpts []) <> None).
      { intros Hm E. specialize (Hin j Hj Hm). simpl in Hin. rewrite E in Hin. discriminate. }
      split; [apply Hreq, Hj|]. split; [|split].
      - intros Hnh. destruct (masked_at (bits_of om) j) eqn:Em; [reflexivity|].
        exfalso. apply Hnh. apply lin_hull. apply Hunm. reflexivity.
      - intros Hm. rewrite unsel_sel_nth by assumption. rewrite Hm. reflexivity.
      - intros Hm. split; [apply lin_hull, Hunm, Hm|].
        rewrite unsel_sel_nth by assumption. rewrite Hm. apply lin_cell_inside, Hunm, Hm.
    Qed.

    Theorem linear_affine_fill : forall am down src_ma tpts om cells,
      nearest_spec nearest -> lin_hull_ok lin ic ->
      wf_mk am (length tpts) -> wf_mk down (length tpts) ->
      (exists i, (i < length spts)%nat /\ masked_at smask i = false) ->
      regrid_linear nearest lin true am down smask src_ma spts svals tpts = Done om cells ->
      bits_of om = requested am down /\
      length cells = length tpts /\
      forall j, (j < length tpts)%nat ->
        (masked_at (requested am down) j = true -> nth j cells CNaN = CMasked) /\
        (masked_at (requested am down) j = false ->
           (in_hull ic (nth j tpts []) ->
              exists v, nth j cells CNaN = CVal v /\ v == affine_fn c0 g (nth j tpts [])) /\
           (~ in_hull ic (nth j tpts []) ->
              exists i, (i < length spts)%nat /\ masked_at smask i = false /\
                nth j cells CNaN = CVal (nth i svals 0) /\
                forall i', (i' < length spts)%nat -> masked_at smask i' = false ->
                  dist2 (nth j tpts []) (nth i spts []) <= dist2 (nth j tpts []) (nth i' spts []))).
    Proof.
      intros am down src_ma tpts om cells nearest_ok lin_hull Ha Hd Hex H.
      unfold regrid_linear in H. cbv zeta in H. fold ic in H. fold cv in H. fold (zeros_of ic) in H.
      destruct (resolve am down) as [om'|] eqn:Hres; [|discriminate].
      destruct (in_data_refused smask src_ma); [discriminate|].
      inversion H; subst om' cells; clear H.
      pose proof (resolve_requested _ _ _ Hres) as Hreq.
      pose proof (resolve_wf _ _ _ _ Ha Hd Hres) as Hwfo.
      rewrite <- Hreq. split; [reflexivity|]. split; [apply unsel_sel_length; exact Hwfo|].
      intros j Hj. rewrite unsel_sel_nth by assumption. split.
      - intros Hm. rewrite Hm. reflexivity.
      - intros Hm. rewrite Hm. split.
        + intros Hin. apply lin_hull in Hin.
          destruct (lin ic (zeros_of ic) (nth j tpts [])) eqn:E; [|congruence]. simpl.
          apply lin_cell_inside. rewrite E. discriminate.
        + intros Hnin.
          destruct (lin ic (zeros_of ic) (nth j tpts [])) eqn:E.
          * exfalso. apply Hnin, lin_hull. rewrite E. discriminate.
          * simpl.
            destruct (nearest_pick nearest nearest_ok smask spts svals 0 (nth j tpts []) Hlen Hwf Hex)
              as (i & Hi & Hmi & Hv & Hmin).
            exists i. repeat split; auto. unfold cv, ic. rewrite Hv. reflexivity.
    Qed.
  End Affine.
End LinearProofs.

(** * Identity between two layouts of the same located elements *)

Lemma Forall2_Qeq_sym : forall p q, Forall2 Qeq p q -> Forall2 Qeq q p.
Proof. induction 1; constructor; auto. symmetry; assumption. Qed.

Lemma same_loc_trans : forall p q r, length p = length q -> length p = length r ->
  same_loc p q -> same_loc p r -> same_loc q r.
Proof.
  unfold same_loc. intros p q r Hq Hr H1 H2.
  apply dist2_zero_coords in H1; [|exact Hq]. apply dist2_zero_coords in H2; [|exact Hr].
  rewrite (dist2_compat_r q r p (Forall2_Qeq_sym _ _ H2)).
  rewrite dist2_sym. apply coords_dist2_zero, H1.
Qed.

Lemma Forall_nth_in : forall A (P : A -> Prop) l i d, Forall P l -> (i < length l)%nat -> P (nth i l d).
Proof. intros A P l i d H Hi. rewrite Forall_forall in H. apply H, nth_In, Hi. Qed.

(** The target is a re-layout of the source: every target element [j] lies at the location of the
    unmasked source element [pi j]; distinct unmasked source elements have distinct locations.
    Then every unmasked target element receives exactly the value located there. *)
Theorem nearest_identity_relayout :
  forall (A : Type) (nearest : point -> list point -> nat), nearest_spec nearest ->
  forall am down smask src_ma spts (svals : list A) tpts d om cells (dm : nat) (pi : nat -> nat),
    length svals = length spts -> wf_mask smask (length spts) ->
    wf_mk am (length tpts) -> wf_mk down (length tpts) ->
    Forall (fun p => length p = dm) spts -> Forall (fun p => length p = dm) tpts ->
    (forall i i', (i < length spts)%nat -> (i' < length spts)%nat ->
       masked_at smask i = false -> masked_at smask i' = false ->
       same_loc (nth i spts []) (nth i' spts []) -> i = i') ->
    (forall j, (j < length tpts)%nat ->
       (pi j < length spts)%nat /\ masked_at smask (pi j) = false /\
       same_loc (nth j tpts []) (nth (pi j) spts [])) ->
    regrid_nearest nearest am down smask src_ma spts svals tpts d = Done om cells ->
    forall j, (j < length tpts)%nat -> masked_at (requested am down) j = false ->
      nth j cells CNaN = CVal (nth (pi j) svals d).
Proof.
  intros A nearest Hn am down smask src_ma spts svals tpts d om cells dm pi
         Hlen Hwf Ha Hd Hds Hdt Hdist Hpi H j Hj Hmj.
  destruct (Hpi j Hj) as (Hp1 & Hp2 & Hp3).
  apply (nearest_identity nearest Hn am down smask src_ma spts svals tpts d om cells j (pi j)); auto.
  intros i Hi Hm Hsame.
  apply Hdist; auto.
  pose proof (Forall_nth_in _ _ _ j [] Hdt Hj) as L1.
  pose proof (Forall_nth_in _ _ _ i [] Hds Hi) as L2.
  pose proof (Forall_nth_in _ _ _ (pi j) [] Hds Hp1) as L3.
  simpl in L1, L2, L3.
  apply (same_loc_trans (nth j tpts [])); [congruence|congruence|exact Hsame|exact Hp3].
Qed.

(** * Progress: when data is delivered *)

Lemma nearest_progress : forall A nearest am down smask src_ma spts (svals : list A) tpts d om,
  resolve am down = Some om -> in_data_refused smask src_ma = false ->
  exists cells, regrid_nearest nearest am down smask src_ma spts svals tpts d = Done om cells.
Proof.
  intros A nearest am down smask src_ma spts svals tpts d om Hr Hf. unfold regrid_nearest.
  rewrite Hr, Hf. eexists. reflexivity.
Qed.

(** without an explicit request the linear adapter always delivers (masking the outside) *)
Lemma linear_nofill_progress : forall nearest lin smask src_ma spts svals tpts,
  in_data_refused smask src_ma = false ->
  exists om cells,
    regrid_linear nearest lin false None (Some KFlex) smask src_ma spts svals tpts = Done om cells.
Proof.
  intros nearest lin smask src_ma spts svals tpts Hf. unfold regrid_linear. cbv zeta. simpl.
  rewrite Hf. eexists. eexists. reflexivity.
Qed.

(** * A concrete interpolator (barycentric interpolation on one triangle) satisfying the oracle
      hypotheses: used for the non-vacuity examples of the property file *)

Definition ic_tri : list point := [[0; 0]; [1; 0]; [0; 1]].

Definition lin_tri (pts : list point) (vs : list Q) (p : point) : option Q :=
  match vs, p with
  | [v0; v1; v2], [x; y] =>
      if Qle_bool 0 x && Qle_bool 0 y && Qle_bool (x + y) 1
      then Some (v0 + (v1 - v0) * x + (v2 - v0) * y) else None
  | _, _ => None
  end.

Lemma lin_tri_affine : lin_affine_ok lin_tri ic_tri.
Proof.
  intros c0 g vs p v HF H.
  inversion HF as [|v0 q0 vs0 l0 E0 HF0]; subst. inversion HF0 as [|v1 q1 vs1 l1 E1 HF1]; subst.
  inversion HF1 as [|v2 q2 vs2 l2 E2 HF2]; subst. inversion HF2; subst.
  destruct p as [|x [|y [|z p']]]; simpl in H; try discriminate.
  destruct (Qle_bool 0 x && Qle_bool 0 y && Qle_bool (x + y) 1); [|discriminate].
  inversion H; subst v. rewrite E0, E1, E2. unfold affine_fn.
  destruct g as [|a [|b g']]; simpl; ring.
Qed.

Lemma lin_tri_domain : lin_domain_ok lin_tri ic_tri.
Proof.
  intros vs p Hl. destruct vs as [|v0 [|v1 [|v2 [|v3 vs']]]]; simpl in Hl; try discriminate.
  destruct p as [|x [|y [|z p']]]; simpl; try tauto.
  destruct (Qle_bool 0 x && Qle_bool 0 y && Qle_bool (x + y) 1); split; intro; congruence.
Qed.

Lemma lin_tri_hull : lin_hull_ok lin_tri ic_tri.
Proof.
  intros p. split.
  - intros H. destruct p as [|x [|y [|z p']]]; simpl in H; try congruence.
    destruct (Qle_bool 0 x && Qle_bool 0 y && Qle_bool (x + y) 1) eqn:E; [|congruence].
    apply andb_true_iff in E. destruct E as [E E3]. apply andb_true_iff in E. destruct E as [E1 E2].
    apply Qle_bool_iff in E1, E2, E3.
    split; [repeat constructor|].
    exists [1 - x - y; x; y]. split; [reflexivity|]. split; [repeat constructor; lra|].
    split; [simpl; ring|].
    intros [|[|k]] Hk; simpl in *; try lia; unfold coord; simpl; ring.
  - intros (Hdim & ws & Hl & Hpos & Hsum & Hc).
    inversion Hdim as [|q0 l0 Hq0 _]; subst. simpl in Hq0.
    destruct p as [|x [|y [|z p']]]; simpl in Hq0; try discriminate.
    destruct ws as [|w0 [|w1 [|w2 [|w3 ws']]]]; simpl in Hl; try discriminate.
    inversion Hpos as [|? ? P0 Hpos1]; subst. inversion Hpos1 as [|? ? P1 Hpos2]; subst.
    inversion Hpos2 as [|? ? P2 _]; subst.
    pose proof (Hc 0%nat) as C0. pose proof (Hc 1%nat) as C1.
    simpl in C0, C1, Hsum. unfold coord in C0, C1. simpl in C0, C1.
    assert (L0 : (0 < 2)%nat) by lia. assert (L1 : (1 < 2)%nat) by lia.
    specialize (C0 L0). specialize (C1 L1).
    assert (X0 : Qle_bool 0 x = true) by (apply Qle_bool_iff; lra).
    assert (X1 : Qle_bool 0 y = true) by (apply Qle_bool_iff; lra).
    assert (X2 : Qle_bool (x + y) 1 = true) by (apply Qle_bool_iff; lra).
    simpl. rewrite X0, X1, X2. simpl. discriminate.
Qed.

(** * The flattened view against the n-d model of to_compressed / from_compressed (FV.Mask)

    [sel] on the raveled data IS [Mask.to_compressed] of the n-d array, and [unsel] IS the raveled
    result of [Mask.from_compressed]; "raveled" = in the grid's flattening order [o]. *)
From FV Require Mask.
From FVP Require Mask_proofs.

Lemma sel_is_to_compressed : forall A (a : arr A) (m : arr bool) (o : order) w arg,
  Mask_proofs.uses_mask w arg m ->
  Mask.to_compressed a w o arg = sel (Some (ravel o m)) (ravel o a).
Proof. intros. rewrite (Mask_proofs.to_compressed_bits _ a m o w arg); auto. Qed.

Lemma sel_is_to_compressed_nomask : forall A (a : arr A) (o : order) w arg,
  Mask_proofs.uses_no_mask w arg ->
  Mask.to_compressed a w o arg = sel None (ravel o a).
Proof. intros. rewrite Mask_proofs.to_compressed_nomask; auto. Qed.

Lemma scatter_map : forall X Y (f : X -> Y) keep vals d,
  map f (scatter keep vals d) = scatter keep (map f vals) (f d).
Proof.
  intros X Y f. induction keep as [|k keep IH]; intros vals d; simpl; [reflexivity|].
  destruct k; [destruct vals|]; simpl; rewrite IH; reflexivity.
Qed.

Definition cell_of_opt {A : Type} (c : option A) : cell A :=
  match c with Some v => CVal v | None => CMasked end.

Lemma unsel_is_from_compressed : forall A (vals : list A) sh (o : order) (tm : arr bool) kw,
  ashape tm = sh ->
  exists d, Mask.from_compressed vals sh o (Mask.MBits tm) kw = Mask.FcMasked d (Some tm) /\
            ashape d = sh /\
            map cell_of_opt (ravel o d) = unsel (Some (ravel o tm)) (map CVal vals).
Proof.
  intros A vals sh o tm kw Hs. unfold Mask.from_compressed. eexists. split; [reflexivity|].
  split; [reflexivity|].
  rewrite ravel_of_list.
  - simpl. rewrite scatter_map, map_map. reflexivity.
  - rewrite scatter_length, map_length, ravel_length, Hs. reflexivity.
Qed.

(** * Several publications through one adapter: no publication leaves a trace *)

Lemma nth_error_map_opt : forall X Y (f : X -> Y) l k,
  nth_error (map f l) k = option_map f (nth_error l k).
Proof. intros X Y f. induction l as [|x l IH]; intros [|k]; simpl; auto. Qed.

Theorem publications_independent :
  (forall (A : Type) nearest am down smask src_ma spts (pubs pubs' : list (list A)) tpts d k svals,
     nth_error pubs k = Some svals -> nth_error pubs' k = Some svals ->
     nth_error (regrid_nearest_seq nearest am down smask src_ma spts pubs tpts d) k
       = Some (regrid_nearest nearest am down smask src_ma spts svals tpts d)
     /\ nth_error (regrid_nearest_seq nearest am down smask src_ma spts pubs' tpts d) k
       = nth_error (regrid_nearest_seq nearest am down smask src_ma spts pubs tpts d) k)
  /\
  (forall nearest lin fill am down smask src_ma spts (pubs pubs' : list (list Q)) tpts k svals,
     nth_error pubs k = Some svals -> nth_error pubs' k = Some svals ->
     nth_error (regrid_linear_seq nearest lin fill am down smask src_ma spts pubs tpts) k
       = Some (regrid_linear nearest lin fill am down smask src_ma spts svals tpts)
     /\ nth_error (regrid_linear_seq nearest lin fill am down smask src_ma spts pubs' tpts) k
       = nth_error (regrid_linear_seq nearest lin fill am down smask src_ma spts pubs tpts) k).
Proof.
  split; intros; unfold regrid_nearest_seq, regrid_linear_seq; rewrite !nth_error_map_opt;
    rewrite H, H0; simpl; split; reflexivity.
Qed.
