(** Proofs about the spilling model Spill.v: a slot with any memory limit is a refinement of the
    same slot without a limit (lock-step simulation over arbitrary op sequences), the files it
    creates are exactly "<dir>/<id>-0.npy", "<dir>/<id>-1.npy", ..., the files it owns are at every
    moment exactly those named by retained entries, and nothing of it is left after finalize. *)
From Coq Require Import List ZArith Bool Arith Lia FinFun.
From FV Require Import Base Spill.
Import ListNotations.
Open Scope Z_scope.

(* ------------------------------------------------------------------ *)
(** * File names *)

Lemma fname_eqb_eq a b : fname_eqb a b = true <-> a = b.
Proof.
  destruct a as [[d1 i1] k1], b as [[d2 i2] k2]; simpl.
  rewrite !andb_true_iff, !Nat.eqb_eq. split.
  - intros [[-> ->] ->]; reflexivity.
  - intros H; inversion H; auto.
Qed.

Lemma fname_eqb_refl a : fname_eqb a a = true.
Proof. apply fname_eqb_eq; reflexivity. Qed.

Lemma fname_eqb_neq a b : a <> b -> fname_eqb a b = false.
Proof. intros H. destruct (fname_eqb a b) eqn:E; [apply fname_eqb_eq in E; contradiction|reflexivity]. Qed.

Lemma owned_mk d i k : owned_by d i (d, i, k) = true.
Proof. simpl. rewrite !Nat.eqb_refl. reflexivity. Qed.

Arguments fname_eqb : simpl never.
Arguments owned_by : simpl never.

(* ------------------------------------------------------------------ *)
(** * The polymorphic readers commute with any map over the entries *)

Section ReaderMap.
  Context {E X : Type}.
  Variable f : E -> X.
  Definition mapb (b : tbuf E) : tbuf X := map (fun te => (fst te, f (snd te))) b.

  Lemma last_time_map t0 b : last_time t0 (mapb b) = last_time t0 b.
  Proof. revert t0; induction b as [|[t e] r IH]; intros t0; simpl; auto. Qed.

  Lemma in_range_map b time : in_range (mapb b) time = in_range b time.
  Proof. destruct b as [|[t e] r]; simpl; [reflexivity|]. rewrite (last_time_map t r). reflexivity. Qed.

  Definition mapprev (p : option (Z * E)) : option (Z * X) :=
    match p with Some (t, e) => Some (t, f e) | None => None end.

  Lemma scan_map k prev b time :
    scan k (mapprev prev) (mapb b) time = option_map (map f) (scan k prev b time).
  Proof.
    revert prev; induction b as [|[t e] r IH]; intros prev; simpl; [reflexivity|].
    destruct (t <? time).
    - apply (IH (Some (t, e))).
    - destruct k; try reflexivity;
        (destruct (time =? t); [reflexivity|]);
        destruct prev as [[tp ep]|]; simpl; try reflexivity.
      + destruct (time - tp <? t - time); reflexivity.
      + destruct (num * (t - tp) <? (time - tp) * den); reflexivity.
  Qed.

  Lemma integ_loop_map prev time t_old b :
    integ_loop prev time t_old (mapb b) = map f (integ_loop prev time t_old b).
  Proof.
    revert t_old; induction b as [|[t e] r IH]; intros t_old; simpl; [reflexivity|].
    f_equal. destruct (t <=? prev); [apply IH|]. destruct (time <=? t_old); [reflexivity|apply IH].
  Qed.

  Lemma reader_map k b prev time :
    reader k (mapb b) prev time = option_map (map f) (reader k b prev time).
  Proof.
    destruct b as [|[t0 e0] r]; [reflexivity|].
    unfold reader. change (mapb ((t0, e0) :: r)) with ((t0, f e0) :: mapb r).
    rewrite <- (in_range_map ((t0, e0) :: r) time).
    change (mapb ((t0, e0) :: r)) with ((t0, f e0) :: mapb r).
    destruct (is_static k) eqn:Hst; [reflexivity|].
    destruct (negb (in_range ((t0, f e0) :: mapb r) time)); [reflexivity|].
    change ((t0, f e0) :: mapb r) with (mapb ((t0, e0) :: r)).
    destruct k.
    - apply (scan_map KOutput None).
    - destruct r as [|x r']; [reflexivity|]. apply (scan_map KNext None).
    - destruct r as [|x r']; [reflexivity|]. apply (scan_map KPrev None).
    - destruct r as [|x r']; [reflexivity|]. apply (scan_map KLinear None).
    - destruct r as [|x r']; [reflexivity|]. apply (scan_map (KStep num den) None).
    - destruct r as [|x r']; [reflexivity|].
      change (mapb (x :: r')) with ((fst x, f (snd x)) :: mapb r').
      cbv iota. destruct (time <=? t0); [reflexivity|].
      destruct prev as [pv|]; [|reflexivity].
      destruct (time - pv <=? 0); [reflexivity|].
      simpl option_map. simpl map. do 2 f_equal.
      apply (integ_loop_map pv time t0 (x :: r')).
    - destruct r as [|x r']; [reflexivity|].
      change (mapb (x :: r')) with ((fst x, f (snd x)) :: mapb r').
      cbv iota. destruct (time <=? t0); [reflexivity|].
      destruct prev as [pv|]; [|reflexivity].
      simpl option_map. simpl map. do 2 f_equal.
      apply (integ_loop_map pv time t0 (x :: r')).
    - discriminate.
  Qed.
End ReaderMap.

(** Everything a reader returns is an entry of the buffer (stated for predicates). *)
Lemma reader_forall {E : Type} (Q : E -> Prop) k (b : tbuf E) prev time es :
  Forall Q (map snd b) -> reader k b prev time = Some es -> Forall Q es.
Proof.
  intros Hall Hr.
  assert (exists bs : tbuf {e | Q e}, b = mapb (@proj1_sig E Q) bs) as [bs ->].
  { clear Hr. induction b as [|[t e] r IH].
    - exists []; reflexivity.
    - inversion Hall as [|? ? Hq Hrest]; subst. destruct (IH Hrest) as [bs ->].
      exists ((t, exist _ e Hq) :: bs). reflexivity. }
  rewrite reader_map in Hr.
  destruct (reader k bs prev time) as [l|]; [|discriminate].
  simpl in Hr. injection Hr as <-.
  clear. induction l as [|[x Hx] l IH]; simpl; constructor; auto.
Qed.

(* ------------------------------------------------------------------ *)
(** * File system lemmas *)

Section FSL.
  Context {F : Type}.
  Notation fsys := (fsys F).
  Implicit Types fs m g : fsys.

  Lemma own_app d i fs g : own_part d i (fs ++ g) = own_part d i fs ++ own_part d i g.
  Proof. apply filter_app. Qed.
  Lemma other_app d i fs g : other_part d i (fs ++ g) = other_part d i fs ++ other_part d i g.
  Proof. apply filter_app. Qed.

  Lemma own_remove d i f fs : own_part d i (fs_remove f fs) = fs_remove f (own_part d i fs).
  Proof.
    induction fs as [|x r IH]; [reflexivity|]. unfold own_part, fs_remove in *. simpl.
    destruct (fname_eqb f (fst x)) eqn:E1; destruct (owned_by d i (fst x)) eqn:E2; simpl;
      rewrite ?E1, ?E2; simpl; rewrite ?IH; reflexivity.
  Qed.

  Lemma other_remove_owned d i f fs :
    owned_by d i f = true -> other_part d i (fs_remove f fs) = other_part d i fs.
  Proof.
    intros Ho. induction fs as [|x r IH]; [reflexivity|]. unfold other_part, fs_remove in *. simpl.
    destruct (fname_eqb f (fst x)) eqn:E1; simpl.
    - apply fname_eqb_eq in E1. subst f. rewrite Ho. simpl. exact IH.
    - destruct (owned_by d i (fst x)); simpl; rewrite IH; reflexivity.
  Qed.

  Lemma other_write_owned d i f c fs :
    owned_by d i f = true -> other_part d i (fs_write f c fs) = other_part d i fs.
  Proof.
    intros Ho. unfold fs_write. rewrite other_app, other_remove_owned by exact Ho.
    unfold other_part at 2. simpl. rewrite Ho. simpl. apply app_nil_r.
  Qed.

  Lemma read_own d i f fs : owned_by d i f = true -> fs_read f fs = fs_read f (own_part d i fs).
  Proof.
    intros Ho. unfold fs_read, own_part. induction fs as [|x r IH]; [reflexivity|]. simpl.
    destruct (fname_eqb f (fst x)) eqn:E1.
    - apply fname_eqb_eq in E1. rewrite <- E1, Ho. simpl. rewrite E1, fname_eqb_refl. reflexivity.
    - destruct (owned_by d i (fst x)); simpl; rewrite ?E1; exact IH.
  Qed.

  Lemma mem_own d i f fs : owned_by d i f = true -> fs_mem f fs = fs_mem f (own_part d i fs).
  Proof.
    intros Ho. unfold fs_mem, own_part. induction fs as [|x r IH]; [reflexivity|]. simpl.
    destruct (fname_eqb f (fst x)) eqn:E1.
    - apply fname_eqb_eq in E1. rewrite <- E1, Ho. simpl. rewrite E1, fname_eqb_refl. reflexivity.
    - destruct (owned_by d i (fst x)); simpl; rewrite ?E1; exact IH.
  Qed.

  Lemma own_own d i fs : own_part d i (own_part d i fs) = own_part d i fs.
  Proof.
    unfold own_part. induction fs as [|x r IH]; [reflexivity|]. simpl.
    destruct (owned_by d i (fst x)) eqn:E; simpl; rewrite ?E, IH; reflexivity.
  Qed.
  Lemma own_other d i fs : own_part d i (other_part d i fs) = [].
  Proof.
    unfold own_part, other_part. induction fs as [|x r IH]; [reflexivity|]. simpl.
    destruct (owned_by d i (fst x)) eqn:E; simpl; rewrite ?E; exact IH.
  Qed.
  Lemma other_own d i fs : other_part d i (own_part d i fs) = [].
  Proof.
    unfold own_part, other_part. induction fs as [|x r IH]; [reflexivity|]. simpl.
    destruct (owned_by d i (fst x)) eqn:E; simpl; rewrite ?E; exact IH.
  Qed.
  Lemma other_other d i fs : other_part d i (other_part d i fs) = other_part d i fs.
  Proof.
    unfold other_part. induction fs as [|x r IH]; [reflexivity|]. simpl.
    destruct (owned_by d i (fst x)) eqn:E; simpl; rewrite ?E; simpl; rewrite ?IH; reflexivity.
  Qed.
  (** a file system without files of the slot consists of foreign files only *)
  Lemma other_all d i fs : own_part d i fs = [] -> other_part d i fs = fs.
  Proof.
    unfold own_part, other_part. induction fs as [|x r IH]; [reflexivity|]. simpl.
    destruct (owned_by d i (fst x)) eqn:E; simpl; [discriminate|]. intros H. rewrite IH; auto.
  Qed.

  (** ** names of the slot's files: "<d>/<i>-<k>.npy" with strictly increasing k in [lo, c) *)
  Fixpoint names_ok (d i lo : nat) (m : fsys) (c : nat) : Prop :=
    match m with
    | [] => (lo <= c)%nat
    | (f, _) :: r => exists k, f = (d, i, k) /\ (lo <= k)%nat /\ names_ok d i (S k) r c
    end.

  Lemma names_ok_le d i lo m c : names_ok d i lo m c -> (lo <= c)%nat.
  Proof.
    revert lo; induction m as [|[f x] r IH]; intros lo H; simpl in H; [exact H|].
    destruct H as (k & _ & Hk & Hr). apply IH in Hr. lia.
  Qed.

  Lemma names_ok_weaken d i lo lo' m c : (lo' <= lo)%nat -> names_ok d i lo m c -> names_ok d i lo' m c.
  Proof.
    destruct m as [|[f x] r]; simpl; [lia|]. intros Hl (k & Hf & Hk & Hr). exists k. repeat split; auto; lia.
  Qed.

  Lemma names_ok_snoc d i lo m c x :
    names_ok d i lo m c -> names_ok d i lo (m ++ [((d, i, c), x)]) (S c).
  Proof.
    revert lo; induction m as [|[f y] r IH]; intros lo H; simpl in *.
    - exists c. repeat split; auto.
    - destruct H as (k & Hf & Hk & Hr). exists k. repeat split; auto.
  Qed.

  (** a name below [lo] or at/above the counter is not among them *)
  Lemma names_ok_absent d i lo m c k :
    names_ok d i lo m c -> (k < lo \/ c <= k)%nat ->
    fs_remove (d, i, k) m = m /\ fs_mem (d, i, k) m = false.
  Proof.
    revert lo; induction m as [|[f y] r IH]; intros lo H Hk; simpl in *; [auto|].
    destruct H as (k0 & -> & Hk0 & Hr).
    assert (S k0 <= c)%nat by (eapply names_ok_le; eauto).
    destruct (IH (S k0) Hr) as [E1 E2]; [lia|].
    assert (fname_eqb (d, i, k) (d, i, k0) = false) as Hne
        by (apply fname_eqb_neq; intros Heq; inversion Heq; lia).
    unfold fs_remove, fs_mem in *. simpl. rewrite Hne. simpl. rewrite E1, E2. auto.
  Qed.

  Lemma names_ok_owned d i lo m c : names_ok d i lo m c -> own_part d i m = m.
  Proof.
    revert lo; induction m as [|[f y] r IH]; intros lo H; simpl in *; [reflexivity|].
    destruct H as (k0 & -> & Hk0 & Hr). unfold own_part in *. simpl.
    rewrite owned_mk. f_equal. eapply IH; eauto.
  Qed.

  Lemma names_ok_read d i lo m c f x :
    names_ok d i lo m c -> In (f, x) m -> fs_read f m = Some x /\ owned_by d i f = true.
  Proof.
    revert lo; induction m as [|[f0 y] r IH]; intros lo H Hin; [contradiction|].
    simpl in H. destruct H as (k0 & -> & Hk0 & Hr).
    destruct Hin as [Heq|Hin].
    - inversion Heq; subst. unfold fs_read. simpl. rewrite fname_eqb_refl. split; [reflexivity|].
      apply owned_mk.
    - destruct (IH _ Hr Hin) as [Hread Ho]. split; [|exact Ho].
      assert (fs_mem f r = true) as Hm.
      { unfold fs_mem. apply existsb_exists. exists (f, x). split; [exact Hin|apply fname_eqb_refl]. }
      assert (fname_eqb f (d, i, k0) = false) as Hne.
      { destruct (fname_eqb f (d, i, k0)) eqn:E; [|reflexivity]. apply fname_eqb_eq in E. subst f.
        destruct (names_ok_absent d i (S k0) r c k0 Hr) as [_ Hab]; [lia|]. congruence. }
      unfold fs_read in *. simpl. rewrite Hne. exact Hread.
  Qed.
End FSL.

(* ------------------------------------------------------------------ *)
(** * The refinement *)

Section P.
  Context {P F : Type}.
  Variable save : P -> F.
  Variable load : F -> P.
  Hypothesis load_save : forall p, load (save p) = p.

  Notation entry := (entry P).
  Notation buffer := (buffer P).
  Notation state := (state P F).
  Notation op := (op P F).
  Notation fsys := (fsys F).
  Notation unpack := (unpack load).
  Notation step := (step save load).
  Notation final := (final save load).
  Notation delivered := (delivered save load).

  (** [mb b b' m]: [b] (the limited slot) and [b'] (the unlimited slot, everything in RAM) hold
      the same publications at the same times; [m] lists, in buffer order, the files of the
      entries of [b] that were spilled, each holding the saved payload. *)
  Inductive mb : buffer -> buffer -> fsys -> Prop :=
  | mb_nil : mb [] [] []
  | mb_ram t p z b b' m : mb b b' m -> mb ((t, InRam p z) :: b) ((t, InRam p z) :: b') m
  | mb_disk t p z f b b' m :
      mb b b' m -> mb ((t, OnDisk f) :: b) ((t, InRam p z) :: b') ((f, save p) :: m).

  Lemma mb_snoc_ram b b' m t p z :
    mb b b' m -> mb (b ++ [(t, InRam p z)]) (b' ++ [(t, InRam p z)]) m.
  Proof. induction 1; simpl; constructor; auto. constructor. Qed.

  Lemma mb_snoc_disk b b' m t p z f :
    mb b b' m -> mb (b ++ [(t, OnDisk f)]) (b' ++ [(t, InRam p z)]) (m ++ [(f, save p)]).
  Proof. induction 1; simpl; constructor; auto. constructor. Qed.

  Lemma mb_all_ram b b' m : mb b b' m -> Forall (fun e => unpack [] e <> None) (map snd b').
  Proof. induction 1; simpl; constructor; auto; discriminate. Qed.

  (** the two buffers look the same through [unpack] *)
  Lemma mb_view b b' m fs fs' :
    mb b b' m -> (forall f x, In (f, x) m -> fs_read f fs = Some x) ->
    mapb (unpack fs) b = mapb (unpack fs') b'.
  Proof.
    induction 1 as [|t p z b b' m Hmb IH|t p z f b b' m Hmb IH]; intros Hread; simpl.
    - reflexivity.
    - f_equal. apply IH. exact Hread.
    - f_equal.
      + rewrite (Hread f (save p)) by (left; reflexivity). simpl. rewrite load_save. reflexivity.
      + apply IH. intros f0 x Hin. apply Hread. right; exact Hin.
  Qed.

  Definition removals_ok (lg : list fsev) : Prop :=
    Forall (fun e => match e with Removed _ ex => ex = true | Created _ => True end) lg.

  Lemma created_app l1 l2 : created (l1 ++ l2) = created l1 ++ created l2.
  Proof. unfold created. apply flat_map_app. Qed.

  Lemma created_removed l f b : created (l ++ [Removed f b]) = created l.
  Proof. rewrite created_app. simpl. apply app_nil_r. Qed.

  Lemma created_snoc_seq lg (d i n : nat) :
    created lg = map (fun k => (d, i, k)) (seq 0 n) ->
    created (lg ++ [Created (d, i, n)]) = map (fun k => (d, i, k)) (seq 0 (S n)).
  Proof. intros H. rewrite created_app, H, seq_S, map_app. reflexivity. Qed.

  (** ** a push only appends: whatever times are buffered already (in particular a second publication
      for the time of the latest one), the buffer grows by exactly one entry at its end, every older
      entry stays where it is, and the only change to the file system is the write of the new file
      when the new entry is spilled.  An entry leaves the buffer only through [evict] / [finalize],
      which release it. *)
  Lemma push_appends (c : config) (s : state) t p size :
    refused (c_kind c) (s_buf s) = false ->
    exists e,
      s_buf (push save c s t p size) = s_buf s ++ [(t, e)]
      /\ is_spilled e = spills (c_limit c) (s_total s) size
      /\ (is_spilled e = true ->
          e = OnDisk (c_dir c, c_sid c, s_counter s)
          /\ s_fs (push save c s t p size) = fs_write (c_dir c, c_sid c, s_counter s) (save p) (s_fs s)
          /\ s_counter (push save c s t p size) = S (s_counter s))
      /\ (is_spilled e = false ->
          e = InRam p size
          /\ s_fs (push save c s t p size) = s_fs s
          /\ s_total (push save c s t p size) = s_total s + size).
  Proof.
    intros Hr. unfold push. rewrite Hr. unfold push_accept, pack.
    destruct (spills (c_limit c) (s_total s) size); simpl; eexists;
      (split; [reflexivity|]); (split; [reflexivity|]); split; intros Hsp;
      try discriminate; repeat split; reflexivity.
  Qed.

  (** ** static outputs: one publication, refused again wherever the first one lives *)
  Lemma static_refusal (c : config) (s : state) t p size :
    c_kind c = KStatic -> s_buf s <> [] -> push save c s t p size = s.
  Proof.
    intros Hk Hb. unfold push, refused. rewrite Hk. destruct (s_buf s); [contradiction|reflexivity].
  Qed.

  Lemma static_first_accepted (c : config) (s : state) t p size :
    c_kind c = KStatic -> s_buf s = [] ->
    exists e, s_buf (push save c s t p size) = [(t, e)]
              /\ is_spilled e = spills (c_limit c) (s_total s) size.
  Proof.
    intros Hk Hb. unfold push, refused. rewrite Hk, Hb. simpl. unfold push_accept, pack.
    destruct (spills (c_limit c) (s_total s) size); simpl; rewrite Hb; eexists; split; reflexivity.
  Qed.

  Lemma static_step_single (c : config) (s : state) (o : op) :
    c_kind c = KStatic -> (length (s_buf s) <= 1)%nat ->
    (length (s_buf (fst (step c s o))) <= 1)%nat.
  Proof.
    intros Hk Hl. destruct o as [t p size|key t| |g]; simpl.
    - destruct (s_buf s) as [|x r] eqn:Hb.
      + destruct (static_first_accepted c s t p size Hk Hb) as (e & -> & _). simpl. lia.
      + rewrite static_refusal; [rewrite Hb; exact Hl|exact Hk|rewrite Hb; discriminate].
    - unfold pull. destruct (reader (c_kind c) (s_buf s) (s_prev s) t); [|exact Hl].
      unfold threshold. rewrite Hk. simpl. exact Hl.
    - unfold finalize. destruct (finalize_files _ _ _). simpl. lia.
    - exact Hl.
  Qed.

  Theorem static_single (c : config) keys fs0 (ops : list op) :
    c_kind c = KStatic -> (length (s_buf (final c (init keys fs0) ops)) <= 1)%nat.
  Proof.
    intros Hk.
    assert (forall s, (length (s_buf s) <= 1)%nat -> (length (s_buf (final c s ops)) <= 1)%nat) as H.
    { induction ops as [|o r IH]; intros s Hl; simpl; [exact Hl|].
      apply IH. apply static_step_single; assumption. }
    apply H. simpl. lia.
  Qed.

  Section Sim.
    Variable c : config.
    Let d := c_dir c.
    Let i := c_sid c.
    Let cu := unlimited c.

    (** simulation relation + invariant; [s] runs with [c], [u] with [unlimited c] *)
    Definition Inv (s u : state) : Prop :=
      exists m,
        mb (s_buf s) (s_buf u) m
        /\ own_part d i (s_fs s) = m
        /\ names_ok d i 0 m (s_counter s)
        /\ s_conn s = s_conn u
        /\ s_prev s = s_prev u
        /\ created (s_log s) = map (fun k => (d, i, k)) (seq 0 (s_counter s))
        /\ removals_ok (s_log s).

    Lemma inv_reads (s : state) (m : fsys) :
      own_part d i (s_fs s) = m -> names_ok d i 0 m (s_counter s) ->
      forall f x, In (f, x) m -> fs_read f (s_fs s) = Some x.
    Proof.
      intros Hown Hn f x Hin. destruct (names_ok_read _ _ _ _ _ _ _ Hn Hin) as [Hr Ho].
      rewrite (read_own d i f _ Ho), Hown. exact Hr.
    Qed.

    (** *** eviction runs in lock step *)
    Lemma evict_sim thr b b' m :
      mb b b' m ->
      forall lo cnt tot (fs : fsys) lg tot' (fs' : fsys) lg',
        own_part d i fs = m -> names_ok d i lo m cnt -> removals_ok lg ->
        exists m1 lo1,
          mb (fst (evict thr b (tot, fs, lg))) (fst (evict thr b' (tot', fs', lg'))) m1
          /\ own_part d i (snd (fst (snd (evict thr b (tot, fs, lg))))) = m1
          /\ names_ok d i lo1 m1 cnt
          /\ other_part d i (snd (fst (snd (evict thr b (tot, fs, lg))))) = other_part d i fs
          /\ created (snd (snd (evict thr b (tot, fs, lg)))) = created lg
          /\ removals_ok (snd (snd (evict thr b (tot, fs, lg)))).
    Proof.
      induction 1 as [|t p z b b' m Hmb IH|t p z f b b' m Hmb IH];
        intros lo cnt tot fs lg tot' fs' lg' Hown Hn Hrm.
      - simpl. exists [], lo. repeat split; auto. constructor.
      - (* head in RAM on both sides *)
        destruct Hmb as [|t1 p1 z1 b1 b1' m1 Hmb1|t1 p1 z1 f1 b1 b1' m1 Hmb1].
        + simpl. exists [], lo. repeat split; auto. repeat constructor.
        + cbn [evict]. destruct (t1 <=? thr).
          * cbn [release].
            apply (IH lo cnt (tot - z) fs lg (tot' - z) fs' lg' Hown Hn Hrm).
          * simpl. exists m1, lo. repeat split; auto. repeat constructor; auto.
        + cbn [evict]. destruct (t1 <=? thr).
          * cbn [release].
            apply (IH lo cnt (tot - z) fs lg (tot' - z) fs' lg' Hown Hn Hrm).
          * simpl. exists ((f1, save p1) :: m1), lo. repeat split; auto. repeat constructor; auto.
      - (* head on disk in the limited slot *)
        simpl in Hn. destruct Hn as (k0 & Hf & Hk0 & Hn'). subst f.
        assert (own_part d i (fs_remove (d, i, k0) fs) = m) as Hown'.
        { rewrite own_remove, Hown. unfold fs_remove at 1. simpl. rewrite fname_eqb_refl. simpl.
          apply (names_ok_absent d i (S k0) m cnt k0 Hn'). lia. }
        assert (fs_mem (d, i, k0) fs = true) as Hmem.
        { rewrite (mem_own d i) by apply owned_mk. rewrite Hown. unfold fs_mem. simpl.
          rewrite fname_eqb_refl. reflexivity. }
        assert (removals_ok (lg ++ [Removed (d, i, k0) (fs_mem (d, i, k0) fs)])) as Hrm'.
        { apply Forall_app. split; [exact Hrm|]. constructor; [exact Hmem|constructor]. }
        destruct Hmb as [|t1 p1 z1 b1 b1' m1 Hmb1|t1 p1 z1 f1 b1 b1' m1 Hmb1].
        + simpl. exists [((d, i, k0), save p)], lo. repeat split; auto.
          * repeat constructor.
          * simpl. exists k0. repeat split; auto.
        + cbn [evict]. destruct (t1 <=? thr).
          * cbn [release].
            destruct (IH (S k0) cnt tot (fs_remove (d, i, k0) fs)
                         (lg ++ [Removed (d, i, k0) (fs_mem (d, i, k0) fs)]) (tot' - z) fs' lg'
                         Hown' Hn' Hrm') as (m2 & lo2 & H1 & H2 & H3 & H4 & H5 & H6).
            rewrite (other_remove_owned d i _ fs (owned_mk d i k0)) in H4.
            rewrite created_removed in H5.
            exists m2, lo2. repeat split; assumption.
          * simpl. exists ((d, i, k0, save p) :: m1), lo. repeat split; auto.
            -- repeat constructor; auto.
            -- simpl. exists k0. repeat split; auto.
        + cbn [evict]. destruct (t1 <=? thr).
          * cbn [release].
            destruct (IH (S k0) cnt tot (fs_remove (d, i, k0) fs)
                         (lg ++ [Removed (d, i, k0) (fs_mem (d, i, k0) fs)]) (tot' - z) fs' lg'
                         Hown' Hn' Hrm') as (m2 & lo2 & H1 & H2 & H3 & H4 & H5 & H6).
            rewrite (other_remove_owned d i _ fs (owned_mk d i k0)) in H4.
            rewrite created_removed in H5.
            exists m2, lo2. repeat split; assumption.
          * simpl. exists ((d, i, k0, save p) :: (f1, save p1) :: m1), lo. repeat split; auto.
            -- repeat constructor; auto.
            -- simpl. exists k0. repeat split; auto.
    Qed.

    (** *** finalize removes exactly the slot's files *)
    Lemma finalize_sim b b' m :
      mb b b' m ->
      forall lo cnt (fs : fsys) lg,
        own_part d i fs = m -> names_ok d i lo m cnt -> removals_ok lg ->
        own_part d i (fst (finalize_files b fs lg)) = []
        /\ other_part d i (fst (finalize_files b fs lg)) = other_part d i fs
        /\ created (snd (finalize_files b fs lg)) = created lg
        /\ removals_ok (snd (finalize_files b fs lg)).
    Proof.
      induction 1 as [|t p z b b' m Hmb IH|t p z f b b' m Hmb IH]; intros lo cnt fs lg Hown Hn Hrm.
      - simpl. auto.
      - simpl. eapply IH; eauto.
      - simpl in Hn. destruct Hn as (k0 & Hf & Hk0 & Hn'). subst f. simpl.
        assert (own_part d i (fs_remove (d, i, k0) fs) = m) as Hown'.
        { rewrite own_remove, Hown. unfold fs_remove at 1. simpl. rewrite fname_eqb_refl. simpl.
          apply (names_ok_absent d i (S k0) m cnt k0 Hn'). lia. }
        assert (fs_mem (d, i, k0) fs = true) as Hmem.
        { rewrite (mem_own d i) by apply owned_mk. rewrite Hown. unfold fs_mem. simpl.
          rewrite fname_eqb_refl. reflexivity. }
        destruct (IH (S k0) cnt (fs_remove (d, i, k0) fs)
                     (lg ++ [Removed (d, i, k0) (fs_mem (d, i, k0) fs)]) Hown' Hn') as (H1 & H2 & H3 & H4).
        { apply Forall_app. split; [exact Hrm|]. constructor; [exact Hmem|constructor]. }
        rewrite (other_remove_owned d i _ fs (owned_mk d i k0)) in H2.
        rewrite created_removed in H3.
        repeat split; assumption.
    Qed.

    Definition good_result (x : option (option (list (option P)))) : Prop :=
      match x with
      | Some (Some l) => Forall (fun o => o <> None) l
      | _ => True
      end.

    Definition is_env (o : op) : bool := match o with Env _ => true | _ => false end.

    (** *** one step *)
    Lemma step_sim s u o :
      Inv s u ->
      Inv (fst (step c s o)) (fst (step cu u o))
      /\ snd (step c s o) = snd (step cu u o)
      /\ good_result (snd (step c s o))
      /\ (is_env o = false -> other_part d i (s_fs (fst (step c s o))) = other_part d i (s_fs s)).
    Proof.
      intros (m & Hmb & Hown & Hn & Hconn & Hprev & Hcr & Hrm).
      destruct o as [t p size|key t| |g].
      - (* Push *)
        simpl. unfold push.
        replace (c_kind cu) with (c_kind c) by reflexivity.
        assert (refused (c_kind c) (s_buf s) = refused (c_kind c) (s_buf u)) as Hrf
            by (unfold refused; destruct Hmb; reflexivity).
        rewrite <- Hrf. destruct (refused (c_kind c) (s_buf s)).
        { repeat split; auto. exists m. repeat split; auto. }
        unfold push_accept, pack. simpl.
        replace (c_kind cu) with (c_kind c) by reflexivity.
        destruct (spills (c_limit c) (s_total s) size) eqn:Hsp; simpl.
        + repeat split; auto.
          * exists (m ++ [((d, i, s_counter s), save p)]).
            repeat split; simpl.
            -- apply mb_snoc_disk. exact Hmb.
            -- unfold fs_write. fold d i. rewrite own_app, own_remove, Hown.
               destruct (names_ok_absent d i 0 m (s_counter s) (s_counter s) Hn) as [E _]; [lia|].
               rewrite E. unfold own_part at 1. simpl. rewrite owned_mk. reflexivity.
            -- apply names_ok_snoc. exact Hn.
            -- exact Hconn.
            -- rewrite Hprev. reflexivity.
            -- apply created_snoc_seq. exact Hcr.
            -- apply Forall_app. split; [exact Hrm|]. repeat constructor.
          * intros _. apply other_write_owned, owned_mk.
        + repeat split; auto.
          exists m. repeat split; simpl; auto.
          * apply mb_snoc_ram. exact Hmb.
          * rewrite Hprev. reflexivity.
      - (* Pull *)
        simpl. unfold pull.
        replace (c_kind cu) with (c_kind c) by reflexivity.
        pose proof (mb_view _ _ _ (s_fs s) (s_fs u) Hmb (inv_reads s m Hown Hn)) as Hview.
        pose proof (reader_map (unpack (s_fs s)) (c_kind c) (s_buf s) (s_prev s) t) as R1.
        pose proof (reader_map (unpack (s_fs u)) (c_kind c) (s_buf u) (s_prev s) t) as R2.
        rewrite Hview, R2 in R1.
        rewrite <- Hprev.
        destruct (reader (c_kind c) (s_buf s) (s_prev s) t) as [es|] eqn:Er;
          destruct (reader (c_kind c) (s_buf u) (s_prev s) t) as [eu|] eqn:Eu;
          simpl in R1; try discriminate.
        2:{ simpl. repeat split; auto. exists m. repeat split; auto. }
        injection R1 as R1.
        assert (threshold (c_kind c) s key t = threshold (c_kind c) u key t) as Hthr.
        { unfold threshold. rewrite Hconn, Hprev. reflexivity. }
        rewrite Hthr.
        destruct (threshold (c_kind c) u key t) as [[cn pv] thr] eqn:Et.
        assert (good_result (Some (Some (map (unpack (s_fs s)) es)))) as Hgood.
        { simpl. rewrite <- R1.
          pose proof (reader_forall (fun e => unpack [] e <> None) _ _ _ _ _ (mb_all_ram _ _ _ Hmb) Eu) as Hall.
          clear - Hall. induction Hall as [|e l He Hl IH]; simpl; constructor; auto.
          destruct e; simpl in *; [discriminate|contradiction]. }
        destruct thr as [thr|].
        + destruct (evict_sim thr _ _ _ Hmb 0%nat (s_counter s) (s_total s) (s_fs s) (s_log s)
                              (s_total u) (s_fs u) (s_log u) Hown Hn Hrm)
            as (m1 & lo1 & H1 & H2 & H3 & H4 & H5 & H6).
          destruct (evict thr (s_buf s) (s_total s, s_fs s, s_log s)) as [b1 [[tot1 fs1] lg1]].
          destruct (evict thr (s_buf u) (s_total u, s_fs u, s_log u)) as [b2 [[tot2 fs2] lg2]].
          simpl in *. repeat split; auto.
          * exists m1. repeat split; simpl; auto.
            -- eapply names_ok_weaken; [|exact H3]. lia.
            -- rewrite H5. exact Hcr.
          * rewrite R1. reflexivity.
        + simpl. repeat split; auto.
          * exists m. repeat split; simpl; auto.
          * rewrite R1. reflexivity.
      - (* Finalize *)
        simpl. unfold finalize.
        destruct (finalize_sim _ _ _ Hmb 0%nat (s_counter s) (s_fs s) (s_log s) Hown Hn Hrm)
          as (H1 & H2 & H3 & H4).
        destruct (finalize_files (s_buf s) (s_fs s) (s_log s)) as [fs1 lg1].
        destruct (finalize_files (s_buf u) (s_fs u) (s_log u)) as [fs2 lg2].
        simpl in *. repeat split; auto.
        exists []. repeat split; simpl; auto.
        + constructor.
        + lia.
        + rewrite H3. exact Hcr.
      - (* Env *)
        simpl. repeat split; auto; [|discriminate].
        exists m. repeat split; simpl; auto.
        fold d i. rewrite own_app, own_other, own_own. exact Hown.
    Qed.

    Lemma init_inv keys fs0 fs0' :
      own_part d i fs0 = [] -> Inv (init keys fs0) (init keys fs0').
    Proof.
      intros H0. exists []. simpl. repeat split; auto; try constructor.
    Qed.

    (** *** whole runs *)
    Lemma run_sim ops : forall s u,
      Inv s u ->
      Inv (final c s ops) (final cu u ops)
      /\ delivered c s ops = delivered cu u ops
      /\ Forall good_result (delivered c s ops).
    Proof.
      induction ops as [|o r IH]; intros s u HI; simpl.
      - repeat split; auto.
      - destruct (step_sim s u o HI) as (HI' & Hres & Hgood & _).
        destruct (step c s o) as [s1 x1]. destruct (step cu u o) as [u1 x2]. simpl in *.
        destruct (IH s1 u1 HI') as (A & B & C).
        repeat split; auto. rewrite Hres, B. reflexivity.
    Qed.

    Theorem transparent keys fs0 fs0' ops :
      own_part d i fs0 = [] ->
      delivered c (init keys fs0) ops = delivered cu (init keys fs0') ops.
    Proof. intros H0. apply run_sim, init_inv, H0. Qed.

    Theorem reads_succeed keys fs0 ops :
      own_part d i fs0 = [] -> Forall good_result (delivered c (init keys fs0) ops).
    Proof. intros H0. apply (run_sim ops _ _ (init_inv keys fs0 fs0 H0)). Qed.

    Theorem files_exact keys fs0 fs0' ops :
      own_part d i fs0 = [] ->
      exists m, mb (s_buf (final c (init keys fs0) ops)) (s_buf (final cu (init keys fs0') ops)) m
                /\ own_part d i (s_fs (final c (init keys fs0) ops)) = m.
    Proof.
      intros H0. destruct (run_sim ops _ _ (init_inv keys fs0 fs0' H0)) as ((m & A & B & _) & _).
      exists m; auto.
    Qed.

    Theorem files_confined keys fs0 ops :
      own_part d i fs0 = [] ->
      let s := final c (init keys fs0) ops in
      created (s_log s) = map (fun k => (d, i, k)) (seq 0 (s_counter s))
      /\ (forall f, In f (created (s_log s)) -> owned_by d i f = true)
      /\ NoDup (created (s_log s))
      /\ removals_ok (s_log s).
    Proof.
      intros H0 s. destruct (run_sim ops _ _ (init_inv keys fs0 fs0 H0)) as ((m & _ & _ & _ & _ & _ & Hcr & Hrm) & _).
      fold s in Hcr, Hrm. repeat split; auto.
      - rewrite Hcr. intros f Hin. apply in_map_iff in Hin. destruct Hin as (k & <- & _). apply owned_mk.
      - rewrite Hcr. apply Injective_map_NoDup; [|apply seq_NoDup].
        intros a b Hab. inversion Hab; reflexivity.
    Qed.

    Lemma final_app ops1 ops2 s : final c s (ops1 ++ ops2) = final c (final c s ops1) ops2.
    Proof. revert s; induction ops1 as [|o r IH]; intros s; simpl; auto. Qed.

    Theorem clean_after_finalize keys fs0 ops :
      own_part d i fs0 = [] ->
      let s := final c (init keys fs0) (ops ++ [Finalize]) in
      own_part d i (s_fs s) = [] /\ s_buf s = [].
    Proof.
      intros H0 s.
      destruct (run_sim (ops ++ [Finalize]) _ _ (init_inv keys fs0 fs0 H0)) as ((m & Hmb & Hown & _) & _).
      fold s in Hmb, Hown.
      assert (s_buf s = []) as Hb.
      { unfold s. rewrite final_app. simpl. unfold finalize.
        destruct (finalize_files _ _ _). reflexivity. }
      split; [|exact Hb]. rewrite Hb in Hmb. rewrite Hown. inversion Hmb. reflexivity.
    Qed.

    (** the foreign files are those of the last interference (or the initial ones) *)
    Fixpoint env_last (g0 : fsys) (ops : list op) : fsys :=
      match ops with
      | [] => g0
      | Env g :: r => env_last g r
      | _ :: r => env_last g0 r
      end.

    Lemma foreign_from ops : forall s u g0,
      Inv s u -> other_part d i (s_fs s) = other_part d i g0 ->
      other_part d i (s_fs (final c s ops)) = other_part d i (env_last g0 ops).
    Proof.
      induction ops as [|o r IH]; intros s u g0 HI Hg; simpl; [exact Hg|].
      destruct (step_sim s u o HI) as (HI' & _ & _ & Hfr).
      destruct o as [t p size|key t| |g].
      - eapply IH; [exact HI'|]. rewrite Hfr by reflexivity. exact Hg.
      - eapply IH; [exact HI'|]. rewrite Hfr by reflexivity. exact Hg.
      - eapply IH; [exact HI'|]. rewrite Hfr by reflexivity. exact Hg.
      - eapply IH; [exact HI'|]. simpl. fold d i. rewrite other_app, other_other, other_own. apply app_nil_r.
    Qed.

    Theorem foreign_untouched keys fs0 ops :
      own_part d i fs0 = [] ->
      other_part d i (s_fs (final c (init keys fs0) ops)) = other_part d i (env_last fs0 ops).
    Proof. intros H0. eapply foreign_from; [apply (init_inv keys fs0 fs0 H0)|reflexivity]. Qed.

    Lemma env_last_none g0 ops : forallb (fun o => negb (is_env o)) ops = true -> env_last g0 ops = g0.
    Proof.
      revert g0; induction ops as [|o r IH]; intros g0 H; simpl in *; [reflexivity|].
      apply andb_true_iff in H. destruct H as [Ho Hr]. destruct o; simpl in Ho; try discriminate; auto.
    Qed.

    Theorem fs_restored keys fs0 ops :
      own_part d i fs0 = [] ->
      forallb (fun o => negb (is_env o)) ops = true ->
      s_fs (final c (init keys fs0) (ops ++ [Finalize])) = fs0.
    Proof.
      intros H0 Hne.
      destruct (clean_after_finalize keys fs0 ops H0) as [Hown _].
      pose proof (foreign_untouched keys fs0 (ops ++ [Finalize]) H0) as Hfr.
      rewrite env_last_none in Hfr.
      2:{ rewrite forallb_app, Hne. reflexivity. }
      rewrite (other_all d i _ Hown), (other_all d i fs0 H0) in Hfr. exact Hfr.
    Qed.
  End Sim.
End P.
