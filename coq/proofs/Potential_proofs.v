(** C04: "on every cycle the delays sum to at least the sum of the largest steps"  ==>  a feasible potential exists.

    Pure graph theory first (difference constraints / Bellman-Ford argument, mechanised from scratch): a finite
    directed graph with integer edge weights in which no closed walk has positive weight admits a potential [phi]
    with  phi a + w <= phi b  for every edge (a, b, w).  [phi v] is minus the largest weight of a walk starting at [v];
    walks with at least [n] edges repeat a node (pigeonhole), the closed part can be cut out without losing weight.
    Then the instance for compositions: edges = the uncut links, weight = largest step of the consumer - delay. *)
From Coq Require Import List ZArith Bool Arith Lia.
From FV Require Import Base Sched.
From FVP Require Import Adapters_proofs Sched_proofs.
Import ListNotations.
Open Scope Z_scope.

Definition edge : Type := (nat * nat * Z)%type.
Definition esrc (e : edge) : nat := fst (fst e).
Definition etgt (e : edge) : nat := snd (fst e).
Definition ewt (e : edge) : Z := snd e.

Section Potential.
  Variable n : nat.
  Variable E : list edge.
  Hypothesis E_nodes : forall e, In e E -> (esrc e < n)%nat /\ (etgt e < n)%nat.

  Fixpoint walk (v : nat) (p : list edge) : Prop :=
    match p with [] => True | e :: r => esrc e = v /\ In e E /\ walk (etgt e) r end.
  Fixpoint endn (v : nat) (p : list edge) : nat :=
    match p with [] => v | e :: r => endn (etgt e) r end.
  Definition wt (p : list edge) : Z := fold_right (fun e a => ewt e + a) 0 p.
  Definition nodes (v : nat) (p : list edge) : list nat := v :: map etgt p.

  (** no closed walk gains weight *)
  Hypothesis NoPos : forall u c, c <> [] -> walk u c -> endn u c = u -> wt c <= 0.

  Lemma walk_app p1 : forall v p2, walk v (p1 ++ p2) <-> walk v p1 /\ walk (endn v p1) p2.
  Proof.
    induction p1 as [|e r IH]; intros v p2; cbn [app walk endn]; [tauto|].
    rewrite IH. tauto.
  Qed.

  Lemma endn_app p1 : forall v p2, endn v (p1 ++ p2) = endn (endn v p1) p2.
  Proof. induction p1 as [|e r IH]; intros v p2; cbn [app endn]; [reflexivity|apply IH]. Qed.

  Lemma wt_app p1 p2 : wt (p1 ++ p2) = wt p1 + wt p2.
  Proof. unfold wt. induction p1 as [|e r IH]; simpl; [lia|]. rewrite IH. lia. Qed.

  Lemma nodes_lt p : forall v, (v < n)%nat -> walk v p -> forall u, In u (nodes v p) -> (u < n)%nat.
  Proof.
    induction p as [|e r IH]; intros v Hv W u Hu.
    - destruct Hu as [<-|[]]. exact Hv.
    - cbn [walk] in W. destruct W as [Hs [Hin W]].
      destruct Hu as [<-|Hu]; [exact Hv|].
      apply (IH (etgt e)); [apply (E_nodes e Hin)|exact W|exact Hu].
  Qed.

  Lemma in_nodes_split r : forall b u, In u (nodes b r) ->
    exists r1 r2, r = r1 ++ r2 /\ endn b r1 = u.
  Proof.
    induction r as [|e r IH]; intros b u Hu.
    - destruct Hu as [<-|[]]. exists [], []. split; reflexivity.
    - destruct Hu as [<-|Hu].
      + exists [], (e :: r). split; reflexivity.
      + destruct (IH (etgt e) u Hu) as [r1 [r2 [-> Hend]]].
        exists (e :: r1), r2. split; [reflexivity|exact Hend].
  Qed.

  Lemma decomp p : forall v,
    NoDup (nodes v p) \/
    exists p1 c p2, p = p1 ++ c ++ p2 /\ c <> [] /\ endn (endn v p1) c = endn v p1.
  Proof.
    induction p as [|e r IH]; intros v.
    - left. constructor; [intros []|constructor].
    - destruct (IH (etgt e)) as [ND|[p1 [c [p2 [-> [Hc Hend]]]]]].
      + destruct (in_dec Nat.eq_dec v (nodes (etgt e) r)) as [Hin|Hnin].
        * right. destruct (in_nodes_split r (etgt e) v Hin) as [r1 [r2 [-> Hend]]].
          exists [], (e :: r1), r2. split; [reflexivity|]. split; [discriminate|]. exact Hend.
        * left. unfold nodes in *. cbn [map]. constructor; assumption.
      + right. exists (e :: p1), c, p2. split; [reflexivity|]. split; [exact Hc|]. exact Hend.
  Qed.

  Lemma short : forall k p v, (length p <= k)%nat -> (v < n)%nat -> walk v p ->
    exists p', walk v p' /\ (length p' < n)%nat /\ wt p <= wt p'.
  Proof.
    induction k as [|k IH]; intros p v Hl Hv W.
    - destruct p; [|simpl in Hl; lia]. exists []. split; [exact I|]. split; [simpl; lia|lia].
    - destruct (decomp p v) as [ND|[p1 [c [p2 [-> [Hc Hend]]]]]].
      + exists p. split; [exact W|]. split; [|lia].
        assert (Hincl : incl (nodes v p) (seq 0 n)).
        { intros u Hu. apply in_seq. pose proof (nodes_lt p v Hv W u Hu). lia. }
        pose proof (NoDup_incl_length ND Hincl) as Hlen. rewrite seq_length in Hlen.
        unfold nodes in Hlen. cbn [length] in Hlen. rewrite map_length in Hlen. lia.
      + apply walk_app in W. destruct W as [W1 W2]. apply walk_app in W2. destruct W2 as [Wc W3].
        rewrite Hend in W3.
        assert (Wn : walk v (p1 ++ p2)) by (apply walk_app; split; assumption).
        assert (Hcw : wt c <= 0) by (apply (NoPos (endn v p1) c Hc Wc Hend)).
        assert (Hlen : (length (p1 ++ p2) <= k)%nat).
        { rewrite !app_length in Hl. rewrite app_length. destruct c; [congruence|]. simpl in Hl. lia. }
        destruct (IH (p1 ++ p2) v Hlen Hv Wn) as [p' [Wp' [Lp' Hw]]].
        exists p'. split; [exact Wp'|]. split; [exact Lp'|].
        rewrite !wt_app. rewrite wt_app in Hw. lia.
  Qed.

  (** largest weight of a walk from [v] with at most [k] edges *)
  Definition best (g : nat -> Z) (v : nat) (L : list edge) : Z :=
    fold_right (fun e acc => if Nat.eqb (esrc e) v then Z.max acc (ewt e + g (etgt e)) else acc) 0 L.

  Lemma best_ge0 g v L : 0 <= best g v L.
  Proof. induction L as [|e L IH]; cbn [best fold_right]; [lia|]. fold (best g v L). destruct (Nat.eqb _ _); lia. Qed.

  Lemma best_ge g v L e : In e L -> esrc e = v -> ewt e + g (etgt e) <= best g v L.
  Proof.
    induction L as [|x L IH]; intros Hin Hs; [destruct Hin|].
    cbn [best fold_right]. fold (best g v L). destruct Hin as [->|Hin].
    - rewrite Hs, Nat.eqb_refl. lia.
    - specialize (IH Hin Hs). destruct (Nat.eqb _ _); lia.
  Qed.

  Lemma best_attained g v L :
    best g v L = 0 \/ exists e, In e L /\ esrc e = v /\ best g v L = ewt e + g (etgt e).
  Proof.
    induction L as [|x L IH]; [left; reflexivity|].
    cbn [best fold_right]. fold (best g v L).
    destruct (Nat.eqb_spec (esrc x) v) as [Hx|Hx].
    - destruct (Z.max_spec (best g v L) (ewt x + g (etgt x))) as [[_ ->]|[_ ->]].
      + right. exists x. split; [now left|]. split; [exact Hx|reflexivity].
      + destruct IH as [H0|[e [Hin [Hs He]]]]; [left; exact H0|].
        right. exists e. split; [now right|]. split; assumption.
    - destruct IH as [H0|[e [Hin [Hs He]]]]; [left; exact H0|].
      right. exists e. split; [now right|]. split; assumption.
  Qed.

  Fixpoint M (k : nat) (v : nat) : Z :=
    match k with O => 0 | S k' => best (M k') v E end.

  Lemma M_ge0 k v : 0 <= M k v.
  Proof. destruct k; cbn [M]; [lia|apply best_ge0]. Qed.

  Lemma M_attained k : forall v, exists p, walk v p /\ (length p <= k)%nat /\ wt p = M k v.
  Proof.
    induction k as [|k IH]; intros v.
    - exists []. split; [exact I|]. split; [simpl; lia|reflexivity].
    - cbn [M]. destruct (best_attained (M k) v E) as [H0|[e [Hin [Hs He]]]].
      + exists []. split; [exact I|]. split; [simpl; lia|]. rewrite H0. reflexivity.
      + destruct (IH (etgt e)) as [p [W [L Hw]]].
        exists (e :: p). split; [cbn [walk]; auto|]. split; [simpl; lia|].
        cbn [wt fold_right]. fold (wt p). rewrite Hw, He. reflexivity.
  Qed.

  Lemma M_upper p : forall k v, walk v p -> (length p <= k)%nat -> wt p <= M k v.
  Proof.
    induction p as [|e r IH]; intros k v W L.
    - cbn [wt fold_right]. apply M_ge0.
    - destruct k as [|k]; [simpl in L; lia|]. cbn [walk] in W. destruct W as [Hs [Hin W]].
      cbn [wt fold_right M]. fold (wt r).
      assert (Hr : wt r <= M k (etgt e)) by (apply IH; [exact W|simpl in L; lia]).
      pose proof (best_ge (M k) v E e Hin Hs). lia.
  Qed.

  Lemma M_stable k v : (v < n)%nat -> M k v <= M (n - 1) v.
  Proof.
    intros Hv. destruct (M_attained k v) as [p [W [L Hw]]].
    destruct (short (length p) p v (Nat.le_refl _) Hv W) as [p' [W' [L' Hw']]].
    pose proof (M_upper p' (n - 1)%nat v W' ltac:(lia)). lia.
  Qed.

  (** the converse (telescoping): a feasible potential bounds every walk, so closed walks gain nothing *)
  Lemma potential_bounds_walks (phi : nat -> Z) :
    (forall e, In e E -> phi (esrc e) + ewt e <= phi (etgt e)) ->
    forall c u, walk u c -> wt c <= phi (endn u c) - phi u.
  Proof.
    intros F. induction c as [|e r IH]; intros u W.
    - cbn [wt fold_right endn]. lia.
    - cbn [walk] in W. destruct W as [Hs [Hin W]]. cbn [wt fold_right endn]. fold (wt r).
      specialize (IH (etgt e) W). pose proof (F e Hin). subst u. lia.
  Qed.

  Definition pot (v : nat) : Z := - M (n - 1) v.

  Theorem potential_feasible : forall e, In e E -> pot (esrc e) + ewt e <= pot (etgt e).
  Proof.
    intros e Hin. unfold pot.
    pose proof (best_ge (M (n - 1)) (esrc e) E e Hin eq_refl) as H1.
    change (best (M (n - 1)) (esrc e) E) with (M (S (n - 1)) (esrc e)) in H1.
    pose proof (M_stable (S (n - 1)) (esrc e) (proj1 (E_nodes e Hin))) as H2. lia.
  Qed.
End Potential.

(** * The instance for compositions *)

Definition link_edges (cs : composition) (c : nat) : list edge :=
  flat_map (fun inp =>
    if cut_by_nodep (i_chain inp) then []
    else match edge_delay (i_chain inp) with
         | Some D => [(c, fst (i_src inp), S_of cs c - D)]
         | None => []
         end) (c_inputs (getc cs c)).

Definition delay_graph (cs : composition) : list edge :=
  flat_map (link_edges cs) (seq 0 (length cs)).

(** every link that is not cut carries only pass-through adapters, buffers and non-negative fixed delays, and names a
    component of the composition *)
Definition links_ok (cs : composition) : Prop :=
  forall c k inp, nth_error (c_inputs (getc cs c)) k = Some inp ->
    cut_by_nodep (i_chain inp) = true \/
    ((fst (i_src inp) < length cs)%nat /\ exists D, edge_delay (i_chain inp) = Some D).

Theorem cycles_covered_give_potential cs rank :
  links_ok cs ->
  (* no closed walk of the delay graph has positive weight: on every cycle the delays cover the largest steps *)
  (forall u c, c <> [] -> walk (delay_graph cs) u c -> endn u c = u -> wt c <= 0) ->
  (* pull-based components do not feed each other in a circle *)
  (forall c k inp, nth_error (c_inputs (getc cs c)) k = Some inp ->
     is_time cs c = false -> is_time cs (fst (i_src inp)) = false ->
     cut_by_nodep (i_chain inp) = true \/ (rank (fst (i_src inp)) < rank c)%nat) ->
  exists phi, sufficient cs phi rank.
Proof.
  intros LO NoPos Rk.
  set (n := length cs). set (E := delay_graph cs).
  assert (EN : forall e, In e E -> (esrc e < n)%nat /\ (etgt e < n)%nat).
  { intros e He. unfold E, delay_graph in He. apply in_flat_map in He. destruct He as [c [Hc He]].
    apply in_seq in Hc. unfold link_edges in He. apply in_flat_map in He. destruct He as [inp [Hinp He]].
    destruct (In_nth_error _ _ Hinp) as [k Hk].
    destruct (cut_by_nodep (i_chain inp)) eqn:Hcut; [destruct He|].
    destruct (LO c k inp Hk) as [Hc'|[Hs [D HD]]]; [congruence|].
    rewrite HD in He. destruct He as [<-|[]]. unfold esrc, etgt. cbn [fst snd]. split; [unfold n; lia|exact Hs]. }
  exists (pot n E). split; [|exact Rk].
  intros c k inp Hk.
  destruct (LO c k inp Hk) as [Hcut|[Hs [D HD]]]; [left; exact Hcut|].
  destruct (cut_by_nodep (i_chain inp)) eqn:Hcut; [left; reflexivity|]. right.
  exists D. split; [exact HD|].
  assert (Hc : (c < n)%nat).
  { destruct (Nat.lt_ge_cases c n) as [H|H]; [exact H|].
    unfold getc in Hk. rewrite nth_overflow in Hk by (fold n; lia). simpl in Hk. destruct k; discriminate. }
  assert (He : In (c, fst (i_src inp), S_of cs c - D) E).
  { unfold E, delay_graph. apply in_flat_map. exists c. split; [apply in_seq; fold n; lia|].
    unfold link_edges. apply in_flat_map. exists inp. split; [eapply nth_error_In; exact Hk|].
    rewrite Hcut, HD. now left. }
  pose proof (potential_feasible n E EN NoPos _ He) as H. unfold esrc, etgt, ewt in H. cbn [fst snd] in H. lia.
Qed.

(** the converse for compositions: with a feasible potential no closed walk of the delay graph gains weight *)
Theorem potential_gives_cycles_covered cs phi rank :
  sufficient cs phi rank ->
  forall u c, c <> [] -> walk (delay_graph cs) u c -> endn u c = u -> wt c <= 0.
Proof.
  intros S u c _ W Hend.
  assert (F : forall e, In e (delay_graph cs) -> phi (esrc e) + ewt e <= phi (etgt e)).
  { intros e He. unfold delay_graph in He. apply in_flat_map in He. destruct He as [c0 [_ He]].
    unfold link_edges in He. apply in_flat_map in He. destruct He as [inp [Hinp He]].
    destruct (In_nth_error _ _ Hinp) as [k Hk].
    destruct (cut_by_nodep (i_chain inp)) eqn:Hcut; [destruct He|].
    destruct (edge_delay (i_chain inp)) as [D|] eqn:HD; [|destruct He]. destruct He as [<-|[]].
    destruct (suf_edge cs phi rank S c0 k inp Hk) as [Hc|[D' [HD' Hle]]]; [congruence|].
    rewrite HD in HD'. injection HD' as <-. unfold esrc, etgt, ewt. cbn [fst snd]. lia. }
  pose proof (potential_bounds_walks (delay_graph cs) phi F c u W) as H. rewrite Hend in H. lia.
Qed.


(** * The ranking of pull-based components, constructed as well

    [pull_graph]: an edge consumer -> source (weight 1) for every uncut link between two pull-based components.  If it
    has no closed walk at all (pull-based components do not feed each other in a circle), the length of the longest
    walk leaving a component is a ranking that decreases along these links. *)
Definition pull_edges (cs : composition) (c : nat) : list edge :=
  flat_map (fun inp =>
    if cut_by_nodep (i_chain inp) || is_time cs c || is_time cs (fst (i_src inp)) then []
    else [(c, fst (i_src inp), 1)]) (c_inputs (getc cs c)).

Definition pull_graph (cs : composition) : list edge := flat_map (pull_edges cs) (seq 0 (length cs)).

Theorem acyclic_pull_gives_rank cs :
  links_ok cs ->
  (forall u c, c <> [] -> walk (pull_graph cs) u c -> endn u c = u -> False) ->
  exists rank, forall c k inp, nth_error (c_inputs (getc cs c)) k = Some inp ->
     is_time cs c = false -> is_time cs (fst (i_src inp)) = false ->
     cut_by_nodep (i_chain inp) = true \/ (rank (fst (i_src inp)) < rank c)%nat.
Proof.
  intros LO AC.
  set (n := length cs). set (E := pull_graph cs).
  assert (EN : forall e, In e E -> (esrc e < n)%nat /\ (etgt e < n)%nat).
  { intros e He. unfold E, pull_graph in He. apply in_flat_map in He. destruct He as [c [Hc He]].
    apply in_seq in Hc. unfold pull_edges in He. apply in_flat_map in He. destruct He as [inp [Hinp He]].
    destruct (In_nth_error _ _ Hinp) as [k Hk].
    destruct (cut_by_nodep (i_chain inp)) eqn:Hcut; [destruct He|].
    destruct (is_time cs c); [destruct He|]. destruct (is_time cs (fst (i_src inp))); [destruct He|].
    cbn [orb] in He. destruct He as [<-|[]].
    destruct (LO c k inp Hk) as [Hc'|[Hs _]]; [congruence|].
    unfold esrc, etgt. cbn [fst snd]. split; [unfold n; lia|exact Hs]. }
  assert (NP : forall u c, c <> [] -> walk E u c -> endn u c = u -> wt c <= 0).
  { intros u c Hc W He. exfalso. exact (AC u c Hc W He). }
  exists (fun c => Z.to_nat (M E (n - 1) c)).
  intros c k inp Hk Ht Hts.
  destruct (cut_by_nodep (i_chain inp)) eqn:Hcut; [left; reflexivity|]. right.
  assert (Hc : (c < n)%nat).
  { destruct (Nat.lt_ge_cases c n) as [H|H]; [exact H|].
    unfold getc in Hk. rewrite nth_overflow in Hk by (fold n; lia). simpl in Hk. destruct k; discriminate. }
  assert (He : In (c, fst (i_src inp), 1) E).
  { unfold E, pull_graph. apply in_flat_map. exists c. split; [apply in_seq; fold n; lia|].
    unfold pull_edges. apply in_flat_map. exists inp. split; [eapply nth_error_In; exact Hk|].
    rewrite Hcut, Ht, Hts. now left. }
  pose proof (potential_feasible n E EN NP _ He) as H. unfold pot, esrc, etgt, ewt in H. cbn [fst snd] in H.
  pose proof (M_ge0 E (n - 1) (fst (i_src inp))). pose proof (M_ge0 E (n - 1) c). lia.
Qed.

Theorem cycles_covered_give_sufficient cs :
  links_ok cs ->
  (forall u c, c <> [] -> walk (delay_graph cs) u c -> endn u c = u -> wt c <= 0) ->
  (forall u c, c <> [] -> walk (pull_graph cs) u c -> endn u c = u -> False) ->
  exists phi rank, sufficient cs phi rank.
Proof.
  intros LO NP AC. destruct (acyclic_pull_gives_rank cs LO AC) as [rank RK].
  destruct (cycles_covered_give_potential cs rank LO NP RK) as [phi S]. exists phi, rank. exact S.
Qed.
