(** Proofs about the time-shifting adapters on one link (model: FV.Sched, the adapter part):
    the time the scheduler checks equals the time actually requested from the source
    (C02_req_is_actual / C13_driver_agrees), the delay adapters' answers (C13). *)
From Coq Require Import List ZArith Bool Arith Lia.
From FV Require Import Base Sched.
Import ListNotations.
Open Scope Z_scope.

(** ** clamp *)
Lemma clamp_ge init x : init <= clamp init x.
Proof. unfold clamp. destruct (x <? init) eqn:E; lia. Qed.

Lemma clamp_max init x : clamp init x = Z.max x init.
Proof. unfold clamp. destruct (x <? init) eqn:E; lia. Qed.

Lemma clamp_mono init x y : x <= y -> clamp init x <= clamp init y.
Proof. rewrite !clamp_max. lia. Qed.

(** ** scheduler walk vs. actual pull *)

Lemma sched_walk_buffered ch : forall ss init pt t,
  sched_walk ch ss init pt true t = Some t.
Proof.
  induction ch as [|a ch IH]; intros ss init pt t; simpl; [reflexivity|].
  destruct ss as [|s ss]; [reflexivity|]. apply IH.
Qed.

Definition pull_time (ch : list adapter) (ss : list (list Z)) (init : Z) (pt : option Z) (t : Z) : Z :=
  fst (fst (pull_chain ch ss init pt t)).

(** The time the driver checks on a link equals the time argument that reaches the end of the
    pulled part of the link when the consumer pulls (for every chain, every adapter state). *)
Lemma sched_req_is_actual ch : forall ss init pt t lt,
  sched_walk ch ss init pt false t = Some lt ->
  pull_time ch ss init pt t = lt.
Proof.
  unfold pull_time.
  induction ch as [|a ch IH]; intros ss init pt t lt H; simpl in *.
  - now inversion H.
  - destruct ss as [|s ss]; [now inversion H|].
    destruct a; simpl in *.
    + specialize (IH ss init pt t lt H).
      destruct (pull_chain ch ss init pt t) as [[r b] s2]; simpl in *; exact IH.
    + specialize (IH ss init pt _ lt H).
      destruct (pull_chain ch ss init pt (clamp init (t - d))) as [[r b] s2]; simpl in *; exact IH.
    + specialize (IH ss init pt _ lt H).
      destruct (pull_chain ch ss init pt (clamp init (hd init s - extra))) as [[r b] s2]; simpl in *; exact IH.
    + discriminate.
    + rewrite sched_walk_buffered in H. now inversion H.
Qed.

(** AToPush on the pulled part (before the first buffering adapter) *)
Fixpoint cut_by_nodep (ch : list adapter) : bool :=
  match ch with
  | [] => false
  | AToPush :: _ => true
  | ABuf :: _ => false
  | _ :: r => cut_by_nodep r
  end.

Lemma sched_walk_none_iff ch : forall ss init pt t,
  length ss = length ch ->
  (sched_walk ch ss init pt false t = None <-> cut_by_nodep ch = true).
Proof.
  induction ch as [|a ch IH]; intros ss init pt t L; simpl.
  - split; discriminate.
  - destruct ss as [|s ss]; [discriminate|]. simpl in L. injection L as L.
    destruct a; simpl; try (apply IH; assumption).
    + tauto.
    + rewrite sched_walk_buffered. split; discriminate.
Qed.

(** the walk is monotone in the target time, and whether it is cut does not depend on it *)
Lemma with_delay_mono a s init pt t1 t2 :
  t1 <= t2 -> with_delay a s init pt t1 <= with_delay a s init pt t2.
Proof.
  intros H. destruct a; simpl; try lia.
  - apply clamp_mono; lia.
  - destruct pt as [p|]; [|lia]. destruct (p <? t1) eqn:E1, (p <? t2) eqn:E2; lia.
Qed.

Lemma sched_walk_mono ch : forall ss init pt b t1 t2 l2,
  t1 <= t2 -> sched_walk ch ss init pt b t2 = Some l2 ->
  exists l1, sched_walk ch ss init pt b t1 = Some l1 /\ l1 <= l2.
Proof.
  induction ch as [|a ch IH]; intros ss init pt b t1 t2 l2 Ht H; simpl in *.
  - inversion H; subst. eauto.
  - destruct ss as [|s ss]; [inversion H; subst; eauto|].
    destruct b; [eapply IH; eauto|].
    destruct a; try discriminate.
    + eapply IH; [exact Ht|exact H].
    + eapply IH; [|exact H]. apply clamp_mono; lia.
    + eapply IH; [|exact H]. apply Z.le_refl.
    + eapply IH; [exact Ht|exact H].
Qed.

(** lower bound of every time that reaches the source *)
Lemma with_delay_lower a s init pt t lo :
  lo <= init -> lo <= t -> (forall p, pt = Some p -> lo <= p) ->
  lo <= with_delay a s init pt t.
Proof.
  intros Hi Ht Hp. destruct a; simpl; try lia.
  - pose proof (clamp_ge init (t - d)); lia.
  - pose proof (clamp_ge init (hd init s - extra)); lia.
  - destruct pt as [p|]; [|lia]. specialize (Hp p eq_refl). destruct (p <? t); lia.
Qed.

Lemma pull_time_lower ch : forall ss init pt t lo,
  lo <= init -> lo <= t -> (forall p, pt = Some p -> lo <= p) ->
  lo <= pull_time ch ss init pt t.
Proof.
  unfold pull_time.
  induction ch as [|a ch IH]; intros ss init pt t lo Hi Ht Hp; simpl; [lia|].
  destruct ss as [|s ss]; [simpl; lia|].
  destruct a; simpl.
  - specialize (IH ss init pt t lo Hi Ht Hp).
    destruct (pull_chain ch ss init pt t) as [[r b] s2]; simpl in *; exact IH.
  - assert (H := with_delay_lower (AFixed d) s init pt t lo Hi Ht Hp). simpl in H.
    specialize (IH ss init pt _ lo Hi H Hp).
    destruct (pull_chain ch ss init pt (clamp init (t - d))) as [[r b] s2]; simpl in *; exact IH.
  - assert (H := with_delay_lower (AToPull n extra) s init pt t lo Hi Ht Hp). simpl in H.
    specialize (IH ss init pt _ lo Hi H Hp).
    destruct (pull_chain ch ss init pt (clamp init (hd init s - extra))) as [[r b] s2]; simpl in *; exact IH.
  - assert (H := with_delay_lower AToPush s init pt t lo Hi Ht Hp). simpl in H.
    specialize (IH ss init pt _ lo Hi H Hp).
    destruct (pull_chain ch ss init pt (match pt with Some p => if p <? t then p else t | None => init end))
      as [[r b] s2]; simpl in *; exact IH.
  - simpl. lia.
Qed.

(** ** C13: what the delay adapters answer *)

(** The source of a link, as a function from the requested time to what it delivers. *)
Section Delay.
  Context {A : Type} (source : Z -> A).

  (** [TimeDelayAdapter.get_data]: ask the source for [with_delay t] *)
  Definition answer (a : adapter) (pulls : list Z) (init : Z) (pt : option Z) (t : Z) : A :=
    source (with_delay a pulls init pt t).

  Lemma fixed_answer d init pt pulls t :
    answer (AFixed d) pulls init pt t = source (Z.max (t - d) init).
  Proof. unfold answer; simpl. now rewrite clamp_max. Qed.

  Lemma topush_answer init pulls p t :
    answer AToPush pulls init (Some p) t = source (Z.min t p).
  Proof.
    unfold answer; simpl. destruct (p <? t) eqn:E; f_equal; lia.
  Qed.

  Lemma topush_answer_before_push init pulls t :
    answer AToPush pulls init None t = source init.
  Proof. reflexivity. Qed.
End Delay.

(** DelayToPull: run a request sequence through the adapter state *)
Fixpoint topull_times (n : nat) (extra init : Z) (pulls : list Z) (reqs : list Z) : list Z :=
  match reqs with
  | [] => []
  | r :: rest =>
      with_delay (AToPull n extra) pulls init None r
      :: topull_times n extra init (pulled (AToPull n extra) pulls init r) rest
  end.

(** [r_{j-n}] with [r_i = init] for [i <= 0]: the request history, newest last *)
Definition nth_back (n : nat) (init : Z) (hist : list Z) : Z :=
  (* the element [n-1] positions before the end of [init :: hist], or [init] if there is none *)
  nth (length hist + 1 - n)%nat (init :: hist) init.

Lemma trim_short n l : (length l <= n)%nat -> trim n l = l.
Proof. intros H. unfold trim. replace (length l - n)%nat with O by lia. reflexivity. Qed.

Lemma trim_length n l : length (trim n l) = Nat.min n (length l).
Proof. unfold trim. rewrite skipn_length. lia. Qed.

Lemma hd_skipn (k : nat) (l : list Z) d : (k < length l)%nat -> hd d (skipn k l) = nth k l d.
Proof.
  revert l; induction k as [|k IH]; intros l H; destruct l as [|x l]; simpl in *; try lia; auto.
  apply IH. lia.
Qed.

(** invariant: the adapter's list is the last [n] entries of [init :: history] (or all of it) *)
Definition topull_inv (n : nat) (init : Z) (hist pulls : list Z) : Prop :=
  match hist with
  | [] => pulls = [] \/ pulls = [init]
  | _ => pulls = trim n (init :: hist)
  end.

Lemma skipn_add (a b : nat) (l : list Z) : skipn a (skipn b l) = skipn (a + b) l.
Proof.
  revert l; induction b as [|b IH]; intros l.
  - now rewrite Nat.add_0_r.
  - destruct l as [|x l]; [now rewrite !skipn_nil|].
    rewrite Nat.add_succ_r. simpl. apply IH.
Qed.

Lemma skipn_app_le (k : nat) (l1 l2 : list Z) :
  (k <= length l1)%nat -> skipn k (l1 ++ l2) = skipn k l1 ++ l2.
Proof.
  intros H. rewrite skipn_app. replace (k - length l1)%nat with O by lia. reflexivity.
Qed.

Lemma trim_app_trim n l x : (1 <= n)%nat -> trim n (trim n l ++ [x]) = trim n (l ++ [x]).
Proof.
  intros Hn.
  destruct (le_lt_dec (length l) n) as [H|H].
  - now rewrite (trim_short n l H).
  - unfold trim at 1 3. rewrite !app_length. simpl.
    assert (Lt : length (trim n l) = n) by (rewrite trim_length; lia).
    rewrite Lt.
    replace (n + 1 - n)%nat with 1%nat by lia.
    rewrite skipn_app_le by lia.
    rewrite skipn_app_le by lia.
    f_equal. unfold trim. rewrite skipn_add. f_equal. lia.
Qed.

Lemma topull_inv_step n extra init hist pulls r :
  (1 <= n)%nat -> topull_inv n init hist pulls ->
  topull_inv n init (hist ++ [r]) (pulled (AToPull n extra) pulls init r).
Proof.
  intros Hn H. unfold topull_inv in *. simpl.
  destruct hist as [|h hist]; simpl.
  - destruct H as [-> | ->]; reflexivity.
  - subst pulls.
    assert (E : trim n (init :: h :: hist) <> []).
    { intro E. apply (f_equal (@length Z)) in E. rewrite trim_length in E. simpl in E. lia. }
    destruct (trim n (init :: h :: hist)) eqn:T; [congruence|]. rewrite <- T.
    change (init :: h :: hist ++ [r]) with ((init :: h :: hist) ++ [r]).
    apply trim_app_trim; assumption.
Qed.

Lemma topull_inv_hd n init hist pulls :
  (1 <= n)%nat -> topull_inv n init hist pulls -> hd init pulls = nth_back n init hist.
Proof.
  intros Hn H. unfold topull_inv, nth_back in *.
  destruct hist as [|h hist].
  - change (length (@nil Z) + 1 - n)%nat with (1 - n)%nat. replace (1 - n)%nat with O by lia.
    destruct H as [-> | ->]; reflexivity.
  - subst pulls. unfold trim.
    rewrite hd_skipn by (cbn [length]; lia).
    f_equal. cbn [length]. lia.
Qed.

(** C13_to_pull: the [j]-th request is answered for the time of the [n]-th previous request minus
    the extra delay, not before the start time. *)
Lemma topull_times_spec n extra init : (1 <= n)%nat -> forall reqs hist pulls,
  topull_inv n init hist pulls ->
  forall j r, nth_error reqs j = Some r ->
    nth_error (topull_times n extra init pulls reqs) j
    = Some (Z.max (nth_back n init (hist ++ firstn j reqs) - extra) init).
Proof.
  intros Hn. induction reqs as [|q reqs IH]; intros hist pulls Hinv j r Hj.
  - destruct j; discriminate.
  - destruct j as [|j]; cbn [topull_times nth_error firstn].
    + rewrite app_nil_r. cbn [with_delay]. rewrite clamp_max.
      rewrite (topull_inv_hd n init hist pulls Hn Hinv). reflexivity.
    + cbn [nth_error] in Hj.
      rewrite (IH (hist ++ [q]) _ (topull_inv_step n extra init hist pulls q Hn Hinv) j r Hj).
      now rewrite <- app_assoc.
Qed.

(** ** chains of delay adapters: delays add up *)

Fixpoint only_fixed (ch : list adapter) : bool :=
  match ch with
  | [] => true
  | APass :: r => only_fixed r
  | AFixed d :: r => (0 <=? d) && only_fixed r
  | _ => false
  end.

Fixpoint sum_fixed (ch : list adapter) : Z :=
  match ch with
  | [] => 0
  | AFixed d :: r => d + sum_fixed r
  | _ :: r => sum_fixed r
  end.

Lemma pull_time_fixed_chain ch : forall ss init pt t,
  only_fixed ch = true -> length ss = length ch -> init <= t ->
  pull_time ch ss init pt t = Z.max (t - sum_fixed ch) init.
Proof.
  unfold pull_time.
  induction ch as [|a ch IH]; intros ss init pt t Hf L Ht; simpl in *.
  - lia.
  - destruct ss as [|s ss]; [discriminate|]. simpl in L. injection L as L.
    destruct a; try discriminate; simpl.
    + specialize (IH ss init pt t Hf L Ht).
      destruct (pull_chain ch ss init pt t) as [[r b] s2]; simpl in *. exact IH.
    + apply andb_prop in Hf. destruct Hf as [Hd Hf]. apply Z.leb_le in Hd.
      assert (Hc : init <= clamp init (t - d)) by apply clamp_ge.
      specialize (IH ss init pt _ Hf L Hc).
      destruct (pull_chain ch ss init pt (clamp init (t - d))) as [[r b] s2]; simpl in *.
      rewrite IH. rewrite clamp_max.
      assert (0 <= sum_fixed ch).
      { clear - Hf. induction ch as [|x ch IHc]; simpl in *; [lia|].
        destruct x; try discriminate; auto.
        apply andb_prop in Hf. destruct Hf as [Hd Hf]. apply Z.leb_le in Hd. specialize (IHc Hf). lia. }
      lia.
Qed.
