(** Termination of the run loop for EVERY tie-breaking order, and — combined with confluence and the
    sufficiency of delays — the total form of C05: every order ends normally, in the same final state
    of times and update counts. *)
From Coq Require Import List ZArith Bool Lia.
From FV Require Import Base Sched.
From FVP Require Import Adapters_proofs Sched_proofs Confluence_proofs Termination_proofs Confluence2_proofs.
Import ListNotations.
Open Scope Z_scope.

Lemma run_loop_pick_nofuel cs rank (T : term_ok cs rank) endt pick (PO : pick_ok cs pick) fuel :
  forall st acc o st' acc',
  Inv cs st -> PInv cs st -> TB cs endt st ->
  (any_running st O cs endt = true \/ forall c, is_time cs c = true -> s_time st c <= maxstart cs) ->
  (Z.to_nat (Phi cs endt st) < fuel)%nat ->
  run_loop_pick pick fuel cs endt st acc = (o, st', acc') -> o <> OFuel.
Proof.
  pose proof (to_wf cs rank T) as W. pose proof (Smax_pos cs) as Sp.
  induction fuel as [|fuel IH]; intros st acc o st' acc' Hinv HP Htb Hx Hf H; [lia|].
  cbn [run_loop_pick] in H.
  pose proof (PO st) as PS.
  destruct (pick st) as [c0|] eqn:PM; [|inversion H; discriminate].
  destruct PS as [T0 Min].
  destruct (update_rec (rec_fuel cs) cs st acc c0 [] 0) as [u st1 acc1 e1| | |] eqn:U.
  - destruct (update_rec_ok cs W _ _ _ _ _ _ _ _ _ _ Hinv U) as [_ [_ [_ [I1 [T1 T2]]]]].
    destruct (update_rec_props (rec_fuel cs) cs st acc c0 [] 0) as [_ HB].
    destruct (HB _ _ _ _ U) as [Tu [Du _]].
    pose proof (do_update_nofuel cs rank T st u acc st1 acc1 e1 Du) as NF.
    destruct e1 as [[| |]|]; try (inversion H; discriminate); [congruence|].
    destruct (any_running st1 0 cs endt) eqn:AR1; [|inversion H; discriminate].
    assert (HX0 : s_time st c0 <= Z.max (maxstart cs) endt).
    { destruct Hx as [AR|Hs]; [|specialize (Hs c0 T0); lia].
      destruct (any_running_true st endt cs O AR) as [j [x [Hj [Hxk Hlt]]]]. simpl in Hlt.
      assert (Lj : (j < length cs)%nat) by (apply nth_error_Some; congruence).
      assert (Tj : is_time cs j = true).
      { unfold is_time, getc. rewrite (nth_error_nth _ _ _ Hj). destruct Hxk as [s0 [st0 [ip Hxk]]]. now rewrite Hxk. }
      pose proof (Min j Lj Tj) as Hle. lia. }
    assert (Hu : s_time st u <= Z.max (maxstart cs) endt + Z.of_nat (rec_fuel cs) * Smax cs).
    { eapply (update_rec_time_bound cs rank T st acc Hinv HP); [exact U| |intros _; exact HX0|intros E; congruence].
      pose proof (maxstart_ge_t0 cs). lia. }
    assert (Hnew : s_time st1 u <= Bound cs endt).
    { rewrite T1. pose proof (next_time_le cs st u Tu). pose proof (S_of_le_Smax cs u). unfold Bound. nia. }
    assert (Htb1 : TB cs endt st1).
    { intros c Tc. destruct (Nat.eq_dec c u) as [->|Ne]; [exact Hnew|]. rewrite T2 by exact Ne. apply Htb; exact Tc. }
    assert (Hphi : Phi cs endt st1 <= Phi cs endt st - 1).
    { unfold Phi. apply (sum_decrease _ _ _ u).
      - apply seq_NoDup.
      - apply in_seq. pose proof (is_time_lt cs u Tu). lia.
      - unfold term. rewrite Tu, T1. pose proof (next_time_gt cs W st u Tu). lia.
      - intros x Hxu. unfold term. rewrite T2 by exact Hxu. reflexivity. }
    pose proof (Phi_nonneg cs endt st1 Htb1). pose proof (Phi_nonneg cs endt st Htb).
    eapply IH; [exact I1|exact (do_update_PInv cs W (to_simple cs rank T) st u acc st1 acc1 None Tu HP Du)|exact Htb1|left; exact AR1| |exact H].
    apply Nat.succ_lt_mono in Hf. lia.
  - exfalso. destruct (update_rec_props (rec_fuel cs) cs st acc c0 [] 0) as [HA _].
    destruct (HA U) as [Hf' _]. congruence.
  - inversion H; discriminate.
  - exfalso. exact (update_rec_top_nofuel cs rank T st acc c0 T0 U).
Qed.

(** explicit fuel beyond which no order runs out of fuel *)
Definition enough_fuel (cs : composition) (endt : Z) : nat := S (Z.to_nat (Phi cs endt (init_state cs))).

Lemma run_prio_terminates cs rank endt prio :
  term_ok cs rank -> (forall c, (c < length cs)%nat -> In c prio) ->
  forall fuel o st acc, (enough_fuel cs endt <= fuel)%nat -> run_prio prio fuel cs endt = (o, st, acc) -> o <> OFuel.
Proof.
  intros T Hp fuel o st acc Hf H. unfold run_prio in H. unfold enough_fuel in Hf.
  eapply (run_loop_pick_nofuel cs rank T endt _ (pick_prio_ok cs prio Hp) fuel);
    [apply init_state_Inv|apply init_state_PInv; exact (to_simple cs rank T)|apply init_TB| |lia|exact H].
  right. intros c Tc. rewrite (init_time_is_start cs c Tc). apply maxstart_ge; exact Tc.
Qed.

(** the total statement: without DelayToPush adapters and with delays sufficient on every cycle, EVERY order of considering the components ends
    normally once the fuel exceeds an explicit bound, every component is at or beyond the end time, and any two
    orders end with the same update count and the same time for every component *)
Lemma order_independent_total cs rank phi rank' endt m prio1 prio2 :
  term_ok cs rank -> nopush cs -> sufficient cs phi rank' -> min_start cs = Some m -> m < endt ->
  (forall c, (c < length cs)%nat -> In c prio1) ->
  (forall c, (c < length cs)%nat -> In c prio2) ->
  forall fuel1 fuel2, (enough_fuel cs endt <= fuel1)%nat -> (enough_fuel cs endt <= fuel2)%nat ->
    exists st1 acc1 st2 acc2,
      run_prio prio1 fuel1 cs endt = (OOk, st1, acc1) /\
      run_prio prio2 fuel2 cs endt = (OOk, st2, acc2) /\
      forall c, is_time cs c = true ->
        s_cnt st1 c = s_cnt st2 c /\ s_time st1 c = s_time st2 c /\ endt <= s_time st1 c.
Proof.
  intros T SL Suf Hm Hlt H1 H2 fuel1 fuel2 F1 F2.
  pose proof (to_wf cs rank T) as W.
  assert (G : forall prio fuel, (forall c, (c < length cs)%nat -> In c prio) -> (enough_fuel cs endt <= fuel)%nat ->
              exists st acc, run_prio prio fuel cs endt = (OOk, st, acc)).
  { intros prio fuel Hp Hf. destruct (run_prio prio fuel cs endt) as [[o st] acc] eqn:R.
    pose proof (run_prio_terminates cs rank endt prio T Hp fuel o st acc Hf R) as NF.
    unfold run_prio in R.
    destruct (run_loop_pick_good cs W endt _ fuel _ _ _ _ _ (init_state_Inv cs) R) as [G1 G2].
    pose proof (run_loop_pick_no_circ cs W phi rank' Suf endt _ fuel _ _ _ _ _ (init_state_Inv cs) R) as NC.
    destruct o; try congruence. exists st, acc. reflexivity. }
  destruct (G prio1 fuel1 H1 F1) as [st1 [acc1 R1]]. destruct (G prio2 fuel2 H2 F2) as [st2 [acc2 R2]].
  exists st1, acc1, st2, acc2. split; [exact R1|]. split; [exact R2|].
  intros c Tc.
  pose proof (init_running cs endt m Hm Hlt) as AR.
  destruct (confluence2 cs W SL endt _ _ fuel1 fuel2 st1 acc1 st2 acc2 (pick_prio_ok cs prio1 H1) (pick_prio_ok cs prio2 H2)
              AR R1 R2 c Tc) as [E1 E2].
  split; [exact E1|]. split; [exact E2|].
  destruct (run_loop_pick_final2 cs W SL endt _ (pick_prio_ok cs prio1 H1) fuel1 _ _ _ _ (init_state_RInv2 cs endt W) AR R1) as [_ E].
  pose proof (is_time_lt cs c Tc) as Lc.
  destruct (nth_error cs c) as [x|] eqn:Hx; [|apply nth_error_None in Hx; lia].
  pose proof (any_running_false st1 endt cs O E c x Hx) as A. simpl in A. apply A.
  pose proof (is_time_kind cs c Tc) as K. unfold getc in K. rewrite (nth_error_nth _ _ _ Hx) in K. exact K.
Qed.

(** an undelayed cycle is met by EVERY order *)
Lemma run_loop_pick_und_cycle cs (W : wf cs) cyc T endt pick (PO : pick_ok cs pick) fuel : forall st acc o st' acc',
  und_cycle cs cyc -> (forall x, In x cyc -> s_time st x = T) -> T < endt -> Inv cs st ->
  run_loop_pick pick fuel cs endt st acc = (o, st', acc') -> o <> OOk.
Proof.
  induction fuel as [|fuel IH]; intros st acc o st' acc' Hc HT Hlt Hinv H; cbn [run_loop_pick] in H.
  - inversion H; discriminate.
  - destruct Hc as [Hne Hc'] eqn:Ecyc. clear Ecyc.
    assert (Hcyc : und_cycle cs cyc) by (split; assumption).
    pose proof (PO st) as PS.
    destruct (pick st) as [c|] eqn:PM.
    + destruct (update_rec (rec_fuel cs) cs st acc c [] 0) as [u st1 acc1 e1| | |] eqn:U;
        try (inversion H; discriminate).
      destruct (update_rec_ok cs W _ _ _ _ _ _ _ _ _ _ Hinv U) as [_ [_ [_ [I1 [_ Tother]]]]].
      pose proof (und_cycle_not_updated cs W cyc T st acc _ c [] 0 u st1 acc1 e1 Hcyc HT U) as Hnu.
      assert (HT1 : forall x, In x cyc -> s_time st1 x = T).
      { intros x Hx. rewrite Tother; [apply HT; exact Hx|]. intros ->. exact (Hnu Hx). }
      destruct e1 as [[| |]|]; try (inversion H; discriminate).
      destruct (any_running st1 0 cs endt) eqn:AR; [eapply IH; eauto|].
      exfalso. destruct cyc as [|x cyc']; [congruence|].
      destruct (Hc' x (or_introl eq_refl)) as [Tx _].
      destruct (is_time_kind cs x Tx) as [s [steps [ip K]]].
      pose proof (is_time_lt cs x Tx) as Lx.
      destruct (nth_error cs x) as [y|] eqn:E; [|apply nth_error_None in E; lia].
      pose proof (any_running_false st1 endt cs O AR x y E) as G. simpl in G.
      unfold getc in K. rewrite (nth_error_nth _ _ _ E) in K.
      specialize (G (ex_intro _ s (ex_intro _ steps (ex_intro _ ip K)))).
      rewrite (HT1 x (or_introl eq_refl)) in G. lia.
    + exfalso. destruct cyc as [|x cyc']; [congruence|].
      destruct (Hc' x (or_introl eq_refl)) as [Tx _].
      pose proof (is_time_lt cs x Tx) as Lx. rewrite (PS x Lx) in Tx. discriminate.
Qed.

Lemma every_order_reports_cycle cs rank cyc T endt prio :
  term_ok cs rank -> und_cycle cs cyc -> (forall x, In x cyc -> s_time (init_state cs) x = T) -> T < endt ->
  (forall c, (c < length cs)%nat -> In c prio) ->
  forall fuel o st acc, (enough_fuel cs endt <= fuel)%nat -> run_prio prio fuel cs endt = (o, st, acc) -> o = OCirc.
Proof.
  intros Tk Hc HT Hlt Hp fuel o st acc Hf R.
  pose proof (to_wf cs rank Tk) as W.
  pose proof (run_prio_terminates cs rank endt prio Tk Hp fuel o st acc Hf R) as NF.
  unfold run_prio in R.
  destruct (run_loop_pick_good cs W endt _ fuel _ _ _ _ _ (init_state_Inv cs) R) as [G1 G2].
  pose proof (run_loop_pick_und_cycle cs W cyc T endt _ (pick_prio_ok cs prio Hp) fuel _ _ _ _ _ Hc HT Hlt (init_state_Inv cs) R) as NO.
  destruct o; congruence.
Qed.
