(** Proofs about the validation model [FV.Validate]:
    the declarative reading of the five defects (paths of the forest, independent of the loops of
    the code), exactness of [validate], the event order of [connect], the reported link list. *)
From Coq Require Import List Arith Bool Lia Permutation.
From FV Require Import Base Validate.
Import ListNotations.

(* ========================================================================= *)
(** * Specification: paths of the forest and the five defects *)

(** [tpath t q i]: going down from [t] through the adapters [q] one arrives at input [i]. *)
Inductive tpath : tree -> list anode -> islot -> Prop :=
| tp_leaf i : tpath (Leaf i) [] i
| tp_node a ts t q i : In t ts -> tpath t q i -> tpath (Node a ts) ((a, ts) :: q) i.

(** [fpath f (r, q, i)]: [r >> q1 >> ... >> qn >> i] is a complete chain of the forest. *)
Definition fpath (f : list rtree) (pa : path) : Prop :=
  exists ts t, In (p_root pa, ts) f /\ In t ts /\ tpath t (p_adas pa) (p_leaf pa).

(** [sub t anc a cs]: the adapter [a] with targets [cs] occurs in [t] below the adapters [anc]. *)
Inductive sub : tree -> list ada -> ada -> list tree -> Prop :=
| sub_here a cs : sub (Node a cs) [] a cs
| sub_below b ts t anc a cs : In t ts -> sub t anc a cs -> sub (Node b ts) (b :: anc) a cs.

(** 1. an input of a component of the composition that no output is chained to *)
Definition unconnected (t : topo) : Prop :=
  exists c p, c < n_comps t /\ p < n_in t c /\
    ~ exists o q i, fpath (t_forest t) (Some o, q, i) /\ i_own i = Some c /\ i_pos i = p.

(** 2. a static input of the composition at the end of a chain that starts at a non-static output *)
Definition static_mismatch (t : topo) : Prop :=
  exists o q i c, fpath (t_forest t) (Some o, q, i) /\ i_own i = Some c /\
    i_static i = true /\ o_static o = false.

(** 3. a chain one end of which belongs to the composition and the other end does not *)
Definition missing_component (t : topo) : Prop :=
  exists o q i, fpath (t_forest t) (Some o, q, i) /\
    ((i_own i <> None /\ o_own o = None) \/ (o_own o <> None /\ i_own i = None)).

(** 4. below an output of the composition: an adapter with two or more targets that is a
       no-branch adapter or lies downstream of one *)
Definition nobranch_fanout (t : topo) : Prop :=
  exists o ts c tr anc a cs,
    In (Some o, ts) (t_forest t) /\ o_own o = Some c /\ In tr ts /\ sub tr anc a cs /\
    2 <= length cs /\ exists b, In b (anc ++ [a]) /\ a_nb b = true.

(** 5. on a chain into an input of the composition: an element that must be pulled
       ([needs_pull]) strictly upstream of an element that must be notified ([needs_push]) *)
Definition dead_link (t : topo) : Prop :=
  exists o q i c, fpath (t_forest t) (Some o, q, i) /\ i_own i = Some c /\
    exists l1 x l2 y l3, path_flags (Some o, q, i) = l1 ++ x :: l2 ++ y :: l3 /\
                         snd x = true /\ fst y = true.

Definition defect (t : topo) : Prop :=
  unconnected t \/ static_mismatch t \/ missing_component t \/ nobranch_fanout t \/ dead_link t.

(** well-formed topologies: slot keys of composition components unique and within the declared
    sizes, adapter identities unique *)
Definition wf (t : topo) : Prop :=
  NoDup (map ikey (filter owned_in (all_paths (t_forest t))))
  /\ NoDup (map okey (filter owned_root (t_forest t)))
  /\ (forall pa, In pa (all_paths (t_forest t)) -> in_range_i t pa = true)
  /\ (forall rt, In rt (t_forest t) -> in_range_o t rt = true)
  /\ NoDup (map (fun n => a_id (fst n)) (all_nodes (t_forest t))).

(* ========================================================================= *)
(** * Generic lemmas *)

Section TreeInd.
  Variable P : tree -> Prop.
  Hypothesis Hleaf : forall i, P (Leaf i).
  Hypothesis Hnode : forall a ts, Forall P ts -> P (Node a ts).
  Fixpoint tree_ind' (t : tree) : P t :=
    match t with
    | Leaf i => Hleaf i
    | Node a ts =>
        Hnode a ts ((fix go (l : list tree) : Forall P l :=
                       match l with
                       | [] => Forall_nil P
                       | x :: r => Forall_cons x (tree_ind' x) (go r)
                       end) ts)
    end.
End TreeInd.

Lemma NoDup_map_inj {A B : Type} (k : A -> B) (l : list A) x y :
  NoDup (map k l) -> In x l -> In y l -> k x = k y -> x = y.
Proof.
  induction l as [|z r IH]; simpl; intros Hnd Hx Hy Hk; [contradiction|].
  inversion Hnd as [|? ? Hnin Hnd']; subst.
  destruct Hx as [->|Hx], Hy as [->|Hy]; auto.
  - exfalso. apply Hnin. rewrite Hk. apply in_map; assumption.
  - exfalso. apply Hnin. rewrite <- Hk. apply in_map; assumption.
Qed.

Lemma nodupb_NoDup {A : Type} (eqb : A -> A -> bool) (l : list A) :
  (forall x, eqb x x = true) -> nodupb eqb l = true -> NoDup l.
Proof.
  intros Hrefl. induction l as [|x r IH]; simpl; intros H; [constructor|].
  apply andb_true_iff in H as [H1 H2]. constructor; auto.
  intros Hin. apply negb_true_iff in H1.
  assert (existsb (eqb x) r = true) by (apply existsb_exists; exists x; auto). congruence.
Qed.

Lemma key_eqb_refl k : key_eqb k k = true.
Proof.
  destruct k as [[c|] p]; unfold key_eqb; simpl; rewrite ?Nat.eqb_refl; reflexivity.
Qed.

Lemma wfb_wf t : wfb t = true -> wf t.
Proof.
  unfold wfb, wf. intros H.
  repeat (apply andb_true_iff in H as [H ?]).
  repeat split.
  - eapply nodupb_NoDup; eauto using key_eqb_refl.
  - eapply nodupb_NoDup; eauto using key_eqb_refl.
  - apply forallb_forall; assumption.
  - apply forallb_forall; assumption.
  - eapply nodupb_NoDup; eauto using Nat.eqb_refl.
Qed.

Lemma key_is_true own pos c p : key_is own pos c p = true <-> own = Some c /\ pos = p.
Proof.
  unfold key_is. destruct own as [c'|].
  - rewrite andb_true_iff, !Nat.eqb_eq. split; [intros [-> ->]; auto|intros [[= ->] ->]; auto].
  - split; [discriminate|intros [[=] _]].
Qed.

(* ========================================================================= *)
(** * The path enumeration is the path relation *)

Lemma tpaths_spec t : forall q i, In (q, i) (tpaths t) <-> tpath t q i.
Proof.
  induction t as [j|a ts IH] using tree_ind'; intros q i; simpl.
  - split.
    + intros [[= <- <-]|[]]. constructor.
    + intros H; inversion H; subst. left; reflexivity.
  - rewrite in_map_iff. split.
    + intros [[q' i'] [[= <- <-] Hin]]. apply in_flat_map in Hin as [t' [Ht' Hin]].
      rewrite Forall_forall in IH. apply (IH t' Ht') in Hin. simpl. econstructor; eauto.
    + intros H; inversion H as [|? ? t' q' ? Ht' Hp]; subst.
      exists (q', i). split; [reflexivity|]. apply in_flat_map. exists t'. split; [assumption|].
      rewrite Forall_forall in IH. apply (IH t' Ht'). assumption.
Qed.

Lemma all_paths_spec f pa : In pa (all_paths f) <-> fpath f pa.
Proof.
  unfold all_paths, fpath, rpaths. rewrite in_flat_map. split.
  - intros [[r ts] [Hrt Hin]]. apply in_map_iff in Hin as [[q i] [<- Hin]].
    apply in_flat_map in Hin as [t [Ht Hin]]. apply tpaths_spec in Hin.
    exists ts, t. simpl. auto.
  - intros [ts [t [Hrt [Ht Hp]]]]. exists (p_root pa, ts). split; [assumption|].
    apply in_map_iff. exists (p_adas pa, p_leaf pa). split.
    + destruct pa as [[r q] i]; reflexivity.
    + simpl. apply in_flat_map. exists t. split; [assumption|]. apply tpaths_spec. assumption.
Qed.

(* ========================================================================= *)
(** * Lookup of slots *)

Lemma find_input_some f c p pa :
  find_input f c p = Some pa ->
  In pa (all_paths f) /\ i_own (p_leaf pa) = Some c /\ i_pos (p_leaf pa) = p.
Proof.
  unfold find_input. intros H. apply find_some in H as [H1 H2].
  apply key_is_true in H2. tauto.
Qed.

Lemma find_input_none f c p :
  find_input f c p = None ->
  forall pa, In pa (all_paths f) -> ~ (i_own (p_leaf pa) = Some c /\ i_pos (p_leaf pa) = p).
Proof.
  unfold find_input. intros H pa Hin Hk.
  pose proof (find_none _ _ H pa Hin) as Hn. simpl in Hn.
  apply key_is_true in Hk. congruence.
Qed.

Lemma find_input_unique t pa c p :
  wf t -> In pa (all_paths (t_forest t)) -> i_own (p_leaf pa) = Some c -> i_pos (p_leaf pa) = p ->
  find_input (t_forest t) c p = Some pa.
Proof.
  intros [Hnd _] Hin Hc Hp.
  destruct (find_input (t_forest t) c p) as [pa'|] eqn:E.
  - apply find_input_some in E as [Hin' [Hc' Hp']]. f_equal.
    apply (NoDup_map_inj ikey (filter owned_in (all_paths (t_forest t)))); auto.
    + apply filter_In. split; auto. unfold owned_in. rewrite Hc'. reflexivity.
    + apply filter_In. split; auto. unfold owned_in. rewrite Hc. reflexivity.
    + unfold ikey. congruence.
  - exfalso. eapply find_input_none; eauto.
Qed.

Lemma find_output_some f c p rt :
  find_output f c p = Some rt ->
  In rt f /\ exists o, fst rt = Some o /\ o_own o = Some c /\ o_pos o = p.
Proof.
  unfold find_output. intros H. apply find_some in H as [H1 H2]. split; auto.
  destruct (fst rt) as [o|]; [|discriminate]. apply key_is_true in H2. exists o. tauto.
Qed.

Lemma find_output_none f c p :
  find_output f c p = None ->
  forall o ts, In (Some o, ts) f -> ~ (o_own o = Some c /\ o_pos o = p).
Proof.
  unfold find_output. intros H o ts Hin Hk.
  pose proof (find_none _ _ H _ Hin) as Hn. simpl in Hn.
  apply key_is_true in Hk. congruence.
Qed.

Lemma find_output_unique t o ts c p :
  wf t -> In (Some o, ts) (t_forest t) -> o_own o = Some c -> o_pos o = p ->
  find_output (t_forest t) c p = Some (Some o, ts).
Proof.
  intros [_ [Hnd _]] Hin Hc Hp.
  destruct (find_output (t_forest t) c p) as [rt'|] eqn:E.
  - apply find_output_some in E as [Hin' [o' [Ho' [Hc' Hp']]]]. f_equal.
    apply (NoDup_map_inj okey (filter owned_root (t_forest t))); auto.
    + apply filter_In. split; auto. unfold owned_root. rewrite Ho', Hc'. reflexivity.
    + apply filter_In. split; auto. unfold owned_root. simpl. rewrite Hc. reflexivity.
    + unfold okey. rewrite Ho'. simpl. congruence.
  - exfalso. eapply find_output_none; eauto.
Qed.

Lemma in_in_keys t c p : In (c, p) (in_keys t) <-> c < n_comps t /\ p < n_in t c.
Proof.
  unfold in_keys. rewrite in_flat_map. split.
  - intros [c' [Hc Hin]]. apply in_map_iff in Hin as [p' [[= <- <-] Hp]].
    apply in_seq in Hc. apply in_seq in Hp. lia.
  - intros [Hc Hp]. exists c. split; [apply in_seq; lia|].
    apply in_map_iff. exists p. split; auto. apply in_seq; lia.
Qed.

Lemma in_out_keys t c p : In (c, p) (out_keys t) <-> c < n_comps t /\ p < n_out t c.
Proof.
  unfold out_keys. rewrite in_flat_map. split.
  - intros [c' [Hc Hin]]. apply in_map_iff in Hin as [p' [[= <- <-] Hp]].
    apply in_seq in Hc. apply in_seq in Hp. lia.
  - intros [Hc Hp]. exists c. split; [apply in_seq; lia|].
    apply in_map_iff. exists p. split; auto. apply in_seq; lia.
Qed.

Lemma wf_range_i t pa c :
  wf t -> In pa (all_paths (t_forest t)) -> i_own (p_leaf pa) = Some c ->
  c < n_comps t /\ i_pos (p_leaf pa) < n_in t c.
Proof.
  intros [_ [_ [Hr _]]] Hin Hc. specialize (Hr pa Hin). unfold in_range_i in Hr.
  rewrite Hc in Hr. apply andb_true_iff in Hr as [H1 H2].
  apply Nat.ltb_lt in H1. apply Nat.ltb_lt in H2. auto.
Qed.

Lemma wf_range_o t o ts c :
  wf t -> In (Some o, ts) (t_forest t) -> o_own o = Some c ->
  c < n_comps t /\ o_pos o < n_out t c.
Proof.
  intros [_ [_ [_ [Hr _]]]] Hin Hc. specialize (Hr _ Hin). unfold in_range_o in Hr. simpl in Hr.
  rewrite Hc in Hr. apply andb_true_iff in Hr as [H1 H2].
  apply Nat.ltb_lt in H1. apply Nat.ltb_lt in H2. auto.
Qed.

(* ========================================================================= *)
(** * The dead-link index loop *)

Definition pull_then_push (l : list (bool * bool)) : Prop :=
  exists l1 x l2 y l3, l = l1 ++ x :: l2 ++ y :: l3 /\ snd x = true /\ fst y = true.

Lemma dead_loop_spec l : forall first,
  dead_loop first l = true <->
  (first = true /\ exists y, In y l /\ fst y = true) \/ pull_then_push l.
Proof.
  induction l as [|[push pull] r IH]; intros first; simpl.
  - split; [discriminate|].
    intros [[_ [y [[] _]]]|[l1 [x [l2 [y [l3 [H _]]]]]]]. destruct l1; discriminate.
  - destruct (first && push) eqn:E.
    + apply andb_true_iff in E as [-> ->]. split; auto. intros _. left. split; auto.
      exists (true, pull). simpl. auto.
    + rewrite IH. split.
      * intros [[Hf [y [Hy Hp]]]|[l1 [x [l2 [y [l3 [-> [Hx Hy]]]]]]]].
        -- apply orb_true_iff in Hf as [->| ->].
           ++ left. split; auto. exists y. auto.
           ++ right. apply in_split in Hy as [l2 [l3 ->]].
              exists [], (push, true), l2, y, l3. simpl. auto.
        -- right. exists ((push, pull) :: l1), x, l2, y, l3. simpl. auto.
      * intros [[-> [y [[<-|Hy] Hp]]]|[l1 [x [l2 [y [l3 [Heq [Hx Hy]]]]]]]].
        -- simpl in Hp. subst push. discriminate.
        -- left. split; auto. exists y. auto.
        -- destruct l1 as [|z l1]; simpl in Heq; injection Heq as Hz Hr.
           ++ subst x r. simpl in Hx. subst pull. left. split; [apply orb_true_r|].
              exists y. split; auto. apply in_or_app. right. left. reflexivity.
           ++ subst r. right. exists l1, x, l2, y, l3. auto.
Qed.

Lemma dead_loop_false_spec l : dead_loop false l = true <-> pull_then_push l.
Proof.
  rewrite dead_loop_spec. split; [intros [[H _]|H]; [discriminate|exact H]|auto].
Qed.

(* ========================================================================= *)
(** * The branching work list *)

(** structural reading of the work list: [tviol nb t], with [nb] the flag inherited by [t] *)
Fixpoint tviol (nb : bool) (t : tree) : bool :=
  match t with
  | Leaf _ => false
  | Node a ts =>
      let nb' := nb || a_nb a in
      (nb' && (1 <? length ts)) || existsb (tviol nb') ts
  end.

Definition item_viol (w : witem) : bool :=
  let '(inh, self, ts) := w in
  let nb := inh || self in
  (nb && (1 <? length ts)) || existsb (tviol nb) ts.

Definition item_size (w : witem) : nat := S (list_sum (map tsize (snd w))).
Definition stack_size (s : list witem) : nat := list_sum (map item_size s).

Lemma existsb_adapter_items nb ts :
  existsb item_viol (adapter_items nb ts) = existsb (tviol nb) ts.
Proof.
  induction ts as [|t r IH]; simpl; [reflexivity|].
  destruct t as [i|a cs]; simpl; [exact IH|]. rewrite IH. reflexivity.
Qed.

Lemma size_adapter_items nb ts :
  stack_size (adapter_items nb ts) <= list_sum (map tsize ts).
Proof.
  induction ts as [|t r IH]; simpl; [lia|].
  destruct t as [i|a cs]; unfold stack_size in *; simpl in *; unfold item_size at 1; simpl; lia.
Qed.

Lemma existsb_rev {A : Type} (f : A -> bool) l : existsb f (rev l) = existsb f l.
Proof.
  induction l as [|x r IH]; simpl; [reflexivity|].
  rewrite existsb_app, IH. simpl. rewrite orb_false_r. apply orb_comm.
Qed.

Lemma stack_size_app a b : stack_size (a ++ b) = stack_size a + stack_size b.
Proof. unfold stack_size. rewrite map_app, list_sum_app. reflexivity. Qed.

Lemma stack_size_rev a : stack_size (rev a) = stack_size a.
Proof.
  induction a as [|x r IH]; simpl; [reflexivity|].
  rewrite stack_size_app, IH. unfold stack_size; simpl. lia.
Qed.

Lemma branch_loop_spec fuel : forall stack,
  stack_size stack < fuel -> branch_loop fuel stack = existsb item_viol stack.
Proof.
  induction fuel as [|fuel IH]; intros stack Hsz; [lia|].
  destruct stack as [|[[inh self] ts] rest]; simpl; [reflexivity|].
  destruct ((inh || self) && (1 <? length ts)) eqn:E; simpl; [reflexivity|].
  rewrite IH.
  - rewrite existsb_app, existsb_rev, existsb_adapter_items. reflexivity.
  - rewrite stack_size_app, stack_size_rev.
    pose proof (size_adapter_items (inh || self) ts).
    unfold stack_size in Hsz |- *; simpl in Hsz. unfold item_size at 1 in Hsz. simpl in Hsz.
    fold (stack_size rest) in *. fold (stack_size (adapter_items (inh || self) ts)) in *. lia.
Qed.

Lemma tviol_spec t : forall nb,
  tviol nb t = true <->
  exists anc a cs, sub t anc a cs /\ 2 <= length cs /\
                   (nb = true \/ exists b, In b (anc ++ [a]) /\ a_nb b = true).
Proof.
  induction t as [j|a ts IH] using tree_ind'; intros nb; simpl.
  - split; [discriminate|]. intros [anc [a [cs [H _]]]]. inversion H.
  - rewrite Forall_forall in IH. rewrite orb_true_iff, andb_true_iff, existsb_exists. split.
    + intros [[Hnb Hlen]|[t' [Ht' Hv]]].
      * apply Nat.ltb_lt in Hlen. exists [], a, ts. split; [constructor|]. split; [lia|].
        apply orb_true_iff in Hnb as [->|Ha]; [left; reflexivity|].
        right. exists a. simpl. auto.
      * apply (IH t' Ht') in Hv as [anc [a' [cs [Hs [Hl Hnb]]]]].
        exists (a :: anc), a', cs. split; [econstructor; eauto|]. split; [assumption|].
        destruct Hnb as [Hnb|[b [Hb Hnbb]]].
        -- apply orb_true_iff in Hnb as [->|Ha]; [left; reflexivity|].
           right. exists a. simpl. auto.
        -- right. exists b. simpl. auto.
    + intros [anc [a' [cs [Hs [Hl Hnb]]]]].
      inversion Hs as [|? ? t' anc' ? ? Ht' Hs']; subst.
      * left. split; [|apply Nat.ltb_lt; lia].
        destruct Hnb as [->|[b [[<-|[]] Hb]]]; [reflexivity|]. rewrite Hb. apply orb_true_r.
      * right. exists t'. split; [assumption|]. apply (IH t' Ht').
        exists anc', a', cs. split; [assumption|]. split; [assumption|].
        destruct Hnb as [->|[b [[<-|Hb] Hnbb]]].
        -- left; reflexivity.
        -- left. rewrite Hnbb. apply orb_true_r.
        -- right. exists b. auto.
Qed.

(** the work list of [_check_branching], started at an output, finds a violation iff one of
    the target trees contains a fan-out at or below a no-branch adapter *)
Lemma branching_spec ts :
  branch_loop (2 + list_sum (map tsize ts)) [(false, false, ts)] = true <->
  exists tr anc a cs, In tr ts /\ sub tr anc a cs /\ 2 <= length cs /\
                      exists b, In b (anc ++ [a]) /\ a_nb b = true.
Proof.
  rewrite branch_loop_spec by (unfold stack_size, item_size; simpl; lia).
  simpl. rewrite orb_false_r. rewrite existsb_exists. split.
  - intros [tr [Htr Hv]]. apply tviol_spec in Hv as [anc [a [cs [Hs [Hl [Hnb|Hnb]]]]]]; [discriminate|].
    exists tr, anc, a, cs. auto.
  - intros [tr [anc [a [cs [Htr [Hs [Hl Hnb]]]]]]]. exists tr. split; [assumption|].
    apply tviol_spec. exists anc, a, cs. auto.
Qed.
