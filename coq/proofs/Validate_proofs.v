(** Proofs about the validation model [FV.Validate]:
    the declarative reading of the five defects (paths of the forest, independent of the loops of
    the code), exactness of [validate], the event order of [connect], the reported link list. *)
From Coq Require Import List Arith Bool Lia Permutation.
From FV Require Import Base Validate.
Import ListNotations.

(* ========================================================================= *)
(** * Specification: paths of the forest and the five defects *)

(** [tpath t q i]: going down from [t] through the adapters [q] one arrives at input [i]. *)
Inductive tpath : tree -> list anode -> islot -> Prop :=
| tp_leaf i : tpath (Leaf i) [] i
| tp_node a ts t q i : In t ts -> tpath t q i -> tpath (Node a ts) ((a, ts) :: q) i.

(** [fpath f (r, q, i)]: [r >> q1 >> ... >> qn >> i] is a complete chain of the forest. *)
Definition fpath (f : list rtree) (pa : path) : Prop :=
  exists ts t, In (p_root pa, ts) f /\ In t ts /\ tpath t (p_adas pa) (p_leaf pa).

(** [sub t anc a cs]: the adapter [a] with targets [cs] occurs in [t] below the adapters [anc]. *)
Inductive sub : tree -> list ada -> ada -> list tree -> Prop :=
| sub_here a cs : sub (Node a cs) [] a cs
| sub_below b ts t anc a cs : In t ts -> sub t anc a cs -> sub (Node b ts) (b :: anc) a cs.

(** 1. an input of a component of the composition that no output is chained to *)
Definition unconnected (t : topo) : Prop :=
  exists c p, c < n_comps t /\ p < n_in t c /\
    ~ exists o q i, fpath (t_forest t) (Some o, q, i) /\ i_own i = Some c /\ i_pos i = p.

(** 2. a static input of the composition at the end of a chain that starts at a non-static output *)
Definition static_mismatch (t : topo) : Prop :=
  exists o q i c, fpath (t_forest t) (Some o, q, i) /\ i_own i = Some c /\
    i_static i = true /\ o_static o = false.

(** 3. a chain one end of which belongs to the composition and the other end does not *)
Definition missing_component (t : topo) : Prop :=
  exists o q i, fpath (t_forest t) (Some o, q, i) /\
    ((i_own i <> None /\ o_own o = None) \/ (o_own o <> None /\ i_own i = None)).

(** 4. below an output of the composition: an adapter with two or more targets that is a
       no-branch adapter or lies downstream of one *)
Definition nobranch_fanout (t : topo) : Prop :=
  exists o ts c tr anc a cs,
    In (Some o, ts) (t_forest t) /\ o_own o = Some c /\ In tr ts /\ sub tr anc a cs /\
    2 <= length cs /\ exists b, In b (anc ++ [a]) /\ a_nb b = true.

(** 5. on a chain into an input of the composition: an element that must be pulled
       ([needs_pull]) strictly upstream of an element that must be notified ([needs_push]) *)
Definition dead_link (t : topo) : Prop :=
  exists o q i c, fpath (t_forest t) (Some o, q, i) /\ i_own i = Some c /\
    exists l1 x l2 y l3, path_flags (Some o, q, i) = l1 ++ x :: l2 ++ y :: l3 /\
                         snd x = true /\ fst y = true.

Definition defect (t : topo) : Prop :=
  unconnected t \/ static_mismatch t \/ missing_component t \/ nobranch_fanout t \/ dead_link t.

(** well-formed topologies: slot keys of composition components unique and within the declared
    sizes, adapter identities unique *)
Definition wf (t : topo) : Prop :=
  NoDup (map ikey (filter owned_in (all_paths (t_forest t))))
  /\ NoDup (map okey (filter owned_root (t_forest t)))
  /\ (forall pa, In pa (all_paths (t_forest t)) -> in_range_i t pa = true)
  /\ (forall rt, In rt (t_forest t) -> in_range_o t rt = true)
  /\ NoDup (map (fun n => a_id (fst n)) (all_nodes (t_forest t))).

(* ========================================================================= *)
(** * Generic lemmas *)

Section TreeInd.
  Variable P : tree -> Prop.
  Hypothesis Hleaf : forall i, P (Leaf i).
  Hypothesis Hnode : forall a ts, Forall P ts -> P (Node a ts).
  Fixpoint tree_ind' (t : tree) : P t :=
    match t with
    | Leaf i => Hleaf i
    | Node a ts =>
        Hnode a ts ((fix go (l : list tree) : Forall P l :=
                       match l with
                       | [] => Forall_nil P
                       | x :: r => Forall_cons x (tree_ind' x) (go r)
                       end) ts)
    end.
End TreeInd.

Lemma NoDup_map_inj {A B : Type} (k : A -> B) (l : list A) x y :
  NoDup (map k l) -> In x l -> In y l -> k x = k y -> x = y.
Proof.
  induction l as [|z r IH]; simpl; intros Hnd Hx Hy Hk; [contradiction|].
  inversion Hnd as [|? ? Hnin Hnd']; subst.
  destruct Hx as [->|Hx], Hy as [->|Hy]; auto.
  - exfalso. apply Hnin. rewrite Hk. apply in_map; assumption.
  - exfalso. apply Hnin. rewrite <- Hk. apply in_map; assumption.
Qed.

Lemma nodupb_NoDup {A : Type} (eqb : A -> A -> bool) (l : list A) :
  (forall x, eqb x x = true) -> nodupb eqb l = true -> NoDup l.
Proof.
  intros Hrefl. induction l as [|x r IH]; simpl; intros H; [constructor|].
  apply andb_true_iff in H as [H1 H2]. constructor; auto.
  intros Hin. apply negb_true_iff in H1.
  assert (existsb (eqb x) r = true) by (apply existsb_exists; exists x; auto). congruence.
Qed.

Lemma key_eqb_refl k : key_eqb k k = true.
Proof.
  destruct k as [[c|] p]; unfold key_eqb; simpl; rewrite ?Nat.eqb_refl; reflexivity.
Qed.

Lemma wfb_wf t : wfb t = true -> wf t.
Proof.
  unfold wfb, wf. intros H.
  repeat (apply andb_true_iff in H as [H ?]).
  repeat split.
  - eapply nodupb_NoDup; eauto using key_eqb_refl.
  - eapply nodupb_NoDup; eauto using key_eqb_refl.
  - apply forallb_forall; assumption.
  - apply forallb_forall; assumption.
  - eapply nodupb_NoDup; eauto using Nat.eqb_refl.
Qed.

Lemma key_is_true own pos c p : key_is own pos c p = true <-> own = Some c /\ pos = p.
Proof.
  unfold key_is. destruct own as [c'|].
  - rewrite andb_true_iff, !Nat.eqb_eq. split; [intros [-> ->]; auto|intros [[= ->] ->]; auto].
  - split; [discriminate|intros [[=] _]].
Qed.

(* ========================================================================= *)
(** * The path enumeration is the path relation *)

Lemma tpaths_spec t : forall q i, In (q, i) (tpaths t) <-> tpath t q i.
Proof.
  induction t as [j|a ts IH] using tree_ind'; intros q i; simpl.
  - split.
    + intros [[= <- <-]|[]]. constructor.
    + intros H; inversion H; subst. left; reflexivity.
  - rewrite in_map_iff. split.
    + intros [[q' i'] [[= <- <-] Hin]]. apply in_flat_map in Hin as [t' [Ht' Hin]].
      rewrite Forall_forall in IH. apply (IH t' Ht') in Hin. simpl. econstructor; eauto.
    + intros H; inversion H as [|? ? t' q' ? Ht' Hp]; subst.
      exists (q', i). split; [reflexivity|]. apply in_flat_map. exists t'. split; [assumption|].
      rewrite Forall_forall in IH. apply (IH t' Ht'). assumption.
Qed.

Lemma all_paths_spec f pa : In pa (all_paths f) <-> fpath f pa.
Proof.
  unfold all_paths, fpath, rpaths. rewrite in_flat_map. split.
  - intros [[r ts] [Hrt Hin]]. apply in_map_iff in Hin as [[q i] [<- Hin]].
    apply in_flat_map in Hin as [t [Ht Hin]]. apply tpaths_spec in Hin.
    exists ts, t. simpl. auto.
  - intros [ts [t [Hrt [Ht Hp]]]]. exists (p_root pa, ts). split; [assumption|].
    apply in_map_iff. exists (p_adas pa, p_leaf pa). split.
    + destruct pa as [[r q] i]; reflexivity.
    + simpl. apply in_flat_map. exists t. split; [assumption|]. apply tpaths_spec. assumption.
Qed.

(* ========================================================================= *)
(** * Lookup of slots *)

Lemma find_input_some f c p pa :
  find_input f c p = Some pa ->
  In pa (all_paths f) /\ i_own (p_leaf pa) = Some c /\ i_pos (p_leaf pa) = p.
Proof.
  unfold find_input. intros H. apply find_some in H as [H1 H2].
  apply key_is_true in H2. tauto.
Qed.

Lemma find_input_none f c p :
  find_input f c p = None ->
  forall pa, In pa (all_paths f) -> ~ (i_own (p_leaf pa) = Some c /\ i_pos (p_leaf pa) = p).
Proof.
  unfold find_input. intros H pa Hin Hk.
  pose proof (find_none _ _ H pa Hin) as Hn. simpl in Hn.
  apply key_is_true in Hk. congruence.
Qed.

Lemma find_input_unique t pa c p :
  wf t -> In pa (all_paths (t_forest t)) -> i_own (p_leaf pa) = Some c -> i_pos (p_leaf pa) = p ->
  find_input (t_forest t) c p = Some pa.
Proof.
  intros [Hnd _] Hin Hc Hp.
  destruct (find_input (t_forest t) c p) as [pa'|] eqn:E.
  - apply find_input_some in E as [Hin' [Hc' Hp']]. f_equal.
    apply (NoDup_map_inj ikey (filter owned_in (all_paths (t_forest t)))); auto.
    + apply filter_In. split; auto. unfold owned_in. rewrite Hc'. reflexivity.
    + apply filter_In. split; auto. unfold owned_in. rewrite Hc. reflexivity.
    + unfold ikey. congruence.
  - exfalso. eapply find_input_none; eauto.
Qed.

Lemma find_input_unique' t r q i c :
  wf t -> In (r, q, i) (all_paths (t_forest t)) -> i_own i = Some c ->
  find_input (t_forest t) c (i_pos i) = Some (r, q, i).
Proof. intros Hwf Hin Hc. apply (find_input_unique t (r, q, i) c (i_pos i)); auto. Qed.

Lemma find_output_some f c p rt :
  find_output f c p = Some rt ->
  In rt f /\ exists o, fst rt = Some o /\ o_own o = Some c /\ o_pos o = p.
Proof.
  unfold find_output. intros H. apply find_some in H as [H1 H2]. split; auto.
  destruct (fst rt) as [o|]; [|discriminate]. apply key_is_true in H2. exists o. tauto.
Qed.

Lemma find_output_none f c p :
  find_output f c p = None ->
  forall o ts, In (Some o, ts) f -> ~ (o_own o = Some c /\ o_pos o = p).
Proof.
  unfold find_output. intros H o ts Hin Hk.
  pose proof (find_none _ _ H _ Hin) as Hn. simpl in Hn.
  apply key_is_true in Hk. congruence.
Qed.

Lemma find_output_unique t o ts c p :
  wf t -> In (Some o, ts) (t_forest t) -> o_own o = Some c -> o_pos o = p ->
  find_output (t_forest t) c p = Some (Some o, ts).
Proof.
  intros [_ [Hnd _]] Hin Hc Hp.
  destruct (find_output (t_forest t) c p) as [rt'|] eqn:E.
  - apply find_output_some in E as [Hin' [o' [Ho' [Hc' Hp']]]]. f_equal.
    apply (NoDup_map_inj okey (filter owned_root (t_forest t))); auto.
    + apply filter_In. split; auto. unfold owned_root. rewrite Ho', Hc'. reflexivity.
    + apply filter_In. split; auto. unfold owned_root. simpl. rewrite Hc. reflexivity.
    + unfold okey. rewrite Ho'. simpl. congruence.
  - exfalso. eapply find_output_none; eauto.
Qed.

Lemma in_in_keys t c p : In (c, p) (in_keys t) <-> c < n_comps t /\ p < n_in t c.
Proof.
  unfold in_keys. rewrite in_flat_map. split.
  - intros [c' [Hc Hin]]. apply in_map_iff in Hin as [p' [[= <- <-] Hp]].
    apply in_seq in Hc. apply in_seq in Hp. lia.
  - intros [Hc Hp]. exists c. split; [apply in_seq; lia|].
    apply in_map_iff. exists p. split; auto. apply in_seq; lia.
Qed.

Lemma in_out_keys t c p : In (c, p) (out_keys t) <-> c < n_comps t /\ p < n_out t c.
Proof.
  unfold out_keys. rewrite in_flat_map. split.
  - intros [c' [Hc Hin]]. apply in_map_iff in Hin as [p' [[= <- <-] Hp]].
    apply in_seq in Hc. apply in_seq in Hp. lia.
  - intros [Hc Hp]. exists c. split; [apply in_seq; lia|].
    apply in_map_iff. exists p. split; auto. apply in_seq; lia.
Qed.

Lemma wf_range_i t pa c :
  wf t -> In pa (all_paths (t_forest t)) -> i_own (p_leaf pa) = Some c ->
  c < n_comps t /\ i_pos (p_leaf pa) < n_in t c.
Proof.
  intros [_ [_ [Hr _]]] Hin Hc. specialize (Hr pa Hin). unfold in_range_i in Hr.
  rewrite Hc in Hr. apply andb_true_iff in Hr as [H1 H2].
  apply Nat.ltb_lt in H1. apply Nat.ltb_lt in H2. auto.
Qed.

Lemma wf_range_o t o ts c :
  wf t -> In (Some o, ts) (t_forest t) -> o_own o = Some c ->
  c < n_comps t /\ o_pos o < n_out t c.
Proof.
  intros [_ [_ [_ [Hr _]]]] Hin Hc. specialize (Hr _ Hin). unfold in_range_o in Hr. simpl in Hr.
  rewrite Hc in Hr. apply andb_true_iff in Hr as [H1 H2].
  apply Nat.ltb_lt in H1. apply Nat.ltb_lt in H2. auto.
Qed.

(* ========================================================================= *)
(** * The dead-link index loop *)

Definition pull_then_push (l : list (bool * bool)) : Prop :=
  exists l1 x l2 y l3, l = l1 ++ x :: l2 ++ y :: l3 /\ snd x = true /\ fst y = true.

Lemma dead_loop_spec l : forall first,
  dead_loop first l = true <->
  (first = true /\ exists y, In y l /\ fst y = true) \/ pull_then_push l.
Proof.
  induction l as [|[push pull] r IH]; intros first; simpl.
  - split; [discriminate|].
    intros [[_ [y [[] _]]]|[l1 [x [l2 [y [l3 [H _]]]]]]]. destruct l1; discriminate.
  - destruct (first && push) eqn:E.
    + apply andb_true_iff in E as [-> ->]. split; auto. intros _. left. split; auto.
      exists (true, pull). simpl. auto.
    + rewrite IH. split.
      * intros [[Hf [y [Hy Hp]]]|[l1 [x [l2 [y [l3 [-> [Hx Hy]]]]]]]].
        -- apply orb_true_iff in Hf as [->| ->].
           ++ left. split; auto. exists y. auto.
           ++ right. apply in_split in Hy as [l2 [l3 ->]].
              exists [], (push, true), l2, y, l3. simpl. auto.
        -- right. exists ((push, pull) :: l1), x, l2, y, l3. simpl. auto.
      * intros [[-> [y [[<-|Hy] Hp]]]|[l1 [x [l2 [y [l3 [Heq [Hx Hy]]]]]]]].
        -- simpl in Hp. subst push. discriminate.
        -- left. split; auto. exists y. auto.
        -- destruct l1 as [|z l1]; simpl in Heq; injection Heq as Hz Hr.
           ++ subst x r. simpl in Hx. subst pull. left. split; [apply orb_true_r|].
              exists y. split; auto. apply in_or_app. right. left. reflexivity.
           ++ subst r. right. exists l1, x, l2, y, l3. auto.
Qed.

Lemma dead_loop_false_spec l : dead_loop false l = true <-> pull_then_push l.
Proof.
  rewrite dead_loop_spec. split; [intros [[H _]|H]; [discriminate|exact H]|auto].
Qed.

(* ========================================================================= *)
(** * The branching work list *)

(** structural reading of the work list: [tviol nb t], with [nb] the flag inherited by [t] *)
Fixpoint tviol (nb : bool) (t : tree) : bool :=
  match t with
  | Leaf _ => false
  | Node a ts =>
      let nb' := nb || a_nb a in
      (nb' && (1 <? length ts)) || existsb (tviol nb') ts
  end.

Definition item_viol (w : witem) : bool :=
  let '(inh, self, ts) := w in
  let nb := inh || self in
  (nb && (1 <? length ts)) || existsb (tviol nb) ts.

Definition item_size (w : witem) : nat := S (list_sum (map tsize (snd w))).
Definition stack_size (s : list witem) : nat := list_sum (map item_size s).

Lemma existsb_adapter_items nb ts :
  existsb item_viol (adapter_items nb ts) = existsb (tviol nb) ts.
Proof.
  induction ts as [|t r IH]; simpl; [reflexivity|].
  destruct t as [i|a cs]; simpl; [exact IH|]. rewrite IH. reflexivity.
Qed.

Lemma size_adapter_items nb ts :
  stack_size (adapter_items nb ts) <= list_sum (map tsize ts).
Proof.
  induction ts as [|t r IH]; [unfold stack_size; simpl; lia|].
  destruct t as [i|a cs]; unfold stack_size, item_size in *; simpl in *; fold tsize in *; lia.
Qed.

Lemma existsb_rev {A : Type} (f : A -> bool) l : existsb f (rev l) = existsb f l.
Proof.
  induction l as [|x r IH]; simpl; [reflexivity|].
  rewrite existsb_app, IH. simpl. rewrite orb_false_r. apply orb_comm.
Qed.

Lemma stack_size_app a b : stack_size (a ++ b) = stack_size a + stack_size b.
Proof. unfold stack_size. rewrite map_app, list_sum_app. reflexivity. Qed.

Lemma stack_size_rev a : stack_size (rev a) = stack_size a.
Proof.
  induction a as [|x r IH]; simpl; [reflexivity|].
  rewrite stack_size_app, IH. unfold stack_size; simpl. lia.
Qed.

Lemma branch_loop_spec fuel : forall stack,
  stack_size stack < fuel -> branch_loop fuel stack = existsb item_viol stack.
Proof.
  induction fuel as [|fuel IH]; intros stack Hsz; [lia|].
  destruct stack as [|[[inh self] ts] rest]; simpl; [reflexivity|].
  destruct ((inh || self) && (1 <? length ts)) eqn:E; simpl; [reflexivity|].
  rewrite IH.
  - rewrite existsb_app, existsb_rev, existsb_adapter_items. reflexivity.
  - rewrite stack_size_app, stack_size_rev.
    pose proof (size_adapter_items (inh || self) ts).
    change (stack_size ((inh, self, ts) :: rest))
      with (S (list_sum (map tsize ts)) + stack_size rest) in Hsz. lia.
Qed.

Lemma tviol_spec t : forall nb,
  tviol nb t = true <->
  exists anc a cs, sub t anc a cs /\ 2 <= length cs /\
                   (nb = true \/ exists b, In b (anc ++ [a]) /\ a_nb b = true).
Proof.
  induction t as [j|a ts IH] using tree_ind'; intros nb; simpl.
  - split; [discriminate|]. intros [anc [a [cs [H _]]]]. inversion H.
  - rewrite Forall_forall in IH. rewrite orb_true_iff, andb_true_iff, existsb_exists. split.
    + intros [[Hnb Hlen]|[t' [Ht' Hv]]].
      * apply Nat.ltb_lt in Hlen. exists [], a, ts. split; [constructor|]. split; [lia|].
        apply orb_true_iff in Hnb as [->|Ha]; [left; reflexivity|].
        right. exists a. simpl. auto.
      * apply (IH t' Ht') in Hv as [anc [a' [cs [Hs [Hl Hnb]]]]].
        exists (a :: anc), a', cs. split; [econstructor; eauto|]. split; [assumption|].
        destruct Hnb as [Hnb|[b [Hb Hnbb]]].
        -- apply orb_true_iff in Hnb as [->|Ha]; [left; reflexivity|].
           right. exists a. simpl. auto.
        -- right. exists b. simpl. auto.
    + intros [anc [a' [cs [Hs [Hl Hnb]]]]].
      inversion Hs as [|? ? t' anc' ? ? Ht' Hs']; subst.
      * left. split; [|apply Nat.ltb_lt; lia].
        destruct Hnb as [->|[b [[<-|[]] Hb]]]; [reflexivity|]. rewrite Hb. apply orb_true_r.
      * right. exists t'. split; [assumption|]. apply (IH t' Ht').
        exists anc', a', cs. split; [assumption|]. split; [assumption|].
        destruct Hnb as [->|[b [[<-|Hb] Hnbb]]].
        -- left; reflexivity.
        -- left. rewrite Hnbb. apply orb_true_r.
        -- right. exists b. auto.
Qed.

(** the work list of [_check_branching], started at an output, finds a violation iff one of
    the target trees contains a fan-out at or below a no-branch adapter *)
Lemma branching_spec ts :
  branch_loop (2 + list_sum (map tsize ts)) [(false, false, ts)] = true <->
  exists tr anc a cs, In tr ts /\ sub tr anc a cs /\ 2 <= length cs /\
                      exists b, In b (anc ++ [a]) /\ a_nb b = true.
Proof.
  rewrite branch_loop_spec by (unfold stack_size, item_size; simpl; lia).
  simpl. rewrite orb_false_r. rewrite existsb_exists. split.
  - intros [tr [Htr Hv]]. apply tviol_spec in Hv as [anc [a [cs [Hs [Hl [Hnb|Hnb]]]]]]; [discriminate|].
    exists tr, anc, a, cs. auto.
  - intros [tr [anc [a [cs [Htr [Hs [Hl Hnb]]]]]]]. exists tr. split; [assumption|].
    apply tviol_spec. exists anc, a, cs. auto.
Qed.

(* ========================================================================= *)
(** * [validate] = conjunction of all checks *)

Lemma run_checks_none l : snd (run_checks l) = None <-> forall ck, In ck l -> snd ck = None.
Proof.
  induction l as [|[[[k c] p] r] rest IH]; simpl.
  - split; [intros _ ck []|reflexivity].
  - destruct r as [e|]; simpl.
    + split; [discriminate|]. intros H. specialize (H _ (or_introl eq_refl)). discriminate.
    + destruct (run_checks rest) as [ev res]; simpl in *. rewrite IH. split.
      * intros H ck [<-|Hin]; auto.
      * intros H ck Hin. apply H. right. assumption.
Qed.

Lemma run_checks_some l fl : snd (run_checks l) = Some fl ->
  exists k c p e, fl = (k, c, p, e) /\ In (k, c, p, Some e) l.
Proof.
  induction l as [|[[[k c] p] r] rest IH]; simpl; [discriminate|].
  destruct r as [e|]; simpl.
  - intros [= <-]. exists k, c, p, e. auto.
  - destruct (run_checks rest) as [ev res]; simpl in *. intros H.
    destruct (IH H) as [k' [c' [p' [e' [-> Hin]]]]]. exists k', c', p', e'. auto.
Qed.

Lemma validate_ok_iff t : validate t = VOk <-> forall ck, In ck (all_checks t) -> snd ck = None.
Proof.
  unfold validate. rewrite <- run_checks_none.
  destruct (snd (run_checks (all_checks t))); split; congruence.
Qed.

Lemma all_checks_ok t :
  (forall ck, In ck (all_checks t) -> snd ck = None) <->
  (forall c p, c < n_comps t -> p < n_in t c ->
     check_input_connected (t_forest t) c p = None /\ check_dead_links (t_forest t) c p = None)
  /\ (forall c p, c < n_comps t -> p < n_out t c -> check_branching (t_forest t) c p = None)
  /\ check_missing t = None.
Proof.
  unfold all_checks. split.
  - intros H. repeat split.
    + apply (H (CkInput, c, p, check_input_connected (t_forest t) c p)).
      apply in_or_app. left. apply in_flat_map. exists c. split; [apply in_seq; lia|].
      unfold comp_checks. apply in_or_app. left. apply in_flat_map. exists p.
      split; [apply in_seq; lia|]. left. reflexivity.
    + apply (H (CkDead, c, p, check_dead_links (t_forest t) c p)).
      apply in_or_app. left. apply in_flat_map. exists c. split; [apply in_seq; lia|].
      unfold comp_checks. apply in_or_app. left. apply in_flat_map. exists p.
      split; [apply in_seq; lia|]. right. left. reflexivity.
    + intros c p Hc Hp. apply (H (CkBranch, c, p, check_branching (t_forest t) c p)).
      apply in_or_app. left. apply in_flat_map. exists c. split; [apply in_seq; lia|].
      unfold comp_checks. apply in_or_app. right. apply in_map_iff. exists p.
      split; [reflexivity|apply in_seq; lia].
    + apply (H (CkMissing, 0, 0, check_missing t)). apply in_or_app. right. left. reflexivity.
  - intros [Hi [Ho Hm]] ck Hin. apply in_app_or in Hin as [Hin|[<-|[]]]; [|exact Hm].
    apply in_flat_map in Hin as [c [Hc Hin]]. apply in_seq in Hc.
    unfold comp_checks in Hin. apply in_app_or in Hin as [Hin|Hin].
    + apply in_flat_map in Hin as [p [Hp Hin]]. apply in_seq in Hp.
      destruct (Hi c p) as [H1 H2]; try lia.
      destruct Hin as [<-|[<-|[]]]; assumption.
    + apply in_map_iff in Hin as [p [<- Hp]]. apply in_seq in Hp. apply Ho; lia.
Qed.

Lemma tpath_leaf t : forall q i, tpath t q i -> In i (tleaves t).
Proof.
  induction t as [j|a ts IH] using tree_ind'; intros q i H; inversion H; subst; simpl.
  - left; reflexivity.
  - apply in_flat_map. eexists. split; [eassumption|].
    rewrite Forall_forall in IH. eapply IH; eauto.
Qed.

Lemma leaf_tpath t : forall i, In i (tleaves t) -> exists q, tpath t q i.
Proof.
  induction t as [j|a ts IH] using tree_ind'; intros i H; simpl in H.
  - destruct H as [<-|[]]. exists []. constructor.
  - apply in_flat_map in H as [t' [Ht' Hi]]. rewrite Forall_forall in IH.
    destruct (IH t' Ht' i Hi) as [q Hq]. exists ((a, ts) :: q). econstructor; eauto.
Qed.

(* ========================================================================= *)
(** * Exactness *)

Lemma fpath_in t pa : fpath (t_forest t) pa -> In pa (all_paths (t_forest t)).
Proof. apply all_paths_spec. Qed.

Lemma validate_ok_no_defect t : wf t -> validate t = VOk -> ~ defect t.
Proof.
  intros Hwf Hok. pose proof (proj1 (validate_ok_iff t) Hok) as Hall.
  destruct (proj1 (all_checks_ok t) Hall) as [Hi [Ho Hm]].
  intros [Hd|[Hd|[Hd|[Hd|Hd]]]].
  - (* unconnected *)
    destruct Hd as [c [p [Hc [Hp Hno]]]]. destruct (Hi c p Hc Hp) as [H1 _].
    unfold check_input_connected in H1.
    destruct (find_input (t_forest t) c p) as [[[[o|] q] i]|] eqn:E; try discriminate.
    apply find_input_some in E as [Hin [Hc' Hp']]. apply Hno. exists o, q, i.
    split; [apply all_paths_spec; assumption|auto].
  - (* static *)
    destruct Hd as [o [q [i [c [Hpa [Hc [Hs Hos]]]]]]]. apply fpath_in in Hpa.
    destruct (wf_range_i t _ c Hwf Hpa Hc) as [Hcn Hpn].
    destruct (Hi c _ Hcn Hpn) as [H1 _]. unfold check_input_connected in H1.
    rewrite (find_input_unique t _ c _ Hwf Hpa Hc eq_refl) in H1. simpl in H1.
    rewrite Hs, Hos in H1. discriminate.
  - (* missing *)
    destruct Hd as [o [q [i [Hpa Hd]]]]. unfold check_missing in Hm.
    destruct Hd as [[Hi' Ho']|[Ho' Hi']].
    + destruct (i_own i) as [c|] eqn:Hc; [|congruence]. pose proof (fpath_in _ _ Hpa) as Hin.
      destruct (wf_range_i t _ c Hwf Hin Hc) as [Hcn Hpn].
      assert (Hup : In (Some o) (up_roots t)).
      { unfold up_roots. apply in_flat_map. exists (c, i_pos i). split; [apply in_in_keys; auto|].
        simpl. rewrite (find_input_unique' t _ _ _ c Hwf Hin Hc). left. reflexivity. }
      destruct (existsb _ (down_leaves t)); [discriminate|].
      match type of Hm with (if ?b then _ else _) = _ => assert (Hb : b = true) end.
      { apply existsb_exists. exists (Some o). split; [assumption|]. rewrite Ho'. reflexivity. }
      rewrite Hb in Hm. discriminate.
    + destruct (o_own o) as [c|] eqn:Hc; [|congruence].
      destruct Hpa as [ts [tr [Hrt [Htr Htp]]]]. simpl in *.
      destruct (wf_range_o t o ts c Hwf Hrt Hc) as [Hcn Hpn].
      assert (Hdn : In i (down_leaves t)).
      { unfold down_leaves. apply in_flat_map. exists (c, o_pos o). split; [apply in_out_keys; auto|].
        simpl. rewrite (find_output_unique t o ts c _ Hwf Hrt Hc eq_refl). simpl.
        apply in_flat_map. exists tr. split; [assumption|]. eapply tpath_leaf; eauto. }
      match type of Hm with (if ?b then _ else _) = _ => assert (Hb : b = true) end.
      { apply existsb_exists. exists i. split; [assumption|]. rewrite Hi'. reflexivity. }
      rewrite Hb in Hm. discriminate.
  - (* branching *)
    destruct Hd as [o [ts [c [tr [anc [a [cs [Hrt [Hc [Htr [Hs [Hl Hb]]]]]]]]]]]].
    destruct (wf_range_o t o ts c Hwf Hrt Hc) as [Hcn Hpn].
    specialize (Ho c _ Hcn Hpn). unfold check_branching in Ho.
    rewrite (find_output_unique t o ts c _ Hwf Hrt Hc eq_refl) in Ho.
    assert (Hbr : branch_loop (2 + list_sum (map tsize ts)) [(false, false, ts)] = true).
    { apply branching_spec. exists tr, anc, a, cs. auto. }
    rewrite Hbr in Ho. discriminate.
  - (* dead link *)
    destruct Hd as [o [q [i [c [Hpa [Hc Hfl]]]]]]. apply fpath_in in Hpa.
    destruct (wf_range_i t _ c Hwf Hpa Hc) as [Hcn Hpn].
    destruct (Hi c _ Hcn Hpn) as [_ H2]. unfold check_dead_links in H2.
    rewrite (find_input_unique t _ c _ Hwf Hpa Hc eq_refl) in H2.
    assert (Hdl : dead_loop false (path_flags (Some o, q, i)) = true)
      by (apply dead_loop_false_spec; exact Hfl).
    rewrite Hdl in H2. discriminate.
Qed.

(** an input of the composition whose upward walk does not end at an output is unconnected *)
Lemma not_some_root_unconnected t c p :
  wf t -> c < n_comps t -> p < n_in t c ->
  (forall o q i, find_input (t_forest t) c p <> Some (Some o, q, i)) -> unconnected t.
Proof.
  intros Hwf Hc Hp Hno. exists c, p. repeat split; auto.
  intros [o [q [i [Hpa [Hc' Hp']]]]]. apply fpath_in in Hpa.
  apply (Hno o q i). apply (find_input_unique t _ c p Hwf Hpa); assumption.
Qed.

Lemma no_defect_validate_ok t : wf t -> ~ defect t -> validate t = VOk.
Proof.
  intros Hwf Hnd. apply (proj2 (validate_ok_iff t)). apply (proj2 (all_checks_ok t)).
  split; [intros c p Hc Hp; split|split].
  - (* _check_input_connected *)
    unfold check_input_connected.
    destruct (find_input (t_forest t) c p) as [[[[o|] q] i]|] eqn:E.
    + destruct (i_static i && negb (o_static o)) eqn:Es; [|reflexivity].
      exfalso. apply Hnd. right. left.
      apply andb_true_iff in Es as [Hs Ho]. apply negb_true_iff in Ho.
      apply find_input_some in E as [Hin [Hc' _]]. exists o, q, i, c.
      split; [apply all_paths_spec; assumption|auto].
    + exfalso. apply Hnd. left. apply (not_some_root_unconnected t c p); auto. congruence.
    + exfalso. apply Hnd. left. apply (not_some_root_unconnected t c p); auto. congruence.
  - (* _check_dead_links *)
    unfold check_dead_links.
    destruct (find_input (t_forest t) c p) as [[[[o|] q] i]|] eqn:E; [| |reflexivity].
    + destruct (dead_loop false (path_flags (Some o, q, i))) eqn:Ed; [|reflexivity].
      exfalso. apply Hnd. do 4 right. apply dead_loop_false_spec in Ed.
      apply find_input_some in E as [Hin [Hc' _]]. exists o, q, i, c.
      split; [apply all_paths_spec; assumption|auto].
    + exfalso. apply Hnd. left. apply (not_some_root_unconnected t c p); auto. congruence.
  - (* _check_branching *)
    intros c p Hc Hp. unfold check_branching.
    destruct (find_output (t_forest t) c p) as [[r ts]|] eqn:E; [|reflexivity].
    destruct (branch_loop _ _) eqn:Eb; [|reflexivity].
    exfalso. apply Hnd. do 3 right. left.
    apply find_output_some in E as [Hin [o [Hr [Hc' _]]]]. simpl in Hr. subst r.
    apply branching_spec in Eb as [tr [anc [a [cs [Htr [Hs [Hl Hb]]]]]]].
    exists o, ts, c, tr, anc, a, cs. do 5 (split; [assumption|]). assumption.
  - (* _check_missing_components *)
    unfold check_missing.
    destruct (existsb _ (down_leaves t)) eqn:E1.
    + exfalso. apply Hnd. do 2 right. left.
      apply existsb_exists in E1 as [i [Hi Hown]]. unfold down_leaves in Hi.
      apply in_flat_map in Hi as [[c p] [_ Hi]]. simpl in Hi.
      destruct (find_output (t_forest t) c p) as [[r ts]|] eqn:E; [|contradiction].
      apply find_output_some in E as [Hin [o [Hr [Hc' _]]]]. simpl in Hr, Hi. subst r.
      apply in_flat_map in Hi as [tr [Htr Hi]]. destruct (leaf_tpath tr i Hi) as [q Hq].
      exists o, q, i. split; [exists ts, tr; auto|]. right.
      destruct (i_own i); [discriminate|]. split; congruence.
    + destruct (existsb _ (up_roots t)) eqn:E2; [|reflexivity].
      exfalso. apply existsb_exists in E2 as [r [Hr Hown]]. unfold up_roots in Hr.
      apply in_flat_map in Hr as [[c p] [Hk Hr]]. simpl in Hr. apply in_in_keys in Hk as [Hc Hp].
      destruct (find_input (t_forest t) c p) as [[[r' q] i]|] eqn:E; [|contradiction].
      destruct Hr as [<-|[]]. unfold p_root in Hown. simpl in Hown.
      destruct r' as [o|].
      * apply Hnd. do 2 right. left. apply find_input_some in E as [Hin [Hc' _]].
        exists o, q, i. split; [apply all_paths_spec; assumption|]. left.
        simpl in Hc'. destruct (o_own o); [discriminate|]. split; congruence.
      * apply Hnd. left. apply (not_some_root_unconnected t c p); auto. congruence.
Qed.

Theorem validate_exact t :
  wf t ->
  (validate t = VOk <-> ~ defect t)
  /\ (~ defect t -> snd (validate_composition t) = RDone /\ snd (connect false t) = RDone)
  /\ (defect t -> snd (validate_composition t) = RRaised ConnectError
                  /\ snd (connect false t) = RRaised ConnectError).
Proof.
  intros Hwf.
  assert (Hiff : validate t = VOk <-> ~ defect t)
    by (split; [apply validate_ok_no_defect|apply no_defect_validate_ok]; assumption).
  split; [exact Hiff|]. split.
  - intros Hnd. apply Hiff in Hnd. unfold validate in Hnd. unfold connect, validate_composition.
    destruct (run_checks (all_checks t)) as [ev [fl|]]; simpl in *; [discriminate|auto].
  - intros Hd. assert (Hne : validate t <> VOk) by (intros H; apply Hiff in H; contradiction).
    unfold validate in Hne. unfold connect, validate_composition.
    destruct (run_checks (all_checks t)) as [ev [fl|]]; simpl in *; [auto|congruence].
Qed.

(* ========================================================================= *)
(** * Event order of [Composition.connect] *)

Definition ev_of_check (ck : check) : event :=
  EvCheck (fst (fst (fst ck))) (snd (fst (fst ck))) (snd (fst ck)).
Definition check_events (t : topo) : list event := map ev_of_check (all_checks t).

(** a component is asked to connect, or a slot exchanges pings / infos / data *)
Definition is_exchange (e : event) : bool :=
  match e with EvConnect _ | EvExchange => true | _ => false end.

Lemma run_checks_events_ok l :
  snd (run_checks l) = None -> fst (run_checks l) = map ev_of_check l.
Proof.
  induction l as [|[[[k c] p] r] rest IH]; simpl; [reflexivity|].
  destruct r as [e|]; simpl; [discriminate|].
  destruct (run_checks rest) as [ev res]; simpl in *. intros H. rewrite IH; auto.
Qed.

Lemma run_checks_no_exchange l e : In e (fst (run_checks l)) -> is_exchange e = false.
Proof.
  induction l as [|[[[k c] p] r] rest IH]; simpl; [contradiction|].
  destruct r as [x|]; simpl.
  - intros [<-|[<-|[]]]; reflexivity.
  - destruct (run_checks rest) as [ev res]; simpl in *. intros [<-|H]; auto.
Qed.

Theorem connect_order t already ev r :
  connect already t = (ev, r) ->
  (forall pre e post, ev = pre ++ e :: post -> is_exchange e = true ->
     already = false /\ validate t = VOk /\ exists pre', pre = check_events t ++ pre')
  /\ (validate t <> VOk -> already = false ->
      r = RRaised ConnectError /\ forall e, In e ev -> is_exchange e = false).
Proof.
  unfold connect, validate_composition, validate, check_events.
  destruct already.
  - intros [= <- <-]. split.
    + intros pre e post H. destruct pre; discriminate.
    + intros _ [=].
  - pose proof (run_checks_events_ok (all_checks t)) as Hev.
    pose proof (run_checks_no_exchange (all_checks t)) as Hne.
    destruct (run_checks (all_checks t)) as [ev0 [fl|]]; simpl in *.
    + intros [= <- <-]. split.
      * intros pre e post -> He. rewrite (Hne e) in He; [discriminate|].
        apply in_or_app. right. left. reflexivity.
      * intros _ _. split; [reflexivity|exact Hne].
    + intros [= <- <-]. rewrite (Hev eq_refl) in *. split.
      * intros pre e post Heq He. split; [reflexivity|]. split; [reflexivity|].
        apply app_eq_app in Heq as [l [[H1 H2]|[H1 H2]]].
        -- destruct l as [|x l].
           ++ exists []. rewrite app_nil_r in H1. rewrite app_nil_r. auto.
           ++ simpl in H2. injection H2 as Hx _. subst x.
              rewrite (Hne e) in He; [discriminate|]. rewrite H1.
              apply in_or_app. right. left. reflexivity.
        -- exists l. assumption.
      * intros H; contradiction.
Qed.

(* ========================================================================= *)
(** * The reported link list *)

(** Specification: the links created by [src >> t] for every tree, top down. *)
Fixpoint tlinks (src : lnode) (t : tree) : list link :=
  (src, head_node t) ::
  match t with
  | Leaf _ => []
  | Node a ts => flat_map (tlinks (NAda (a_id a))) ts
  end.

Definition rlinks (rt : rtree) : list link :=
  match fst rt with
  | Some o => flat_map (tlinks (NOut (o_own o) (o_pos o))) (snd rt)
  | None => flat_map (fun t => match t with
                               | Leaf _ => []
                               | Node a ts => flat_map (tlinks (NAda (a_id a))) ts
                               end) (snd rt)
  end.

(** a link tree touches the composition when its output or one of its inputs belongs to a
    component of the composition *)
Definition touches (rt : rtree) : bool :=
  owned_root rt || existsb (fun i => negb (is_none (i_own i))) (flat_map tleaves (snd rt)).

Definition created_links (t : topo) : list link := flat_map rlinks (filter touches (t_forest t)).

(* ---- list helpers ---- *)

Lemma NoDup_app_iff {A : Type} (a b : list A) :
  NoDup (a ++ b) <-> NoDup a /\ NoDup b /\ (forall x, In x a -> ~ In x b).
Proof.
  induction a as [|x a IH]; simpl.
  - split; [intros H; repeat split; auto; constructor|tauto].
  - split.
    + intros H. inversion H as [|? ? Hn Hnd]; subst. apply IH in Hnd as [Ha [Hb Hd]].
      repeat split; auto.
      * constructor; auto. intros Hx. apply Hn. apply in_or_app; auto.
      * intros y [<-|Hy]; [intros Hx; apply Hn; apply in_or_app; auto|auto].
    + intros [Ha [Hb Hd]]. inversion Ha as [|? ? Hn Hnd]; subst. constructor.
      * intros Hx. apply in_app_or in Hx as [Hx|Hx]; [auto|]. apply (Hd x); auto.
      * apply IH. repeat split; auto.
Qed.

Lemma flat_map_flat_map {A B C : Type} (f : B -> list C) (g : A -> list B) l :
  flat_map f (flat_map g l) = flat_map (fun x => flat_map f (g x)) l.
Proof.
  induction l as [|x r IH]; simpl; [reflexivity|]. rewrite flat_map_app, IH. reflexivity.
Qed.

Lemma Permutation_flat_map_pointwise {A B : Type} (f g : A -> list B) l :
  (forall x, In x l -> Permutation (f x) (g x)) -> Permutation (flat_map f l) (flat_map g l).
Proof.
  induction l as [|x r IH]; simpl; intros H; [constructor|].
  apply Permutation_app; [apply H; auto|apply IH; auto].
Qed.

Lemma flat_map_split {A B : Type} (f g : A -> list B) l :
  Permutation (flat_map (fun x => f x ++ g x) l) (flat_map f l ++ flat_map g l).
Proof.
  induction l as [|x r IH]; simpl; [constructor|].
  rewrite IH. rewrite <- !app_assoc. apply Permutation_app_head.
  apply Permutation_app_swap_app.
Qed.

Lemma NoDup_map_flat_filter {A B C : Type} (k : B -> C) (h : A -> list B) (P : A -> bool) l :
  NoDup (map k (flat_map h l)) -> NoDup (map k (flat_map h (filter P l))).
Proof.
  induction l as [|x r IH]; simpl; [auto|].
  rewrite map_app. intros H. apply NoDup_app_iff in H as [Ha [Hb Hd]].
  destruct (P x); simpl; [|auto].
  rewrite map_app. apply NoDup_app_iff. repeat split; auto.
  intros y Hy Hy'. apply (Hd y Hy).
  apply in_map_iff in Hy' as [z [<- Hz]]. apply in_map. apply in_flat_map in Hz as [w [Hw Hz]].
  apply in_flat_map. exists w. split; [|assumption]. apply filter_In in Hw. tauto.
Qed.

(* ---- the adapter set ---- *)

Definition nid (n : anode) : nat := a_id (fst n).

Lemma mem_spec id seen : existsb (Nat.eqb id) seen = true <-> In id seen.
Proof.
  rewrite existsb_exists. split.
  - intros [y [Hy He]]. apply Nat.eqb_eq in He. subst. assumption.
  - intros H. exists id. split; [assumption|apply Nat.eqb_refl].
Qed.

Lemma dedupe_in l : forall seen x, In x (dedupe seen l) -> In x l /\ ~ In (nid x) seen.
Proof.
  induction l as [|n r IH]; simpl; intros seen x H; [contradiction|].
  destruct (existsb (Nat.eqb (a_id (fst n))) seen) eqn:E.
  - apply IH in H. tauto.
  - destruct H as [<-|H].
    + split; auto. intros Hin. apply mem_spec in Hin. unfold nid in Hin. congruence.
    + apply IH in H as [H1 H2]. split; auto. intros Hin. apply H2. right. assumption.
Qed.

Lemma dedupe_nodup l : forall seen, NoDup (map nid (dedupe seen l)).
Proof.
  induction l as [|n r IH]; simpl; intros seen; [constructor|].
  destruct (existsb (Nat.eqb (a_id (fst n))) seen) eqn:E; [apply IH|].
  simpl. constructor; [|apply IH].
  intros Hin. apply in_map_iff in Hin as [y [Hy Hin]]. apply dedupe_in in Hin as [_ Hn].
  apply Hn. left. unfold nid in *. congruence.
Qed.

Lemma dedupe_complete l : forall seen x,
  In x l -> ~ In (nid x) seen -> exists y, In y (dedupe seen l) /\ nid y = nid x.
Proof.
  induction l as [|n r IH]; simpl; intros seen x Hx Hns; [contradiction|].
  destruct (existsb (Nat.eqb (a_id (fst n))) seen) eqn:E.
  - destruct Hx as [->|Hx]; [|apply IH; auto].
    exfalso. apply Hns. apply mem_spec. exact E.
  - destruct Hx as [->|Hx]; [exists x; simpl; auto|].
    destruct (Nat.eq_dec (nid x) (nid n)) as [Heq|Hne].
    + exists n. simpl. auto.
    + destruct (IH (a_id (fst n) :: seen) x Hx) as [y [Hy Hid]].
      * intros [H|H]; [apply Hne; unfold nid in *; congruence|auto].
      * exists y. simpl. auto.
Qed.

Lemma dedupe_perm L U :
  NoDup (map nid U) -> (forall x, In x L <-> In x U) -> Permutation (dedupe [] L) U.
Proof.
  intros Hnd Hiff. apply NoDup_Permutation.
  - apply (NoDup_map_inv nid). apply dedupe_nodup.
  - apply (NoDup_map_inv nid). assumption.
  - intros x. split.
    + intros H. apply dedupe_in in H as [H _]. apply Hiff. assumption.
    + intros H. destruct (dedupe_complete L [] x) as [y [Hy Hid]]; [apply Hiff; assumption|auto|].
      assert (y = x); [|subst; assumption].
      apply (NoDup_map_inj nid U); auto. apply Hiff. apply dedupe_in in Hy. tauto.
Qed.

(* ---- links of a tree, node by node ---- *)

Lemma tlinks_nodes t : forall s,
  Permutation (tlinks s t) ((s, head_node t) :: flat_map node_links (tnodes t)).
Proof.
  induction t as [j|a ts IH] using tree_ind'; intros s; simpl; [reflexivity|].
  apply perm_skip. unfold node_links at 1. simpl.
  rewrite Forall_forall in IH. clear s.
  induction ts as [|t r IHr]; simpl; [constructor|].
  rewrite flat_map_app. rewrite (IH t (or_introl eq_refl)). simpl. apply perm_skip.
  rewrite IHr by (intros x Hx; apply IH; right; assumption).
  rewrite Permutation_app_swap_app. rewrite app_assoc. reflexivity.
Qed.

Lemma flat_tlinks_nodes s ts :
  Permutation (flat_map (tlinks s) ts)
              (map (fun t => (s, head_node t)) ts ++ flat_map node_links (flat_map tnodes ts)).
Proof.
  induction ts as [|t r IH]; simpl; [constructor|].
  rewrite flat_map_app, tlinks_nodes, IH. simpl. apply perm_skip.
  rewrite Permutation_app_swap_app. reflexivity.
Qed.

Definition root_links (rt : rtree) : list link :=
  match rt with (Some o, ts) => out_links o ts | _ => [] end.

Lemma rlinks_owned rt :
  owned_root rt = true ->
  Permutation (rlinks rt) (root_links rt ++ flat_map node_links (flat_map tnodes (snd rt))).
Proof.
  destruct rt as [[o|] ts]; unfold owned_root, rlinks; simpl; [|discriminate].
  intros _. apply flat_tlinks_nodes.
Qed.

(* ---- which trees and adapters the composition sees ---- *)

Lemma tpath_nodes t : forall q i x, tpath t q i -> In x q -> In x (tnodes t).
Proof.
  induction t as [j|a ts IH] using tree_ind'; intros q i x H Hx; inversion H; subst.
  - contradiction.
  - simpl. destruct Hx as [<-|Hx]; [left; reflexivity|]. right.
    apply in_flat_map. eexists. split; [eassumption|].
    rewrite Forall_forall in IH. eapply IH; eauto.
Qed.

(** in a defect-free topology, a tree with an input of the composition starts at an output of
    the composition *)
Lemma owned_leaf_owned_root t r ts tr q i c :
  wf t -> ~ defect t -> In (r, ts) (t_forest t) -> In tr ts -> tpath tr q i -> i_own i = Some c ->
  owned_root (r, ts) = true.
Proof.
  intros Hwf Hnd Hrt Htr Htp Hc.
  assert (Hpa : fpath (t_forest t) (r, q, i)) by (exists ts, tr; auto).
  pose proof (fpath_in _ _ Hpa) as Hin.
  destruct (wf_range_i t _ c Hwf Hin Hc) as [Hcn Hpn]. simpl in Hpn.
  destruct r as [o|].
  - unfold owned_root. simpl. destruct (o_own o) eqn:Ho; [reflexivity|].
    exfalso. apply Hnd. do 2 right. left. exists o, q, i. split; [assumption|]. left.
    split; congruence.
  - exfalso. apply Hnd. left. apply (not_some_root_unconnected t c (i_pos i)); auto.
    rewrite (find_input_unique' t _ _ _ c Hwf Hin Hc). congruence.
Qed.

Lemma touches_owned t rt :
  wf t -> ~ defect t -> In rt (t_forest t) -> touches rt = owned_root rt.
Proof.
  intros Hwf Hnd Hin. unfold touches. destruct (owned_root rt) eqn:E; [reflexivity|]. simpl.
  destruct (existsb _ _) eqn:Ex; [|reflexivity].
  apply existsb_exists in Ex as [i [Hi Hown]]. destruct rt as [r ts]. simpl in Hi.
  apply in_flat_map in Hi as [tr [Htr Hi]]. destruct (leaf_tpath tr i Hi) as [q Hq].
  destruct (i_own i) as [c|] eqn:Hc; [|discriminate].
  rewrite <- E. symmetry. eapply owned_leaf_owned_root; eauto.
Qed.

Definition found_roots (t : topo) : list rtree :=
  flat_map (fun k => match find_output (t_forest t) (fst k) (snd k) with
                     | Some rt => [rt]
                     | None => []
                     end) (out_keys t).

Lemma keys_nodup (m : nat -> nat) n : forall a,
  NoDup (flat_map (fun c => map (fun p => (c, p)) (seq 0 (m c))) (seq a n)).
Proof.
  induction n as [|n IH]; intros a; simpl; [constructor|].
  apply NoDup_app_iff. repeat split.
  - apply FinFun.Injective_map_NoDup; [intros x y [=]; auto|apply seq_NoDup].
  - apply IH.
  - intros [c p] H1 H2. apply in_map_iff in H1 as [p' [[= <- <-] _]].
    apply in_flat_map in H2 as [c' [Hc' H2]]. apply in_map_iff in H2 as [p'' [[= -> _] _]].
    apply in_seq in Hc'. lia.
Qed.

Lemma found_roots_nodup_keys f l :
  NoDup l ->
  NoDup (map okey (flat_map (fun k => match find_output f (fst k) (snd k) with
                                      | Some rt => [rt]
                                      | None => []
                                      end) l)).
Proof.
  induction l as [|[c p] r IH]; simpl; intros Hnd; [constructor|].
  inversion Hnd as [|? ? Hn Hnd']; subst. rewrite map_app. apply NoDup_app_iff.
  split; [|split; [apply IH; assumption|]].
  - destruct (find_output f c p); simpl; repeat constructor. intros [].
  - intros key H1 H2. destruct (find_output f c p) as [rt|] eqn:E; [|contradiction].
    destruct H1 as [<-|[]]. apply in_map_iff in H2 as [rt' [Hk H2]].
    apply in_flat_map in H2 as [[c' p'] [Hin H2]]. simpl in H2.
    destruct (find_output f c' p') as [rt''|] eqn:E'; [|contradiction].
    destruct H2 as [->|[]].
    apply find_output_some in E as [_ [o [Ho [Hc Hp]]]].
    apply find_output_some in E' as [_ [o' [Ho' [Hc' Hp']]]].
    unfold okey in Hk. rewrite Ho, Ho' in Hk. apply Hn.
    assert (Heq : (c, p) = (c', p')) by (f_equal; congruence). rewrite Heq. assumption.
Qed.

Lemma found_roots_perm t : wf t -> Permutation (found_roots t) (filter owned_root (t_forest t)).
Proof.
  intros Hwf. apply NoDup_Permutation.
  - apply (NoDup_map_inv okey). apply found_roots_nodup_keys. apply keys_nodup.
  - apply (NoDup_map_inv okey). apply Hwf.
  - intros rt. unfold found_roots. rewrite in_flat_map, filter_In. split.
    + intros [[c p] [_ H]]. simpl in H.
      destruct (find_output (t_forest t) c p) as [rt'|] eqn:E; [|contradiction].
      destruct H as [->|[]]. apply find_output_some in E as [Hin [o [Ho [Hc _]]]].
      split; [assumption|]. unfold owned_root. rewrite Ho, Hc. reflexivity.
    + intros [Hin Ho]. destruct rt as [[o|] ts]; unfold owned_root in Ho; simpl in Ho; [|discriminate].
      destruct (o_own o) as [c|] eqn:Hc; [|discriminate].
      destruct (wf_range_o t o ts c Hwf Hin Hc) as [Hcn Hpn].
      exists (c, o_pos o). split; [apply in_out_keys; auto|]. simpl.
      rewrite (find_output_unique t o ts c _ Hwf Hin Hc eq_refl). left. reflexivity.
Qed.

Lemma collect_raw_iff t x :
  wf t -> ~ defect t -> (In x (collect_raw t) <-> In x (owned_nodes t)).
Proof.
  intros Hwf Hnd. unfold collect_raw, owned_nodes. rewrite !in_flat_map. split.
  - intros [c [Hc Hx]]. apply in_app_or in Hx as [Hx|Hx].
    + apply in_flat_map in Hx as [p [Hp Hx]].
      destruct (find_input (t_forest t) c p) as [[[r q] i]|] eqn:E; [|contradiction].
      apply in_rev in Hx. simpl in Hx. apply find_input_some in E as [Hin [Hc' _]].
      apply all_paths_spec in Hin as [ts [tr [Hrt [Htr Htp]]]]. simpl in *.
      exists (r, ts). split.
      * apply filter_In. split; [assumption|]. eapply owned_leaf_owned_root; eauto.
      * simpl. apply in_flat_map. exists tr. split; [assumption|]. eapply tpath_nodes; eauto.
    + apply in_flat_map in Hx as [p [Hp Hx]].
      destruct (find_output (t_forest t) c p) as [rt|] eqn:E; [|contradiction].
      apply find_output_some in E as [Hin [o [Ho [Hc' _]]]]. exists rt. split; [|assumption].
      apply filter_In. split; [assumption|]. unfold owned_root. rewrite Ho, Hc'. reflexivity.
  - intros [rt [Hrt Hx]]. apply filter_In in Hrt as [Hin Ho].
    destruct rt as [[o|] ts]; unfold owned_root in Ho; simpl in Ho; [|discriminate].
    destruct (o_own o) as [c|] eqn:Hc; [|discriminate].
    destruct (wf_range_o t o ts c Hwf Hin Hc) as [Hcn Hpn].
    exists c. split; [apply in_seq; lia|]. apply in_or_app. right.
    apply in_flat_map. exists (o_pos o). split; [apply in_seq; lia|].
    rewrite (find_output_unique t o ts c _ Hwf Hin Hc eq_refl). assumption.
Qed.

Lemma collect_adapters_perm t :
  wf t -> ~ defect t -> Permutation (collect_adapters t) (owned_nodes t).
Proof.
  intros Hwf Hnd. unfold collect_adapters. apply dedupe_perm.
  - unfold owned_nodes. apply NoDup_map_flat_filter. apply Hwf.
  - intros x. apply collect_raw_iff; assumption.
Qed.

Theorem links_exact t :
  wf t -> validate t = VOk -> Permutation (metadata_links t) (created_links t).
Proof.
  intros Hwf Hok. pose proof (validate_ok_no_defect t Hwf Hok) as Hnd.
  unfold metadata_links, created_links.
  rewrite (filter_ext_in touches owned_root) by (intros rt Hin; apply (touches_owned t); assumption).
  rewrite (Permutation_flat_map_pointwise rlinks
             (fun rt => root_links rt ++ flat_map node_links (flat_map tnodes (snd rt))))
    by (intros rt Hin; apply rlinks_owned; apply filter_In in Hin; tauto).
  rewrite flat_map_split.
  apply Permutation_app.
  - rewrite <- (found_roots_perm t Hwf). unfold found_roots. rewrite flat_map_flat_map.
    apply Permutation_flat_map_pointwise. intros [c p] _. simpl.
    destruct (find_output (t_forest t) c p) as [[[o|] ts]|]; simpl; rewrite ?app_nil_r; reflexivity.
  - rewrite (collect_adapters_perm t Hwf Hnd). unfold owned_nodes. rewrite flat_map_flat_map.
    reflexivity.
Qed.

(* ========================================================================= *)
(** * Several [connect()] attempts on one composition *)

Lemma dedupe_ids_in l : forall seen x,
  In x (dedupe_ids seen l) <-> In x l /\ ~ In x seen.
Proof.
  induction l as [|y r IH]; simpl; intros seen x; [tauto|].
  destruct (existsb (Nat.eqb y) seen) eqn:E.
  - rewrite IH. apply mem_spec in E. split; [tauto|].
    intros [[<-|H] Hn]; [contradiction|tauto].
  - assert (Hy : ~ In y seen) by (intros H; apply mem_spec in H; congruence).
    simpl. rewrite IH. simpl. split.
    + intros [<-|[H Hn]]; [tauto|]. split; [tauto|]. intros Hs. apply Hn. right. assumption.
    + intros [[<-|H] Hn]; [left; reflexivity|].
      destruct (Nat.eq_dec y x) as [->|Hne]; [left; reflexivity|].
      right. split; [assumption|]. intros [H'|H']; [contradiction|contradiction].
Qed.

Lemma dedupe_ids_nodup l : forall seen, NoDup (dedupe_ids seen l).
Proof.
  induction l as [|y r IH]; simpl; intros seen; [constructor|].
  destruct (existsb (Nat.eqb y) seen); [apply IH|].
  constructor; [|apply IH]. intros H. apply dedupe_ids_in in H as [_ H]. apply H. left. reflexivity.
Qed.

Lemma owned_nodes_all t n : In n (owned_nodes t) -> In n (all_nodes (t_forest t)).
Proof.
  unfold owned_nodes, all_nodes. rewrite !in_flat_map. intros [rt [Hrt Hn]].
  exists rt. apply filter_In in Hrt. tauto.
Qed.

Lemma owned_nodes_nodup t : wf t -> NoDup (map nid (owned_nodes t)).
Proof. intros Hwf. unfold owned_nodes. apply NoDup_map_flat_filter. apply Hwf. Qed.

Lemma find_node_owned t n :
  wf t -> In n (owned_nodes t) -> find_node (t_forest t) (nid n) = Some n.
Proof.
  intros Hwf Hn. apply owned_nodes_all in Hn.
  destruct (find_node (t_forest t) (nid n)) as [n'|] eqn:E; unfold find_node in E.
  - apply find_some in E as [Hin He]. apply Nat.eqb_eq in He. f_equal.
    apply (NoDup_map_inj nid (all_nodes (t_forest t))); auto. apply Hwf.
  - pose proof (find_none _ _ E n Hn) as H. simpl in H. unfold nid in H.
    rewrite Nat.eqb_refl in H. discriminate.
Qed.

Lemma collect_ids_perm prev t :
  wf t -> ~ defect t ->
  (forall id, In id prev -> In id (map nid (owned_nodes t))) ->
  Permutation (collect_ids prev t) (map nid (owned_nodes t)).
Proof.
  intros Hwf Hnd Hprev. apply NoDup_Permutation.
  - apply dedupe_ids_nodup.
  - apply owned_nodes_nodup; assumption.
  - intros id. unfold collect_ids. rewrite dedupe_ids_in, in_app_iff. split.
    + intros [[H|H] _]; [auto|].
      apply in_map_iff in H as [x [<- Hx]]. apply (in_map nid).
      apply collect_raw_iff; assumption.
    + intros H. split; [|intros []]. right.
      apply in_map_iff in H as [x [<- Hx]]. apply (in_map (fun n => a_id (fst n))).
      apply collect_raw_iff; assumption.
Qed.

Lemma flat_map_map {A B C : Type} (f : B -> list C) (g : A -> B) l :
  flat_map f (map g l) = flat_map (fun x => f (g x)) l.
Proof. induction l as [|x r IH]; simpl; [reflexivity|]. rewrite IH. reflexivity. Qed.

Lemma validate_ok_composition t : validate t = VOk -> validate_composition t = (check_events t, RDone).
Proof.
  unfold validate, validate_composition, check_events. intros H.
  pose proof (run_checks_events_ok (all_checks t)) as Hev.
  destruct (run_checks (all_checks t)) as [ev [fl|]]; simpl in *; [discriminate|].
  rewrite Hev; reflexivity.
Qed.

(** A composition that is not connected yet and remembers only adapters that are (still) below
    its outputs: a successful [connect()] reports exactly the created links - whatever earlier,
    rejected attempts have left behind. *)
Theorem retry_links_exact s t :
  s_connected s = false -> wf t -> validate t = VOk ->
  (forall id, In id (s_adapters s) -> In id (map nid (owned_nodes t))) ->
  forall s' ev r, connect_st s t = (s', (ev, r)) ->
    r = RDone /\ s_connected s' = true
    /\ Permutation (metadata_links_of s' t) (created_links t).
Proof.
  intros Hs Hwf Hok Hprev s' ev r. unfold connect_st. rewrite Hs.
  rewrite (validate_ok_composition t Hok). intros [= <- <- <-].
  split; [reflexivity|]. split; [reflexivity|].
  pose proof (validate_ok_no_defect t Hwf Hok) as Hnd.
  rewrite <- (links_exact t Hwf Hok).
  unfold metadata_links_of, metadata_links, direct_links. simpl.
  apply Permutation_app_head.
  rewrite (collect_ids_perm (s_adapters s) t Hwf Hnd Hprev).
  rewrite (collect_adapters_perm t Hwf Hnd).
  rewrite flat_map_map. apply Permutation_flat_map_pointwise.
  intros n Hn. rewrite (find_node_owned t n Hwf Hn). reflexivity.
Qed.

(** A rejected attempt changes nothing but the remembered adapter set, and that only by adapters
    found on the links of the rejected wiring. *)
Theorem failed_attempt_clean s t s' ev e :
  connect_st s t = (s', (ev, RRaised e)) ->
  s_connected s' = s_connected s
  /\ (forall x, In x ev -> is_exchange x = false)
  /\ (s_connected s = false ->
      e = ConnectError /\ validate t <> VOk
      /\ forall id, In id (s_adapters s') ->
           In id (s_adapters s) \/ In id (map nid (collect_raw t))).
Proof.
  unfold connect_st, validate_composition, validate.
  destruct (s_connected s) eqn:Hs.
  - intros [= <- <- <-]. rewrite Hs. split; [reflexivity|]. split; [intros x []|discriminate].
  - pose proof (run_checks_no_exchange (all_checks t)) as Hne.
    destruct (run_checks (all_checks t)) as [ev0 [fl|]]; simpl in *; [|discriminate].
    intros [= <- <- <-]. simpl. split; [reflexivity|]. split; [exact Hne|]. intros _.
    split; [reflexivity|]. split; [discriminate|].
    intros id H. unfold collect_ids in H. apply dedupe_ids_in in H as [H _].
    apply in_app_or in H. exact H.
Qed.

Lemma connect_st_fresh t : snd (connect_st fresh t) = connect false t.
Proof.
  unfold connect_st, connect. simpl. destruct (validate_composition t) as [ev [|e]]; reflexivity.
Qed.
