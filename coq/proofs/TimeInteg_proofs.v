From Coq Require Import List ZArith QArith Bool Lia.
From FV Require Import Base TimeInterp TimeInteg.
Import ListNotations.
Open Scope Z_scope.

Lemma tmp_nodata ev c t : snd (get_data_i ev c init_i t) = IErrNoData.
Proof. reflexivity. Qed.
