(** Proofs about the time-integration adapters (model FV.TimeInteg): every pull p0 < p1 of the
    evicting adapter returns the exact integral of the interpolant of the full publication history
    (divided by p1 - p0 for the average); additivity / conservation; averages lie within the range
    of the contributing values; eviction is invisible. *)
From Coq Require Import List ZArith QArith Qabs Bool Lia Lqa Setoid Morphisms.
From FV Require Import Base TimeInterp TimeInteg.
From FVP Require Import TimeInterp_proofs.
Import ListNotations.
Open Scope Z_scope.

Arguments last_time : simpl never.
Arguments clear_cached : simpl never.

(* ------------------------------------------------------------------ *)
(** ** min / max on Q *)

Lemma qle_bool_false a b : Qle_bool a b = false -> (b < a)%Q.
Proof.
  intros E. apply Qnot_le_lt. intros H. apply Qle_bool_iff in H. congruence.
Qed.

Lemma qmin_spec a b : ((a <= b)%Q /\ qmin a b = a) \/ ((b < a)%Q /\ qmin a b = b).
Proof.
  unfold qmin. destruct (Qle_bool a b) eqn:E.
  - left. split; [apply Qle_bool_iff; exact E|reflexivity].
  - right. split; [apply qle_bool_false; exact E|reflexivity].
Qed.

Lemma qmax_spec a b : ((a <= b)%Q /\ qmax a b = b) \/ ((b < a)%Q /\ qmax a b = a).
Proof.
  unfold qmax. destruct (Qle_bool a b) eqn:E.
  - left. split; [apply Qle_bool_iff; exact E|reflexivity].
  - right. split; [apply qle_bool_false; exact E|reflexivity].
Qed.

Lemma qmin_left a b : (a <= b)%Q -> qmin a b = a.
Proof. intros H. destruct (qmin_spec a b) as [[_ E]|[H' _]]; [exact E|lra]. Qed.
Lemma qmax_left a b : (b < a)%Q -> qmax a b = a.
Proof. intros H. destruct (qmax_spec a b) as [[H' _]|[_ E]]; [lra|exact E]. Qed.

Global Instance qmin_proper : Proper (Qeq ==> Qeq ==> Qeq) qmin.
Proof.
  intros a a' Ha b b' Hb.
  destruct (qmin_spec a b) as [[H1 ->]|[H1 ->]], (qmin_spec a' b') as [[H2 ->]|[H2 ->]]; lra.
Qed.

Global Instance qmax_proper : Proper (Qeq ==> Qeq ==> Qeq) qmax.
Proof.
  intros a a' Ha b b' Hb.
  destruct (qmax_spec a b) as [[H1 ->]|[H1 ->]], (qmax_spec a' b') as [[H2 ->]|[H2 ->]]; lra.
Qed.

Lemma qmin_comm a b : (qmin a b == qmin b a)%Q.
Proof.
  destruct (qmin_spec a b) as [[H1 ->]|[H1 ->]], (qmin_spec b a) as [[H2 ->]|[H2 ->]]; lra.
Qed.

(** [min(d,s) + max(s,d) = d + s] *)
Lemma qmin_qmax_sum d s : (qmin d s + qmax s d == d + s)%Q.
Proof.
  destruct (qmin_spec d s) as [[H1 ->]|[H1 ->]], (qmax_spec s d) as [[H2 ->]|[H2 ->]]; lra.
Qed.

(* ------------------------------------------------------------------ *)
(** ** relative positions *)

Lemma inject_pos r : 0 < r -> (0 < inject_Z r)%Q.
Proof. intros H. change 0%Q with (inject_Z 0). rewrite <- Zlt_Qlt. exact H. Qed.

Lemma rel_le0 a r : 0 < r -> a <= 0 -> (inject_Z a / inject_Z r <= 0)%Q.
Proof.
  intros Hr Ha. apply Qle_shift_div_r; [apply inject_pos; exact Hr|].
  rewrite Qmult_0_l. change 0%Q with (inject_Z 0). rewrite <- Zle_Qle. exact Ha.
Qed.

Lemma rel_gt0 a r : 0 < r -> 0 < a -> (0 < inject_Z a / inject_Z r)%Q.
Proof.
  intros Hr Ha. apply Qlt_shift_div_l; [apply inject_pos; exact Hr|].
  rewrite Qmult_0_l. apply inject_pos. exact Ha.
Qed.

Lemma rel_lt1 a r : 0 < r -> a < r -> (inject_Z a / inject_Z r < 1)%Q.
Proof.
  intros Hr Ha. apply Qlt_shift_div_r; [apply inject_pos; exact Hr|].
  rewrite Qmult_1_l. rewrite <- Zlt_Qlt. exact Ha.
Qed.

Lemma rel_ge1 a r : 0 < r -> r <= a -> (1 <= inject_Z a / inject_Z r)%Q.
Proof.
  intros Hr Ha. apply Qle_shift_div_l; [apply inject_pos; exact Hr|].
  rewrite Qmult_1_l. rewrite <- Zle_Qle. exact Ha.
Qed.

Lemma dcl_low t0 t1 x : t0 < t1 -> x <= t0 -> (dcl t0 t1 x == 0)%Q.
Proof.
  intros Hlt Hx. unfold dcl. pose proof (rel_le0 (x - t0) (t1 - t0) ltac:(lia) ltac:(lia)) as H.
  destruct (qmax_spec (inject_Z (x - t0) / inject_Z (t1 - t0)) 0) as [[H1 ->]|[H1 ->]];
    [|lra]. rewrite qmin_left by lra. reflexivity.
Qed.

Lemma dcl_high t0 t1 x : t0 < t1 -> t1 <= x -> (dcl t0 t1 x == 1)%Q.
Proof.
  intros Hlt Hx. unfold dcl. pose proof (rel_ge1 (x - t0) (t1 - t0) ltac:(lia) ltac:(lia)) as H.
  rewrite qmax_left by lra.
  destruct (qmin_spec (inject_Z (x - t0) / inject_Z (t1 - t0)) 1) as [[H1 ->]|[H1 ->]]; lra.
Qed.

(** the code's [dt1 = max(., 0)] and [dt2 = min(., 1)] are the clamped position whenever the
    interval is not skipped / the loop not left *)
Lemma dcl_mid_max t0 t1 x : t0 < t1 -> x < t1 ->
  dcl t0 t1 x = qmax (inject_Z (x - t0) / inject_Z (t1 - t0)) 0.
Proof.
  intros Hlt Hx. unfold dcl. pose proof (rel_lt1 (x - t0) (t1 - t0) ltac:(lia) ltac:(lia)) as H.
  apply qmin_left.
  destruct (qmax_spec (inject_Z (x - t0) / inject_Z (t1 - t0)) 0) as [[H1 ->]|[H1 ->]]; lra.
Qed.

Lemma dcl_mid_min t0 t1 x : t0 < t1 -> t0 < x ->
  dcl t0 t1 x = qmin (inject_Z (x - t0) / inject_Z (t1 - t0)) 1.
Proof.
  intros Hlt Hx. unfold dcl. pose proof (rel_gt0 (x - t0) (t1 - t0) ltac:(lia) ltac:(lia)) as H.
  rewrite qmax_left by exact H. reflexivity.
Qed.

Lemma dcl_bounds t0 t1 x : (0 <= dcl t0 t1 x <= 1)%Q.
Proof.
  unfold dcl.
  destruct (qmax_spec (inject_Z (x - t0) / inject_Z (t1 - t0)) 0) as [[H1 ->]|[H1 ->]].
  - destruct (qmin_spec 0 1) as [[H2 ->]|[H2 ->]]; lra.
  - destruct (qmin_spec (inject_Z (x - t0) / inject_Z (t1 - t0)) 1) as [[H2 ->]|[H2 ->]]; lra.
Qed.

(* ------------------------------------------------------------------ *)
(** ** one interval: the loop body is the closed-form area *)

Lemma antider_proper st v0 v1 d d' : (d == d')%Q -> (antider st v0 v1 d == antider st v0 v1 d')%Q.
Proof.
  intros E. destruct st as [s|]; unfold antider, A_step, A_lin; rewrite E; reflexivity.
Qed.

Lemma seg_value_area st p0 p1 t0 v0 t1 v1 :
  t0 < t1 -> p0 < t1 -> t0 < p1 ->
  (seg_value st p0 p1 t0 v0 t1 v1 == seg_area st (t0, v0) (t1, v1) p0 p1)%Q.
Proof.
  intros Hlt H0 H1. unfold seg_value, seg_area. simpl fst. simpl snd.
  rewrite (dcl_mid_max t0 t1 p0 Hlt H0), (dcl_mid_min t0 t1 p1 Hlt H1).
  set (dt1 := qmax (inject_Z (p0 - t0) / inject_Z (t1 - t0)) 0).
  set (dt2 := qmin (inject_Z (p1 - t0) / inject_Z (t1 - t0)) 1).
  destruct st as [s|]; unfold antider, A_step, A_lin.
  - rewrite (qmin_comm s dt2). ring.
  - ring.
Qed.

Lemma seg_area_same st e0 e1 a b :
  (dcl (fst e0) (fst e1) a == dcl (fst e0) (fst e1) b)%Q -> (seg_area st e0 e1 a b == 0)%Q.
Proof.
  intros E. unfold seg_area. rewrite (antider_proper st _ _ _ _ E). ring.
Qed.

Lemma seg_area_after st e0 e1 a b :
  fst e0 < fst e1 -> fst e1 <= a -> fst e1 <= b -> (seg_area st e0 e1 a b == 0)%Q.
Proof.
  intros Hlt Ha Hb. apply seg_area_same. rewrite !dcl_high by assumption. reflexivity.
Qed.

Lemma seg_area_before st e0 e1 a b :
  fst e0 < fst e1 -> a <= fst e0 -> b <= fst e0 -> (seg_area st e0 e1 a b == 0)%Q.
Proof.
  intros Hlt Ha Hb. apply seg_area_same. rewrite !dcl_low by assumption. reflexivity.
Qed.

Lemma seg_area_additive st e0 e1 a b c :
  (seg_area st e0 e1 a b + seg_area st e0 e1 b c == seg_area st e0 e1 a c)%Q.
Proof. unfold seg_area. ring. Qed.

(* ------------------------------------------------------------------ *)
(** ** the integral *)

Lemma integral_cons2 st sc e0 e1 r a b :
  integral st sc (e0 :: e1 :: r) a b =
  (seg_area st e0 e1 a b * (if sc then secs (fst e1 - fst e0) else 1) + integral st sc (e1 :: r) a b)%Q.
Proof. reflexivity. Qed.

Lemma integral_single st sc e0 a b : integral st sc [e0] a b = 0%Q.
Proof. reflexivity. Qed.

Theorem integral_additive st sc H a b c :
  (integral st sc H a b + integral st sc H b c == integral st sc H a c)%Q.
Proof.
  induction H as [|e0 r IH]; [simpl; ring|].
  destruct r as [|e1 r]; [simpl; ring|].
  rewrite !integral_cons2. rewrite <- (seg_area_additive st e0 e1 a b c).
  rewrite <- IH. ring.
Qed.

Lemma integral_before st sc a b : forall r t0 v0,
  inc_from t0 r -> a <= t0 -> b <= t0 -> (integral st sc ((t0, v0) :: r) a b == 0)%Q.
Proof.
  induction r as [|[t1 v1] r IH]; intros t0 v0 Hinc Ha Hb; [reflexivity|].
  destruct Hinc as [Hlt Hr]. rewrite integral_cons2.
  rewrite seg_area_before by (simpl; lia). rewrite IH by (assumption || lia). ring.
Qed.

Lemma integral_skip_head st sc a b e0 e1 r :
  fst e0 < fst e1 -> fst e1 <= a -> fst e1 <= b ->
  (integral st sc (e0 :: e1 :: r) a b == integral st sc (e1 :: r) a b)%Q.
Proof.
  intros Hlt Ha Hb. rewrite integral_cons2, seg_area_after by assumption. ring.
Qed.

(** publications older than a retained entry that is not newer than [a] contribute nothing *)
Lemma integral_suffix st sc a b : forall pre e0 r,
  increasing (pre ++ e0 :: r) -> fst e0 <= a -> fst e0 <= b ->
  (integral st sc (pre ++ e0 :: r) a b == integral st sc (e0 :: r) a b)%Q.
Proof.
  induction pre as [|x pre IH]; intros e0 r Hinc Ha Hb; [reflexivity|].
  assert (Hinc' : increasing (pre ++ e0 :: r)).
  { destruct x as [tx vx]. simpl in Hinc. exact (inc_from_increasing _ _ Hinc). }
  rewrite <- (IH e0 r Hinc' Ha Hb).
  destruct pre as [|y pre'].
  - simpl app. apply integral_skip_head; try assumption.
    exact (increasing_app_lt [x] e0 r x Hinc (or_introl eq_refl)).
  - simpl app.
    pose proof (increasing_app_lt (x :: y :: pre') e0 r y Hinc (or_intror (or_introl eq_refl))) as Hy.
    assert (Hxy : fst x < fst y).
    { destruct x as [tx vx]. simpl in Hinc. destruct y as [ty vy]. simpl in Hinc. simpl. tauto. }
    apply integral_skip_head; lia.
Qed.

(** publications after [b] contribute nothing: the integral over [a, b] does not change when the
    series is extended later *)
Lemma integral_extend st sc a b : forall H t0 v0 e,
  inc_from t0 (H ++ [e]) -> a <= last_time t0 H -> b <= last_time t0 H ->
  (integral st sc (((t0, v0) :: H) ++ [e]) a b == integral st sc ((t0, v0) :: H) a b)%Q.
Proof.
  induction H as [|[t1 v1] r IH]; intros t0 v0 e Hinc Ha Hb.
  - rewrite last_time_nil in *. simpl app. rewrite integral_cons2, integral_single.
    destruct e as [te ve]. simpl in Hinc.
    rewrite seg_area_before by (simpl; lia). simpl. ring.
  - simpl app. rewrite !integral_cons2. destruct Hinc as [Hlt Hr].
    rewrite last_time_cons in Ha, Hb. simpl in Ha, Hb.
    pose proof (IH t1 v1 e Hr Ha Hb) as E. simpl app in E. rewrite E. reflexivity.
Qed.

(* ------------------------------------------------------------------ *)
(** ** the loop *)

Definition val (o : option Q) : Q := match o with Some a => a | None => 0%Q end.

Lemma loop_val st sc p0 p1 : p0 <= p1 -> forall r t0 v0 acc,
  inc_from t0 r ->
  (val (integ_loop st sc p0 p1 t0 v0 r acc) == val acc + integral st sc ((t0, v0) :: r) p0 p1)%Q.
Proof.
  intros Hp. induction r as [|[t1 v1] r IH]; intros t0 v0 acc Hinc.
  - simpl. ring.
  - destruct Hinc as [Hlt Hr]. simpl integ_loop.
    destruct (Z.leb_spec t1 p0) as [H1|H1].
    + rewrite (IH t1 v1 acc Hr). rewrite integral_skip_head by (simpl; lia). reflexivity.
    + destruct (Z.leb_spec p1 t0) as [H2|H2].
      * rewrite integral_before by (simpl; auto; lia). ring.
      * rewrite (IH t1 v1 _ Hr). rewrite integral_cons2. simpl fst.
        rewrite <- (seg_value_area st p0 p1 t0 v0 t1 v1) by lia.
        destruct acc as [a|]; simpl val; ring.
Qed.

Lemma loop_some_acc st sc p0 p1 : forall r t0 v0 a,
  exists x, integ_loop st sc p0 p1 t0 v0 r (Some a) = Some x.
Proof.
  induction r as [|[t1 v1] r IH]; intros t0 v0 a; simpl; [eauto|].
  destruct (t1 <=? p0); [apply IH|]. destruct (p1 <=? t0); [eauto|apply IH].
Qed.

Lemma loop_is_some st sc p0 p1 : p0 < p1 -> forall r t0 v0 acc,
  inc_from t0 r -> t0 <= p0 -> p1 <= last_time t0 r ->
  exists x, integ_loop st sc p0 p1 t0 v0 r acc = Some x.
Proof.
  intros Hp. induction r as [|[t1 v1] r IH]; intros t0 v0 acc Hinc H0 H1.
  - rewrite last_time_nil in H1. lia.
  - destruct Hinc as [Hlt Hr]. rewrite last_time_cons in H1. simpl in H1. simpl integ_loop.
    destruct (Z.leb_spec t1 p0) as [Ha|Ha]; [apply IH; assumption|].
    destruct (Z.leb_spec p1 t0) as [Hb|Hb]; [lia|]. apply loop_some_acc.
Qed.

(* ------------------------------------------------------------------ *)
(** ** domain, invariant *)

(** result equivalence: values up to [==] on [Q] *)
Definition res_equiv (x y : ires) : Prop :=
  match x, y with
  | IOk a, IOk b => (a == b)%Q
  | IErrTime, IErrTime => True
  | IErrNoData, IErrNoData => True
  | ICrash, ICrash => True
  | _, _ => False
  end.

Lemma res_equiv_refl x : res_equiv x x.
Proof. destruct x; simpl; auto. reflexivity. Qed.
Lemma res_equiv_sym x y : res_equiv x y -> res_equiv y x.
Proof. destruct x, y; simpl; auto. intros H; symmetry; exact H. Qed.
Lemma res_equiv_trans x y z : res_equiv x y -> res_equiv y z -> res_equiv x z.
Proof. destruct x, y, z; simpl; auto; try tauto. intros H1 H2; rewrite H1; exact H2. Qed.

(** an in-range pull at [t] when the previous pull was at [p0]: strictly later, or the initial
    pull at the first publication time while the lower bound still is that time *)
Definition pull_ok_i (H : buf) (p0 : option Z) (t : Z) : Prop :=
  match p0, H with
  | Some p, (tf, _) :: _ => p < t \/ (t = p /\ p = tf)
  | _, _ => False
  end.

Definition next_prev (p0 : option Z) (t : Z) : option Z :=
  match p0 with None => Some t | p => p end.

Fixpoint valid_i (H : buf) (p0 : option Z) (ops : list op) : Prop :=
  match ops with
  | [] => True
  | Push t v :: r => push_ok H t /\ valid_i (H ++ [(t, v)]) (next_prev p0 t) r
  | Pull t :: r => if in_range H t then pull_ok_i H p0 t /\ valid_i H (Some t) r
                   else valid_i H p0 r
  end.

Definition InvI (H : buf) (p0 : option Z) (s : istate) : Prop :=
  increasing H /\ i_prev s = p0 /\
  exists pre, H = pre ++ i_buf s /\
    match p0 with
    | None => H = []
    | Some p => exists e0 r, i_buf s = e0 :: r /\ fst e0 <= p
    end.

Lemma InvI_init : InvI [] None init_i.
Proof. split; [exact I|]. split; [reflexivity|]. exists []. auto. Qed.

Lemma InvI_push H p0 s t v :
  InvI H p0 s -> push_ok H t -> InvI (H ++ [(t, v)]) (next_prev p0 t) (source_updated_i s t v).
Proof.
  intros [Hinc [Hp [pre [HH Hm]]]] Hok. split; [apply increasing_push; assumption|].
  unfold source_updated_i. simpl. split; [rewrite Hp; destruct p0; reflexivity|].
  exists pre. split; [rewrite HH, app_assoc; reflexivity|].
  destruct p0 as [p|]; simpl.
  - destruct Hm as [e0 [r [-> Hle]]]. exists e0, (r ++ [(t, v)]). auto.
  - assert (E : pre = [] /\ i_buf s = []).
    { rewrite Hm in HH. symmetry in HH. apply app_eq_nil in HH. exact HH. }
    destruct E as [-> Eb]. rewrite Eb. simpl.
    exists (t, v), []. simpl. split; [reflexivity|lia].
Qed.

(* ------------------------------------------------------------------ *)
(** ** one pull *)

Lemma qdiv_compat a b c : (a == b)%Q -> (a / c == b / c)%Q.
Proof. intros E. rewrite E. reflexivity. Qed.

Lemma get_data_i_cons ev c t0 v0 r p time :
  get_data_i ev c (mk_ist ((t0, v0) :: r) (Some p)) time =
  if (last_time t0 r <? time) || (time <? t0)
  then (mk_ist ((t0, v0) :: r) (Some p), IErrTime)
  else match interpolate_i c ((t0, v0) :: r) p time with
       | IOk v => (mk_ist (if ev then clear_cached p ((t0, v0) :: r) else (t0, v0) :: r) (Some time), IOk v)
       | e => (mk_ist ((t0, v0) :: r) (Some p), e)
       end.
Proof. reflexivity. Qed.

Lemma pull_step_i ev c H p0 s t :
  InvI H p0 s ->
  (in_range H t = true -> pull_ok_i H p0 t) ->
  res_equiv (snd (get_data_i ev c s t)) (spec_pull_i c H p0 t) /\
  InvI H (if in_range H t then Some t else p0) (fst (get_data_i ev c s t)).
Proof.
  intros HI Hreq. pose proof HI as [Hinc [Hp [pre [HH Hm]]]].
  destruct s as [b pv]. simpl in Hp, HH, Hm. subst pv.
  destruct b as [|[t0 v0] r].
  - (* nothing buffered: nothing published *)
    destruct p0 as [p|]; [destruct Hm as [? [? [? _]]]; discriminate|].
    clear HH. assert (H = []) as -> by exact Hm.
    simpl. split; [exact I|exact HI].
  - destruct H as [|[h0 x] hr]; [destruct pre; discriminate|].
    destruct p0 as [p|]; [|discriminate].
    destruct Hm as [e0 [r' [Hb Hle]]]. injection Hb as <- <-. simpl in Hle.
    assert (Hh0 : h0 <= t0)
      by exact (first_le_retained pre (t0, v0) r h0 x hr ltac:(rewrite <- HH; exact Hinc) (eq_sym HH)).
    assert (Hlast : last_time h0 hr = last_time t0 r).
    { destruct pre as [|a pre'].
      - simpl in HH. injection HH as -> -> ->. reflexivity.
      - simpl in HH. injection HH as _ ->. apply last_time_app_cons. }
    assert (Hincb : increasing ((t0, v0) :: r)) by (rewrite HH in Hinc; exact (increasing_app_r _ _ Hinc)).
    simpl in Hincb.
    destruct (in_range ((h0, x) :: hr) t) eqn:Hr.
    + (* in range *)
      specialize (Hreq eq_refl). simpl in Hreq. pose proof Hr as Hr'. apply in_range_cons in Hr'.
      rewrite get_data_i_cons.
      assert (Ht0 : t0 <= t) by (destruct Hreq as [?|[? ?]]; lia).
      destruct (Z.ltb_spec (last_time t0 r) t); [lia|]. destruct (Z.ltb_spec t t0); [lia|].
      simpl orb. cbv iota.
      assert (HInv' : forall b', (exists pre', (t0, v0) :: r = pre' ++ b') ->
                                 (exists e1 r1, b' = e1 :: r1 /\ fst e1 <= p) ->
                                 InvI ((h0, x) :: hr) (Some t) (mk_ist b' (Some t))).
      { intros b' [pre' Hpre'] [e1 [r1 [Hb' Hle1]]]. split; [exact Hinc|]. split; [reflexivity|].
        exists (pre ++ pre'). simpl. split; [rewrite <- app_assoc, <- Hpre'; exact HH|].
        exists e1, r1. split; [exact Hb'|]. destruct Hreq as [?|[? ?]]; lia. }
      assert (HInvEv : InvI ((h0, x) :: hr) (Some t)
                (mk_ist (if ev then clear_cached p ((t0, v0) :: r) else (t0, v0) :: r) (Some t))).
      { apply HInv'; destruct ev.
        - apply clear_cached_suffix.
        - exists []. reflexivity.
        - exact (clear_cached_first p _ (t0, v0) r eq_refl Hle).
        - exists (t0, v0), r. auto. }
      destruct Hreq as [Hstrict|[Heq Hfirst]].
      * (* p < t: a proper integration step *)
        assert (Hr2 : exists e1 r1, r = e1 :: r1).
        { destruct r as [|e1 r1]; [rewrite last_time_nil in *; lia|eauto]. }
        destruct Hr2 as [e1 [r1 Hr1]].
        assert (Hinit : match r with [] => true | _ :: _ => t <=? t0 end = false).
        { rewrite Hr1. apply Z.leb_gt. lia. }
        assert (HI2 : forall sc, (integral (c_step c) sc ((h0, x) :: hr) p t
                                  == integral (c_step c) sc ((t0, v0) :: r) p t)%Q).
        { intros sc. rewrite HH. apply integral_suffix; [rewrite <- HH; exact Hinc|simpl; lia|simpl; lia]. }
        unfold interpolate_i. rewrite Hinit.
        unfold spec_pull_i. rewrite Hr. destruct (Z.ltb_spec p t); [|lia].
        destruct (c_avg c).
        -- destruct (loop_is_some (c_step c) true p t Hstrict r t0 v0 None Hincb Hle ltac:(lia)) as [xv Hx].
           pose proof (loop_val (c_step c) true p t ltac:(lia) r t0 v0 None Hincb) as Hv.
           rewrite Hx in *. simpl val in Hv.
           destruct (Z.ltb_spec 0 (t - p)); [|lia].
           simpl fst. simpl snd. split; [|exact HInvEv].
           unfold res_equiv. apply qdiv_compat. rewrite HI2, Hv. ring.
        -- destruct (loop_is_some (c_step c) (c_per_time c) p t Hstrict r t0 v0 None Hincb Hle ltac:(lia)) as [xv Hx].
           pose proof (loop_val (c_step c) (c_per_time c) p t ltac:(lia) r t0 v0 None Hincb) as Hv.
           rewrite Hx in *. simpl val in Hv.
           simpl fst. simpl snd. split; [|exact HInvEv].
           unfold res_equiv. rewrite HI2, Hv. ring.
      * (* the initial pull: t = p = first publication time, nothing was evicted *)
        subst p. subst t.
        assert (pre = []) as ->.
        { destruct pre as [|a pre']; [reflexivity|]. exfalso.
          assert (Hlt : fst a < t0).
          { apply (increasing_app_lt (a :: pre') (t0, v0) r a); [rewrite <- HH; exact Hinc|left; reflexivity]. }
          simpl in HH. injection HH as Ha _. subst a. simpl in Hlt. lia. }
        simpl in HH. injection HH as -> -> ->.
        assert (Hinit : match r with [] => true | _ :: _ => t0 <=? t0 end = true).
        { destruct r; [reflexivity|apply Z.leb_refl]. }
        unfold interpolate_i. rewrite Hinit.
        unfold spec_pull_i. rewrite Hr. rewrite Z.ltb_irrefl.
        destruct (c_avg c); simpl fst; simpl snd; (split; [apply res_equiv_refl|exact HInvEv]).
    + (* outside the published range *)
      assert (Hout : t < h0 \/ last_time h0 hr < t).
      { pose proof Hr as Hr'. simpl in Hr'. apply andb_false_iff in Hr'. rewrite !Z.leb_gt in Hr'. tauto. }
      rewrite get_data_i_cons.
      replace ((last_time t0 r <? t) || (t <? t0)) with true.
      2:{ symmetry. apply orb_true_iff. rewrite !Z.ltb_lt. lia. }
      split; [simpl snd; unfold spec_pull_i; rewrite Hr; exact I|simpl fst; exact HI].
Qed.

(* ------------------------------------------------------------------ *)
(** ** scripts *)

Fixpoint final_i (ev : bool) (c : cfg) (s : istate) (ops : list op) : istate :=
  match ops with
  | [] => s
  | Push t v :: r => final_i ev c (source_updated_i s t v) r
  | Pull t :: r => final_i ev c (fst (get_data_i ev c s t)) r
  end.

(** the lower integration bound after a script *)
Fixpoint bound_after (H : buf) (p0 : option Z) (ops : list op) : option Z :=
  match ops with
  | [] => p0
  | Push t v :: r => bound_after (H ++ [(t, v)]) (next_prev p0 t) r
  | Pull t :: r => bound_after H (if in_range H t then Some t else p0) r
  end.

Lemma run_spec_gen_i ev c : forall ops H p0 s,
  InvI H p0 s -> valid_i H p0 ops ->
  Forall2 res_equiv (run_i ev c s ops) (spec_run_i c H p0 ops).
Proof.
  induction ops as [|[t v|t] r IH]; intros H p0 s HI Hv; [constructor| |].
  - destruct Hv as [Hp Hv]. simpl. apply IH; [apply InvI_push; assumption|exact Hv].
  - simpl in Hv. simpl.
    destruct (pull_step_i ev c H p0 s t HI) as [Hres HI'].
    { intros Hr. rewrite Hr in Hv. tauto. }
    destruct (get_data_i ev c s t) as [s' x]. simpl in *. constructor; [exact Hres|].
    apply IH; [exact HI'|]. destruct (in_range H t); tauto.
Qed.

Lemma final_inv_i ev c : forall ops H p0 s,
  InvI H p0 s -> valid_i H p0 ops ->
  InvI (pubs H ops) (bound_after H p0 ops) (final_i ev c s ops).
Proof.
  induction ops as [|[t v|t] r IH]; intros H p0 s HI Hv; [exact HI| |].
  - destruct Hv as [Hp Hv]. simpl. apply IH; [apply InvI_push; assumption|exact Hv].
  - simpl in Hv. simpl.
    destruct (pull_step_i ev c H p0 s t HI) as [_ HI'].
    { intros Hr. rewrite Hr in Hv. tauto. }
    apply IH; [exact HI'|]. destruct (in_range H t); tauto.
Qed.

Lemma valid_app_i : forall o1 H p0 o2,
  valid_i H p0 (o1 ++ o2) <-> valid_i H p0 o1 /\ valid_i (pubs H o1) (bound_after H p0 o1) o2.
Proof.
  induction o1 as [|[t v|t] r IH]; intros H p0 o2; simpl; [tauto| |].
  - rewrite IH. tauto.
  - destruct (in_range H t); rewrite IH; tauto.
Qed.

(** every pull of the (evicting or not) adapter returns what the definition says *)
Theorem adapter_is_integral ev c ops :
  valid_i [] None ops -> Forall2 res_equiv (run_i ev c init_i ops) (spec_run_i c [] None ops).
Proof. intros Hv. exact (run_spec_gen_i ev c ops [] None init_i InvI_init Hv). Qed.

Lemma Forall2_equiv_trans l1 l2 l3 :
  Forall2 res_equiv l1 l2 -> Forall2 res_equiv l3 l2 -> Forall2 res_equiv l1 l3.
Proof.
  intros H12. revert l3. induction H12 as [|x y l1 l2 Hxy _ IH]; intros l3 H32.
  - inversion H32. constructor.
  - inversion H32 as [|z y' l3' l2' Hzy H32' E1 E2]. subst. constructor.
    + exact (res_equiv_trans _ _ _ Hxy (res_equiv_sym _ _ Hzy)).
    + apply IH. exact H32'.
Qed.

Theorem eviction_invisible_i c ops :
  valid_i [] None ops -> Forall2 res_equiv (run_i true c init_i ops) (run_i false c init_i ops).
Proof.
  intros Hv. exact (Forall2_equiv_trans _ _ _ (adapter_is_integral true c ops Hv)
                                        (adapter_is_integral false c ops Hv)).
Qed.

(** one more pull after any valid script *)
Lemma after_script_i ev c ops t :
  valid_i [] None (ops ++ [Pull t]) ->
  res_equiv (snd (get_data_i ev c (final_i ev c init_i ops) t))
            (spec_pull_i c (pubs [] ops) (bound_after [] None ops) t) /\
  InvI (pubs [] ops) (if in_range (pubs [] ops) t then Some t else bound_after [] None ops)
       (fst (get_data_i ev c (final_i ev c init_i ops) t)).
Proof.
  intros Hv. apply valid_app_i in Hv. destruct Hv as [Hv1 Hv2].
  pose proof (final_inv_i ev c ops [] None init_i InvI_init Hv1) as HI.
  apply (pull_step_i ev c _ _ _ t HI). intros Hr. simpl in Hv2. rewrite Hr in Hv2. tauto.
Qed.

(* ------------------------------------------------------------------ *)
(** ** conservation at the adapter level *)

Lemma res_equiv_ok x y : res_equiv x (IOk y) -> exists a, x = IOk a /\ (a == y)%Q.
Proof. destruct x; simpl; try contradiction. intros E. eauto. Qed.

Lemma spec_pull_strict c H p t :
  in_range H t = true -> p < t ->
  spec_pull_i c H (Some p) t =
  if c_avg c then IOk (integral (c_step c) true H p t / secs (t - p))
  else IOk (integral (c_step c) (c_per_time c) H p t).
Proof.
  intros Hr Hlt. destruct H as [|[tf vf] hr]; [discriminate|].
  unfold spec_pull_i. rewrite Hr. destruct (Z.ltb_spec p t); [reflexivity|lia].
Qed.

Lemma pull_ok_strict H p t : in_range H t = true -> p < t -> pull_ok_i H (Some p) t.
Proof. destruct H as [|[tf vf] hr]; [discriminate|]. simpl. auto. Qed.

(** After any valid script whose lower bound is [p]: pulling at [t1] and then at [t2] delivers
    in total what a single pull at [t2] delivers. *)
Theorem conservation_split ev c ops p t1 t2 :
  c_avg c = false ->
  valid_i [] None ops -> bound_after [] None ops = Some p ->
  in_range (pubs [] ops) t1 = true -> in_range (pubs [] ops) t2 = true ->
  p < t1 -> t1 < t2 ->
  let s := final_i ev c init_i ops in
  exists a b d,
    snd (get_data_i ev c s t1) = IOk a /\
    snd (get_data_i ev c (fst (get_data_i ev c s t1)) t2) = IOk b /\
    snd (get_data_i ev c s t2) = IOk d /\
    (a + b == d)%Q.
Proof.
  intros Hsum Hv Hb Hr1 Hr2 H1 H2 s.
  pose proof (final_inv_i ev c ops [] None init_i InvI_init Hv) as HI. rewrite Hb in HI. fold s in HI.
  destruct (pull_step_i ev c _ _ s t1 HI (fun _ => pull_ok_strict _ _ _ Hr1 H1)) as [E1 HI1].
  assert (H12 : p < t2) by lia.
  destruct (pull_step_i ev c _ _ s t2 HI (fun _ => pull_ok_strict _ _ _ Hr2 H12)) as [E2 _].
  rewrite Hr1 in HI1.
  destruct (pull_step_i ev c _ _ _ t2 HI1 (fun _ => pull_ok_strict _ _ _ Hr2 H2)) as [E3 _].
  rewrite spec_pull_strict in E1, E2, E3 by (assumption || lia). rewrite Hsum in E1, E2, E3.
  destruct (res_equiv_ok _ _ E1) as [a [Ea Ha]].
  destruct (res_equiv_ok _ _ E3) as [b [Eb Hb']].
  destruct (res_equiv_ok _ _ E2) as [d [Ed Hd]].
  exists a, b, d. repeat split; try assumption.
  rewrite Ha, Hb', Hd. apply integral_additive.
Qed.

(* ------------------------------------------------------------------ *)
(** ** the closed-form areas are areas under the interpolant *)

Lemma secs_eq d : (secs d == inject_Z d * (1 # 1000000))%Q.
Proof. unfold secs, Qeq, Qmult, inject_Z. simpl. lia. Qed.

Lemma secs_pos d : 0 < d -> (0 < secs d)%Q.
Proof. intros H. unfold secs, Qlt. simpl. lia. Qed.

Lemma secs_add a b : (secs a + secs b == secs (a + b))%Q.
Proof. rewrite !secs_eq, inject_Z_plus. ring. Qed.

Lemma inject_sub a b : (inject_Z (a - b) == inject_Z a - inject_Z b)%Q.
Proof. unfold Z.sub. rewrite inject_Z_plus, inject_Z_opp. ring. Qed.

Lemma inject_nz r : 0 < r -> ~ (inject_Z r == 0)%Q.
Proof. intros H E. pose proof (inject_pos r H). lra. Qed.

Lemma rel_ge0 a r : 0 < r -> 0 <= a -> (0 <= inject_Z a / inject_Z r)%Q.
Proof.
  intros Hr Ha. apply Qle_shift_div_l; [apply inject_pos; exact Hr|].
  rewrite Qmult_0_l. change 0%Q with (inject_Z 0). rewrite <- Zle_Qle. exact Ha.
Qed.

Lemma rel_le1 a r : 0 < r -> a <= r -> (inject_Z a / inject_Z r <= 1)%Q.
Proof.
  intros Hr Ha. apply Qle_shift_div_r; [apply inject_pos; exact Hr|].
  rewrite Qmult_1_l. rewrite <- Zle_Qle. exact Ha.
Qed.

Lemma rel_mono a b r : 0 < r -> a <= b -> (inject_Z a / inject_Z r <= inject_Z b / inject_Z r)%Q.
Proof.
  intros Hr Hab. unfold Qdiv. apply Qmult_le_compat_r.
  - rewrite <- Zle_Qle. exact Hab.
  - apply Qinv_le_0_compat. apply Qlt_le_weak. apply inject_pos. exact Hr.
Qed.

Lemma dcl_mid t0 t1 x : t0 < t1 -> t0 <= x <= t1 ->
  (dcl t0 t1 x == inject_Z (x - t0) / inject_Z (t1 - t0))%Q.
Proof.
  intros Hlt Hx. unfold dcl.
  pose proof (rel_ge0 (x - t0) (t1 - t0) ltac:(lia) ltac:(lia)) as H0.
  pose proof (rel_le1 (x - t0) (t1 - t0) ltac:(lia) ltac:(lia)) as H1.
  set (q := (inject_Z (x - t0) / inject_Z (t1 - t0))%Q) in *.
  destruct (qmax_spec q 0) as [[Ha ->]|[Ha ->]].
  - destruct (qmin_spec 0 1) as [[Hb ->]|[Hb ->]]; lra.
  - destruct (qmin_spec q 1) as [[Hb ->]|[Hb ->]]; lra.
Qed.

Lemma dcl_mono t0 t1 a b : t0 < t1 -> a <= b -> (dcl t0 t1 a <= dcl t0 t1 b)%Q.
Proof.
  intros Hlt Hab. unfold dcl.
  pose proof (rel_mono (a - t0) (b - t0) (t1 - t0) ltac:(lia) ltac:(lia)) as Hm.
  set (qa := (inject_Z (a - t0) / inject_Z (t1 - t0))%Q) in *.
  set (qb := (inject_Z (b - t0) / inject_Z (t1 - t0))%Q) in *.
  destruct (qmax_spec qa 0) as [[Ha ->]|[Ha ->]], (qmax_spec qb 0) as [[Hb ->]|[Hb ->]].
  - lra.
  - destruct (qmin_spec 0 1) as [[H1 ->]|[H1 ->]], (qmin_spec qb 1) as [[H2 ->]|[H2 ->]]; lra.
  - lra.
  - destruct (qmin_spec qa 1) as [[H1 ->]|[H1 ->]], (qmin_spec qb 1) as [[H2 ->]|[H2 ->]]; lra.
Qed.

(** relative positions times the interval length are durations *)
Lemma pos_secs t0 t1 x : t0 < t1 ->
  (inject_Z (x - t0) / inject_Z (t1 - t0) * secs (t1 - t0) == secs (x - t0))%Q.
Proof. intros Hlt. rewrite !secs_eq. field. apply inject_nz. lia. Qed.

Lemma pos_diff t0 t1 x y : t0 < t1 ->
  ((inject_Z (y - t0) / inject_Z (t1 - t0) - inject_Z (x - t0) / inject_Z (t1 - t0)) * secs (t1 - t0)
   == secs (y - x))%Q.
Proof.
  intros Hlt. rewrite !secs_eq.
  assert (E : (inject_Z (y - x) == inject_Z (y - t0) - inject_Z (x - t0))%Q).
  { rewrite !inject_sub. ring. }
  rewrite E. field. apply inject_nz. lia.
Qed.

Theorem area_linear t0 v0 t1 v1 x y :
  t0 < t1 -> t0 <= x -> x <= y -> y <= t1 ->
  let f := fun z => (v0 + (inject_Z (z - t0) / inject_Z (t1 - t0)) * (v1 - v0))%Q in
  (seg_area None (t0, v0) (t1, v1) x y * secs (t1 - t0) == secs (y - x) * ((f x + f y) * (1 # 2)))%Q.
Proof.
  intros Hlt H0 H1 H2 f. unfold f, seg_area, antider, A_lin. simpl fst. simpl snd.
  rewrite (dcl_mid t0 t1 x Hlt ltac:(lia)), (dcl_mid t0 t1 y Hlt ltac:(lia)).
  rewrite <- (pos_diff t0 t1 x y Hlt). ring.
Qed.

Theorem area_step s t0 v0 t1 v1 x y :
  t0 < t1 -> t0 <= x -> x <= y -> y <= t1 ->
  let pos := fun z => (inject_Z (z - t0) / inject_Z (t1 - t0))%Q in
  ((pos y <= s)%Q -> (seg_area (Some s) (t0, v0) (t1, v1) x y * secs (t1 - t0) == secs (y - x) * v0)%Q) /\
  ((s <= pos x)%Q -> (seg_area (Some s) (t0, v0) (t1, v1) x y * secs (t1 - t0) == secs (y - x) * v1)%Q).
Proof.
  intros Hlt H0 H1 H2 pos.
  pose proof (rel_mono (x - t0) (y - t0) (t1 - t0) ltac:(lia) ltac:(lia)) as Hm. fold (pos x) (pos y) in Hm.
  unfold seg_area, antider, A_step. simpl fst. simpl snd.
  rewrite (dcl_mid t0 t1 x Hlt ltac:(lia)), (dcl_mid t0 t1 y Hlt ltac:(lia)).
  fold (pos x) (pos y). rewrite <- (pos_diff t0 t1 x y Hlt). fold (pos x) (pos y).
  split; intros Hs.
  - destruct (qmin_spec (pos y) s) as [[A1 ->]|[A1 ->]]; [|lra].
    destruct (qmin_spec (pos x) s) as [[A2 ->]|[A2 ->]]; [|lra].
    destruct (qmax_spec s (pos y)) as [[A3 A3']|[A3 ->]];
      destruct (qmax_spec s (pos x)) as [[A4 A4']|[A4 ->]]; rewrite ?A3', ?A4'.
    + assert (E1 : (pos y == s)%Q) by lra. assert (E2 : (pos x == s)%Q) by lra. rewrite E1, E2. ring.
    + assert (E1 : (pos y == s)%Q) by lra. rewrite E1. ring.
    + assert (E2 : (pos x == s)%Q) by lra. rewrite E2. ring.
    + ring.
  - destruct (qmax_spec s (pos y)) as [[A1 ->]|[A1 ->]]; [|lra].
    destruct (qmax_spec s (pos x)) as [[A2 ->]|[A2 ->]]; [|lra].
    destruct (qmin_spec (pos y) s) as [[A3 A3']|[A3 ->]];
      destruct (qmin_spec (pos x) s) as [[A4 A4']|[A4 ->]]; rewrite ?A3', ?A4'.
    + assert (E1 : (pos y == s)%Q) by lra. assert (E2 : (pos x == s)%Q) by lra. rewrite E1, E2. ring.
    + assert (E1 : (pos y == s)%Q) by lra. rewrite E1. ring.
    + assert (E2 : (pos x == s)%Q) by lra. rewrite E2. ring.
    + ring.
Qed.

(* ------------------------------------------------------------------ *)
(** ** every average lies within the range of the contributing values *)

(** [m <= v <= M] for both end values of every publication interval that meets (p0, p1) *)
Fixpoint bounded_contrib (m M : Q) (H : buf) (p0 p1 : Z) : Prop :=
  match H with
  | e0 :: r =>
      match r with
      | e1 :: _ =>
          (fst e0 < p1 -> p0 < fst e1 -> (m <= snd e0 <= M)%Q /\ (m <= snd e1 <= M)%Q)
          /\ bounded_contrib m M r p0 p1
      | [] => True
      end
  | [] => True
  end.

(** total length (in seconds) of the part of the series before [x] *)
Fixpoint glen (H : buf) (x : Z) : Q :=
  match H with
  | e0 :: r =>
      match r with
      | e1 :: _ => (dcl (fst e0) (fst e1) x * secs (fst e1 - fst e0) + glen r x)%Q
      | [] => 0%Q
      end
  | [] => 0%Q
  end.

Lemma glen_cons2 e0 e1 r x :
  glen (e0 :: e1 :: r) x = (dcl (fst e0) (fst e1) x * secs (fst e1 - fst e0) + glen (e1 :: r) x)%Q.
Proof. reflexivity. Qed.

Lemma glen_before x : forall r t0 v0, inc_from t0 r -> x <= t0 -> (glen ((t0, v0) :: r) x == 0)%Q.
Proof.
  induction r as [|[t1 v1] r IH]; intros t0 v0 Hinc Hx; [reflexivity|].
  destruct Hinc as [Hlt Hr]. rewrite glen_cons2. simpl fst.
  rewrite dcl_low by lia. rewrite IH by (assumption || lia). ring.
Qed.

Lemma glen_total x : forall r t0 v0,
  inc_from t0 r -> t0 <= x -> x <= last_time t0 r -> (glen ((t0, v0) :: r) x == secs (x - t0))%Q.
Proof.
  induction r as [|[t1 v1] r IH]; intros t0 v0 Hinc H0 H1.
  - rewrite last_time_nil in H1. replace (x - t0) with 0 by lia. reflexivity.
  - destruct Hinc as [Hlt Hr]. rewrite last_time_cons in H1. simpl in H1.
    rewrite glen_cons2. simpl fst.
    destruct (Z_le_gt_dec x t1) as [Hx|Hx].
    + rewrite dcl_mid by lia. rewrite pos_secs by lia.
      rewrite glen_before by (assumption || lia). ring.
    + rewrite dcl_high by lia. rewrite IH by (assumption || lia).
      rewrite Qmult_1_l, secs_add. replace (t1 - t0 + (x - t1)) with (x - t0) by lia. reflexivity.
Qed.

Lemma seg_bounds st m M e0 e1 a b :
  fst e0 < fst e1 -> a <= b -> (m <= snd e0 <= M)%Q -> (m <= snd e1 <= M)%Q ->
  (m * (dcl (fst e0) (fst e1) b - dcl (fst e0) (fst e1) a) <= seg_area st e0 e1 a b
   <= M * (dcl (fst e0) (fst e1) b - dcl (fst e0) (fst e1) a))%Q.
Proof.
  intros Hlt Hab H0 H1. unfold seg_area.
  pose proof (dcl_mono (fst e0) (fst e1) a b Hlt Hab) as Hm.
  pose proof (dcl_bounds (fst e0) (fst e1) a) as Ba.
  pose proof (dcl_bounds (fst e0) (fst e1) b) as Bb.
  set (d0 := dcl (fst e0) (fst e1) a) in *. set (d1 := dcl (fst e0) (fst e1) b) in *.
  set (v0 := snd e0) in *. set (v1 := snd e1) in *.
  destruct st as [s|]; unfold antider, A_step, A_lin.
  - (* step: non-negative weights w0 + w1 = d1 - d0 *)
    pose proof (qmin_qmax_sum d0 s) as S0. pose proof (qmin_qmax_sum d1 s) as S1.
    assert (W0 : (0 <= qmin d1 s - qmin d0 s)%Q).
    { destruct (qmin_spec d1 s) as [[A1 ->]|[A1 ->]], (qmin_spec d0 s) as [[A2 ->]|[A2 ->]]; lra. }
    assert (W1 : (0 <= qmax s d1 - qmax s d0)%Q).
    { destruct (qmax_spec s d1) as [[A1 ->]|[A1 ->]], (qmax_spec s d0) as [[A2 ->]|[A2 ->]]; lra. }
    set (w0 := (qmin d1 s - qmin d0 s)%Q) in *. set (w1 := (qmax s d1 - qmax s d0)%Q) in *.
    assert (E : (v0 * qmin d1 s + v1 * (qmax s d1 - s) - (v0 * qmin d0 s + v1 * (qmax s d0 - s))
                 == v0 * w0 + v1 * w1)%Q) by (unfold w0, w1; ring).
    assert (Ew : (d1 - d0 == w0 + w1)%Q) by (unfold w0, w1; lra).
    rewrite E, Ew.
    assert (P1 : (0 <= w0 * (v0 - m))%Q) by (apply Qmult_le_0_compat; lra).
    assert (P2 : (0 <= w1 * (v1 - m))%Q) by (apply Qmult_le_0_compat; lra).
    assert (P3 : (0 <= w0 * (M - v0))%Q) by (apply Qmult_le_0_compat; lra).
    assert (P4 : (0 <= w1 * (M - v1))%Q) by (apply Qmult_le_0_compat; lra).
    split; lra.
  - (* linear: the mean of the line at the two ends *)
    set (w := ((d0 + d1) * (1 # 2))%Q).
    assert (E : (v0 * d1 + (v1 - v0) * d1 * d1 * (1 # 2) - (v0 * d0 + (v1 - v0) * d0 * d0 * (1 # 2))
                 == (d1 - d0) * ((1 - w) * v0 + w * v1))%Q) by (unfold w; ring).
    rewrite E.
    assert (Bw : (0 <= w <= 1)%Q) by (unfold w; lra).
    assert (P1 : (0 <= (1 - w) * (v0 - m))%Q) by (apply Qmult_le_0_compat; lra).
    assert (P2 : (0 <= w * (v1 - m))%Q) by (apply Qmult_le_0_compat; lra).
    assert (P3 : (0 <= (1 - w) * (M - v0))%Q) by (apply Qmult_le_0_compat; lra).
    assert (P4 : (0 <= w * (M - v1))%Q) by (apply Qmult_le_0_compat; lra).
    assert (Q1 : (0 <= (d1 - d0) * ((1 - w) * (v0 - m) + w * (v1 - m)))%Q) by (apply Qmult_le_0_compat; lra).
    assert (Q2 : (0 <= (d1 - d0) * ((1 - w) * (M - v0) + w * (M - v1)))%Q) by (apply Qmult_le_0_compat; lra).
    split; lra.
Qed.

Lemma integral_bounds st m M a b : a <= b -> forall r t0 v0,
  inc_from t0 r -> bounded_contrib m M ((t0, v0) :: r) a b ->
  (m * (glen ((t0, v0) :: r) b - glen ((t0, v0) :: r) a) <= integral st true ((t0, v0) :: r) a b
   <= M * (glen ((t0, v0) :: r) b - glen ((t0, v0) :: r) a))%Q.
Proof.
  intros Hab. induction r as [|[t1 v1] r IH]; intros t0 v0 Hinc Hb.
  - simpl. lra.
  - destruct Hinc as [Hlt Hr]. destruct Hb as [Hc Hb].
    specialize (IH t1 v1 Hr Hb). rewrite integral_cons2, !glen_cons2. simpl fst in *. simpl snd in *.
    pose proof (secs_pos (t1 - t0) ltac:(lia)) as Hs.
    set (S := secs (t1 - t0)) in *.
    set (I' := integral st true ((t1, v1) :: r) a b) in *.
    set (G := (glen ((t1, v1) :: r) b - glen ((t1, v1) :: r) a)%Q) in *.
    set (d0 := dcl t0 t1 a) in *. set (d1 := dcl t0 t1 b) in *.
    assert (Hseg : (m * (d1 - d0) * S <= seg_area st (t0, v0) (t1, v1) a b * S <= M * (d1 - d0) * S)%Q).
    { destruct (Z_lt_dec t0 b) as [H1|H1]; [destruct (Z_lt_dec a t1) as [H2|H2]|].
      - destruct (Hc H1 H2) as [B0 B1].
        pose proof (seg_bounds st m M (t0, v0) (t1, v1) a b Hlt Hab B0 B1) as [L U].
        simpl fst in L, U. fold d0 d1 in L, U.
        split; apply Qmult_le_compat_r; lra.
      - rewrite seg_area_after by (simpl; lia).
        assert (E0 : (d0 == 1)%Q) by (apply dcl_high; lia).
        assert (E1 : (d1 == 1)%Q) by (apply dcl_high; lia).
        rewrite E0, E1. lra.
      - rewrite seg_area_before by (simpl; lia).
        assert (E0 : (d0 == 0)%Q) by (apply dcl_low; lia).
        assert (E1 : (d1 == 0)%Q) by (apply dcl_low; lia).
        rewrite E0, E1. lra. }
    set (A := (seg_area st (t0, v0) (t1, v1) a b * S)%Q) in *.
    assert (X1 : (m * (d1 * S + glen ((t1, v1) :: r) b - (d0 * S + glen ((t1, v1) :: r) a))
                  == m * (d1 - d0) * S + m * G)%Q) by (unfold G; ring).
    assert (X2 : (M * (d1 * S + glen ((t1, v1) :: r) b - (d0 * S + glen ((t1, v1) :: r) a))
                  == M * (d1 - d0) * S + M * G)%Q) by (unfold G; ring).
    rewrite X1, X2. lra.
Qed.

Theorem avg_in_range st H p0 p1 (m M : Q) :
  increasing H -> in_range H p0 = true -> in_range H p1 = true -> p0 < p1 ->
  bounded_contrib m M H p0 p1 ->
  (m <= integral st true H p0 p1 / secs (p1 - p0) <= M)%Q.
Proof.
  intros Hinc Hr0 Hr1 Hlt Hb. destruct H as [|[h0 x] hr]; [discriminate|].
  apply in_range_cons in Hr0. apply in_range_cons in Hr1. simpl in Hinc.
  pose proof (integral_bounds st m M p0 p1 ltac:(lia) hr h0 x Hinc Hb) as [L U].
  rewrite !glen_total in L, U by (assumption || lia).
  assert (E : (secs (p1 - h0) - secs (p0 - h0) == secs (p1 - p0))%Q).
  { rewrite !secs_eq, !inject_sub. ring. }
  rewrite E in L, U.
  pose proof (secs_pos (p1 - p0) ltac:(lia)) as Hs.
  split.
  - apply Qle_shift_div_l; [exact Hs|exact L].
  - apply Qle_shift_div_r; [exact Hs|exact U].
Qed.
