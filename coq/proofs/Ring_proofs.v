(** C04, the user-facing form for a plain RING: if the fixed delays on the links of a ring of time components sum
    to at least the sum of the components' largest steps - wherever the delays sit, however they are split over the
    links and over several adapters of one link, however the components are listed - then a feasible potential exists
    ([Sched_proofs.sufficient]), hence no run reports a circular coupling.  The potential is constructed explicitly
    (prefix sums of  S - D  along the ring); no graph theory is assumed. *)
From Coq Require Import List ZArith Bool Arith Lia.
From FV Require Import Base Sched.
From FVP Require Import Sched_proofs.
Import ListNotations.
Open Scope Z_scope.

Definition zsum (f : nat -> Z) (l : list nat) : Z := fold_right (fun c a => f c + a) 0 l.

Lemma zsum_ext f g l : (forall c, In c l -> f c = g c) -> zsum f l = zsum g l.
Proof.
  induction l as [|x l IH]; intros H; [reflexivity|]. cbn [zsum fold_right].
  rewrite (H x (or_introl eq_refl)). fold (zsum f l) (zsum g l). rewrite IH; [reflexivity|].
  intros c Hc. apply H. now right.
Qed.

Lemma zsum_add f g l : zsum (fun c => f c + g c) l = zsum f l + zsum g l.
Proof.
  induction l as [|x l IH]; [reflexivity|]. cbn [zsum fold_right].
  fold (zsum (fun c => f c + g c) l) (zsum f l) (zsum g l). rewrite IH. lia.
Qed.

Lemma zsum_opp f l : zsum (fun c => - f c) l = - zsum f l.
Proof.
  induction l as [|x l IH]; [reflexivity|]. cbn [zsum fold_right].
  fold (zsum (fun c => - f c) l) (zsum f l). rewrite IH. lia.
Qed.

Lemma zsum_zero f l : (forall c, In c l -> f c = 0) -> zsum f l = 0.
Proof.
  induction l as [|x l IH]; intros H; [reflexivity|]. cbn [zsum fold_right]. fold (zsum f l).
  rewrite (H x (or_introl eq_refl)), IH; [reflexivity|]. intros c Hc. apply H. now right.
Qed.

Lemma zsum_single f l c :
  NoDup l -> In c l -> (forall c', In c' l -> c' <> c -> f c' = 0) -> zsum f l = f c.
Proof.
  induction l as [|x l IH]; intros ND Hin Hz; [destruct Hin|].
  cbn [zsum fold_right]. fold (zsum f l). inversion ND as [|? ? Hnx ND']; subst.
  destruct Hin as [->|Hin].
  - rewrite zsum_zero; [lia|]. intros c' Hc'. apply Hz; [now right|]. intros ->. contradiction.
  - rewrite (Hz x (or_introl eq_refl)); [|intros ->; contradiction].
    rewrite IH; [lia|assumption|assumption|]. intros c' Hc' Hne. apply Hz; [now right|assumption].
Qed.

(** A ring: [pos] numbers the components along the data flow (injective on the composition), starting at a
    time-stepped component; the other members may be time-stepped or pull-based (largest step 0).  Every component has
    exactly one input, fed by the component at the previous position (the first by the last), over a link with
    pass-through adapters, buffers and non-negative fixed delays summing to [D c]. *)
Record ring (cs : composition) (pos : nat -> nat) (D : nat -> Z) : Prop := {
  r_pos_lt : forall c, (c < length cs)%nat -> (pos c < length cs)%nat;
  r_pos_inj : forall c c', (c < length cs)%nat -> (c' < length cs)%nat -> pos c = pos c' -> c = c';
  r_link : forall c, (c < length cs)%nat ->
     (pos c = 0%nat -> is_time cs c = true) /\
     exists inp, c_inputs (getc cs c) = [inp] /\ (fst (i_src inp) < length cs)%nat /\
       pos (fst (i_src inp)) = (if Nat.eqb (pos c) 0 then length cs - 1 else pos c - 1)%nat /\
       edge_delay (i_chain inp) = Some (D c)
}.

Section Ring.
  Variable cs : composition.
  Variable pos : nat -> nat.
  Variable D : nat -> Z.
  Hypothesis R : ring cs pos D.

  Let n := length cs.
  Let l := seq 0 n.
  Let w (c : nat) : Z := S_of cs c - D c.

  Definition ring_phi (c : nat) : Z :=
    - zsum (fun c' => if (Nat.leb 1 (pos c') && Nat.leb (pos c') (pos c))%bool then w c' else 0) l.

  Hypothesis Enough : zsum (S_of cs) l <= zsum D l.

  Lemma in_l c : In c l <-> (c < n)%nat.
  Proof. unfold l. rewrite in_seq. lia. Qed.

  Lemma total_w : zsum w l <= 0.
  Proof.
    unfold w. rewrite (zsum_ext _ (fun c => S_of cs c + - D c)); [|intros; lia].
    rewrite zsum_add, zsum_opp. lia.
  Qed.

  Lemma at_pos c : (c < n)%nat ->
    zsum (fun c' => if Nat.eqb (pos c') (pos c) then w c' else 0) l = w c.
  Proof.
    intros Hc. rewrite (zsum_single _ l c).
    - now rewrite Nat.eqb_refl.
    - apply seq_NoDup.
    - now apply in_l.
    - intros c' Hc' Hne. destruct (Nat.eqb_spec (pos c') (pos c)) as [E|E]; [|reflexivity].
      exfalso. apply Hne. apply (r_pos_inj cs pos D R); [now apply in_l|exact Hc|exact E].
  Qed.

  Lemma ring_sufficient : sufficient cs ring_phi pos.
  Proof.
    split.
    - intros c k inp Hk. right.
      destruct (Nat.lt_ge_cases c n) as [Hc|Hc].
      2:{ unfold getc in Hk. rewrite nth_overflow in Hk by (fold n; lia). simpl in Hk. destruct k; discriminate. }
      destruct (r_link cs pos D R c Hc) as [_ [inp0 [Hin [Hp [Hpos Hd]]]]].
      rewrite Hin in Hk. destruct k as [|k]; [|destruct k; discriminate]. injection Hk as <-.
      exists (D c). split; [exact Hd|].
      set (p := fst (i_src inp0)) in *. fold n in Hp, Hpos.
      unfold ring_phi.
      revert Hpos. destruct (Nat.eqb_spec (pos c) 0) as [E0|E0]; intros Hpos.
      + (* the first of the ring reads the last *)
        idtac.
        rewrite (zsum_zero (fun c' => if (Nat.leb 1 (pos c') && Nat.leb (pos c') (pos c))%bool then w c' else 0)).
        2:{ intros c' _. rewrite E0. destruct (Nat.leb_spec 1 (pos c')); destruct (Nat.leb_spec (pos c') 0); simpl; try reflexivity; lia. }
        pose proof total_w as TW.
        rewrite (zsum_ext w (fun c' => (if Nat.eqb (pos c') (pos c) then w c' else 0)
                                       + (if (Nat.leb 1 (pos c') && Nat.leb (pos c') (pos p))%bool then w c' else 0))) in TW.
        2:{ intros c' Hc'. apply in_l in Hc'. pose proof (r_pos_lt cs pos D R c' Hc') as Hlt. fold n in Hlt.
            rewrite E0, Hpos.
            destruct (Nat.eqb_spec (pos c') 0); destruct (Nat.leb_spec 1 (pos c'));
              destruct (Nat.leb_spec (pos c') (n - 1)); simpl; try lia. }
        rewrite zsum_add, (at_pos c Hc) in TW. assert (Hw : w c = S_of cs c - D c) by reflexivity. lia.
      + (* every other one reads its predecessor *)
        assert (Hi : (1 <= pos c)%nat) by lia.
        idtac.
        rewrite (zsum_ext (fun c' => if (Nat.leb 1 (pos c') && Nat.leb (pos c') (pos c))%bool then w c' else 0)
                          (fun c' => (if (Nat.leb 1 (pos c') && Nat.leb (pos c') (pos p))%bool then w c' else 0)
                                     + (if Nat.eqb (pos c') (pos c) then w c' else 0))).
        2:{ intros c' _. rewrite Hpos.
            destruct (Nat.eqb_spec (pos c') (pos c)); destruct (Nat.leb_spec 1 (pos c'));
              destruct (Nat.leb_spec (pos c') (pos c)); destruct (Nat.leb_spec (pos c') (pos c - 1)); simpl; try lia. }
        rewrite zsum_add, (at_pos c Hc). assert (Hw : w c = S_of cs c - D c) by reflexivity. lia.
    - intros c k inp Hk Ht _.
      destruct (Nat.lt_ge_cases c n) as [Hc|Hc].
      + right. destruct (r_link cs pos D R c Hc) as [Ht' [inp0 [Hin [Hp [Hpos Hd]]]]].
        rewrite Hin in Hk. destruct k as [|k]; [|destruct k; discriminate]. injection Hk as <-.
        destruct (Nat.eqb_spec (pos c) 0) as [E0|E0]; [rewrite (Ht' E0) in Ht; discriminate|].
        rewrite Hpos. lia.
      + unfold getc in Hk. rewrite nth_overflow in Hk by (fold n; lia). simpl in Hk. destruct k; discriminate.
  Qed.
End Ring.

Theorem ring_total_delay_suffices cs pos D :
  ring cs pos D ->
  zsum (S_of cs) (seq 0 (length cs)) <= zsum D (seq 0 (length cs)) ->
  exists phi rank, sufficient cs phi rank.
Proof.
  intros R E. exists (ring_phi cs pos D), pos. now apply ring_sufficient.
Qed.
