(** Lemmas about the n-d array library FV.Arr (shapes of ANY rank). *)
From Coq Require Import List Arith Bool Lia PeanoNat.
From FV Require Import Arr.
Import ListNotations.

(** * in_range *)

Lemma in_range_length : forall sh idx, in_range sh idx -> length idx = length sh.
Proof.
  induction sh as [|n sh IH]; destruct idx as [|i idx]; simpl; try tauto.
  intros [_ H]. f_equal. auto.
Qed.

Lemma in_rangeb_spec : forall sh idx, in_rangeb sh idx = true <-> in_range sh idx.
Proof.
  induction sh as [|n sh IH]; destruct idx as [|i idx]; simpl; try (split; [discriminate|tauto]).
  - tauto.
  - rewrite andb_true_iff, Nat.ltb_lt, IH. tauto.
Qed.

Lemma in_range_size_pos : forall sh idx, in_range sh idx -> 0 < size sh.
Proof.
  induction sh as [|n sh IH]; destruct idx as [|i idx]; simpl; try tauto; try lia.
  intros [Hi H]. specialize (IH _ H). nia.
Qed.

Lemma in_range_app : forall sh1 idx1 sh2 idx2,
  in_range sh1 idx1 -> in_range sh2 idx2 -> in_range (sh1 ++ sh2) (idx1 ++ idx2).
Proof.
  induction sh1 as [|n sh1 IH]; destruct idx1 as [|i idx1]; simpl; try tauto.
  intros sh2 idx2 [Hi H1] H2. split; auto.
Qed.

Lemma in_range_app_inv : forall sh1 idx1 sh2 idx2,
  length idx1 = length sh1 ->
  in_range (sh1 ++ sh2) (idx1 ++ idx2) -> in_range sh1 idx1 /\ in_range sh2 idx2.
Proof.
  induction sh1 as [|n sh1 IH]; destruct idx1 as [|i idx1]; simpl; try discriminate.
  - tauto.
  - intros sh2 idx2 Hl [Hi H]. injection Hl as Hl. destruct (IH _ _ _ Hl H). tauto.
Qed.

Lemma in_range_rev : forall sh idx, in_range sh idx -> in_range (rev sh) (rev idx).
Proof.
  induction sh as [|n sh IH]; destruct idx as [|i idx]; simpl; try tauto.
  intros [Hi H]. apply in_range_app; auto. simpl. auto.
Qed.

Lemma in_range_rev_iff : forall sh idx, in_range (rev sh) idx <-> in_range sh (rev idx).
Proof.
  intros sh idx. split; intro H.
  - apply in_range_rev in H. rewrite rev_involutive in H. exact H.
  - apply in_range_rev in H. rewrite rev_involutive in H. exact H.
Qed.

(** * size *)

Lemma size_app : forall a b, size (a ++ b) = size a * size b.
Proof. induction a as [|n a IH]; intros b; simpl; [lia|]. rewrite IH. lia. Qed.

Lemma size_rev : forall sh, size (rev sh) = size sh.
Proof. induction sh as [|n sh IH]; simpl; auto. rewrite size_app, IH. simpl. lia. Qed.

(** * C order: flatC / unflatC are mutually inverse bijections  in_range sh <-> [0, size sh) *)

Lemma flatC_lt : forall sh idx, in_range sh idx -> flatC sh idx < size sh.
Proof.
  induction sh as [|n sh IH]; destruct idx as [|i idx]; simpl; try tauto; try lia.
  intros [Hi H]. specialize (IH _ H). nia.
Qed.

Lemma unflatC_in_range : forall sh k, k < size sh -> in_range sh (unflatC sh k).
Proof.
  induction sh as [|n sh IH]; simpl; intros k Hk; auto.
  assert (Hs : size sh <> 0) by (intro E; rewrite E in Hk; lia).
  split.
  - apply Nat.div_lt_upper_bound; auto. lia.
  - apply IH. apply Nat.mod_upper_bound; auto.
Qed.

Lemma flatC_unflatC : forall sh k, k < size sh -> flatC sh (unflatC sh k) = k.
Proof.
  induction sh as [|n sh IH]; simpl; intros k Hk; [lia|].
  assert (Hs : size sh <> 0) by (intro E; rewrite E in Hk; lia).
  rewrite IH by (apply Nat.mod_upper_bound; auto).
  pose proof (Nat.div_mod k (size sh) Hs). lia.
Qed.

Lemma unflatC_flatC : forall sh idx, in_range sh idx -> unflatC sh (flatC sh idx) = idx.
Proof.
  induction sh as [|n sh IH]; destruct idx as [|i idx]; simpl; try tauto.
  intros [Hi H]. pose proof (flatC_lt _ _ H) as Hlt.
  assert (Hs : size sh <> 0) by lia.
  f_equal.
  - rewrite Nat.div_add_l by auto. rewrite Nat.div_small by auto. lia.
  - rewrite Nat.add_comm, Nat.mod_add by auto. rewrite Nat.mod_small by auto. auto.
Qed.

(** * F order *)

Lemma flatF_lt : forall sh idx, in_range sh idx -> flatF sh idx < size sh.
Proof.
  induction sh as [|n sh IH]; destruct idx as [|i idx]; simpl; try tauto; try lia.
  intros [Hi H]. specialize (IH _ H). nia.
Qed.

Lemma unflatF_in_range : forall sh k, k < size sh -> in_range sh (unflatF sh k).
Proof.
  induction sh as [|n sh IH]; simpl; intros k Hk; auto.
  assert (Hn : n <> 0) by (intro E; rewrite E in Hk; simpl in Hk; lia).
  split.
  - apply Nat.mod_upper_bound; auto.
  - apply IH. apply Nat.div_lt_upper_bound; auto.
Qed.

Lemma flatF_unflatF : forall sh k, k < size sh -> flatF sh (unflatF sh k) = k.
Proof.
  induction sh as [|n sh IH]; simpl; intros k Hk; [lia|].
  assert (Hn : n <> 0) by (intro E; rewrite E in Hk; simpl in Hk; lia).
  rewrite IH by (apply Nat.div_lt_upper_bound; auto).
  pose proof (Nat.div_mod k n Hn). lia.
Qed.

Lemma unflatF_flatF : forall sh idx, in_range sh idx -> unflatF sh (flatF sh idx) = idx.
Proof.
  induction sh as [|n sh IH]; destruct idx as [|i idx]; simpl; try tauto.
  intros [Hi H]. assert (Hn : n <> 0) by lia.
  f_equal.
  - rewrite (Nat.mul_comm n), Nat.mod_add by auto. apply Nat.mod_small; auto.
  - rewrite (Nat.mul_comm n), Nat.div_add by auto. rewrite Nat.div_small by auto. simpl. auto.
Qed.

(** Both orders at once. *)
Lemma flat_lt : forall o sh idx, in_range sh idx -> flat o sh idx < size sh.
Proof. destruct o; [apply flatC_lt | apply flatF_lt]. Qed.
Lemma unflat_in_range : forall o sh k, k < size sh -> in_range sh (unflat o sh k).
Proof. destruct o; [apply unflatC_in_range | apply unflatF_in_range]. Qed.
Lemma flat_unflat : forall o sh k, k < size sh -> flat o sh (unflat o sh k) = k.
Proof. destruct o; [apply flatC_unflatC | apply flatF_unflatF]. Qed.
Lemma unflat_flat : forall o sh idx, in_range sh idx -> unflat o sh (flat o sh idx) = idx.
Proof. destruct o; [apply unflatC_flatC | apply unflatF_flatF]. Qed.

Lemma flat_inj : forall o sh i j,
  in_range sh i -> in_range sh j -> flat o sh i = flat o sh j -> i = j.
Proof.
  intros o sh i j Hi Hj E.
  rewrite <- (unflat_flat o sh i Hi), <- (unflat_flat o sh j Hj), E. reflexivity.
Qed.

(** * Fortran order is C order on the reversed shape *)

Lemma flatC_snoc : forall sh idx n i, length idx = length sh ->
  flatC (sh ++ [n]) (idx ++ [i]) = flatC sh idx * n + i.
Proof.
  induction sh as [|m sh IH]; destruct idx as [|j idx]; simpl; intros n i Hl; try discriminate.
  - lia.
  - injection Hl as Hl. rewrite IH by auto. rewrite size_app. simpl. ring.
Qed.

Lemma flatF_flatC_rev : forall sh idx, length idx = length sh ->
  flatF sh idx = flatC (rev sh) (rev idx).
Proof.
  induction sh as [|n sh IH]; destruct idx as [|i idx]; simpl; intros Hl; try discriminate; auto.
  injection Hl as Hl. rewrite flatC_snoc by (rewrite !rev_length; auto).
  rewrite <- IH by auto. lia.
Qed.

Lemma flatC_flatF_rev : forall sh idx, length idx = length sh ->
  flatC sh idx = flatF (rev sh) (rev idx).
Proof.
  intros sh idx Hl. rewrite flatF_flatC_rev by (rewrite !rev_length; auto).
  rewrite !rev_involutive. reflexivity.
Qed.

Lemma unflatF_unflatC_rev : forall sh k, k < size sh ->
  unflatF sh k = rev (unflatC (rev sh) k).
Proof.
  intros sh k Hk.
  pose proof (unflatF_in_range sh k Hk) as Hr.
  pose proof (flatF_unflatF sh k Hk) as Hf.
  rewrite flatF_flatC_rev in Hf by (apply in_range_length; auto).
  pose proof (unflatC_flatC (rev sh) (rev (unflatF sh k)) (in_range_rev _ _ Hr)) as E.
  rewrite Hf in E. rewrite E, rev_involutive. reflexivity.
Qed.

Lemma unflatC_unflatF_rev : forall sh k, k < size sh ->
  unflatC sh k = rev (unflatF (rev sh) k).
Proof.
  intros sh k Hk. rewrite unflatF_unflatC_rev by (rewrite size_rev; auto).
  rewrite !rev_involutive. reflexivity.
Qed.

(** * indices, ravel, of_list, reshape *)

Lemma indices_length : forall o sh, length (indices o sh) = size sh.
Proof. intros. unfold indices. rewrite map_length, seq_length. reflexivity. Qed.

Lemma indices_nth : forall o sh k d, k < size sh -> nth k (indices o sh) d = unflat o sh k.
Proof.
  intros o sh k d Hk. unfold indices.
  rewrite (nth_indep _ d (unflat o sh 0)) by (rewrite map_length, seq_length; auto).
  rewrite map_nth, seq_nth by auto. reflexivity.
Qed.

Lemma indices_in_range : forall o sh idx, In idx (indices o sh) -> in_range sh idx.
Proof.
  intros o sh idx H. unfold indices in H. apply in_map_iff in H. destruct H as [k [E Hk]].
  subst. apply unflat_in_range. apply in_seq in Hk. lia.
Qed.

Lemma indices_complete : forall o sh idx, in_range sh idx -> In idx (indices o sh).
Proof.
  intros o sh idx H. unfold indices. apply in_map_iff. exists (flat o sh idx). split.
  - apply unflat_flat; auto.
  - apply in_seq. pose proof (flat_lt o _ _ H). lia.
Qed.

Lemma indices_F_rev : forall sh, indices OF sh = map (@rev nat) (indices OC (rev sh)).
Proof.
  intros sh. unfold indices. rewrite map_map, size_rev. apply map_ext_in.
  intros k Hk. apply in_seq in Hk. simpl. apply unflatF_unflatC_rev. lia.
Qed.

Lemma ravel_length : forall A o (a : arr A), length (ravel o a) = size (ashape a).
Proof. intros. unfold ravel. rewrite map_length. apply indices_length. Qed.

Lemma ravel_nth : forall A o (a : arr A) k d, k < size (ashape a) ->
  nth k (ravel o a) d = aget a (unflat o (ashape a) k).
Proof.
  intros A o a k d Hk. unfold ravel.
  rewrite (nth_indep _ d (aget a (unflat o (ashape a) 0))) by (rewrite map_length, indices_length; auto).
  rewrite map_nth. f_equal. apply indices_nth; auto.
Qed.

Lemma map_nth_seq : forall A (l : list A) d, map (fun k => nth k l d) (seq 0 (length l)) = l.
Proof.
  induction l as [|x l IH]; intros d; simpl; auto.
  f_equal. rewrite <- seq_shift, map_map. apply IH.
Qed.

(** reshape of a flat vector followed by ravel (same order) is the identity *)
Lemma ravel_of_list : forall A o sh (l : list A) d, length l = size sh ->
  ravel o (of_list o sh l d) = l.
Proof.
  intros A o sh l d Hl. unfold ravel, of_list, indices. simpl. rewrite map_map.
  transitivity (map (fun k => nth k l d) (seq 0 (length l))); [|apply map_nth_seq].
  rewrite Hl. apply map_ext_in.
  intros k Hk. apply in_seq in Hk. rewrite flat_unflat by lia. reflexivity.
Qed.

(** ravel followed by reshape to the own shape (same order) is the identity *)
Lemma of_list_ravel : forall A o (a : arr A) d idx, in_range (ashape a) idx ->
  aget (of_list o (ashape a) (ravel o a) d) idx = aget a idx.
Proof.
  intros A o a d idx H. unfold of_list. simpl.
  rewrite ravel_nth by (apply flat_lt; auto). rewrite unflat_flat by auto. reflexivity.
Qed.

Lemma of_list_ravel_eq : forall A o (a : arr A) d,
  arr_eq (of_list o (ashape a) (ravel o a) d) a.
Proof. intros. split; [reflexivity|]. intros idx H. apply of_list_ravel. exact H. Qed.

(** element [idx] of a reshaped flat vector is the element at the flat position *)
Lemma of_list_get : forall A o sh (l : list A) d idx,
  aget (of_list o sh l d) idx = nth (flat o sh idx) l d.
Proof. reflexivity. Qed.

(** reshape to another shape of the same size and back *)
Lemma reshape_reshape : forall A o sh (a : arr A) d,
  size sh = size (ashape a) ->
  arr_eq (reshape o (ashape a) (reshape o sh a d) d) a.
Proof.
  intros A o sh a d Hs. unfold reshape.
  rewrite ravel_of_list by (rewrite ravel_length; auto).
  apply of_list_ravel_eq.
Qed.

Lemma ravel_reshape : forall A o sh (a : arr A) d,
  size sh = size (ashape a) -> ravel o (reshape o sh a d) = ravel o a.
Proof. intros. unfold reshape. apply ravel_of_list. rewrite ravel_length. auto. Qed.

(** numpy: ravel in Fortran order = C-order ravel of the transposed array *)
Lemma ravel_F_transpose : forall A (a : arr A), ravel OF a = ravel OC (transpose a).
Proof.
  intros A a. unfold ravel, transpose. simpl. rewrite indices_F_rev, map_map. reflexivity.
Qed.

Lemma ravel_ext : forall A o (a b : arr A), arr_eq a b -> ravel o a = ravel o b.
Proof.
  intros A o a b [Hs He]. unfold ravel. rewrite <- Hs. apply map_ext_in.
  intros idx Hi. apply He. eapply indices_in_range; eauto.
Qed.

Lemma ravel_amap : forall A B (f : A -> B) o (a : arr A), ravel o (amap f a) = map f (ravel o a).
Proof. intros. unfold ravel, amap. simpl. rewrite map_map. reflexivity. Qed.

(** * arr_eq is an equivalence *)

Lemma arr_eq_refl : forall A (a : arr A), arr_eq a a.
Proof. intros. split; auto. Qed.
Lemma arr_eq_sym : forall A (a b : arr A), arr_eq a b -> arr_eq b a.
Proof. intros A a b [Hs He]. split; auto. intros idx H. symmetry. apply He. rewrite Hs. auto. Qed.
Lemma arr_eq_trans : forall A (a b c : arr A), arr_eq a b -> arr_eq b c -> arr_eq a c.
Proof.
  intros A a b c [Hs1 He1] [Hs2 He2]. split; [congruence|].
  intros idx H. rewrite He1 by auto. apply He2. rewrite <- Hs1. auto.
Qed.

(** * transpose *)

Lemma transpose_transpose : forall A (a : arr A), arr_eq (transpose (transpose a)) a.
Proof.
  intros A a. split; simpl.
  - apply rev_involutive.
  - intros idx _. rewrite rev_involutive. reflexivity.
Qed.

Lemma transpose_get : forall A (a : arr A) idx, aget (transpose a) idx = aget a (rev idx).
Proof. reflexivity. Qed.

Lemma transpose_in_range : forall A (a : arr A) idx,
  in_range (ashape (transpose a)) idx <-> in_range (ashape a) (rev idx).
Proof. intros. simpl. apply in_range_rev_iff. Qed.

(** * flip *)

Lemma flip_idx_in_range : forall ax sh idx, in_range sh idx -> in_range sh (flip_idx ax sh idx).
Proof.
  induction ax as [|ax IH]; destruct sh as [|n sh]; destruct idx as [|i idx]; simpl; try tauto.
  - intros [Hi H]. split; auto. lia.
  - intros [Hi H]. split; auto.
Qed.

Lemma flip_idx_involutive : forall ax sh idx, in_range sh idx ->
  flip_idx ax sh (flip_idx ax sh idx) = idx.
Proof.
  induction ax as [|ax IH]; destruct sh as [|n sh]; destruct idx as [|i idx]; simpl; try tauto.
  - intros [Hi H]. f_equal. lia.
  - intros [Hi H]. f_equal. auto.
Qed.

Lemma flip_idx_comm : forall ax1 ax2 sh idx,
  flip_idx ax1 sh (flip_idx ax2 sh idx) = flip_idx ax2 sh (flip_idx ax1 sh idx).
Proof.
  induction ax1 as [|ax1 IH]; destruct ax2 as [|ax2]; destruct sh as [|n sh];
    destruct idx as [|i idx]; simpl; auto.
  f_equal. apply IH.
Qed.

Lemma flip_flip : forall A ax (a : arr A), arr_eq (flip ax (flip ax a)) a.
Proof.
  intros A ax a. split; [reflexivity|]. simpl. intros idx H.
  rewrite flip_idx_involutive by auto. reflexivity.
Qed.

Lemma flip_comm : forall A ax1 ax2 (a : arr A),
  arr_eq (flip ax1 (flip ax2 a)) (flip ax2 (flip ax1 a)).
Proof.
  intros A ax1 ax2 a. split; [reflexivity|]. simpl. intros idx _.
  rewrite flip_idx_comm. reflexivity.
Qed.

Lemma flip_get : forall A ax (a : arr A) idx,
  aget (flip ax a) idx = aget a (flip_idx ax (ashape a) idx).
Proof. reflexivity. Qed.

(** * moveaxis (rotations) *)

Lemma rot_right_aux_snoc : forall X (l : list X) x z, rot_right_aux x (l ++ [z]) = (z, x :: l).
Proof.
  induction l as [|y l IH]; intros x z; simpl; auto.
  rewrite IH. reflexivity.
Qed.

Lemma rot_right_aux_spec : forall X (l : list X) x,
  snd (rot_right_aux x l) ++ [fst (rot_right_aux x l)] = x :: l.
Proof.
  induction l as [|y l IH]; intros x; simpl; auto.
  specialize (IH y). destruct (rot_right_aux y l) as [z r']. simpl in *. rewrite IH. reflexivity.
Qed.

Lemma rot_right_left : forall X (l : list X), rot_right (rot_left l) = l.
Proof.
  intros X [|x l]; simpl; auto.
  destruct l as [|y l]; simpl; auto.
  rewrite rot_right_aux_snoc. reflexivity.
Qed.

Lemma rot_left_right : forall X (l : list X), rot_left (rot_right l) = l.
Proof.
  intros X [|x l]; simpl; auto.
  pose proof (rot_right_aux_spec X l x) as H.
  destruct (rot_right_aux x l) as [z r']. simpl in *. exact H.
Qed.

Lemma moveaxis_last_first_first_last : forall A (a : arr A),
  arr_eq (moveaxis_last_first (moveaxis_first_last a)) a.
Proof.
  intros A a. split; simpl.
  - apply rot_right_left.
  - intros idx _. rewrite rot_right_left. reflexivity.
Qed.

Lemma moveaxis_first_last_last_first : forall A (a : arr A),
  arr_eq (moveaxis_first_last (moveaxis_last_first a)) a.
Proof.
  intros A a. split; simpl.
  - apply rot_left_right.
  - intros idx _. rewrite rot_left_right. reflexivity.
Qed.

Lemma in_range_rot_left : forall sh idx, in_range sh idx -> in_range (rot_left sh) (rot_left idx).
Proof.
  intros [|n sh] [|i idx]; simpl; try tauto.
  intros [Hi H]. apply in_range_app; simpl; auto.
Qed.

(** * compress / scatter *)

Lemma count_true_le : forall l, count_true l <= length l.
Proof. induction l as [|b l IH]; simpl; [lia|]. destruct b; lia. Qed.

Lemma count_true_app : forall a b, count_true (a ++ b) = count_true a + count_true b.
Proof. induction a as [|x a IH]; intros b; simpl; auto. rewrite IH. lia. Qed.

Lemma compress_length : forall A keep (l : list A), length keep = length l ->
  length (compress keep l) = count_true keep.
Proof.
  induction keep as [|k keep IH]; destruct l as [|x l]; simpl; intros Hl; try discriminate; auto.
  injection Hl as Hl. destruct k; simpl; rewrite IH; auto.
Qed.

Lemma scatter_length : forall A keep (vals : list A) d, length (scatter keep vals d) = length keep.
Proof.
  induction keep as [|k keep IH]; intros vals d; simpl; auto.
  destruct k; [destruct vals|]; simpl; rewrite IH; auto.
Qed.

(** reading back what was scattered returns the scattered vector *)
Lemma compress_scatter : forall A keep (vals : list A) d, length vals = count_true keep ->
  compress keep (scatter keep vals d) = vals.
Proof.
  induction keep as [|k keep IH]; intros vals d Hl; simpl in *.
  - destruct vals; auto. discriminate.
  - destruct k.
    + destruct vals as [|v vals]; [discriminate|]. simpl. f_equal. apply IH. simpl in Hl. lia.
    + simpl. apply IH. auto.
Qed.

(** scattering the compressed vector restores every kept position ... *)
Lemma scatter_compress_kept : forall A keep (l : list A) d d' i, length keep = length l ->
  nth i keep false = true ->
  nth i (scatter keep (compress keep l) d) d' = nth i l d'.
Proof.
  induction keep as [|k keep IH]; destruct l as [|x l]; simpl; intros d d' i Hl Hk; try discriminate.
  - destruct i; discriminate.
  - injection Hl as Hl. destruct i as [|i].
    + subst k. reflexivity.
    + destruct k; simpl; apply IH; auto.
Qed.

(** ... and leaves the default at every other position, whatever the values are *)
Lemma scatter_dropped : forall A keep (vals : list A) d i,
  nth i keep false = false -> nth i (scatter keep vals d) d = d.
Proof.
  induction keep as [|k keep IH]; intros vals d i Hk; simpl in *.
  - destruct i; auto.
  - destruct i as [|i].
    + subst k. reflexivity.
    + destruct k; [destruct vals|]; simpl; apply IH; auto.
Qed.

Lemma compress_map : forall A B (f : A -> B) keep l,
  compress keep (map f l) = map f (compress keep l).
Proof.
  induction keep as [|k keep IH]; destruct l as [|x l]; simpl; auto.
  destruct k; simpl; rewrite IH; auto.
Qed.

(** compress as a filter: the kept entries, in their original order *)
Lemma compress_map_filter : forall X A (f : X -> bool) (g : X -> A) xs,
  compress (map f xs) (map g xs) = map g (filter f xs).
Proof.
  induction xs as [|x xs IH]; simpl; auto.
  destruct (f x); simpl; rewrite IH; auto.
Qed.

Lemma count_true_map_filter : forall X (f : X -> bool) xs,
  count_true (map f xs) = length (filter f xs).
Proof.
  induction xs as [|x xs IH]; simpl; auto. destruct (f x); simpl; lia.
Qed.

Lemma compress_all_true : forall A keep (l : list A), length keep = length l ->
  forallb (fun b => b) keep = true -> compress keep l = l.
Proof.
  induction keep as [|k keep IH]; destruct l as [|x l]; simpl; intros Hl Hk; try discriminate; auto.
  injection Hl as Hl. apply andb_true_iff in Hk. destruct Hk as [Hk1 Hk2]. subst k.
  f_equal. auto.
Qed.

(** * boolean array comparison *)

Lemma nat_list_eqb_eq : forall a b, nat_list_eqb a b = true <-> a = b.
Proof.
  induction a as [|x a IH]; destruct b as [|y b]; simpl; try (split; [discriminate|discriminate]); try tauto.
  rewrite andb_true_iff, Nat.eqb_eq, IH. split; [intros [? ?]; subst; auto | intros E; injection E; auto].
Qed.

Lemma bool_list_eqb_eq : forall a b, bool_list_eqb a b = true <-> a = b.
Proof.
  induction a as [|x a IH]; destruct b as [|y b]; simpl; try (split; [discriminate|discriminate]); try tauto.
  rewrite andb_true_iff, eqb_true_iff, IH. split; [intros [? ?]; subst; auto | intros E; injection E; auto].
Qed.

(** [barr_eqb] decides pointwise equality of boolean arrays *)
Lemma barr_eqb_spec : forall a b, barr_eqb a b = true <-> arr_eq a b.
Proof.
  intros a b. unfold barr_eqb. rewrite andb_true_iff, nat_list_eqb_eq, bool_list_eqb_eq. split.
  - intros [Hs Hr]. split; auto. intros idx Hi.
    pose proof (flat_lt OC _ _ Hi) as Hlt.
    pose proof (ravel_nth _ OC a (flat OC (ashape a) idx) false Hlt) as Ha.
    assert (Hlt' : flat OC (ashape a) idx < size (ashape b)) by (rewrite <- Hs; auto).
    pose proof (ravel_nth _ OC b (flat OC (ashape a) idx) false Hlt') as Hb.
    rewrite unflat_flat in Ha by auto. rewrite <- Hs, unflat_flat in Hb by auto.
    rewrite <- Ha, <- Hb, Hr. reflexivity.
  - intros H. split; [apply H|]. apply ravel_ext. exact H.
Qed.
