(** Proofs about the scheduler model FV.Sched: what [_update_recursive] guarantees when it
    updates a component (C01), which component it updates (C02). *)
From Coq Require Import List ZArith Bool Arith Lia.
From FV Require Import Base Sched.
From FVP Require Import Adapters_proofs.
Import ListNotations.
Open Scope Z_scope.

(** the time the driver checks on link [k] of component [c] for target time [t] *)
Definition link_req (cs : composition) (st : state) (c k : nat) (inp : input) (t : Z) : option Z :=
  link_dep cs st c k inp t.

Lemma link_req_some cs st c k inp t lt :
  link_req cs st c k inp t = Some lt ->
  is_static_src cs (i_src inp) = false /\
  sched_walk (i_chain inp) (s_link st c k) (init_of cs (i_src inp)) (ptime_of cs st (i_src inp)) false t = Some lt.
Proof. unfold link_req, link_dep. destruct (is_static_src cs (i_src inp)); [discriminate|auto]. Qed.

Lemma link_req_nonstatic cs st c k inp t :
  is_static_src cs (i_src inp) = false ->
  link_req cs st c k inp t =
  sched_walk (i_chain inp) (s_link st c k) (init_of cs (i_src inp)) (ptime_of cs st (i_src inp)) false t.
Proof. unfold link_req, link_dep. now intros ->. Qed.

(** [servedn n cs st c t]: every dependency of [c] for target time [t] can be served in state [st]:
    a time-stepped source has published at or beyond the time the link needs; a pull-based
    source can in turn be served for that time ([n] bounds the nesting of pull-based components). *)
Fixpoint servedn (n : nat) (cs : composition) (st : state) (c : nat) (t : Z) : Prop :=
  match n with
  | O => False
  | S n' =>
      forall k inp lt,
        nth_error (c_inputs (getc cs c)) k = Some inp ->
        link_req cs st c k inp t = Some lt ->
        (is_time cs (fst (i_src inp)) = true -> lt <= s_time st (fst (i_src inp))) /\
        (is_time cs (fst (i_src inp)) = false -> servedn n' cs st (fst (i_src inp)) lt)
  end.

Lemma servedn_S n : forall cs st c t, servedn n cs st c t -> servedn (S n) cs st c t.
Proof.
  induction n as [|n IH]; intros cs st c t H; [destruct H|].
  intros k inp lt Hk Hr. destruct (H k inp lt Hk Hr) as [H1 H2]. split; [exact H1|].
  intros Hp. apply IH. exact (H2 Hp).
Qed.

Lemma link_req_mono cs st c k inp t1 t2 l2 :
  t1 <= t2 -> link_req cs st c k inp t2 = Some l2 ->
  exists l1, link_req cs st c k inp t1 = Some l1 /\ l1 <= l2.
Proof.
  intros Ht H. apply link_req_some in H. destruct H as [Hs H]. rewrite (link_req_nonstatic _ _ _ _ _ _ Hs).
  eapply sched_walk_mono; eauto.
Qed.

Lemma link_req_mono_rev cs st c k inp t1 t2 l1 :
  t1 <= t2 -> link_req cs st c k inp t1 = Some l1 ->
  exists l2, link_req cs st c k inp t2 = Some l2 /\ l1 <= l2.
Proof.
  intros Ht H. apply link_req_some in H. destruct H as [Hs H]. rewrite (link_req_nonstatic _ _ _ _ _ _ Hs).
  destruct (sched_walk (i_chain inp) (s_link st c k) (init_of cs (i_src inp)) (ptime_of cs st (i_src inp)) false t2)
    as [l2|] eqn:E.
  - destruct (sched_walk_mono _ _ _ _ _ _ _ _ Ht E) as [l1' [H1 H2]].
    rewrite H in H1. inversion H1; subst. eauto.
  - exfalso. revert H E. generalize (s_link st c k). generalize false.
    generalize t1 t2. clear.
    induction (i_chain inp) as [|a ch IH]; intros t1 t2 b ss H E; simpl in *; [discriminate|].
    destruct ss as [|s ss]; [discriminate|].
    destruct b; [eapply IH; eauto|].
    destruct a; try discriminate; eapply IH; eauto.
Qed.

(** served is downward closed in the target time *)
Lemma servedn_down n : forall cs st c t1 t2,
  t1 <= t2 -> servedn n cs st c t2 -> servedn n cs st c t1.
Proof.
  induction n as [|n IH]; intros cs st c t1 t2 Ht H; [exact H|].
  intros k inp l1 Hk Hr.
  destruct (link_req_mono_rev _ _ _ _ _ _ _ _ Ht Hr) as [l2 [Hr2 Hl]].
  destruct (H k inp l2 Hk Hr2) as [H1 H2]. split.
  - intros Hti. specialize (H1 Hti). lia.
  - intros Hp. eapply IH; [exact Hl|]. exact (H2 Hp).
Qed.

(** ** _find_dependencies *)

Lemma out_eqb_eq a b : out_eqb a b = true <-> a = b.
Proof.
  unfold out_eqb. destruct a as [a1 a2], b as [b1 b2]; simpl.
  rewrite andb_true_iff, !Nat.eqb_eq. split; [intros [-> ->]; reflexivity|intros E; inversion E; auto].
Qed.

Lemma ins_dep_new o l d : exists l', In (o, l') (ins_dep o l d) /\ l <= l'.
Proof.
  induction d as [|[o' l0] d IH]; simpl.
  - exists l. split; [left; reflexivity|lia].
  - destruct (out_eqb o o') eqn:E.
    + apply out_eqb_eq in E. subst o'. exists (Z.max l l0). split; [left; reflexivity|lia].
    + destruct IH as [l' [H1 H2]]. exists l'. split; [right; exact H1|exact H2].
Qed.

Lemma ins_dep_keep o l d o2 l2 :
  In (o2, l2) d -> exists l', In (o2, l') (ins_dep o l d) /\ l2 <= l'.
Proof.
  induction d as [|[o' l0] d IH]; simpl; intros H; [destruct H|].
  destruct H as [H|H].
  - inversion H; subst o' l0. destruct (out_eqb o o2) eqn:E.
    + exists (Z.max l l2). split; [left; reflexivity|lia].
    + exists l2. split; [left; reflexivity|lia].
  - destruct (IH H) as [l' [H1 H2]]. destruct (out_eqb o o').
    + exists l2. split; [right; exact H|lia].
    + exists l'. split; [right; exact H1|exact H2].
Qed.

Lemma ins_dep_sound o l d o2 l2 :
  In (o2, l2) (ins_dep o l d) -> (o2 = o /\ l2 = l) \/ In (o2, l2) d.
Proof.
  induction d as [|[o' l0] d IH]; simpl; intros H.
  - destruct H as [H|[]]. inversion H; auto.
  - destruct (out_eqb o o') eqn:E.
    + apply out_eqb_eq in E. subst o'. destruct H as [H|H].
      * inversion H; subst. destruct (Z.max_spec l l0) as [[_ M]|[_ M]]; rewrite M; auto.
      * auto.
    + destruct H as [H|H]; [auto|]. destruct (IH H) as [H'|H']; auto.
Qed.

Definition dep_cond (cs : composition) (st : state) (src : nat * nat) (lt : Z) : Prop :=
  is_time cs (fst src) = false \/ s_time st (fst src) < lt.

Lemma find_deps_from_complete cs st c tgt : forall ins k0 deps0,
  (forall o l, In (o, l) deps0 -> exists l', In (o, l') (find_deps_from cs st c k0 ins tgt deps0) /\ l <= l') /\
  (forall j inp lt, nth_error ins j = Some inp ->
     link_req cs st c (k0 + j) inp tgt = Some lt -> dep_cond cs st (i_src inp) lt ->
     exists l', In (i_src inp, l') (find_deps_from cs st c k0 ins tgt deps0) /\ lt <= l').
Proof.
  induction ins as [|x ins IH]; intros k0 deps0; simpl.
  - split; [intros o l H; exists l; split; [exact H|lia]|intros j inp lt Hj; destruct j; discriminate].
  - set (deps1 := match link_dep cs st c k0 x tgt with
                  | Some lt => if is_time cs (fst (i_src x))
                               then if s_time st (fst (i_src x)) <? lt then ins_dep (i_src x) lt deps0 else deps0
                               else ins_dep (i_src x) lt deps0
                  | None => deps0 end).
    destruct (IH (S k0) deps1) as [IH1 IH2].
    assert (Keep : forall o l, In (o, l) deps0 -> exists l', In (o, l') deps1 /\ l <= l').
    { intros o l H. unfold deps1.
      destruct (link_dep _ _ _ _ _ _) as [lt|]; [|exists l; split; [exact H|lia]].
      destruct (is_time cs (fst (i_src x))).
      - destruct (_ <? _); [apply ins_dep_keep; exact H|exists l; split; [exact H|lia]].
      - apply ins_dep_keep; exact H. }
    split.
    + intros o l H. destruct (Keep o l H) as [l1 [H1 L1]].
      destruct (IH1 o l1 H1) as [l2 [H2 L2]]. exists l2. split; [exact H2|lia].
    + intros j inp lt Hj Hr Hc. destruct j as [|j].
      * simpl in Hj. inversion Hj; subst x. rewrite Nat.add_0_r in Hr. unfold link_req in Hr.
        fold (link_req cs st c k0 inp tgt) in Hr. unfold link_req in Hr.
        assert (exists l1, In (i_src inp, l1) deps1 /\ lt <= l1) as [l1 [H1 L1]].
        { unfold deps1. rewrite Hr. destruct Hc as [Hc|Hc].
          - rewrite Hc. apply ins_dep_new.
          - destruct (is_time cs (fst (i_src inp))); [|apply ins_dep_new].
            assert (E : (s_time st (fst (i_src inp)) <? lt) = true) by (apply Z.ltb_lt; exact Hc).
            rewrite E. apply ins_dep_new. }
        destruct (IH1 _ _ H1) as [l2 [H2 L2]]. exists l2. split; [exact H2|lia].
      * simpl in Hj. replace (k0 + S j)%nat with (S k0 + j)%nat in Hr by lia.
        exact (IH2 j inp lt Hj Hr Hc).
Qed.

Lemma find_deps_complete cs st c tgt k inp lt :
  nth_error (c_inputs (getc cs c)) k = Some inp ->
  link_req cs st c k inp tgt = Some lt -> dep_cond cs st (i_src inp) lt ->
  exists l', In (i_src inp, l') (find_deps cs st c tgt) /\ lt <= l'.
Proof.
  intros Hk Hr Hc. unfold find_deps.
  destruct (find_deps_from_complete cs st c tgt (c_inputs (getc cs c)) O []) as [_ H].
  exact (H k inp lt Hk Hr Hc).
Qed.

Lemma find_deps_from_sound cs st c tgt : forall ins k0 deps0 o l,
  In (o, l) (find_deps_from cs st c k0 ins tgt deps0) ->
  In (o, l) deps0 \/
  exists j inp, nth_error ins j = Some inp /\ i_src inp = o /\
                link_req cs st c (k0 + j) inp tgt = Some l /\
                (is_time cs (fst o) = true -> s_time st (fst o) < l).
Proof.
  induction ins as [|x ins IH]; intros k0 deps0 o l H; simpl in H; [left; exact H|].
  destruct (IH _ _ _ _ H) as [H1|[j [inp [Hj [Ho [Hr Hl]]]]]].
  - destruct (link_dep cs st c k0 x tgt) as [lt|] eqn:E; [|left; exact H1].
    assert (New : In (o, l) (ins_dep (i_src x) lt deps0) ->
                  (is_time cs (fst (i_src x)) = true -> s_time st (fst (i_src x)) < lt) ->
                  In (o, l) deps0 \/
                  exists j inp, nth_error (x :: ins) j = Some inp /\ i_src inp = o /\
                                link_req cs st c (k0 + j) inp tgt = Some l /\
                                (is_time cs (fst o) = true -> s_time st (fst o) < l)).
    { intros Hin Hlag. destruct (ins_dep_sound _ _ _ _ _ Hin) as [[-> ->]|Hd]; [|left; exact Hd].
      right. exists O, x. rewrite Nat.add_0_r. repeat split; auto. }
    destruct (is_time cs (fst (i_src x))) eqn:Ti.
    + destruct (s_time st (fst (i_src x)) <? lt) eqn:Lg; [|left; exact H1].
      apply New; [exact H1|]. intros _. apply Z.ltb_lt. exact Lg.
    + apply New; [exact H1|]. intros Ht. discriminate.
  - right. exists (S j), inp. replace (k0 + S j)%nat with (S k0 + j)%nat by lia. auto.
Qed.

Lemma find_deps_sound cs st c tgt o l :
  In (o, l) (find_deps cs st c tgt) ->
  exists k inp, nth_error (c_inputs (getc cs c)) k = Some inp /\ i_src inp = o /\
                link_req cs st c k inp tgt = Some l /\
                (is_time cs (fst o) = true -> s_time st (fst o) < l).
Proof.
  intros H. destruct (find_deps_from_sound _ _ _ _ _ _ _ _ _ H) as [[]|H']. exact H'.
Qed.

(** ** the loop over the dependencies *)

Lemma dep_loop_inv cs rec fin : forall deps r,
  dep_loop cs rec fin deps = r ->
  (r = fin tt /\ forall o lt, In (o, lt) deps -> is_time cs (fst o) = false /\ rec (fst o) lt = UNone)
  \/ (exists o lt, In (o, lt) deps /\
        ((is_time cs (fst o) = true /\ r = rec (fst o) 0)
         \/ (is_time cs (fst o) = false /\ r = rec (fst o) lt /\ r <> UNone))).
Proof.
  induction deps as [|[o lt] deps IH]; intros r H; simpl in H.
  - left. split; [auto|intros o lt []].
  - destruct (is_time cs (fst o)) eqn:Ti.
    + right. exists o, lt. split; [left; reflexivity|left; auto].
    + destruct (rec (fst o) lt) eqn:R.
      * right. exists o, lt. split; [left; reflexivity|]. right. rewrite R. subst r. repeat split; auto; discriminate.
      * destruct (IH r H) as [[H1 H2]|[o' [lt' [Hin Hc]]]].
        -- left. split; [exact H1|]. intros o' lt' [E|Hin]; [inversion E; subst; auto|auto].
        -- right. exists o', lt'. split; [right; exact Hin|exact Hc].
      * right. exists o, lt. split; [left; reflexivity|]. right. rewrite R. subst r. repeat split; auto; discriminate.
      * right. exists o, lt. split; [left; reflexivity|]. right. rewrite R. subst r. repeat split; auto; discriminate.
Qed.

(** ** what _update_recursive guarantees *)

Definition target_of (cs : composition) (st : state) (c : nat) (t : Z) : Z :=
  if is_time cs c then next_time cs st c else t.

(** a chain of components each of which lacks data the previous one needs *)
Inductive lagpath (cs : composition) (st : state) : nat -> Z -> nat -> Prop :=
| lp_here c t : is_time cs c = true -> lagpath cs st c t c
| lp_time c t k inp lt u :
    nth_error (c_inputs (getc cs c)) k = Some inp ->
    link_req cs st c k inp (target_of cs st c t) = Some lt ->
    is_time cs (fst (i_src inp)) = true ->
    s_time st (fst (i_src inp)) < lt ->
    lagpath cs st (fst (i_src inp)) 0 u ->
    lagpath cs st c t u
| lp_pull c t k inp lt u :
    nth_error (c_inputs (getc cs c)) k = Some inp ->
    link_req cs st c k inp (target_of cs st c t) = Some lt ->
    is_time cs (fst (i_src inp)) = false ->
    lagpath cs st (fst (i_src inp)) lt u ->
    lagpath cs st c t u.

Lemma update_rec_props fuel : forall cs st acc c chain tgt,
  (update_rec fuel cs st acc c chain tgt = UNone ->
     is_time cs c = false /\ servedn fuel cs st c tgt) /\
  (forall u st' acc' e, update_rec fuel cs st acc c chain tgt = UUpdated u st' acc' e ->
     is_time cs u = true /\ do_update cs st u acc = (st', acc', e) /\
     servedn fuel cs st u (next_time cs st u) /\ lagpath cs st c tgt u).
Proof.
  induction fuel as [|fuel IH]; intros cs st acc c chain tgt; simpl.
  - split; [discriminate|intros; discriminate].
  - destruct (existsb (key_eqb (chain_key cs c tgt)) chain); [split; [discriminate|intros; discriminate]|].
    set (tgt' := if is_time cs c then next_time cs st c else tgt).
    set (rec := fun c' t' => update_rec fuel cs st acc c' (chain_key cs c tgt :: chain) t').
    set (fin := fun _ : unit => if is_time cs c
                  then let '(st', acc', e) := do_update cs st c acc in UUpdated c st' acc' e else UNone).
    (* the dependencies of [c] are served once the loop falls through *)
    assert (Served : (forall o lt, In (o, lt) (find_deps cs st c tgt') ->
                         is_time cs (fst o) = false /\ rec (fst o) lt = UNone) ->
                     servedn (S fuel) cs st c tgt').
    { intros Hall k inp lt Hk Hr. split.
      - intros Ti. destruct (Z_lt_le_dec (s_time st (fst (i_src inp))) lt) as [Hlag|Hok]; [|lia].
        destruct (find_deps_complete cs st c tgt' k inp lt Hk Hr (or_intror Hlag)) as [l' [Hin _]].
        destruct (Hall _ _ Hin) as [Hf _]. congruence.
      - intros Tp.
        destruct (find_deps_complete cs st c tgt' k inp lt Hk Hr (or_introl Tp)) as [l' [Hin Hl]].
        destruct (Hall _ _ Hin) as [_ Hn]. unfold rec in Hn.
        destruct (IH cs st acc (fst (i_src inp)) (chain_key cs c tgt :: chain) l') as [IHa _].
        destruct (IHa Hn) as [_ Hs]. eapply servedn_down; [exact Hl|exact Hs]. }
    split.
    + intros H. destruct (dep_loop_inv cs rec fin _ _ H) as [[Hf Hall]|[o [lt [Hin Hc]]]].
      * unfold fin in Hf. destruct (is_time cs c) eqn:Tc.
        -- destruct (do_update cs st c acc) as [[? ?] ?]. discriminate.
        -- split; [reflexivity|]. specialize (Served Hall). unfold tgt' in Served. exact Served.
      * destruct Hc as [[Ti Hr]|[Tp [Hr Hne]]]; [|congruence].
        unfold rec in Hr. symmetry in Hr.
        destruct (IH cs st acc (fst o) (chain_key cs c tgt :: chain) 0) as [IHa _].
        destruct (IHa Hr) as [Hf _]. congruence.
    + intros u st' acc' e H.
      destruct (dep_loop_inv cs rec fin _ _ H) as [[Hf Hall]|[o [lt [Hin Hc]]]].
      * unfold fin in Hf. destruct (is_time cs c) eqn:Tc; [|discriminate].
        destruct (do_update cs st c acc) as [[st1 acc1] e1] eqn:D. inversion Hf; subst u st' acc' e.
        specialize (Served Hall). unfold tgt' in Served.
        split; [exact Tc|]. split; [exact D|]. split; [exact Served|]. apply lp_here. exact Tc.
      * destruct (find_deps_sound _ _ _ _ _ _ Hin) as [k [inp [Hk [Ho [Hr Hlag]]]]].
        assert (Tg : tgt' = target_of cs st c tgt) by reflexivity.
        destruct Hc as [[Ti Hrec]|[Tp [Hrec _]]]; unfold rec in Hrec; symmetry in Hrec.
        -- destruct (IH cs st acc (fst o) (chain_key cs c tgt :: chain) 0) as [_ IHb].
           destruct (IHb _ _ _ _ Hrec) as [Tu [Du [Su Lu]]].
           split; [exact Tu|]. split; [exact Du|]. split; [apply servedn_S; exact Su|].
           subst o. eapply lp_time; eauto.
        -- destruct (IH cs st acc (fst o) (chain_key cs c tgt :: chain) lt) as [_ IHb].
           destruct (IHb _ _ _ _ Hrec) as [Tu [Du [Su Lu]]].
           split; [exact Tu|]. split; [exact Du|]. split; [apply servedn_S; exact Su|].
           subst o. eapply lp_pull; eauto.
Qed.

(** ** pulls during an update succeed (C01_pull_ok) *)

Fixpoint no_topull (ch : list adapter) : bool :=
  match ch with [] => true | AToPull _ _ :: _ => false | _ :: r => no_topull r end.

Fixpoint tail_ok (ch : list adapter) : bool :=
  match ch with
  | [] => true
  | AToPull _ _ :: _ => false
  | AFixed d :: r => (0 <=? d) && tail_ok r
  | _ :: r => tail_ok r
  end.

(** after a DelayToPush on the pulled part only pass-through / non-negative fixed delays / buffers follow *)
Fixpoint push_tail_ok (ch : list adapter) : bool :=
  match ch with
  | [] => true
  | AToPush :: r => tail_ok r
  | ABuf :: _ => true
  | _ :: r => push_tail_ok r
  end.

Fixpoint no_push_buf (ch : list adapter) : bool :=
  match ch with [] => true | AToPush :: _ | ABuf :: _ => false | _ :: r => no_push_buf r end.

Definition chain_wf (src_t cons_t : bool) (ch : list adapter) : bool :=
  (if src_t then push_tail_ok ch else no_push_buf ch) && (if cons_t then true else no_topull ch).

Definition steps_pos (c : comp) : Prop :=
  match c_kind c with KTime _ steps _ => Forall (fun s => 0 < s) steps | KPull => True end.

(** valid compositions for the pull theorem (see DESIGN C01): links from pull-based sources carry no
    DelayToPush / buffering adapter, inputs of pull-based components carry no DelayToPull, steps are positive *)
Record wf (cs : composition) : Prop := {
  wf_chain : forall c k inp, nth_error (c_inputs (getc cs c)) k = Some inp ->
               chain_wf (is_time cs (fst (i_src inp))) (is_time cs c) (i_chain inp) = true;
  wf_steps : forall c, steps_pos (getc cs c)
}.

Definition Inv (cs : composition) (st : state) : Prop :=
  (forall c o, is_time cs c = true -> init_of cs (c, o) <= s_time st c) /\
  (forall c k inp, nth_error (c_inputs (getc cs c)) k = Some inp ->
                   length (s_link st c k) = length (i_chain inp)).

Lemma min_start_none cs : min_start cs = None -> forall x, In x cs -> start_of (c_kind x) = None.
Proof.
  induction cs as [|c cs IH]; intros H x Hin; [destruct Hin|].
  simpl in H. destruct (start_of (c_kind c)) as [s0|] eqn:Es, (min_start cs) as [m0|] eqn:E; try discriminate.
  destruct Hin as [->|Hin]; [exact Es|]. apply IH; auto.
Qed.

Lemma min_start_spec cs : forall m, min_start cs = Some m ->
  forall x s, In x cs -> start_of (c_kind x) = Some s -> m <= s.
Proof.
  induction cs as [|c cs IH]; intros m Hm x s Hin Hs; [destruct Hin|].
  simpl in Hm. destruct Hin as [->|Hin].
  - rewrite Hs in Hm. destruct (min_start cs); inversion Hm; lia.
  - destruct (start_of (c_kind c)) as [s0|], (min_start cs) as [m0|] eqn:E.
    + inversion Hm. specialize (IH m0 eq_refl x s Hin Hs). lia.
    + pose proof (min_start_none cs E x Hin) as Hn. congruence.
    + inversion Hm; subst. exact (IH m eq_refl x s Hin Hs).
    + discriminate.
Qed.

Lemma t0_le_init cs src : t0_of cs <= init_of cs src.
Proof.
  unfold init_of, getc.
  destruct (nth_in_or_default (fst src) cs dummy_comp) as [Hin|Hd].
  - destruct (c_kind (nth (fst src) cs dummy_comp)) eqn:K; [|lia].
    unfold t0_of. destruct (min_start cs) as [m|] eqn:E.
    + eapply min_start_spec; eauto. rewrite K. reflexivity.
    + pose proof (min_start_none cs E _ Hin) as Hn. rewrite K in Hn. discriminate.
  - rewrite Hd. simpl. lia.
Qed.

Lemma pull_chain_length ch : forall ss init pt t,
  length (snd (pull_chain ch ss init pt t)) = length ss.
Proof.
  induction ch as [|a ch IH]; intros ss init pt t; simpl; [reflexivity|].
  destruct ss as [|s ss]; [reflexivity|].
  destruct a; simpl;
    try (match goal with |- context [pull_chain ch ss init pt ?x] =>
           specialize (IH ss init pt x); destruct (pull_chain ch ss init pt x) as [[r b] s2] end;
         simpl in *; congruence).
  reflexivity.
Qed.

Lemma pull_chain_no_topull ch : forall ss init pt t,
  no_topull ch = true -> snd (pull_chain ch ss init pt t) = ss.
Proof.
  induction ch as [|a ch IH]; intros ss init pt t H; simpl; [reflexivity|].
  destruct ss as [|s ss]; [reflexivity|].
  destruct a; simpl in *; try discriminate;
    try (match goal with |- context [pull_chain ch ss init pt ?x] =>
           specialize (IH ss init pt x H); destruct (pull_chain ch ss init pt x) as [[r b] s2] end;
         simpl in *; congruence).
  reflexivity.
Qed.

Lemma pull_time_tail_le ch : forall ss init p t,
  tail_ok ch = true -> t <= p -> init <= p -> pull_time ch ss init (Some p) t <= p.
Proof.
  unfold pull_time.
  induction ch as [|a ch IH]; intros ss init p t H Ht Hi; simpl; [exact Ht|].
  destruct ss as [|s ss]; [exact Ht|].
  destruct a; simpl in *; try discriminate.
  - specialize (IH ss init p t H Ht Hi). destruct (pull_chain ch ss init (Some p) t) as [[r b] s2]; exact IH.
  - apply andb_prop in H. destruct H as [Hd H]. apply Z.leb_le in Hd.
    assert (Hc : clamp init (t - d) <= p) by (rewrite clamp_max; lia).
    specialize (IH ss init p _ H Hc Hi).
    destruct (pull_chain ch ss init (Some p) (clamp init (t - d))) as [[r b] s2]; exact IH.
  - assert (Hc : (if p <? t then p else t) <= p) by (destruct (p <? t) eqn:E; lia).
    specialize (IH ss init p _ H Hc Hi).
    destruct (pull_chain ch ss init (Some p) (if p <? t then p else t)) as [[r b] s2]; exact IH.
  - exact Ht.
Qed.

Lemma pull_time_cut_le ch : forall ss init p t,
  cut_by_nodep ch = true -> push_tail_ok ch = true -> length ss = length ch -> init <= p ->
  pull_time ch ss init (Some p) t <= p.
Proof.
  unfold pull_time.
  induction ch as [|a ch IH]; intros ss init p t Hc Hp L Hi; simpl in *; [discriminate|].
  destruct ss as [|s ss]; [discriminate|]. simpl in L. injection L as L.
  destruct a; simpl in *; try discriminate.
  - specialize (IH ss init p t Hc Hp L Hi). destruct (pull_chain ch ss init (Some p) t) as [[r b] s2]; exact IH.
  - specialize (IH ss init p (clamp init (t - d)) Hc Hp L Hi).
    destruct (pull_chain ch ss init (Some p) (clamp init (t - d))) as [[r b] s2]; exact IH.
  - specialize (IH ss init p (clamp init (hd init s - extra)) Hc Hp L Hi).
    destruct (pull_chain ch ss init (Some p) (clamp init (hd init s - extra))) as [[r b] s2]; exact IH.
  - assert (Hle : (if p <? t then p else t) <= p) by (destruct (p <? t) eqn:E; lia).
    pose proof (pull_time_tail_le ch ss init p _ Hp Hle Hi) as H. unfold pull_time in H.
    destruct (pull_chain ch ss init (Some p) (if p <? t then p else t)) as [[r b] s2]; exact H.
Qed.

(** a buffering adapter ends the pull only on links that are not cut and come from a time component *)
Lemma pull_chain_buffered ch : forall ss init pt t,
  snd (fst (pull_chain ch ss init pt t)) = true -> no_push_buf ch = false.
Proof.
  induction ch as [|a ch IH]; intros ss init pt t H; simpl in *; [discriminate|].
  destruct ss as [|s ss]; [discriminate|].
  destruct a; simpl in *; try reflexivity;
    match goal with H : context [pull_chain ch ss init pt ?x] |- _ =>
      specialize (IH ss init pt x); destruct (pull_chain ch ss init pt x) as [[r b] s2] end;
    simpl in *; auto.
Qed.

Lemma no_push_buf_not_cut ch : no_push_buf ch = true -> cut_by_nodep ch = false.
Proof. induction ch as [|a ch IH]; simpl; intros H; [reflexivity|]. destruct a; auto; discriminate. Qed.

(** states that agree on times and on the links of pull-based consumers serve the same pull-based components *)
Lemma servedn_ext_P n : forall cs a b p t,
  (forall x, s_time a x = s_time b x) ->
  (forall x y, is_time cs x = false -> s_link a x y = s_link b x y) ->
  is_time cs p = false -> servedn n cs a p t -> servedn n cs b p t.
Proof.
  induction n as [|n IH]; intros cs a b p t Ht Hl Hp H; [exact H|].
  intros k inp lt Hk Hr.
  assert (Hr' : link_req cs a p k inp t = Some lt).
  { unfold link_req, link_dep, ptime_of in *. rewrite (Hl p k Hp), Ht. exact Hr. }
  destruct (H k inp lt Hk Hr') as [H1 H2]. split.
  - intros Ti. rewrite <- Ht. exact (H1 Ti).
  - intros Tp. apply (IH cs a b); [exact Ht|exact Hl|exact Tp|exact (H2 Tp)].
Qed.

Definition req_ok (n : nat) (cs : composition) (st : state) (c k : nat) (inp : input) (t : Z) : Prop :=
  forall lt, link_req cs st c k inp t = Some lt ->
    (is_time cs (fst (i_src inp)) = true -> lt <= s_time st (fst (i_src inp))) /\
    (is_time cs (fst (i_src inp)) = false -> servedn n cs st (fst (i_src inp)) lt).

Definition frame (cs : composition) (st st' : state) (c k : nat) : Prop :=
  (forall x, s_time st' x = s_time st x) /\
  (forall x y, is_time cs x = false \/ (x, y) <> (c, k) -> s_link st' x y = s_link st x y) /\
  length (s_link st' c k) = length (s_link st c k).

Definition good (e : option err) : Prop := e <> Some ETime /\ e <> Some ENoData.

Lemma pull_list_ok cs (Q : nat -> state -> Prop) rec (pc : nat) :
  forall ins k0 s a s' a' e,
  (forall j x, nth_error ins j = Some x -> nth_error (c_inputs (getc cs pc)) (k0 + j) = Some x) ->
  (forall k x s1 a1 s2 a2 e2, nth_error (c_inputs (getc cs pc)) k = Some x -> Q k s1 ->
      rec k x s1 a1 = (s2, a2, e2) -> good e2 /\ Q (S k) s2) ->
  Q k0 s -> pull_list rec k0 ins s a = (s', a', e) -> good e /\ exists k', Q k' s'.
Proof.
  induction ins as [|x ins IH]; intros k0 s a s' a' e Hn Hrec Hq H; simpl in H.
  - inversion H; subst. split; [split; discriminate|eauto].
  - destruct (rec k0 x s a) as [[s2 a2] e2] eqn:R.
    assert (Hx : nth_error (c_inputs (getc cs pc)) k0 = Some x).
    { specialize (Hn O x eq_refl). now rewrite Nat.add_0_r in Hn. }
    destruct (Hrec _ _ _ _ _ _ _ Hx Hq R) as [G2 Q2].
    destruct e2 as [e2|].
    + inversion H; subst. eauto.
    + eapply (IH (S k0)); eauto.
      intros j y Hj. specialize (Hn (S j) y Hj). now replace (S k0 + j)%nat with (k0 + S j)%nat by lia.
Qed.

Lemma upd2_same {A} (f : nat -> nat -> A) c k x y : upd2 f c k (f c k) x y = f x y.
Proof.
  unfold upd2. destruct (Nat.eqb x c) eqn:E1, (Nat.eqb y k) eqn:E2; simpl; auto.
  apply Nat.eqb_eq in E1, E2. now subst.
Qed.

Lemma upd2_other {A} (f : nat -> nat -> A) c k v x y : (x, y) <> (c, k) -> upd2 f c k v x y = f x y.
Proof.
  intros H. unfold upd2. destruct (Nat.eqb x c) eqn:E1, (Nat.eqb y k) eqn:E2; simpl; auto.
  apply Nat.eqb_eq in E1, E2. subst. congruence.
Qed.

Lemma upd2_this {A} (f : nat -> nat -> A) c k v : upd2 f c k v c k = v.
Proof. unfold upd2. now rewrite !Nat.eqb_refl. Qed.

Lemma pull_input_ok cs (W : wf cs) fuel : forall n st c k inp t acc st' acc' e,
  Inv cs st -> nth_error (c_inputs (getc cs c)) k = Some inp -> t0_of cs <= t ->
  req_ok n cs st c k inp t ->
  pull_input fuel cs st c k inp t acc = (st', acc', e) ->
  good e /\ frame cs st st' c k.
Proof.
  induction fuel as [|fuel IH]; intros n st c k inp t acc st' acc' e Hinv Hk Ht Hreq H; simpl in H.
  - inversion H; subst. split; [split; discriminate|]. repeat split; auto.
  - destruct Hinv as [Itime Ilen].
    pose proof (wf_chain cs W c k inp Hk) as Wc. unfold chain_wf in Wc. apply andb_prop in Wc. destruct Wc as [Wsrc Wcons].
    set (src := i_src inp) in *.
    pose proof (pull_chain_length (i_chain inp) (s_link st c k) (init_of cs src) (ptime_of cs st src) t) as Lss.
    pose proof (pull_time_lower (i_chain inp) (s_link st c k) (init_of cs src) (ptime_of cs st src) t (t0_of cs)
                  (t0_le_init cs src) Ht) as Low.
    assert (Hpt : forall p, ptime_of cs st src = Some p -> t0_of cs <= p).
    { unfold ptime_of. intros p Hp. destruct (is_time cs (fst src)) eqn:Ti; [|discriminate]. inversion Hp; subst.
      specialize (Itime (fst src) (snd src) Ti). pose proof (t0_le_init cs (fst src, snd src)). lia. }
    specialize (Low Hpt).
    unfold pull_time in Low.
    pose proof (sched_req_is_actual (i_chain inp) (s_link st c k) (init_of cs src) (ptime_of cs st src) t) as Act.
    unfold pull_time in Act.
    pose proof (pull_chain_buffered (i_chain inp) (s_link st c k) (init_of cs src) (ptime_of cs st src) t) as Buf.
    pose proof (pull_chain_no_topull (i_chain inp) (s_link st c k) (init_of cs src) (ptime_of cs st src) t) as Ntp.
    pose proof (sched_walk_none_iff (i_chain inp) (s_link st c k) (init_of cs src) (ptime_of cs st src) t (Ilen c k inp Hk)) as Cut.
    pose proof (pull_time_cut_le (i_chain inp) (s_link st c k) (init_of cs src)) as CutLe. unfold pull_time in CutLe.
    destruct (pull_chain (i_chain inp) (s_link st c k) (init_of cs src) (ptime_of cs st src) t) as [[r buffered] ss'] eqn:PC.
    simpl in Lss, Low, Act, Buf, Ntp.
    set (st1 := mkS (s_time st) (s_cnt st) (upd2 (s_link st) c k ss')) in *.
    assert (F1 : frame cs st st1 c k).
    { unfold frame, st1; simpl. split; [auto|]. split.
      - intros x y [Hx|Hxy].
        + destruct (Nat.eq_dec x c) as [->|Ne].
          * rewrite Hx in Wcons. rewrite (Ntp Wcons). apply upd2_same.
          * apply upd2_other. congruence.
        + apply upd2_other; exact Hxy.
      - rewrite upd2_this. exact Lss. }
    destruct (is_static_src cs src) eqn:Stat.
    { (* static source: served for every time *)
      inversion H; subst. split; [split; discriminate|exact F1]. }
    assert (Hreq' : forall lt, sched_walk (i_chain inp) (s_link st c k) (init_of cs src) (ptime_of cs st src) false t = Some lt ->
              (is_time cs (fst src) = true -> lt <= s_time st (fst src)) /\
              (is_time cs (fst src) = false -> servedn n cs st (fst src) lt)).
    { intros lt SW. apply Hreq. rewrite (link_req_nonstatic cs st c k inp t Stat). exact SW. }
    (* upper bound when the source is a time component *)
    assert (Up : is_time cs (fst src) = true -> r <= s_time st (fst src)).
    { intros Ti. rewrite Ti in Wsrc.
      destruct (sched_walk (i_chain inp) (s_link st c k) (init_of cs src) (ptime_of cs st src) false t) as [lt|] eqn:SW.
      - rewrite (Act lt eq_refl). destruct (Hreq' lt eq_refl) as [H1 _]. exact (H1 Ti).
      - assert (Hc : cut_by_nodep (i_chain inp) = true) by (apply Cut; reflexivity).
        unfold ptime_of in PC, CutLe. rewrite Ti in PC.
        specialize (CutLe (s_time st (fst src)) t Hc Wsrc (Ilen c k inp Hk)).
        rewrite PC in CutLe. simpl in CutLe. apply CutLe.
        specialize (Itime (fst src) (snd src) Ti). destruct src; exact Itime. }
    destruct buffered.
    + (* ended at a buffering adapter: the source is a time component *)
      assert (Ti : is_time cs (fst src) = true).
      { destruct (is_time cs (fst src)) eqn:Ti; [reflexivity|]. rewrite (Buf eq_refl) in Wsrc. discriminate. }
      inversion H; subst. split; [|exact F1].
      assert (E : (t0_of cs <=? r) && (r <=? s_time st (fst src)) = true).
      { apply andb_true_intro. split; apply Z.leb_le; [exact Low|exact (Up Ti)]. }
      rewrite E. split; discriminate.
    + destruct (is_time cs (fst src)) eqn:Ti.
      * inversion H; subst. split; [|exact F1].
        assert (E : (t0_of cs <=? r) && (r <=? s_time st (fst src)) = true).
        { apply andb_true_intro. split; apply Z.leb_le; [exact Low|exact (Up eq_refl)]. }
        rewrite E. split; discriminate.
      * (* pull-based source: its callback pulls all of its inputs for [r] *)
        assert (SW : sched_walk (i_chain inp) (s_link st c k) (init_of cs src) (ptime_of cs st src) false t = Some r).
        { destruct (sched_walk (i_chain inp) (s_link st c k) (init_of cs src) (ptime_of cs st src) false t) as [lt|] eqn:SW.
          - now rewrite (Act lt eq_refl).
          - assert (Hc : cut_by_nodep (i_chain inp) = true) by (apply Cut; reflexivity).
            rewrite (no_push_buf_not_cut _ Wsrc) in Hc. discriminate. }
        destruct (Hreq' r SW) as [_ Hs]. specialize (Hs eq_refl).
        set (Q := fun (_ : nat) (s : state) => (forall x, s_time s x = s_time st1 x) /\ (forall x y, s_link s x y = s_link st1 x y)).
        assert (Q1 : Q O st1) by (split; auto).
        destruct (pull_list_ok cs Q (fun k0 x s a => pull_input fuel cs s (fst src) k0 x r a) (fst src)
                    (c_inputs (getc cs (fst src))) O st1 (ES (fst src) (snd src) r :: EP c k t :: acc) st' acc' e)
          as [G Qe]; [intros j x Hj; exact Hj| |exact Q1|exact H|].
        -- intros k1 x s1 a1 s2 a2 e2 Hx [Qt Ql] R.
           destruct n as [|n]; [destruct Hs|].
           assert (I1 : Inv cs s1).
           { split.
             - intros c0 o0 Tc0. rewrite Qt. unfold st1; simpl. apply Itime; exact Tc0.
             - intros c0 k0 i0 Hi0. rewrite Ql. destruct F1 as [_ [Fl Fn]].
               destruct (Nat.eq_dec c0 c) as [->|Nc]; [destruct (Nat.eq_dec k0 k) as [->|Nk]|].
               + rewrite Fn. apply Ilen; exact Hi0.
               + rewrite Fl by (right; congruence). apply Ilen; exact Hi0.
               + rewrite Fl by (right; congruence). apply Ilen; exact Hi0. }
           assert (Rq : req_ok n cs s1 (fst src) k1 x r).
           { intros lt Hlt.
             assert (Hlt' : link_req cs st (fst src) k1 x r = Some lt).
             { unfold link_req, link_dep, ptime_of in *. rewrite Ql, Qt in Hlt. unfold st1 in Hlt; simpl in Hlt.
               destruct F1 as [_ [Fl _]]. unfold st1 in Fl; simpl in Fl. rewrite (Fl (fst src) k1 (or_introl Ti)) in Hlt. exact Hlt. }
             destruct (Hs k1 x lt Hx Hlt') as [H1 H2]. split.
             - intros Tx. rewrite Qt. unfold st1; simpl. exact (H1 Tx).
             - intros Tx. apply (servedn_ext_P n cs st s1 (fst (i_src x)) lt);
                 [intros y; rewrite Qt; reflexivity
                 |intros y z Ty; rewrite Ql; destruct F1 as [_ [Fl _]]; symmetry; apply Fl; left; exact Ty
                 |exact Tx|exact (H2 Tx)]. }
           destruct (IH n s1 (fst src) k1 x r a1 s2 a2 e2 I1 Hx Low Rq R) as [G2 [Ft [Fl Fn]]].
           split; [exact G2|]. split.
           ++ intros y. rewrite Ft. apply Qt.
           ++ intros y z. destruct (Nat.eq_dec y (fst src)) as [->|Ny].
              ** rewrite (Fl (fst src) z (or_introl Ti)). apply Ql.
              ** rewrite Fl by (right; congruence). apply Ql.
        -- split; [exact G|]. destruct Qe as [k' [Qt Ql]]. destruct F1 as [Ft [Fl Fn]].
           split; [intros y; rewrite Qt; apply Ft|]. split.
           ++ intros y z Hyz. rewrite Ql. apply Fl; exact Hyz.
           ++ rewrite Ql. exact Fn.
Qed.

(** ** a whole update, a whole run *)

Lemma step_of_pos steps k : Forall (fun s => 0 < s) steps -> 0 < step_of steps k.
Proof.
  intros H. unfold step_of. destruct steps as [|s0 steps]; [lia|].
  set (l := s0 :: steps) in *.
  assert (Hk : (k mod length l < length l)%nat) by (apply Nat.mod_upper_bound; discriminate).
  rewrite Forall_forall in H. apply H. apply nth_In. exact Hk.
Qed.

Lemma next_time_gt cs (W : wf cs) st c : is_time cs c = true -> s_time st c < next_time cs st c.
Proof.
  intros Tc. unfold next_time, is_time in *. pose proof (wf_steps cs W c) as Hs. unfold steps_pos in Hs.
  destruct (c_kind (getc cs c)) as [s steps ip|]; [|discriminate].
  pose proof (step_of_pos steps (s_cnt st c) Hs). lia.
Qed.

Lemma do_update_ok cs (W : wf cs) n st c acc st' acc' e :
  Inv cs st -> is_time cs c = true -> servedn n cs st c (next_time cs st c) ->
  do_update cs st c acc = (st', acc', e) ->
  good e /\ Inv cs st' /\ s_time st' c = next_time cs st c /\ (forall x, x <> c -> s_time st' x = s_time st x).
Proof.
  intros Hinv Tc Hs H. unfold do_update, pull_all in H.
  set (nt := next_time cs st c) in *.
  destruct (pull_list (fun k x s a => pull_input (S (length cs)) cs s c k x nt a) O (c_inputs (getc cs c)) st (EU c nt :: acc))
    as [[st1 acc1] e1] eqn:PL.
  inversion H; subst st' acc' e. clear H.
  destruct Hinv as [Itime Ilen].
  pose proof (next_time_gt cs W st c Tc) as Hgt. fold nt in Hgt.
  assert (Hnt : t0_of cs <= nt).
  { specialize (Itime c O Tc). pose proof (t0_le_init cs (c, O)). lia. }
  set (Q := fun (k : nat) (s : state) =>
              (forall x, s_time s x = s_time st x) /\
              (forall x y, is_time cs x = false \/ x <> c \/ (k <= y)%nat -> s_link s x y = s_link st x y) /\
              (forall y, length (s_link s c y) = length (s_link st c y))).
  assert (Q0 : Q O st) by (repeat split; auto).
  destruct (pull_list_ok cs Q (fun k x s a => pull_input (S (length cs)) cs s c k x nt a) c
              (c_inputs (getc cs c)) O st (EU c nt :: acc) st1 acc1 e1) as [G [k' [Qt [Ql Qn]]]];
    [intros j x Hj; exact Hj| |exact Q0|exact PL|].
  - intros k x s1 a1 s2 a2 e2 Hx [Qt [Ql Qn]] R.
    destruct n as [|n]; [destruct Hs|].
    assert (I1 : Inv cs s1).
    { split.
      - intros c0 o0 Tc0. rewrite Qt. apply Itime; exact Tc0.
      - intros c0 k0 i0 Hi0. destruct (Nat.eq_dec c0 c) as [->|Nc].
        + rewrite Qn. apply Ilen; exact Hi0.
        + rewrite Ql by (right; left; exact Nc). apply Ilen; exact Hi0. }
    assert (Rq : req_ok n cs s1 c k x nt).
    { intros lt Hlt.
      assert (Hlt' : link_req cs st c k x nt = Some lt).
      { unfold link_req, link_dep, ptime_of in *. rewrite Qt in Hlt. rewrite (Ql c k) in Hlt by (right; right; lia). exact Hlt. }
      destruct (Hs k x lt Hx Hlt') as [H1 H2]. split.
      - intros Tx. rewrite Qt. exact (H1 Tx).
      - intros Tx. apply (servedn_ext_P n cs st s1 (fst (i_src x)) lt);
          [intros y; rewrite Qt; reflexivity
          |intros y z Ty; rewrite Ql by (left; exact Ty); reflexivity
          |exact Tx|exact (H2 Tx)]. }
    destruct (pull_input_ok cs W (S (length cs)) n s1 c k x nt a1 s2 a2 e2 I1 Hx Hnt Rq R) as [G2 [Ft [Fl Fn]]].
    split; [exact G2|]. split; [intros y; rewrite Ft; apply Qt|]. split.
    + intros y z Hyz. rewrite Fl; [apply Ql|].
      * destruct Hyz as [Hy|[Hy|Hy]]; [left; exact Hy|right; left; exact Hy|right; right; lia].
      * destruct Hyz as [Hy|[Hy|Hy]]; [left; exact Hy|right; congruence|right; intros E; inversion E; lia].
    + intros y. destruct (Nat.eq_dec y k) as [->|Ny]; [rewrite Fn; apply Qn|].
      rewrite Fl by (right; congruence). apply Qn.
  - split; [exact G|]. cbn [s_time s_link s_cnt]. split; [|split].
    + split.
      * intros c0 o0 Tc0. cbn [s_time]. unfold upd. destruct (Nat.eqb c0 c) eqn:E.
        -- apply Nat.eqb_eq in E. subst c0. specialize (Itime c o0 Tc). lia.
        -- rewrite Qt. apply Itime; exact Tc0.
      * intros c0 k0 i0 Hi0. cbn [s_link]. destruct (Nat.eq_dec c0 c) as [->|Nc].
        -- rewrite Qn. apply Ilen; exact Hi0.
        -- rewrite Ql by (right; left; exact Nc). apply Ilen; exact Hi0.
    + cbn [s_time]. unfold upd. now rewrite Nat.eqb_refl.
    + intros x Hx. cbn [s_time]. unfold upd. apply Nat.eqb_neq in Hx. rewrite Hx. apply Qt.
Qed.

(** every update the driver performs: the component's dependencies are served, its pulls succeed *)
Lemma update_rec_ok cs (W : wf cs) fuel st acc c chain tgt u st' acc' e :
  Inv cs st ->
  update_rec fuel cs st acc c chain tgt = UUpdated u st' acc' e ->
  servedn fuel cs st u (next_time cs st u) /\ lagpath cs st c tgt u /\ good e /\ Inv cs st' /\
  s_time st' u = next_time cs st u /\ (forall x, x <> u -> s_time st' x = s_time st x).
Proof.
  intros Hinv H.
  destruct (update_rec_props fuel cs st acc c chain tgt) as [_ HB].
  destruct (HB _ _ _ _ H) as [Tu [Du [Su Lu]]].
  destruct (do_update_ok cs W fuel st u acc st' acc' e Hinv Tu Su Du) as [G [I' [T1 T2]]].
  auto 10.
Qed.

Lemma run_loop_good cs (W : wf cs) endt fuel : forall st acc o st' acc',
  Inv cs st -> run_loop fuel cs endt st acc = (o, st', acc') -> o <> OTime /\ o <> ONoData.
Proof.
  induction fuel as [|fuel IH]; intros st acc o st' acc' Hinv H; cbn [run_loop] in H.
  - inversion H; subst. split; discriminate.
  - destruct (pick_min cs st 0 cs None) as [c|]; [|inversion H; subst; split; discriminate].
    destruct (update_rec (rec_fuel cs) cs st acc c [] 0) as [u st1 acc1 e1| | |] eqn:U;
      try (inversion H; subst; split; discriminate).
    destruct (update_rec_ok cs W _ _ _ _ _ _ _ _ _ _ Hinv U) as [_ [_ [[G1 G2] [I1 _]]]].
    destruct e1 as [[| |]|]; try congruence.
    + inversion H; subst; split; discriminate.
    + destruct (any_running st1 0 cs endt); [eapply IH; eauto|inversion H; subst; split; discriminate].
Qed.

(** the state after connect satisfies the invariant *)
Definition LenOK (cs : composition) (lk : nat -> nat -> list (list Z)) : Prop :=
  forall c k inp, nth_error (c_inputs (getc cs c)) k = Some inp -> length (lk c k) = length (i_chain inp).

Lemma init_pulls_LenOK cs c : forall ins k lk, LenOK cs lk -> LenOK cs (init_pulls_from cs c k ins lk).
Proof.
  induction ins as [|x ins IH]; intros k lk H; simpl; [exact H|].
  pose proof (pull_chain_length (i_chain x) (lk c k) (init_of cs (i_src x)) None (t0_of cs)) as L.
  destruct (pull_chain (i_chain x) (lk c k) (init_of cs (i_src x)) None (t0_of cs)) as [[r b] ss'].
  apply IH. intros c0 k0 i0 Hi0. unfold upd2.
  destruct (Nat.eqb c0 c) eqn:E1, (Nat.eqb k0 k) eqn:E2; simpl; try (apply H; exact Hi0).
  apply Nat.eqb_eq in E1, E2. subst. simpl in L. rewrite L. apply H; exact Hi0.
Qed.

Lemma init_links_LenOK cs : forall l k lk, LenOK cs lk -> LenOK cs (init_links cs k l lk).
Proof.
  induction l as [|x l IH]; intros k lk H; simpl; [exact H|].
  apply IH. destruct (c_kind x) as [s st [|]|]; auto. apply init_pulls_LenOK; exact H.
Qed.

Lemma init_state_Inv cs : Inv cs (init_state cs).
Proof.
  split.
  - intros c o Tc. unfold init_state, init_of, is_time in *. simpl.
    destruct (c_kind (getc cs c)); [lia|discriminate].
  - unfold init_state; simpl. apply init_links_LenOK.
    intros c k inp Hk. unfold empty_links. rewrite map_length.
    now rewrite (nth_error_nth _ _ _ Hk).
Qed.

(** C01 / C04 at the level of a whole run: it never ends with a time or no-data error *)
Lemma run_good cs endt fuel o st acc :
  wf cs -> run fuel cs endt = (o, st, acc) -> o <> OTime /\ o <> ONoData.
Proof.
  intros W H. unfold run in H. eapply run_loop_good; eauto. apply init_state_Inv.
Qed.

(** ** a decidable check of [wf] (for concrete compositions) *)
Definition comp_wf_b (cs : composition) (c : nat) (x : comp) : bool :=
  forallb (fun inp => chain_wf (is_time cs (fst (i_src inp))) (is_time cs c) (i_chain inp)) (c_inputs x)
  && match c_kind x with KTime _ steps _ => forallb (fun s => 0 <? s) steps | KPull => true end.

Fixpoint wf_from (cs : composition) (k : nat) (l : composition) : bool :=
  match l with [] => true | x :: r => comp_wf_b cs k x && wf_from cs (S k) r end.

Definition wf_b (cs : composition) : bool := wf_from cs O cs.

Lemma wf_from_nth cs : forall l k j x, wf_from cs k l = true -> nth_error l j = Some x -> comp_wf_b cs (k + j) x = true.
Proof.
  induction l as [|y l IH]; intros k j x H Hj; [destruct j; discriminate|].
  simpl in H. apply andb_prop in H. destruct H as [H1 H2].
  destruct j as [|j]; simpl in Hj.
  - inversion Hj; subst. now rewrite Nat.add_0_r.
  - replace (k + S j)%nat with (S k + j)%nat by lia. eapply IH; eauto.
Qed.

Lemma wf_b_sound cs : wf_b cs = true -> wf cs.
Proof.
  intros H.
  assert (Hc : forall c, comp_wf_b cs c (getc cs c) = true).
  { intros c. unfold getc. destruct (nth_error cs c) as [x|] eqn:E.
    - rewrite (nth_error_nth _ _ _ E). exact (wf_from_nth cs cs O c x H E).
    - rewrite nth_overflow by (apply nth_error_None; exact E). reflexivity. }
  split.
  - intros c k inp Hk. specialize (Hc c). unfold comp_wf_b in Hc. apply andb_prop in Hc. destruct Hc as [Hc _].
    rewrite forallb_forall in Hc. apply Hc. eapply nth_error_In; eauto.
  - intros c. specialize (Hc c). unfold comp_wf_b in Hc. apply andb_prop in Hc. destruct Hc as [_ Hc].
    unfold steps_pos. destruct (c_kind (getc cs c)); [|exact I].
    rewrite forallb_forall in Hc. apply Forall_forall. intros s Hs. apply Z.ltb_lt. apply Hc; exact Hs.
Qed.

(** ** the component the run loop picks: the first least-advanced time component *)
Definition least_first (cs : composition) (st : state) (n : nat) (c : nat) : Prop :=
  (c < n)%nat /\ is_time cs c = true /\
  forall c', (c' < n)%nat -> is_time cs c' = true ->
    s_time st c <= s_time st c' /\ (s_time st c' = s_time st c -> (c <= c')%nat).

Lemma pick_min_spec_gen cs st : forall l k best,
  (forall j, (j < length l)%nat -> c_kind (nth j l dummy_comp) = c_kind (getc cs (k + j))) ->
  (match best with None => forall c', (c' < k)%nat -> is_time cs c' = false | Some b => least_first cs st k b end) ->
  match pick_min cs st k l best with
  | None => forall c', (c' < k + length l)%nat -> is_time cs c' = false
  | Some b => least_first cs st (k + length l) b
  end.
Proof.
  induction l as [|x l IH]; intros k best Hl Hb; simpl.
  - rewrite Nat.add_0_r. exact Hb.
  - replace (k + S (length l))%nat with (S k + length l)%nat by lia.
    assert (Hx : c_kind x = c_kind (getc cs k)).
    { specialize (Hl O (Nat.lt_0_succ _)). simpl in Hl. now rewrite Nat.add_0_r in Hl. }
    apply IH.
    + intros j Hj. specialize (Hl (S j) (proj1 (Nat.succ_lt_mono _ _) Hj)). simpl in Hl.
      now replace (S k + j)%nat with (k + S j)%nat by lia.
    + assert (Tk : is_time cs k = match c_kind x with KTime _ _ _ => true | KPull => false end).
      { unfold is_time. now rewrite <- Hx. }
      destruct (c_kind x) as [s0 steps ip|].
      * destruct best as [b|].
        -- destruct Hb as [Hb1 [Hb2 Hb3]].
           destruct (s_time st k <? s_time st b) eqn:E.
           ++ apply Z.ltb_lt in E. split; [lia|]. split; [exact Tk|].
              intros c' Hc' Tc'. destruct (Nat.eq_dec c' k) as [->|Ne]; [split; [lia|intros; lia]|].
              destruct (Hb3 c' ltac:(lia) Tc') as [H1 H2]. split; [lia|intros; lia].
           ++ apply Z.ltb_ge in E. split; [lia|]. split; [exact Hb2|].
              intros c' Hc' Tc'. destruct (Nat.eq_dec c' k) as [->|Ne]; [split; [lia|intros; lia]|].
              apply Hb3; [lia|exact Tc'].
        -- split; [lia|]. split; [exact Tk|].
           intros c' Hc' Tc'. destruct (Nat.eq_dec c' k) as [->|Ne]; [split; [lia|intros; lia]|].
           rewrite Hb in Tc' by lia. discriminate.
      * destruct best as [b|].
        -- destruct Hb as [Hb1 [Hb2 Hb3]]. split; [lia|]. split; [exact Hb2|].
           intros c' Hc' Tc'. destruct (Nat.eq_dec c' k) as [->|Ne]; [congruence|]. apply Hb3; [lia|exact Tc'].
        -- intros c' Hc'. destruct (Nat.eq_dec c' k) as [->|Ne]; [exact Tk|]. apply Hb; lia.
Qed.

Lemma pick_min_spec cs st c :
  pick_min cs st O cs None = Some c -> least_first cs st (length cs) c.
Proof.
  intros H.
  pose proof (pick_min_spec_gen cs st cs O None) as G. rewrite H in G. simpl in G. apply G.
  - intros j Hj. reflexivity.
  - intros c' Hc'. lia.
Qed.

(** ** the run loop: where it stops, when it updates *)

Lemma any_running_false st endt : forall l k,
  any_running st k l endt = false ->
  forall j x, nth_error l j = Some x -> (exists s steps ip, c_kind x = KTime s steps ip) -> endt <= s_time st (k + j).
Proof.
  induction l as [|y l IH]; intros k H j x Hj Hx; [destruct j; discriminate|].
  simpl in H. apply orb_false_elim in H. destruct H as [H1 H2].
  destruct j as [|j]; simpl in Hj.
  - inversion Hj; subst y. destruct Hx as [s [steps [ip Hx]]]. rewrite Hx in H1.
    rewrite Nat.add_0_r. apply Z.ltb_ge. exact H1.
  - replace (k + S j)%nat with (S k + j)%nat by lia. eapply IH; eauto.
Qed.

Lemma any_running_true st endt : forall l k,
  any_running st k l endt = true ->
  exists j x, nth_error l j = Some x /\ (exists s steps ip, c_kind x = KTime s steps ip) /\ s_time st (k + j) < endt.
Proof.
  induction l as [|y l IH]; intros k H; [discriminate|].
  simpl in H. apply orb_true_elim in H. destruct H as [H|H].
  - exists O, y. split; [reflexivity|]. destruct (c_kind y) as [s steps ip|]; [|discriminate].
    split; [eauto|]. rewrite Nat.add_0_r. apply Z.ltb_lt. exact H.
  - destruct (IH (S k) H) as [j [x [Hj [Hx Ht]]]]. exists (S j), x. split; [exact Hj|]. split; [exact Hx|].
    now replace (k + S j)%nat with (S k + j)%nat by lia.
Qed.

Lemma is_time_kind cs c : is_time cs c = true -> exists s steps ip, c_kind (getc cs c) = KTime s steps ip.
Proof. unfold is_time. destruct (c_kind (getc cs c)); [eauto|discriminate]. Qed.

(** C03_reaches_end *)
Lemma run_loop_reaches_end cs endt fuel : forall st acc st' acc',
  run_loop fuel cs endt st acc = (OOk, st', acc') ->
  forall c, is_time cs c = true -> endt <= s_time st' c.
Proof.
  induction fuel as [|fuel IH]; intros st acc st' acc' H c Tc; cbn [run_loop] in H; [discriminate|].
  destruct (pick_min cs st 0 cs None) as [c0|] eqn:PM.
  - destruct (update_rec (rec_fuel cs) cs st acc c0 [] 0) as [u st1 acc1 e1| | |]; try discriminate.
    destruct e1 as [[| |]|]; try discriminate.
    destruct (any_running st1 0 cs endt) eqn:AR; [eapply IH; eauto|].
    inversion H; subst st' acc'.
    destruct (is_time_kind cs c Tc) as [s [steps [ip K]]].
    assert (Lc : (c < length cs)%nat).
    { destruct (le_lt_dec (length cs) c) as [Hge|]; [|assumption].
      unfold getc in K. rewrite nth_overflow in K by exact Hge. discriminate. }
    destruct (nth_error cs c) as [x|] eqn:E; [|apply nth_error_None in E; lia].
    pose proof (any_running_false st1 endt cs O AR c x E) as G. simpl in G. apply G.
    unfold getc in K. rewrite (nth_error_nth _ _ _ E) in K. eauto.
  - (* no time component at all *)
    pose proof (pick_min_spec_gen cs st cs O None) as G. rewrite PM in G. simpl in G.
    assert (Hn : forall c', (c' < length cs)%nat -> is_time cs c' = false).
    { apply G; [intros; reflexivity|intros; lia]. }
    destruct (le_lt_dec (length cs) c) as [Hge|Hlt].
    + unfold is_time, getc in Tc. rewrite nth_overflow in Tc by exact Hge. discriminate.
    + rewrite (Hn c Hlt) in Tc. discriminate.
Qed.

(** the states in which the loop performs an update, with the updated component (mirror of [run_loop]) *)
Fixpoint run_states (fuel : nat) (cs : composition) (endt : Z) (st : state) (acc : list ev) : list (state * nat * state) :=
  match fuel with
  | O => []
  | S fuel' =>
      match pick_min cs st O cs None with
      | None => []
      | Some c =>
          match update_rec (rec_fuel cs) cs st acc c [] 0 with
          | UUpdated u st' acc' None =>
              (st, u, st') :: (if any_running st' O cs endt then run_states fuel' cs endt st' acc' else [])
          | UUpdated u st' acc' (Some _) => [(st, u, st')]
          | _ => []
          end
      end
  end.

Lemma last_default_irrelevant {A} (l : list A) x d1 d2 : last (x :: l) d1 = last (x :: l) d2.
Proof. revert x; induction l as [|y l IH]; intros x; [reflexivity|]. cbn [last]. apply IH. Qed.

(** [run_loop]'s final state is the state after the last recorded update *)
Lemma run_loop_states_last cs endt fuel : forall st acc o st' acc',
  run_loop fuel cs endt st acc = (o, st', acc') ->
  st' = last (map snd (run_states fuel cs endt st acc)) st.
Proof.
  induction fuel as [|fuel IH]; intros st acc o st' acc' H; cbn [run_loop run_states] in *.
  - inversion H; reflexivity.
  - destruct (pick_min cs st 0 cs None) as [c0|]; [|inversion H; reflexivity].
    destruct (update_rec (rec_fuel cs) cs st acc c0 [] 0) as [u st1 acc1 e1| | |]; try (inversion H; reflexivity).
    destruct e1 as [[| |]|]; try (inversion H; reflexivity).
    destruct (any_running st1 0 cs endt) eqn:AR; [|inversion H; reflexivity].
    rewrite (IH _ _ _ _ _ H). cbn [map snd last].
    destruct (run_states fuel cs endt st1 acc1) as [|y ys]; [reflexivity|].
    cbn [map last]. apply last_default_irrelevant.
Qed.

Definition update_fact (cs : composition) (x : state * nat * state) : Prop :=
  let '(s, u, s') := x in
  Inv cs s /\
  (exists c0, least_first cs s (length cs) c0 /\ lagpath cs s c0 0 u) /\
  servedn (rec_fuel cs) cs s u (next_time cs s u) /\
  s_time s' u = next_time cs s u /\ s_time s u < s_time s' u /\
  (forall x, x <> u -> s_time s' x = s_time s x).

(** every update of a run (C02_selection, C01_available, C03_monotone in one statement) *)
Lemma run_states_all cs (W : wf cs) endt fuel : forall st acc,
  Inv cs st -> Forall (update_fact cs) (run_states fuel cs endt st acc).
Proof.
  induction fuel as [|fuel IH]; intros st acc Hinv; cbn [run_states]; [constructor|].
  destruct (pick_min cs st 0 cs None) as [c0|] eqn:PM; [|constructor].
  destruct (update_rec (rec_fuel cs) cs st acc c0 [] 0) as [u st1 acc1 e1| | |] eqn:U; try constructor.
  destruct (update_rec_ok cs W _ _ _ _ _ _ _ _ _ _ Hinv U) as [Su [Lu [G [I1 [T1 T2]]]]].
  assert (Tu : is_time cs u = true).
  { destruct (update_rec_props (rec_fuel cs) cs st acc c0 [] 0) as [_ HB]. destruct (HB _ _ _ _ U) as [Tu _]. exact Tu. }
  assert (F : update_fact cs (st, u, st1)).
  { unfold update_fact. split; [exact Hinv|]. split; [exists c0; split; [apply pick_min_spec; exact PM|exact Lu]|].
    split; [exact Su|]. split; [exact T1|]. split; [rewrite T1; apply next_time_gt; assumption|exact T2]. }
  destruct e1 as [e1|].
  - constructor; [exact F|constructor].
  - constructor; [exact F|]. destruct (any_running st1 0 cs endt); [apply IH; exact I1|constructor].
Qed.

Lemma run_states_running cs endt fuel : forall st acc,
  any_running st O cs endt = true ->
  Forall (fun x => any_running (fst (fst x)) O cs endt = true) (run_states fuel cs endt st acc).
Proof.
  induction fuel as [|fuel IH]; intros st acc Hr; cbn [run_states]; [constructor|].
  destruct (pick_min cs st 0 cs None) as [c0|]; [|constructor].
  destruct (update_rec (rec_fuel cs) cs st acc c0 [] 0) as [u st1 acc1 e1| | |]; try constructor.
  destruct e1 as [e1|]; [constructor; [exact Hr|constructor]|].
  constructor; [exact Hr|]. destruct (any_running st1 0 cs endt) eqn:AR; [apply IH; exact AR|constructor].
Qed.

(** C03_no_late_update: every update but the first one of the do-while loop starts in a state in which
    some time component has not reached the end time *)
Lemma run_states_tail_running cs endt fuel st acc x rest :
  run_states fuel cs endt st acc = x :: rest ->
  Forall (fun y => any_running (fst (fst y)) O cs endt = true) rest.
Proof.
  destruct fuel as [|fuel]; cbn [run_states]; [discriminate|].
  destruct (pick_min cs st 0 cs None) as [c0|]; [|discriminate].
  destruct (update_rec (rec_fuel cs) cs st acc c0 [] 0) as [u st1 acc1 e1| | |]; try discriminate.
  destruct e1 as [e1|]; intros H; inversion H; subst; [constructor|].
  destruct (any_running st1 0 cs endt) eqn:AR; [apply run_states_running; exact AR|constructor].
Qed.

Lemma min_start_attained cs : forall m, min_start cs = Some m ->
  exists j x, nth_error cs j = Some x /\ start_of (c_kind x) = Some m.
Proof.
  induction cs as [|c cs IH]; intros m H; [discriminate|]. simpl in H.
  destruct (start_of (c_kind c)) as [s|] eqn:Es, (min_start cs) as [m0|] eqn:E; try discriminate.
  - inversion H. destruct (Z.min_spec s m0) as [[_ M]|[_ M]]; rewrite M.
    + exists O, c. split; [reflexivity|exact Es].
    + destruct (IH m0 eq_refl) as [j [x [Hj Hx]]]. exists (S j), x. auto.
  - inversion H; subst. exists O, c. split; [reflexivity|exact Es].
  - inversion H; subst. destruct (IH m eq_refl) as [j [x [Hj Hx]]]. exists (S j), x. auto.
Qed.

Lemma any_running_intro st endt : forall l k j x,
  nth_error l j = Some x -> (exists s steps ip, c_kind x = KTime s steps ip) -> s_time st (k + j) < endt ->
  any_running st k l endt = true.
Proof.
  induction l as [|y l IH]; intros k j x Hj Hx Ht; [destruct j; discriminate|].
  simpl. destruct j as [|j]; simpl in Hj.
  - inversion Hj; subst y. destruct Hx as [s [steps [ip Hx]]]. rewrite Hx. rewrite Nat.add_0_r in Ht.
    apply orb_true_intro. left. apply Z.ltb_lt. exact Ht.
  - apply orb_true_intro. right. eapply IH; eauto. now replace (S k + j)%nat with (k + S j)%nat by lia.
Qed.

(** for an end time after the composition's start time the first update is not late either *)
Lemma init_running cs endt m :
  min_start cs = Some m -> m < endt -> any_running (init_state cs) O cs endt = true.
Proof.
  intros Hm Hlt. destruct (min_start_attained cs m Hm) as [j [x [Hj Hx]]].
  eapply any_running_intro; [exact Hj| |].
  - destruct (c_kind x) as [s steps ip|]; [eauto|discriminate].
  - simpl. unfold getc. rewrite (nth_error_nth _ _ _ Hj).
    destruct (c_kind x) as [s steps ip|]; [|discriminate]. simpl in Hx. inversion Hx; subst. exact Hlt.
Qed.

(** ** C04: delay-resolved cycles never produce a circular-coupling error *)

(** fixed delay on the pulled part of a link ([None]: the pulled part contains something else than
    pass-through adapters and non-negative fixed delays) *)
Fixpoint edge_delay (ch : list adapter) : option Z :=
  match ch with
  | [] => Some 0
  | APass :: r => edge_delay r
  | AFixed d :: r => if 0 <=? d then option_map (Z.add d) (edge_delay r) else None
  | ABuf :: _ => Some 0
  | _ => None
  end.

Lemma edge_delay_nonneg ch : forall D, edge_delay ch = Some D -> 0 <= D.
Proof.
  induction ch as [|a ch IH]; intros D H; simpl in H; [inversion H; lia|].
  destruct a; try discriminate; auto.
  - destruct (0 <=? d) eqn:E; [|discriminate]. apply Z.leb_le in E.
    destruct (edge_delay ch) as [D'|]; [|discriminate]. simpl in H. inversion H. specialize (IH D' eq_refl). lia.
  - inversion H; lia.
Qed.

Lemma sched_walk_edge_bound ch : forall ss init pt t D lt,
  edge_delay ch = Some D -> length ss = length ch ->
  sched_walk ch ss init pt false t = Some lt -> lt <= Z.max (t - D) init.
Proof.
  induction ch as [|a ch IH]; intros ss init pt t D lt He L H; simpl in *.
  - inversion He; inversion H; subst. lia.
  - destruct ss as [|s ss]; [discriminate|]. simpl in L. injection L as L.
    destruct a; try discriminate.
    + eapply IH; eauto.
    + destruct (0 <=? d) eqn:E; [|discriminate]. apply Z.leb_le in E.
      destruct (edge_delay ch) as [D'|] eqn:E'; [|discriminate]. simpl in He. inversion He; subst D.
      pose proof (edge_delay_nonneg ch D' E') as HD.
      specialize (IH ss init pt _ D' lt eq_refl L H). simpl in IH. rewrite clamp_max in IH. lia.
    + rewrite sched_walk_buffered in H. inversion He; inversion H; subst. lia.
Qed.

Definition maxstep (steps : list Z) : Z := fold_right Z.max 1 steps.

Lemma maxstep_ge steps : forall x, In x steps -> x <= maxstep steps.
Proof.
  induction steps as [|y l IH]; intros x H; [destruct H|]. unfold maxstep in *. simpl.
  destruct H as [->|H]; [lia|]. specialize (IH x H). lia.
Qed.

Lemma step_of_le_max steps k : step_of steps k <= maxstep steps.
Proof.
  unfold step_of. destruct steps as [|s0 l]; [simpl; lia|].
  apply maxstep_ge. apply nth_In. apply Nat.mod_upper_bound. discriminate.
Qed.

Definition S_of (cs : composition) (c : nat) : Z :=
  match c_kind (getc cs c) with KTime _ steps _ => maxstep steps | KPull => 0 end.

Lemma next_time_le cs st c : is_time cs c = true -> next_time cs st c <= s_time st c + S_of cs c.
Proof.
  unfold next_time, S_of, is_time. destruct (c_kind (getc cs c)) as [s steps ip|]; [|discriminate].
  intros _. pose proof (step_of_le_max steps (s_cnt st c)). lia.
Qed.

(** "every cycle carries fixed delays summing to at least the sum of the largest steps of its components",
    in potential form: [phi] is a feasible potential for the edge weights [S(consumer) - delay(link)];
    and no cycle consists of pull-based components only ([rank] decreases along their links). *)
Record sufficient (cs : composition) (phi : nat -> Z) (rank : nat -> nat) : Prop := {
  suf_edge : forall c k inp, nth_error (c_inputs (getc cs c)) k = Some inp ->
     cut_by_nodep (i_chain inp) = true \/
     exists D, edge_delay (i_chain inp) = Some D /\ phi c + S_of cs c - D <= phi (fst (i_src inp));
  suf_rank : forall c k inp, nth_error (c_inputs (getc cs c)) k = Some inp ->
     is_time cs c = false -> is_time cs (fst (i_src inp)) = false ->
     cut_by_nodep (i_chain inp) = true \/ (rank (fst (i_src inp)) < rank c)%nat
}.

Section NoCirc.
  Variable cs : composition.
  Variable phi : nat -> Z.
  Variable rank : nat -> nat.
  Hypothesis Suf : sufficient cs phi rank.
  Variable st : state.
  Hypothesis HInv : Inv cs st.

  Definition kval (e : nat * Z) : Z :=
    (if is_time cs (fst e) then s_time st (fst e) else snd e) - phi (fst e).
  Definition ksat (e : nat * Z) : Prop := is_time cs (fst e) = false /\ snd e <= t0_of cs.

  Definition Jrel (cur e : nat * Z) : Prop :=
    kval cur < kval e \/
    (is_time cs (fst cur) = false /\ kval cur <= kval e /\
     (is_time cs (fst e) = true \/ (is_time cs (fst e) = false /\ (rank (fst cur) < rank (fst e))%nat))).

  Definition Krel (cur e : nat * Z) : Prop :=
    (ksat cur /\ (~ ksat e \/ (rank (fst cur) < rank (fst e))%nat)) \/
    (~ ksat cur /\ ~ ksat e /\ Jrel cur e).

  Lemma Krel_irrefl e : ~ Krel e e.
  Proof.
    intros [[S [N|R]]|[N [_ [L|[P [_ [T|[_ R]]]]]]]]; try tauto; try lia. congruence.
  Qed.

  Lemma key_eqb_eq a b : key_eqb a b = true -> a = b.
  Proof.
    unfold key_eqb. destruct a, b; simpl. intros H. apply andb_prop in H. destruct H as [H1 H2].
    apply Nat.eqb_eq in H1. apply Z.eqb_eq in H2. now subst.
  Qed.

  Lemma ksat_dec e : ksat e \/ ~ ksat e.
  Proof.
    unfold ksat. destruct (is_time cs (fst e)); [right; intros [H _]; discriminate|].
    destruct (Z_le_gt_dec (snd e) (t0_of cs)); [left; auto|right; intros [_ H]; lia].
  Qed.

  (** one step of the recursion keeps the chain invariant *)
  Lemma Krel_step c tgt chain k inp lt :
    (forall e, In e chain -> Krel (chain_key cs c tgt) e) ->
    nth_error (c_inputs (getc cs c)) k = Some inp ->
    link_req cs st c k inp (target_of cs st c tgt) = Some lt ->
    (is_time cs (fst (i_src inp)) = true -> s_time st (fst (i_src inp)) < lt) ->
    forall e, In e (chain_key cs c tgt :: chain) ->
      Krel (chain_key cs (fst (i_src inp)) (if is_time cs (fst (i_src inp)) then 0 else lt)) e.
  Proof.
    intros Hch Hk Hr Hlag.
    set (src := fst (i_src inp)) in *.
    destruct HInv as [Itime Ilen].
    (* the link is not cut (it has a requirement), so it carries a fixed delay D *)
    assert (exists D, 0 <= D /\ lt <= Z.max (target_of cs st c tgt - D) (init_of cs (i_src inp)) /\
                      phi c + S_of cs c - D <= phi src) as [D [HD [Hlt Hphi]]].
    { destruct (suf_edge cs phi rank Suf c k inp Hk) as [Hc|[D [He Hp]]].
      - exfalso. apply link_req_some in Hr; destruct Hr as [_ Hr].
        pose proof (sched_walk_none_iff (i_chain inp) (s_link st c k) (init_of cs (i_src inp)) (ptime_of cs st (i_src inp))
                      (target_of cs st c tgt) (Ilen c k inp Hk)) as [_ Hn]. rewrite (Hn Hc) in Hr. discriminate.
      - exists D. split; [eapply edge_delay_nonneg; eauto|]. split; [|exact Hp].
        apply link_req_some in Hr; destruct Hr as [_ Hr]. eapply sched_walk_edge_bound; eauto. }
    pose proof (t0_le_init cs (i_src inp)) as Ht0.
    set (cur := chain_key cs c tgt) in *.
    set (nxt := chain_key cs src (if is_time cs src then 0 else lt)).
    assert (Fc : fst cur = c) by reflexivity.
    assert (Fn : fst nxt = src) by reflexivity.
    (* upper bound of the target of [c] in terms of its value *)
    assert (Htgt : ~ ksat cur -> target_of cs st c tgt <= kval cur + phi c + S_of cs c /\
                   (is_time cs c = false -> target_of cs st c tgt = snd cur /\ S_of cs c = 0)).
    { intros _. unfold target_of, kval, cur, chain_key; simpl. destruct (is_time cs c) eqn:Tc; simpl.
      - pose proof (next_time_le cs st c Tc). split; [lia|discriminate].
      - assert (S_of cs c = 0) as ->.
        { unfold S_of. unfold is_time in Tc. destruct (c_kind (getc cs c)); [discriminate|reflexivity]. }
        split; [lia|auto]. }
    destruct (ksat_dec cur) as [Sc|Nc].
    - (* saturated: a pull-based component asked for a time <= t0 *)
      destruct Sc as [Tc Sle]. unfold cur, chain_key in Tc, Sle; simpl in Tc, Sle. rewrite Tc in Sle; simpl in Sle.
      assert (Tg : target_of cs st c tgt = tgt) by (unfold target_of; now rewrite Tc).
      rewrite Tg in Hlt.
      destruct (is_time cs src) eqn:Ts.
      + exfalso. specialize (Hlag eq_refl). specialize (Itime src (snd (i_src inp)) Ts).
        assert (init_of cs (i_src inp) = init_of cs (src, snd (i_src inp))) by (unfold src; destruct (i_src inp); reflexivity).
        lia.
      + assert (Sn : ksat nxt).
        { split; [exact Ts|]. unfold nxt, chain_key; simpl. rewrite Ts; simpl.
          assert (init_of cs (i_src inp) = t0_of cs).
          { unfold init_of. fold src. unfold is_time in Ts. destruct (c_kind (getc cs src)); [discriminate|reflexivity]. }
          lia. }
        assert (Rk : (rank src < rank c)%nat).
        { destruct (suf_rank cs phi rank Suf c k inp Hk Tc Ts) as [Hc|R]; [|exact R].
          exfalso. apply link_req_some in Hr; destruct Hr as [_ Hr].
          pose proof (sched_walk_none_iff (i_chain inp) (s_link st c k) (init_of cs (i_src inp)) (ptime_of cs st (i_src inp))
                        (target_of cs st c tgt) (Ilen c k inp Hk)) as [_ Hn]. rewrite (Hn Hc) in Hr. discriminate. }
        intros e [<-|He].
        * left. split; [exact Sn|]. right. rewrite Fn, Fc. exact Rk.
        * left. split; [exact Sn|]. destruct (Hch e He) as [[_ [N|R]]|[N _]].
          -- left; exact N.
          -- right. rewrite Fn. rewrite Fc in R. lia.
          -- exfalso. apply N. split; [exact Tc|]. unfold cur, chain_key; simpl. rewrite Tc; simpl. exact Sle.
    - destruct (Htgt Nc) as [Hub HP].
      assert (AllN : forall e, In e chain -> ~ ksat e /\ Jrel cur e).
      { intros e He. destruct (Hch e He) as [[S _]|[_ [N J]]]; [tauto|auto]. }
      destruct (ksat_dec nxt) as [Sn|Nn].
      + intros e [<-|He]; left; (split; [exact Sn|left]); [exact Nc|apply AllN; exact He].
      + (* both unsaturated: the value does not increase, and decreases strictly into a time component *)
        assert (Vn : kval nxt <= kval cur /\ (is_time cs src = true -> kval nxt < kval cur)).
        { unfold kval at 1 3. rewrite Fn. unfold nxt, chain_key; simpl.
          destruct (is_time cs src) eqn:Ts; simpl.
          - specialize (Hlag eq_refl). specialize (Itime src (snd (i_src inp)) Ts).
            assert (init_of cs (i_src inp) = init_of cs (src, snd (i_src inp))) by (unfold src; destruct (i_src inp); reflexivity).
            split; [|intros _]; lia.
          - split; [|discriminate].
            assert (init_of cs (i_src inp) = t0_of cs).
            { unfold init_of. fold src. unfold is_time in Ts. destruct (c_kind (getc cs src)); [discriminate|reflexivity]. }
            assert (t0_of cs < lt).
            { destruct (Z_le_gt_dec lt (t0_of cs)) as [Hle|]; [|lia]. exfalso. apply Nn. split; [exact Ts|].
              unfold nxt, chain_key; simpl. rewrite Ts; simpl. exact Hle. }
            lia. }
        destruct Vn as [Vle Vlt].
        intros e Hin. right. split; [exact Nn|].
        destruct (is_time cs src) eqn:Ts.
        * specialize (Vlt eq_refl). destruct Hin as [<-|He].
          -- split; [exact Nc|]. left. exact Vlt.
          -- destruct (AllN e He) as [Ne J]. split; [exact Ne|]. left.
             destruct J as [L|[_ [L _]]]; lia.
        * destruct Hin as [<-|He].
          -- split; [exact Nc|]. right. rewrite Fn, Fc. split; [exact Ts|]. split; [exact Vle|].
             destruct (is_time cs c) eqn:Tc; [left; reflexivity|right]. split; [reflexivity|].
             destruct (suf_rank cs phi rank Suf c k inp Hk Tc Ts) as [Hc|R]; [|exact R].
             exfalso. apply link_req_some in Hr; destruct Hr as [_ Hr].
             pose proof (sched_walk_none_iff (i_chain inp) (s_link st c k) (init_of cs (i_src inp)) (ptime_of cs st (i_src inp))
                           (target_of cs st c tgt) (Ilen c k inp Hk)) as [_ Hn]. rewrite (Hn Hc) in Hr. discriminate.
          -- destruct (AllN e He) as [Ne J]. split; [exact Ne|].
             destruct J as [L|[Pc [L Alt]]]; [left; lia|].
             right. rewrite Fn. split; [exact Ts|]. split; [lia|].
             destruct Alt as [Te|[Te R]]; [left; exact Te|right]. split; [exact Te|].
             rewrite Fc in Pc, R.
             destruct (suf_rank cs phi rank Suf c k inp Hk Pc Ts) as [Hc|R']; [|fold src in R'; lia].
             exfalso. apply link_req_some in Hr; destruct Hr as [_ Hr].
             pose proof (sched_walk_none_iff (i_chain inp) (s_link st c k) (init_of cs (i_src inp)) (ptime_of cs st (i_src inp))
                           (target_of cs st c tgt) (Ilen c k inp Hk)) as [_ Hn]. rewrite (Hn Hc) in Hr. discriminate.
  Qed.

  Lemma no_circ fuel : forall acc c chain tgt,
    (forall e, In e chain -> Krel (chain_key cs c tgt) e) ->
    update_rec fuel cs st acc c chain tgt <> UCirc.
  Proof.
    induction fuel as [|fuel IH]; intros acc c chain tgt Hch; simpl; [discriminate|].
    destruct (existsb (key_eqb (chain_key cs c tgt)) chain) eqn:Ex.
    - exfalso. apply existsb_exists in Ex. destruct Ex as [e [He Heq]]. apply key_eqb_eq in Heq. subst e.
      exact (Krel_irrefl _ (Hch _ He)).
    - intros H.
      set (rec := fun c' t' => update_rec fuel cs st acc c' (chain_key cs c tgt :: chain) t') in H.
      match type of H with dep_loop cs rec ?f ?d = _ => destruct (dep_loop_inv cs rec f d _ H) as [[Hf _]|[o [lt [Hin Hc]]]] end.
      + destruct (is_time cs c); [destruct (do_update cs st c acc) as [[? ?] ?]|]; discriminate.
      + destruct (find_deps_sound _ _ _ _ _ _ Hin) as [k [inp [Hk [Ho [Hr Hlag]]]]]. subst o.
        destruct Hc as [[Ti Hrec]|[Tp [Hrec _]]]; unfold rec in Hrec; symmetry in Hrec.
        * assert (Hstep := Krel_step c tgt chain k inp lt Hch Hk Hr Hlag). rewrite Ti in Hstep.
          exact (IH _ _ _ _ Hstep Hrec).
        * assert (Hstep := Krel_step c tgt chain k inp lt Hch Hk Hr Hlag). rewrite Tp in Hstep.
          exact (IH _ _ _ _ Hstep Hrec).
  Qed.
End NoCirc.

Lemma run_loop_no_circ cs (W : wf cs) phi rank (Suf : sufficient cs phi rank) endt fuel : forall st acc o st' acc',
  Inv cs st -> run_loop fuel cs endt st acc = (o, st', acc') -> o <> OCirc.
Proof.
  induction fuel as [|fuel IH]; intros st acc o st' acc' Hinv H; cbn [run_loop] in H.
  - inversion H; discriminate.
  - destruct (pick_min cs st 0 cs None) as [c|]; [|inversion H; discriminate].
    destruct (update_rec (rec_fuel cs) cs st acc c [] 0) as [u st1 acc1 e1| | |] eqn:U;
      try (inversion H; discriminate).
    + destruct (update_rec_ok cs W _ _ _ _ _ _ _ _ _ _ Hinv U) as [_ [_ [_ [I1 _]]]].
      destruct e1 as [[| |]|]; try (inversion H; discriminate).
      destruct (any_running st1 0 cs endt); [eapply IH; eauto|inversion H; discriminate].
    + exfalso. apply (no_circ cs phi rank Suf st Hinv (rec_fuel cs) acc c [] 0); [intros e []|exact U].
Qed.

(** ** C04: an undelayed cycle among equally advanced components is never run through *)

Fixpoint all_pass (ch : list adapter) : bool :=
  match ch with [] => true | APass :: r => all_pass r | _ => false end.

Lemma sched_walk_all_pass ch : forall ss init pt t, all_pass ch = true -> sched_walk ch ss init pt false t = Some t.
Proof.
  induction ch as [|a ch IH]; intros ss init pt t H; simpl; [reflexivity|].
  destruct ss as [|s ss]; [reflexivity|]. destruct a; try discriminate. apply IH; exact H.
Qed.

(** every member of [cyc] is a time component with an input that comes, through pass-through adapters only,
    from another member *)
Definition und_cycle (cs : composition) (cyc : list nat) : Prop :=
  cyc <> [] /\
  forall c, In c cyc -> is_time cs c = true /\
    exists k inp, nth_error (c_inputs (getc cs c)) k = Some inp /\ all_pass (i_chain inp) = true /\
                  is_static_src cs (i_src inp) = false /\ In (fst (i_src inp)) cyc.

Lemma und_cycle_not_updated cs (W : wf cs) cyc T st acc fuel c chain tgt u st' acc' e :
  und_cycle cs cyc -> (forall x, In x cyc -> s_time st x = T) ->
  update_rec fuel cs st acc c chain tgt = UUpdated u st' acc' e -> ~ In u cyc.
Proof.
  intros [_ Hc] HT U Hu.
  destruct (update_rec_props fuel cs st acc c chain tgt) as [_ HB].
  destruct (HB _ _ _ _ U) as [Tu [_ [Su _]]].
  destruct (Hc u Hu) as [_ [k [inp [Hk [Hp [Hns Hin]]]]]].
  destruct fuel as [|fuel]; [destruct Su|].
  assert (Hr : link_req cs st u k inp (next_time cs st u) = Some (next_time cs st u)).
  { rewrite (link_req_nonstatic _ _ _ _ _ _ Hns). apply sched_walk_all_pass; exact Hp. }
  destruct (Su k inp _ Hk Hr) as [H1 _].
  destruct (Hc _ Hin) as [Tsrc _]. specialize (H1 Tsrc).
  rewrite (HT _ Hin) in H1. pose proof (next_time_gt cs W st u Tu) as G. rewrite (HT u Hu) in G. lia.
Qed.

Lemma run_loop_und_cycle cs (W : wf cs) cyc T endt fuel : forall st acc o st' acc',
  und_cycle cs cyc -> (forall x, In x cyc -> s_time st x = T) -> T < endt -> Inv cs st ->
  run_loop fuel cs endt st acc = (o, st', acc') -> o <> OOk.
Proof.
  induction fuel as [|fuel IH]; intros st acc o st' acc' Hc HT Hlt Hinv H; cbn [run_loop] in H.
  - inversion H; discriminate.
  - destruct Hc as [Hne Hc'] eqn:Ecyc. clear Ecyc.
    assert (Hcyc : und_cycle cs cyc) by (split; assumption).
    destruct (pick_min cs st 0 cs None) as [c|] eqn:PM.
    + destruct (update_rec (rec_fuel cs) cs st acc c [] 0) as [u st1 acc1 e1| | |] eqn:U;
        try (inversion H; discriminate).
      destruct (update_rec_ok cs W _ _ _ _ _ _ _ _ _ _ Hinv U) as [_ [_ [_ [I1 [_ Tother]]]]].
      pose proof (und_cycle_not_updated cs W cyc T st acc _ c [] 0 u st1 acc1 e1 Hcyc HT U) as Hnu.
      assert (HT1 : forall x, In x cyc -> s_time st1 x = T).
      { intros x Hx. rewrite Tother; [apply HT; exact Hx|]. intros ->. exact (Hnu Hx). }
      destruct e1 as [[| |]|]; try (inversion H; discriminate).
      destruct (any_running st1 0 cs endt) eqn:AR; [eapply IH; eauto|].
      exfalso. destruct cyc as [|x cyc']; [congruence|].
      destruct (Hc' x (or_introl eq_refl)) as [Tx _].
      destruct (is_time_kind cs x Tx) as [s [steps [ip K]]].
      assert (Lx : (x < length cs)%nat).
      { destruct (le_lt_dec (length cs) x) as [Hge|]; [|assumption].
        unfold getc in K. rewrite nth_overflow in K by exact Hge. discriminate. }
      destruct (nth_error cs x) as [y|] eqn:E; [|apply nth_error_None in E; lia].
      pose proof (any_running_false st1 endt cs O AR x y E) as G. simpl in G.
      unfold getc in K. rewrite (nth_error_nth _ _ _ E) in K.
      specialize (G (ex_intro _ s (ex_intro _ steps (ex_intro _ ip K)))).
      rewrite (HT1 x (or_introl eq_refl)) in G. lia.
    + (* no time component: impossible, the cycle has one *)
      exfalso. destruct cyc as [|x cyc']; [congruence|].
      destruct (Hc' x (or_introl eq_refl)) as [Tx _].
      pose proof (pick_min_spec_gen cs st cs O None) as G. rewrite PM in G. simpl in G.
      assert (Hn : forall c', (c' < length cs)%nat -> is_time cs c' = false).
      { apply G; [intros; reflexivity|intros; lia]. }
      destruct (le_lt_dec (length cs) x) as [Hge|Hl].
      * unfold is_time, getc in Tx. rewrite nth_overflow in Tx by exact Hge. discriminate.
      * rewrite (Hn x Hl) in Tx. discriminate.
Qed.

(** ** life cycle (C03): shape of the call sequence *)
Definition phase (c : call) : nat := match c with KI => 0 | KC => 1 | KV => 2 | KU => 3 | KF => 4 end.

Fixpoint nondecreasing (l : list nat) : Prop :=
  match l with
  | a :: ((b :: _) as r) => (a <= b)%nat /\ nondecreasing r
  | _ => True
  end.

Definition hd_ge (a : nat) (l : list nat) : Prop := match l with [] => True | b :: _ => (a <= b)%nat end.

Lemma nd_cons a l : hd_ge a l -> nondecreasing l -> nondecreasing (a :: l).
Proof. destruct l as [|b r]; simpl; auto. Qed.

Lemma nd_repeat_app a n l : hd_ge a l -> nondecreasing l -> nondecreasing (repeat a n ++ l).
Proof.
  intros H1 H2. induction n as [|n IH]; simpl; [exact H2|].
  apply nd_cons; [|exact IH]. destruct n; simpl; [exact H1|lia].
Qed.

Lemma hd_ge_repeat_app a b n l : (a <= b)%nat -> hd_ge a l -> hd_ge a (repeat b n ++ l).
Proof. intros H1 H2. destruct n; simpl; [exact H2|exact H1]. Qed.

Lemma count_call_repeat_other c d n : call_eqb c d = false -> count_call c (repeat d n) = O.
Proof. intros H. unfold count_call. induction n as [|n IH]; simpl; [reflexivity|]. now rewrite H. Qed.

Lemma count_call_repeat_same c n : count_call c (repeat c n) = n.
Proof.
  unfold count_call. induction n as [|n IH]; simpl; [reflexivity|].
  assert (call_eqb c c = true) as -> by (destruct c; reflexivity). simpl. now rewrite IH.
Qed.

Lemma count_call_app c l1 l2 : count_call c (l1 ++ l2) = (count_call c l1 + count_call c l2)%nat.
Proof. unfold count_call. now rewrite filter_app, app_length. Qed.

Lemma count_call_cons c d l : count_call c (d :: l) = ((if call_eqb c d then 1 else 0) + count_call c l)%nat.
Proof. unfold count_call. simpl. destruct (call_eqb c d); reflexivity. Qed.

Lemma map_repeat' {A B} (f : A -> B) x n : map f (repeat x n) = repeat (f x) n.
Proof. induction n as [|n IH]; simpl; [reflexivity|]. now rewrite IH. Qed.

Lemma lifecycle_eq nconn nupd :
  lifecycle nconn nupd = (KI :: repeat KC nconn ++ KV :: repeat KU nupd) ++ [KF].
Proof. unfold lifecycle. simpl. rewrite <- app_assoc. reflexivity. Qed.

Lemma lifecycle_shape nconn nupd :
  hd_error (lifecycle nconn nupd) = Some KI /\
  last (lifecycle nconn nupd) KI = KF /\
  nondecreasing (map phase (lifecycle nconn nupd)) /\
  count_call KI (lifecycle nconn nupd) = 1%nat /\ count_call KC (lifecycle nconn nupd) = nconn /\
  count_call KV (lifecycle nconn nupd) = 1%nat /\ count_call KU (lifecycle nconn nupd) = nupd /\
  count_call KF (lifecycle nconn nupd) = 1%nat.
Proof.
  split; [reflexivity|]. split; [rewrite lifecycle_eq; apply last_last|]. split.
  - unfold lifecycle. cbn [map]. rewrite map_app. cbn [map]. rewrite map_app. rewrite !map_repeat'. cbn [map phase].
    apply nd_cons; [apply hd_ge_repeat_app; simpl; lia|].
    apply nd_repeat_app; [simpl; lia|].
    apply nd_cons; [apply hd_ge_repeat_app; simpl; lia|].
    apply nd_repeat_app; simpl; auto.
  - assert (E : forall c, count_call c (lifecycle nconn nupd) =
                ((if call_eqb c KI then 1 else 0) + (count_call c (repeat KC nconn)
                 + ((if call_eqb c KV then 1 else 0) + (count_call c (repeat KU nupd) + (if call_eqb c KF then 1 else 0)))))%nat).
    { intros c. unfold lifecycle. rewrite count_call_cons, count_call_app, count_call_cons, count_call_app.
      rewrite count_call_cons. unfold count_call at 3. simpl. lia. }
    rewrite !E. cbn [call_eqb].
    rewrite !count_call_repeat_same.
    rewrite (count_call_repeat_other KI KC), (count_call_repeat_other KI KU), (count_call_repeat_other KC KU),
            (count_call_repeat_other KV KC), (count_call_repeat_other KV KU), (count_call_repeat_other KU KC),
            (count_call_repeat_other KF KC), (count_call_repeat_other KF KU) by reflexivity.
    repeat split; lia.
Qed.
