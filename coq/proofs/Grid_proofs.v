From Coq Require Import List ZArith QArith Bool Arith Lia.
From FV Require Import Base Grid.
Import ListNotations.
Open Scope nat_scope.

Lemma prod_nil : prod [] = 1.
Proof. reflexivity. Qed.
