(** Proofs about the structured-grid model FV.Grid (property C14). *)
From Coq Require Import List ZArith QArith Bool Arith Lia Lqa.
From FV Require Import Base Grid.
Import ListNotations.
Open Scope nat_scope.

(** * Generic list helpers *)
Lemma nth_map_gen {A B : Type} (f : A -> B) (l : list A) (n : nat) (d1 : B) (d2 : A) :
  n < length l -> nth n (map f l) d1 = f (nth n l d2).
Proof.
  revert n. induction l as [|x l IH]; intros n Hn; simpl in *; [lia|].
  destruct n; [reflexivity|]. apply IH. lia.
Qed.

Lemma nth_map_seq {B : Type} (f : nat -> B) (len n : nat) (d : B) :
  n < len -> nth n (map f (seq 0 len)) d = f n.
Proof.
  intros Hn. rewrite (nth_map_gen f (seq 0 len) n d 0) by (rewrite seq_length; exact Hn).
  rewrite seq_nth by exact Hn. reflexivity.
Qed.

Lemma Forall2_length' {A B : Type} (R : A -> B -> Prop) l1 l2 :
  Forall2 R l1 l2 -> length l1 = length l2.
Proof. induction 1; simpl; congruence. Qed.

Lemma Forall2_app' {A B : Type} (R : A -> B -> Prop) l1 l2 m1 m2 :
  Forall2 R l1 l2 -> Forall2 R m1 m2 -> Forall2 R (l1 ++ m1) (l2 ++ m2).
Proof. induction 1; simpl; auto. Qed.

Lemma Forall2_rev' {A B : Type} (R : A -> B -> Prop) l1 l2 :
  Forall2 R l1 l2 -> Forall2 R (rev l1) (rev l2).
Proof.
  induction 1; simpl; [constructor|]. apply Forall2_app'; [assumption|]. constructor; [assumption|constructor].
Qed.

(** * Mixed-radix flattening *)
Lemma prod_app l1 l2 : prod (l1 ++ l2) = prod l1 * prod l2.
Proof. induction l1 as [|x l1 IH]; simpl; [lia|]. rewrite IH. lia. Qed.

Lemma prod_rev l : prod (rev l) = prod l.
Proof. induction l as [|x l IH]; simpl; [reflexivity|]. rewrite prod_app, IH. simpl. lia. Qed.

Lemma inb_length sh idx : inb sh idx -> length idx = length sh.
Proof. apply Forall2_length'. Qed.

Lemma inb_rev sh idx : inb sh idx -> inb (rev sh) (rev idx).
Proof. apply Forall2_rev'. Qed.

Lemma flatC_lt sh idx : inb sh idx -> flatC sh idx < prod sh.
Proof.
  unfold inb. induction 1 as [|i n idx sh Hi _ IH]; simpl; [lia|]. nia.
Qed.

Lemma flatF_lt sh idx : inb sh idx -> flatF sh idx < prod sh.
Proof.
  unfold inb. induction 1 as [|i n idx sh Hi _ IH]; simpl; [lia|]. nia.
Qed.

Lemma unflatC_flatC sh idx : inb sh idx -> unflatC sh (flatC sh idx) = idx.
Proof.
  unfold inb. induction 1 as [|i n idx sh Hi H IH]; simpl; [reflexivity|].
  pose proof (flatC_lt sh idx H) as Hlt.
  assert (Hp : prod sh <> 0) by lia.
  rewrite Nat.div_add_l by exact Hp. rewrite (Nat.div_small _ _ Hlt).
  rewrite (Nat.add_comm (i * prod sh)), Nat.mod_add by exact Hp. rewrite (Nat.mod_small _ _ Hlt).
  rewrite IH. f_equal. lia.
Qed.

Lemma unflatF_flatF sh idx : inb sh idx -> unflatF sh (flatF sh idx) = idx.
Proof.
  unfold inb. induction 1 as [|i n idx sh Hi H IH]; simpl; [reflexivity|].
  assert (Hn : n <> 0) by lia.
  rewrite (Nat.mul_comm n), Nat.mod_add by exact Hn. rewrite (Nat.mod_small _ _ Hi).
  rewrite Nat.div_add by exact Hn. rewrite (Nat.div_small _ _ Hi). simpl.
  rewrite IH. reflexivity.
Qed.

Lemma flatC_unflatC sh : forall n, n < prod sh -> flatC sh (unflatC sh n) = n.
Proof.
  induction sh as [|d sh IH]; intros n Hn; simpl in *; [lia|].
  assert (Hp : prod sh <> 0) by (intros E; rewrite E in Hn; lia).
  rewrite IH by (apply Nat.mod_upper_bound; exact Hp).
  pose proof (Nat.div_mod_eq n (prod sh)). lia.
Qed.

Lemma flatF_unflatF sh : forall n, n < prod sh -> flatF sh (unflatF sh n) = n.
Proof.
  induction sh as [|d sh IH]; intros n Hn; simpl in *; [lia|].
  assert (Hd : d <> 0) by (intros E; rewrite E in Hn; lia).
  rewrite IH.
  - pose proof (Nat.div_mod_eq n d). lia.
  - apply Nat.div_lt_upper_bound; [exact Hd|exact Hn].
Qed.

Lemma unflatC_inb sh : forall n, n < prod sh -> inb sh (unflatC sh n).
Proof.
  unfold inb. induction sh as [|d sh IH]; intros n Hn; simpl in *; [constructor|].
  assert (Hp : prod sh <> 0) by (intros E; rewrite E in Hn; lia).
  constructor.
  - apply Nat.div_lt_upper_bound; [exact Hp|lia].
  - apply IH. apply Nat.mod_upper_bound. exact Hp.
Qed.

Lemma unflatF_inb sh : forall n, n < prod sh -> inb sh (unflatF sh n).
Proof.
  unfold inb. induction sh as [|d sh IH]; intros n Hn; simpl in *; [constructor|].
  assert (Hd : d <> 0) by (intros E; rewrite E in Hn; lia).
  constructor.
  - apply Nat.mod_upper_bound. exact Hd.
  - apply IH. apply Nat.div_lt_upper_bound; [exact Hd|exact Hn].
Qed.

Lemma flatF_app sh1 : forall idx1 n i, length idx1 = length sh1 ->
  flatF (sh1 ++ [n]) (idx1 ++ [i]) = flatF sh1 idx1 + prod sh1 * i.
Proof.
  induction sh1 as [|d sh1 IH]; intros idx1 n i Hl; destruct idx1 as [|j idx1]; simpl in *; try lia.
  rewrite IH by lia. lia.
Qed.

(** numpy: C-order flattening is F-order flattening of the transposed array *)
Lemma flatC_rev sh : forall idx, length idx = length sh -> flatC sh idx = flatF (rev sh) (rev idx).
Proof.
  induction sh as [|d sh IH]; intros idx Hl; destruct idx as [|i idx]; simpl in *; try lia.
  rewrite flatF_app by (rewrite !rev_length; lia).
  rewrite <- IH by lia. rewrite prod_rev. lia.
Qed.

Lemma flatF_rev sh idx : length idx = length sh -> flatF sh idx = flatC (rev sh) (rev idx).
Proof.
  intros Hl. rewrite flatC_rev by (rewrite !rev_length; exact Hl). rewrite !rev_involutive. reflexivity.
Qed.

Lemma flat_lt c sh idx : inb sh idx -> flat c sh idx < prod sh.
Proof. destruct c; [apply flatC_lt|apply flatF_lt]. Qed.

Lemma unflat_flat c sh idx : inb sh idx -> unflat c sh (flat c sh idx) = idx.
Proof. destruct c; [apply unflatC_flatC|apply unflatF_flatF]. Qed.

Lemma flat_unflat c sh n : n < prod sh -> flat c sh (unflat c sh n) = n.
Proof. destruct c; [apply flatC_unflatC|apply flatF_unflatF]. Qed.

Lemma unflat_inb c sh n : n < prod sh -> inb sh (unflat c sh n).
Proof. destruct c; [apply unflatC_inb|apply unflatF_inb]. Qed.

(** flattening in one order = flattening the reversed index of the reversed shape in the other *)
Lemma flat_rev c sh idx : length idx = length sh -> flat c (rev sh) idx = flat (negb c) sh (rev idx).
Proof.
  intros Hl. destruct c; simpl.
  - rewrite flatC_rev by (rewrite rev_length; exact Hl). rewrite rev_involutive. reflexivity.
  - rewrite flatF_rev by (rewrite rev_length; exact Hl). rewrite rev_involutive. reflexivity.
Qed.

(** * Points *)
Lemma coords_length axes : forall idx, length idx = length axes -> length (coords axes idx) = length axes.
Proof.
  induction axes as [|ax axes IH]; intros idx Hl; destruct idx; simpl in *; try lia. rewrite IH; lia.
Qed.

Lemma coords_app a1 : forall i1 a2 i2, length i1 = length a1 ->
  coords (a1 ++ a2) (i1 ++ i2) = coords a1 i1 ++ coords a2 i2.
Proof.
  induction a1 as [|ax a1 IH]; intros i1 a2 i2 Hl; destruct i1; simpl in *; try lia; [reflexivity|].
  rewrite IH by lia. reflexivity.
Qed.

Lemma coords_rev axes : forall idx, length idx = length axes ->
  coords axes (rev idx) = rev (coords (rev axes) idx).
Proof.
  induction axes as [|ax axes IH]; intros idx Hl.
  - destruct idx; simpl in *; try lia. reflexivity.
  - destruct (rev idx) as [|i ridx] eqn:E.
    + apply (f_equal (@length nat)) in E. rewrite rev_length in E. simpl in *. lia.
    + assert (Hidx : idx = rev ridx ++ [i]).
      { rewrite <- (rev_involutive idx), E. reflexivity. }
      subst idx. simpl. rewrite app_length, rev_length in Hl. simpl in Hl.
      rewrite coords_app by (rewrite !rev_length; lia).
      rewrite rev_app_distr. simpl.
      rewrite <- IH by (rewrite rev_length; lia). rewrite rev_involutive. reflexivity.
Qed.

Lemma gen_points_length axes c inc :
  length (gen_points axes c inc) = prod (map (@length Q) (dir_axes inc axes)).
Proof. unfold gen_points. rewrite map_length, seq_length. reflexivity. Qed.

Lemma gen_points_nth axes c inc idx :
  inb (map (@length Q) (dir_axes inc axes)) idx ->
  nth (flat c (map (@length Q) (dir_axes inc axes)) idx) (gen_points axes c inc) [] =
  coords (dir_axes inc axes) idx.
Proof.
  intros Hin. unfold gen_points.
  rewrite nth_map_seq by (apply flat_lt; exact Hin).
  rewrite unflat_flat by exact Hin. reflexivity.
Qed.

Lemma dir_axes_lengths inc : forall axes,
  map (@length Q) (dir_axes inc axes) = map (@length Q) axes.
Proof.
  induction inc as [|b inc IH]; intros axes; destruct axes as [|ax axes]; simpl; try reflexivity.
  rewrite IH. destruct b; [reflexivity|]. rewrite rev_length. reflexivity.
Qed.

Lemma mids_length ax : length (mids ax) = length ax - 1.
Proof.
  induction ax as [|a ax IH]; simpl; [reflexivity|].
  destruct ax as [|b ax]; simpl in *; [reflexivity|]. rewrite IH. lia.
Qed.

Lemma cell_axis_length ax : 1 <= length ax -> length (cell_axis ax) = Nat.max (length ax - 1) 1.
Proof.
  intros H. unfold cell_axis. destruct (1 <? length ax) eqn:E.
  - apply Nat.ltb_lt in E. rewrite mids_length. lia.
  - apply Nat.ltb_ge in E. lia.
Qed.

Lemma cell_axes_lengths g : wf_grid g -> map (@length Q) (cell_axes g) = cshape_of (dims g).
Proof.
  intros [_ Hax]. unfold cell_axes, cshape_of, dims. rewrite !map_map.
  apply map_ext_in. intros ax Hin. rewrite Forall_forall in Hax.
  apply cell_axis_length. apply Hax. exact Hin.
Qed.

Lemma cshape_of_rev l : cshape_of (rev l) = rev (cshape_of l).
Proof. unfold cshape_of. apply map_rev. Qed.

(** shape of the located axes, in xyz order *)
Definition loc_shape (g : grid) : list nat := if g_pts g then dims g else cshape_of (dims g).

Lemma loc_axes_lengths g : wf_grid g -> map (@length Q) (dir_axes (g_inc g) (loc_axes g)) = loc_shape g.
Proof.
  intros Hwf. rewrite dir_axes_lengths. unfold loc_axes, loc_shape.
  destruct (g_pts g); [reflexivity|]. apply cell_axes_lengths. exact Hwf.
Qed.

Lemma data_shape_loc g : data_shape g = mrev (g_rev g) (loc_shape g).
Proof.
  unfold data_shape, loc_shape, mrev. destruct (g_rev g), (g_pts g); try reflexivity.
  apply cshape_of_rev.
Qed.

Lemma data_points_gen g : data_points g = gen_points (loc_axes g) (point_order g) (g_inc g).
Proof. unfold data_points, loc_axes, points, cell_centers. destruct (g_pts g); reflexivity. Qed.

Lemma data_points_length g : wf_grid g -> length (data_points g) = data_size g.
Proof.
  intros Hwf. rewrite data_points_gen, gen_points_length, loc_axes_lengths by exact Hwf.
  unfold data_size. rewrite data_shape_loc. unfold mrev. destruct (g_rev g); [|reflexivity].
  rewrite prod_rev. reflexivity.
Qed.

(** C14_index_coord *)
Theorem index_coord g i :
  wf_grid g -> inb (data_shape g) i ->
  flat (g_c g) (data_shape g) i < length (data_points g) /\
  nth (flat (g_c g) (data_shape g) i) (data_points g) [] = coord_at g i.
Proof.
  intros Hwf Hin. split.
  { rewrite data_points_length by exact Hwf. apply flat_lt. exact Hin. }
  pose proof (loc_axes_lengths g Hwf) as Hlen.
  rewrite data_points_gen. unfold coord_at, data_axes. rewrite data_shape_loc in *.
  unfold point_order, mrev in *. destruct (g_rev g).
  - assert (Hl : length i = length (loc_shape g)).
    { apply inb_length in Hin. rewrite rev_length in Hin. exact Hin. }
    rewrite flat_rev by exact Hl.
    assert (Hin' : inb (loc_shape g) (rev i)).
    { apply inb_rev in Hin. rewrite rev_involutive in Hin. exact Hin. }
    rewrite <- Hlen in Hin' |- *.
    rewrite gen_points_nth by exact Hin'.
    apply coords_rev. rewrite Hl, <- Hlen, map_length. reflexivity.
  - rewrite <- Hlen in Hin |- *. apply gen_points_nth. exact Hin.
Qed.

(** * Cells *)
(** squeeze: the entries of an index at the non-degenerate axes *)
Fixpoint sqz (dms x : list nat) : list nat :=
  match dms, x with
  | d :: r, i :: s => if nondeg d then i :: sqz r s else sqz r s
  | _, _ => []
  end.

(** a shape over the non-degenerate axes put back into all axes (1 on length-1 axes) *)
Fixpoint exp1 (dms s : list nat) : list nat :=
  match dms with
  | [] => []
  | d :: r => if nondeg d
              then match s with i :: t => i :: exp1 r t | [] => 1 :: exp1 r [] end
              else 1 :: exp1 r s
  end.

Definition mdim (dms : list nat) : nat := length (filter nondeg dms).

Lemma nondeg_true d : nondeg d = true <-> 2 <= d.
Proof. unfold nondeg. rewrite Nat.ltb_lt. lia. Qed.
Lemma nondeg_false d : nondeg d = false <-> d <= 1.
Proof. unfold nondeg. rewrite Nat.ltb_ge. lia. Qed.

Lemma cdim_length dms : length (cdim_of dms) = mdim dms.
Proof. unfold cdim_of, mdim. apply map_length. Qed.

Lemma cshape_exp1 dms : Forall (fun d => 1 <= d) dms -> cshape_of dms = exp1 dms (cdim_of dms).
Proof.
  induction 1 as [|d dms Hd _ IH]; [reflexivity|].
  unfold cshape_of, cdim_of in *. simpl. destruct (nondeg d) eqn:E; simpl; rewrite IH.
  - apply nondeg_true in E. f_equal. lia.
  - apply nondeg_false in E. f_equal. lia.
Qed.

Lemma dims_exp1 dms : Forall (fun d => 1 <= d) dms -> dms = exp1 dms (map S (cdim_of dms)).
Proof.
  induction 1 as [|d dms Hd _ IH]; [reflexivity|].
  unfold cdim_of in *. simpl. destruct (nondeg d) eqn:E; simpl; rewrite <- IH.
  - apply nondeg_true in E. f_equal. lia.
  - apply nondeg_false in E. f_equal. lia.
Qed.

Lemma prod_exp1 dms : forall s, length s = mdim dms -> prod (exp1 dms s) = prod s.
Proof.
  unfold mdim. induction dms as [|d dms IH]; intros s Hl; simpl in *.
  - destruct s; simpl in *; [reflexivity|lia].
  - destruct (nondeg d); simpl in *.
    + destruct s as [|i t]; simpl in *; [lia|]. rewrite IH by lia. reflexivity.
    + rewrite IH by exact Hl. lia.
Qed.

Lemma flatF_embed dms : forall s x, length s = mdim dms -> length x = mdim dms ->
  flatF (exp1 dms s) (embed dms x) = flatF s x.
Proof.
  unfold mdim. induction dms as [|d dms IH]; intros s x Hs Hx; simpl in *.
  - destruct s, x; simpl in *; lia.
  - destruct (nondeg d); simpl in *.
    + destruct s as [|n t], x as [|i y]; simpl in *; try lia. rewrite IH by lia. reflexivity.
    + rewrite IH by assumption. lia.
Qed.

Lemma flatC_embed dms : forall s x, length s = mdim dms -> length x = mdim dms ->
  flatC (exp1 dms s) (embed dms x) = flatC s x.
Proof.
  induction dms as [|d dms IH]; intros s x Hs Hx; unfold mdim in *; simpl in *.
  - destruct s, x; simpl in *; lia.
  - destruct (nondeg d); simpl in *.
    + destruct s as [|n t], x as [|i y]; simpl in *; try lia.
      rewrite IH by lia. rewrite (prod_exp1 dms t) by (unfold mdim; lia). reflexivity.
    + rewrite IH by assumption. lia.
Qed.

Lemma flat_embed c dms s x : length s = mdim dms -> length x = mdim dms ->
  flat c (exp1 dms s) (embed dms x) = flat c s x.
Proof. destruct c; [apply flatC_embed|apply flatF_embed]. Qed.

Lemma inb_embed dms : forall s x, length s = mdim dms -> inb s x -> inb (exp1 dms s) (embed dms x).
Proof.
  unfold inb, mdim. induction dms as [|d dms IH]; intros s x Hs Hin; simpl in *; [constructor|].
  destruct (nondeg d); simpl in *.
  - destruct Hin as [|i n y t Hi Hin]; simpl in *; [lia|]. constructor; [exact Hi|]. apply IH; [lia|exact Hin].
  - constructor; [lia|]. apply IH; assumption.
Qed.

Lemma embed_sqz dms : forall ci, Forall (fun d => 1 <= d) dms -> inb (cshape_of dms) ci ->
  embed dms (sqz dms ci) = ci.
Proof.
  unfold inb, cshape_of. induction dms as [|d dms IH]; intros ci Hd Hin; simpl in *.
  - inversion Hin. reflexivity.
  - inversion Hin as [|i n y t Hi Hin' E1 E2]; subst. inversion Hd as [|? ? Hd1 Hd']; subst.
    simpl. destruct (nondeg d) eqn:E; simpl; rewrite IH by assumption; [reflexivity|].
    apply nondeg_false in E. f_equal. lia.
Qed.

Lemma sqz_inb dms : forall ci, inb (cshape_of dms) ci -> inb (cdim_of dms) (sqz dms ci).
Proof.
  unfold inb, cshape_of, cdim_of. induction dms as [|d dms IH]; intros ci Hin; simpl in *.
  - inversion Hin. constructor.
  - inversion Hin as [|i n y t Hi Hin' E1 E2]; subst. simpl.
    destruct (nondeg d) eqn:E; simpl; [|apply IH; exact Hin'].
    apply nondeg_true in E. constructor; [lia|apply IH; exact Hin'].
Qed.

Lemma addi_embed dms : forall x y, length x = mdim dms -> length y = mdim dms ->
  addi (embed dms x) (embed dms y) = embed dms (addi x y).
Proof.
  unfold mdim. induction dms as [|d dms IH]; intros x y Hx Hy; simpl in *; [reflexivity|].
  destruct (nondeg d); simpl in *.
  - destruct x as [|i x], y as [|j y]; simpl in *; try lia. rewrite IH by lia. reflexivity.
  - rewrite IH by assumption. reflexivity.
Qed.

Lemma addi_length x : forall y, length x = length y -> length (addi x y) = length x.
Proof. induction x as [|i x IH]; intros y Hl; destruct y; simpl in *; try lia. rewrite IH; lia. Qed.

Lemma addi_inb cd : forall si off, inb cd si -> Forall (fun o => o <= 1) off -> length off = length cd ->
  inb (map S cd) (addi si off).
Proof.
  unfold inb. induction cd as [|n cd IH]; intros si off Hin Ho Hl.
  - inversion Hin; subst. destruct off; simpl in *; [constructor|lia].
  - inversion Hin as [|i n' y t Hi Hin' E1 E2]; subst. destruct off as [|o off]; simpl in *; [lia|].
    inversion Ho; subst. constructor; [lia|]. apply IH; [assumption|assumption|lia].
Qed.

Lemma corners_ok m : m <= 3 ->
  Forall (fun off => length off = m /\ Forall (fun o => o <= 1) off) (corners m).
Proof.
  intros Hm. destruct m as [|[|[|[|m]]]]; [| | | |lia]; simpl;
  repeat (constructor; [split; [reflexivity|repeat constructor]|]); constructor.
Qed.

Ltac list_nia :=
  repeat match goal with |- _ :: _ = _ :: _ => apply (f_equal2 (@cons nat)); [nia|] end; try reflexivity.

(** the F-order cell formulas on the non-degenerate axes *)
Lemma cells_F_spec cd si :
  length cd <= 3 -> inb cd si ->
  nth (flatF cd si) (cells_F cd) [] = map (fun off => flatF (map S cd) (addi si off)) (corners (length cd)).
Proof.
  intros Hm Hin. pose proof (flatF_lt cd si Hin) as Hlt. unfold inb in Hin.
  destruct cd as [|cx [|cy [|cz [|? ?]]]]; simpl in Hm; try lia.
  - inversion Hin; subst. reflexivity.
  - inversion Hin as [|i ? y t Hi Hin1]; subst. inversion Hin1; subst.
    unfold cells_F. rewrite nth_map_seq by exact Hlt. simpl. list_nia.
  - inversion Hin as [|i ? y t Hi Hin1]; subst. inversion Hin1 as [|j ? y' t' Hj Hin2]; subst.
    inversion Hin2; subst.
    unfold cells_F. rewrite nth_map_seq by exact Hlt. simpl in *.
    assert (E : (i + cx * (j + cy * 0)) / cx = j).
    { symmetry. apply (Nat.div_unique _ cx j i); [exact Hi|lia]. }
    rewrite E. list_nia.
  - inversion Hin as [|i ? y t Hi Hin1]; subst. inversion Hin1 as [|j ? y' t' Hj Hin2]; subst.
    inversion Hin2 as [|k ? y'' t'' Hk Hin3]; subst. inversion Hin3; subst.
    unfold cells_F. rewrite nth_map_seq by exact Hlt. simpl in *.
    assert (E1 : (i + cx * (j + cy * (k + cz * 0))) / (cx * cy) = k).
    { symmetry. apply (Nat.div_unique _ (cx * cy) k (i + cx * j)); nia. }
    assert (E2 : (i + cx * (j + cy * (k + cz * 0))) mod (cx * cy) = i + cx * j).
    { symmetry. apply (Nat.mod_unique _ (cx * cy) k (i + cx * j)); nia. }
    assert (E3 : (i + cx * j) / cx = j).
    { symmetry. apply (Nat.div_unique _ cx j i); [exact Hi|lia]. }
    rewrite E1, E2, E3. list_nia.
Qed.

Lemma flat_rank1 sh idx : length sh <= 1 -> length idx = length sh -> flatC sh idx = flatF sh idx.
Proof.
  intros H1 H2. destruct sh as [|n [|? ?]], idx as [|i [|? ?]]; simpl in *; try lia.
Qed.

Lemma flat_dims_embed c dms x : Forall (fun d => 1 <= d) dms -> length x = mdim dms ->
  flat c dms (embed dms x) = flat c (map S (cdim_of dms)) x.
Proof.
  intros Hd Hx.
  pose proof (flat_embed c dms (map S (cdim_of dms)) x) as E.
  rewrite <- (dims_exp1 dms Hd) in E. apply E; [|exact Hx].
  rewrite map_length. apply cdim_length.
Qed.

Lemma flat_cshape_embed c dms x : Forall (fun d => 1 <= d) dms -> length x = mdim dms ->
  flat c (cshape_of dms) (embed dms x) = flat c (cdim_of dms) x.
Proof.
  intros Hd Hx. rewrite (cshape_exp1 dms Hd). apply flat_embed; [apply cdim_length|exact Hx].
Qed.

Lemma inb_dims_embed dms x : Forall (fun d => 1 <= d) dms ->
  inb (map S (cdim_of dms)) x -> inb dms (embed dms x).
Proof.
  intros Hd Hx. pose proof (inb_embed dms (map S (cdim_of dms)) x) as E.
  rewrite <- (dims_exp1 dms Hd) in E. apply E; [|exact Hx].
  rewrite map_length. apply cdim_length.
Qed.

(** corner [off] of the cell with (full) cell index [ci] is a valid node index *)
Lemma corner_inb dms ci off :
  Forall (fun d => 1 <= d) dms -> mdim dms <= 3 -> inb (cshape_of dms) ci -> In off (corners (mdim dms)) ->
  addi ci (embed dms off) = embed dms (addi (sqz dms ci) off) /\
  inb (map S (cdim_of dms)) (addi (sqz dms ci) off) /\
  inb dms (addi ci (embed dms off)).
Proof.
  intros Hd Hm Hci Hoff.
  pose proof (corners_ok _ Hm) as Hc. rewrite Forall_forall in Hc. destruct (Hc off Hoff) as [Hlo Ho1].
  pose proof (sqz_inb dms ci Hci) as Hsi.
  assert (Hlsi : length (sqz dms ci) = mdim dms).
  { rewrite (inb_length _ _ Hsi). apply cdim_length. }
  assert (E : addi ci (embed dms off) = embed dms (addi (sqz dms ci) off)).
  { rewrite <- (embed_sqz dms ci Hd Hci) at 1. apply addi_embed; assumption. }
  assert (Hin : inb (map S (cdim_of dms)) (addi (sqz dms ci) off)).
  { apply addi_inb; [exact Hsi|exact Ho1|]. rewrite cdim_length. exact Hlo. }
  split; [exact E|]. split; [exact Hin|]. rewrite E. apply inb_dims_embed; assumption.
Qed.

(** C14_cells_valid, part 1: the nodes of every cell *)
Theorem cells_corners dms c ci :
  Forall (fun d => 1 <= d) dms -> mdim dms <= 3 -> inb (cshape_of dms) ci ->
  nth (flat c (cshape_of dms) ci) (gen_cells dms c) [] =
  map (fun off => flat c dms (addi ci (embed dms off))) (corners (mdim dms)).
Proof.
  intros Hd Hm Hci.
  pose proof (sqz_inb dms ci Hci) as Hsi.
  assert (Hlcd : length (cdim_of dms) = mdim dms) by apply cdim_length.
  assert (Hlsi : length (sqz dms ci) = mdim dms).
  { rewrite (inb_length _ _ Hsi). exact Hlcd. }
  (* position *)
  rewrite <- (embed_sqz dms ci Hd Hci) at 1.
  rewrite flat_cshape_embed by assumption.
  (* nodes *)
  rewrite (map_ext_in _ (fun off => flat c (map S (cdim_of dms)) (addi (sqz dms ci) off))).
  2:{ intros off Hoff. destruct (corner_inb dms ci off Hd Hm Hci Hoff) as [E [Hin _]].
      rewrite E. apply flat_dims_embed; [exact Hd|].
      rewrite (inb_length _ _ Hin), map_length. exact Hlcd. }
  set (cd := cdim_of dms) in *. set (si := sqz dms ci) in *.
  assert (Hm' : length cd <= 3) by lia.
  unfold gen_cells. fold cd. rewrite <- Hlcd.
  destruct c; simpl andb; simpl flat; [|apply cells_F_spec; assumption].
  destruct (1 <? length cd) eqn:E1.
  - (* reordered *)
    rewrite nth_map_seq by (apply flatC_lt; exact Hsi).
    rewrite unflatC_flatC by exact Hsi.
    rewrite (nth_map_gen _ (cells_F cd) _ [] []).
    2:{ assert (length (cells_F cd) = prod cd) as ->.
        { unfold cells_F. destruct cd as [|? [|? [|? ?]]]; simpl in E1; try discriminate;
          rewrite map_length, seq_length; reflexivity. }
        apply flatF_lt. exact Hsi. }
    rewrite cells_F_spec by assumption. rewrite map_map.
    apply map_ext_in. intros off Hoff. rewrite Hlcd in Hoff.
    destruct (corner_inb dms ci off Hd Hm Hci Hoff) as [E [Hin Hin2]].
    fold cd si in Hin, E.
    assert (Hlx : length (addi si off) = mdim dms).
    { rewrite (inb_length _ _ Hin), map_length. exact Hlcd. }
    pose proof (flat_dims_embed false dms (addi si off) Hd Hlx) as EF. simpl in EF. fold cd in EF.
    pose proof (flat_dims_embed true dms (addi si off) Hd Hlx) as EC. simpl in EC. fold cd in EC.
    rewrite <- EF, <- EC. rewrite unflatF_flatF; [reflexivity|].
    rewrite <- E. exact Hin2.
  - apply Nat.ltb_ge in E1.
    rewrite (flat_rank1 cd si) by (try exact E1; apply (inb_length _ _ Hsi)).
    rewrite cells_F_spec by assumption.
    apply map_ext_in. intros off Hoff. rewrite Hlcd in Hoff.
    destruct (corner_inb dms ci off Hd Hm Hci Hoff) as [_ [Hin _]]. fold cd si in Hin.
    symmetry. apply flat_rank1; [rewrite map_length; exact E1|apply (inb_length _ _ Hin)].
Qed.

Lemma cells_F_length cd : length (cells_F cd) = prod cd.
Proof.
  unfold cells_F. destruct cd as [|? [|? [|? ?]]]; try (rewrite map_length, seq_length); reflexivity.
Qed.

Lemma gen_cells_length dms c : Forall (fun d => 1 <= d) dms ->
  length (gen_cells dms c) = prod (cshape_of dms).
Proof.
  intros Hd. rewrite (cshape_exp1 dms Hd), prod_exp1 by apply cdim_length.
  unfold gen_cells. destruct (c && (1 <? length (cdim_of dms))).
  - rewrite map_length, seq_length. reflexivity.
  - apply cells_F_length.
Qed.

(** C14_cells_valid, part 2: every cell references existing points *)
Theorem cells_in_range dms c :
  Forall (fun d => 1 <= d) dms -> mdim dms <= 3 ->
  Forall (Forall (fun p => p < prod dms)) (gen_cells dms c).
Proof.
  intros Hd Hm. apply Forall_forall. intros cell Hcell.
  destruct (In_nth _ _ [] Hcell) as [n [Hn E]]. rewrite gen_cells_length in Hn by exact Hd.
  pose proof (unflat_inb c _ _ Hn) as Hci.
  rewrite <- (flat_unflat c _ _ Hn) in E.
  rewrite cells_corners in E by assumption. subst cell.
  apply Forall_forall. intros p Hp. apply in_map_iff in Hp. destruct Hp as [off [Ep Hoff]]. subst p.
  apply flat_lt. apply (corner_inb dms _ off Hd Hm Hci Hoff).
Qed.

(** * Cell centres *)
Lemma coords_nth axes : forall idx a, a < length axes -> length idx = length axes ->
  nth a (coords axes idx) 0%Q = nth (nth a idx 0) (nth a axes []) 0%Q.
Proof.
  induction axes as [|ax axes IH]; intros idx a Ha Hl; destruct idx as [|i idx]; simpl in *; try lia.
  destruct a; [reflexivity|]. apply IH; lia.
Qed.

Lemma addi_nth x : forall y a, a < length x -> length x = length y ->
  nth a (addi x y) 0 = nth a x 0 + nth a y 0.
Proof.
  induction x as [|i x IH]; intros y a Ha Hl; destruct y as [|j y]; simpl in *; try lia.
  destruct a; [reflexivity|]. apply IH; lia.
Qed.

Lemma embed_length dms : forall x, length (embed dms x) = length dms.
Proof.
  induction dms as [|d dms IH]; intros x; simpl; [reflexivity|].
  destruct (nondeg d); [destruct x|]; simpl; rewrite IH; reflexivity.
Qed.

Lemma embed_nth dms : forall off a, a < length dms -> length off = mdim dms ->
  nth a (embed dms off) 0 = if nondeg (nth a dms 0) then nth (mdim (firstn a dms)) off 0 else 0.
Proof.
  unfold mdim. induction dms as [|d dms IH]; intros off a Ha Hl; simpl in *; [lia|].
  destruct a as [|a].
  - simpl. destruct (nondeg d); [|reflexivity]. destruct off; reflexivity.
  - simpl. destruct (nondeg d) eqn:E; simpl in *.
    + destruct off as [|i s]; simpl in *; [lia|]. apply IH; lia.
    + apply IH; [lia|exact Hl].
Qed.

Lemma pos_lt dms : forall a, a < length dms -> nondeg (nth a dms 0) = true ->
  mdim (firstn a dms) < mdim dms.
Proof.
  unfold mdim. induction dms as [|d dms IH]; intros a Ha Hn; simpl in *; [lia|].
  destruct a as [|a]; simpl in *.
  - rewrite Hn. simpl. lia.
  - specialize (IH a ltac:(lia) Hn). destruct (nondeg d); simpl; lia.
Qed.

Lemma dir_axes_nth inc : forall axes a, length inc = length axes -> a < length axes ->
  nth a (dir_axes inc axes) [] = if nth a inc true then nth a axes [] else rev (nth a axes []).
Proof.
  induction inc as [|b inc IH]; intros axes a Hl Ha; destruct axes as [|ax axes]; simpl in *; try lia.
  destruct a; [destruct b; reflexivity|]. apply IH; lia.
Qed.

Lemma mids_nth ax : forall i, i + 1 < length ax ->
  nth i (mids ax) 0%Q = ((nth i ax 0 + nth (S i) ax 0) / 2)%Q.
Proof.
  induction ax as [|x ax IH]; intros i Hi; simpl in *; [lia|].
  destruct ax as [|y ax]; simpl in *; [lia|].
  destruct i; [reflexivity|]. apply (IH i). simpl. lia.
Qed.

Lemma inb_nth sh idx a : inb sh idx -> a < length sh -> nth a idx 0 < nth a sh 0.
Proof.
  unfold inb. intros H. revert a. induction H as [|i n idx sh Hi _ IH]; intros a Ha; simpl in *; [lia|].
  destruct a; [exact Hi|]. apply IH. lia.
Qed.

Lemma qmean_corners m p (G : nat -> Q) : m <= 3 -> p < m ->
  (qmean (map (fun off => G (nth p off 0%nat)) (corners m)) == (G 0%nat + G 1%nat) / 2)%Q.
Proof.
  intros Hm Hp. destruct m as [|[|[|[|m]]]]; try lia.
  - destruct p; [|lia]. unfold qmean, qsum. simpl. field.
  - destruct p as [|[|p]]; try lia; unfold qmean, qsum; simpl; field.
  - destruct p as [|[|[|p]]]; try lia; unfold qmean, qsum; simpl; field.
Qed.

Lemma qmean_const m (K : Q) : m <= 3 ->
  (qmean (map (fun _ : list nat => K) (corners m)) == K)%Q.
Proof.
  intros Hm. destruct m as [|[|[|[|m]]]]; try lia; unfold qmean, qsum; simpl; field.
Qed.

(** one axis: the (directed) cell axis is the midpoint of the two (directed) node coordinates *)
Lemma cell_axis_mid (b : bool) ax i : 2 <= length ax -> i < length ax - 1 ->
  (nth i (if b then cell_axis ax else rev (cell_axis ax)) 0 ==
   (nth (i + 0) (if b then ax else rev ax) 0 + nth (i + 1) (if b then ax else rev ax) 0) / 2)%Q.
Proof.
  intros HL Hi. unfold cell_axis.
  assert (E : 1 <? length ax = true) by (apply Nat.ltb_lt; lia). rewrite E.
  rewrite Nat.add_0_r, Nat.add_1_r. destruct b.
  - rewrite mids_nth by lia. reflexivity.
  - rewrite rev_nth by (rewrite mids_length; lia). rewrite mids_length.
    rewrite mids_nth by lia.
    rewrite !rev_nth by lia.
    replace (S (length ax - 1 - S i)) with (length ax - S i) by lia.
    replace (length ax - S (S i)) with (length ax - 1 - S i) by lia.
    field.
Qed.

Lemma dims_ge1 g : wf_grid g -> Forall (fun d => 1 <= d) (dims g).
Proof.
  intros [_ H]. unfold dims. apply Forall_forall. intros d Hd. apply in_map_iff in Hd.
  destruct Hd as [ax [E Hax]]. subst d. rewrite Forall_forall in H. apply H. exact Hax.
Qed.

Lemma points_nth g e : inb (dims g) e ->
  nth (flat (point_order g) (dims g) e) (points g) [] = coords (dir_axes (g_inc g) (g_axes g)) e.
Proof.
  intros He. pose proof (gen_points_nth (g_axes g) (point_order g) (g_inc g) e) as P.
  rewrite dir_axes_lengths in P. apply P. exact He.
Qed.

Lemma cell_axes_nth l a : nth a (map cell_axis l) [] = cell_axis (nth a l []).
Proof. exact (map_nth cell_axis l [] a). Qed.

(** C14_centers_mean *)
Theorem centers_mean g ci a :
  wf_grid g -> mesh_dim g <= 3 -> inb (cshape_of (dims g)) ci -> a < gdim g ->
  let n := flat (point_order g) (cshape_of (dims g)) ci in
  n < length (cell_centers g) /\ n < length (node_centers g) /\
  (nth a (nth n (cell_centers g) []) 0 == nth a (nth n (node_centers g) []) 0)%Q.
Proof.
  intros Hwf Hm Hci Ha n.
  pose proof (dims_ge1 g Hwf) as Hd. destruct Hwf as [Hli Hax0]. assert (Hwf : wf_grid g) by (split; assumption).
  assert (Hm' : mdim (dims g) <= 3) by exact Hm.
  assert (Hldm : length (dims g) = gdim g) by (unfold dims, gdim; apply map_length).
  pose proof (cell_axes_lengths g Hwf) as HCA.
  assert (HCAd : map (@length Q) (dir_axes (g_inc g) (cell_axes g)) = cshape_of (dims g)).
  { rewrite dir_axes_lengths. exact HCA. }
  assert (Hn : n < prod (cshape_of (dims g))) by (apply flat_lt; exact Hci).
  assert (Hlci : length ci = gdim g).
  { rewrite (inb_length _ _ Hci). unfold cshape_of. rewrite map_length. exact Hldm. }
  split; [|split].
  { unfold cell_centers. rewrite gen_points_length, HCAd. exact Hn. }
  { unfold node_centers, gen_node_centers. rewrite map_length. unfold cells.
    rewrite gen_cells_length by exact Hd. exact Hn. }
  (* left: the cell centre from the cell axes *)
  assert (EL : nth n (cell_centers g) [] = coords (dir_axes (g_inc g) (cell_axes g)) ci).
  { unfold cell_centers, n. rewrite <- HCAd. apply gen_points_nth. rewrite HCAd. exact Hci. }
  rewrite EL.
  rewrite coords_nth.
  2:{ rewrite <- (map_length (@length Q)), HCAd. unfold cshape_of. rewrite map_length, Hldm. exact Ha. }
  2:{ rewrite <- (map_length (@length Q) (dir_axes _ _)), HCAd. unfold cshape_of. rewrite map_length, Hldm. exact Hlci. }
  (* right: mean of the nodes *)
  unfold node_centers, gen_node_centers.
  rewrite (nth_map_gen _ (cells g) n [] []) by (unfold cells; rewrite gen_cells_length by exact Hd; exact Hn).
  unfold node_center. rewrite nth_map_seq by exact Ha.
  unfold cells, n. rewrite cells_corners by assumption.
  unfold col. rewrite !map_map.
  set (A := dir_axes (g_inc g) (g_axes g)).
  set (i := nth a ci 0).
  set (ax := nth a (g_axes g) []).
  assert (Hlax : nth a (dims g) 0 = length ax).
  { unfold dims, ax. change 0 with (length (@nil Q)). apply map_nth. }
  assert (Hi : i < Nat.max (length ax - 1) 1).
  { pose proof (inb_nth _ _ a Hci) as P. unfold cshape_of in P. rewrite map_length, Hldm in P.
    specialize (P Ha). rewrite (nth_map_gen _ (dims g) a 0 0) in P by (rewrite Hldm; exact Ha).
    rewrite Hlax in P. exact P. }
  assert (EA : nth a A [] = if nth a (g_inc g) true then ax else rev ax).
  { unfold A. apply dir_axes_nth; [exact Hli|exact Ha]. }
  assert (ECA : nth a (dir_axes (g_inc g) (cell_axes g)) [] =
                if nth a (g_inc g) true then cell_axis ax else rev (cell_axis ax)).
  { rewrite dir_axes_nth.
    - unfold cell_axes, ax. rewrite cell_axes_nth. reflexivity.
    - unfold cell_axes. rewrite map_length. exact Hli.
    - unfold cell_axes. rewrite map_length. exact Ha. }
  rewrite ECA.
  destruct (nondeg (nth a (dims g) 0)) eqn:End.
  - (* a proper axis: half of the corners on either side *)
    set (p := mdim (firstn a (dims g))).
    assert (Hp : p < mdim (dims g)) by (apply pos_lt; [rewrite Hldm; exact Ha|exact End]).
    pose (G := fun t => nth (i + t) (nth a A []) 0%Q).
    rewrite (map_ext_in _ (fun off => G (nth p off 0))).
    2:{ intros off Hoff.
        destruct (corner_inb (dims g) ci off Hd Hm' Hci Hoff) as [_ [_ He]].
        rewrite points_nth by exact He. fold A.
        pose proof (corners_ok _ Hm') as Hc. rewrite Forall_forall in Hc. destruct (Hc off Hoff) as [Hlo _].
        rewrite coords_nth.
        2:{ unfold A. rewrite <- (map_length (@length Q)), dir_axes_lengths. fold (dims g). rewrite Hldm. exact Ha. }
        2:{ rewrite (inb_length _ _ He). unfold A.
            rewrite <- (map_length (@length Q) (dir_axes _ _)), dir_axes_lengths. reflexivity. }
        rewrite addi_nth by (rewrite ?embed_length; lia).
        rewrite embed_nth by (try rewrite Hldm; assumption). rewrite End. reflexivity. }
    pose proof (qmean_corners (mdim (dims g)) p G Hm' Hp) as EQ. rewrite EQ. unfold G. rewrite EA.
    apply nondeg_true in End. rewrite Hlax in End.
    apply cell_axis_mid; lia.
  - (* a length-1 axis: all corners share the coordinate *)
    apply nondeg_false in End. rewrite Hlax in End.
    assert (Hl1 : length ax = 1).
    { rewrite Forall_forall in Hax0. assert (In ax (g_axes g)) by (apply nth_In; exact Ha).
      specialize (Hax0 ax H). lia. }
    pose (K := nth i (nth a A []) 0%Q).
    rewrite (map_ext_in _ (fun _ => K)).
    2:{ intros off Hoff.
        destruct (corner_inb (dims g) ci off Hd Hm' Hci Hoff) as [_ [_ He]].
        rewrite points_nth by exact He. fold A.
        pose proof (corners_ok _ Hm') as Hc. rewrite Forall_forall in Hc. destruct (Hc off Hoff) as [Hlo _].
        rewrite coords_nth.
        2:{ unfold A. rewrite <- (map_length (@length Q)), dir_axes_lengths. fold (dims g). rewrite Hldm. exact Ha. }
        2:{ rewrite (inb_length _ _ He). unfold A.
            rewrite <- (map_length (@length Q) (dir_axes _ _)), dir_axes_lengths. reflexivity. }
        rewrite addi_nth by (rewrite ?embed_length; lia).
        rewrite embed_nth by (try rewrite Hldm; assumption).
        assert (nondeg (nth a (dims g) 0) = false) as -> by (apply nondeg_false; rewrite Hlax; lia).
        rewrite Nat.add_0_r. reflexivity. }
    pose proof (qmean_const (mdim (dims g)) K Hm') as EQ. rewrite EQ. unfold K. rewrite EA.
    unfold cell_axis. assert (1 <? length ax = false) as -> by (apply Nat.ltb_ge; lia). reflexivity.
Qed.

(** * Cast to an unstructured grid *)
Lemma points_length g : length (points g) = prod (dims g).
Proof. unfold points. rewrite gen_points_length, dir_axes_lengths. reflexivity. Qed.

Lemma data_size_loc g : data_size g = prod (loc_shape g).
Proof.
  unfold data_size. rewrite data_shape_loc. unfold mrev. destruct (g_rev g); [apply prod_rev|reflexivity].
Qed.

Theorem cast_data_points g n a :
  wf_grid g -> mesh_dim g <= 3 -> n < data_size g -> a < gdim g ->
  (nth a (nth n (u_data_points (to_unstructured g)) []) 0 == nth a (nth n (data_points g) []) 0)%Q.
Proof.
  intros Hwf Hm Hn Ha. unfold u_data_points, data_points, to_unstructured; simpl.
  rewrite data_size_loc in Hn. unfold loc_shape in Hn.
  destruct (g_pts g); [reflexivity|].
  change (u_cell_centers _) with (node_centers g).
  pose proof (unflat_inb (point_order g) _ _ Hn) as Hci.
  rewrite <- (flat_unflat (point_order g) _ _ Hn).
  symmetry. apply centers_mean; assumption.
Qed.

(** C14_unstructured_cast *)
Theorem unstructured_cast g :
  wf_grid g -> mesh_dim g <= 3 ->
  let u := to_unstructured g in
  u_points u = points g /\ u_cells u = cells g /\ u_types u = cell_types g /\
  u_data_shape u = [data_size g] /\
  (forall i a, inb (data_shape g) i -> a < gdim g ->
     (nth a (nth (flat (g_c g) (data_shape g) i) (u_data_points u) []) 0 == nth a (coord_at g i) 0)%Q).
Proof.
  intros Hwf Hm u. repeat split.
  - unfold u_data_shape, u; simpl. rewrite data_size_loc. unfold loc_shape.
    destruct (g_pts g); f_equal; [apply points_length|].
    unfold cells. apply gen_cells_length. apply dims_ge1. exact Hwf.
  - intros i a Hi Ha. destruct (index_coord g i Hwf Hi) as [Hlt E].
    rewrite <- E. apply cast_data_points; try assumption.
    rewrite <- data_points_length by exact Hwf. exact Hlt.
Qed.

(** * The data_shape / data_size memo *)
Definition memo_ok (r : rgrid) : Prop :=
  (r_shape r = None \/ r_shape r = Some (data_shape (r_g r))) /\
  (r_size r = None \/ r_size r = Some (data_size (r_g r))).

Definition read_ok (x : mres * option grid) : Prop :=
  match x with
  | (RShape s, Some g) => s = data_shape g
  | (RSize n, Some g) => n = data_size g
  | (RPoints p, Some g) => p = data_points g
  | (RQ p m, Some g) => m = prop_q p g
  | (RN p m, Some g) => m = prop_n p g
  | (RShape _, None) | (RSize _, None) | (RPoints _, None) | (RQ _ _, None) | (RN _ _, None) => False
  | _ => True
  end.

Lemma nth_error_upd {A : Type} (st : list A) : forall k r x,
  nth_error st k = Some r -> nth_error (upd k x st) k = Some x.
Proof.
  induction st as [|y st IH]; intros k r x H; destruct k; simpl in *; try discriminate; [reflexivity|].
  eapply IH. exact H.
Qed.

Lemma Forall_upd {A : Type} (P : A -> Prop) (st : list A) : forall k x,
  Forall P st -> P x -> Forall P (upd k x st).
Proof.
  induction st as [|y st IH]; intros k x H Hx; destruct k; simpl; inversion H; subst; constructor; auto.
Qed.

Lemma mstep_ok st o :
  Forall memo_ok st ->
  let k := match o with MShape k | MSize k | MPoints k | MProp _ k | MSet k _ | MCopy k => k end in
  Forall memo_ok (fst (mstep true st o)) /\
  read_ok (snd (mstep true st o), option_map r_g (nth_error (fst (mstep true st o)) k)).
Proof.
  intros Hinv k. unfold mstep. fold k.
  destruct (nth_error st k) as [r|] eqn:Er.
  2:{ destruct o; simpl; split; auto. }
  assert (Hr : memo_ok r).
  { rewrite Forall_forall in Hinv. apply Hinv. eapply nth_error_In. exact Er. }
  destruct Hr as [Hs Hz].
  destruct o as [k0|k0|k0|p k0|k0 pts|k0]; simpl in k; subst k.
  - assert (E : match r_shape r with Some s => s | None => data_shape (r_g r) end = data_shape (r_g r)).
    { destruct Hs as [-> | ->]; reflexivity. }
    rewrite E. simpl. split.
    + apply Forall_upd; [exact Hinv|]. split; simpl; auto.
    + rewrite (nth_error_upd st k0 r _ Er). simpl. reflexivity.
  - assert (E : match r_shape r with Some s => s | None => data_shape (r_g r) end = data_shape (r_g r)).
    { destruct Hs as [-> | ->]; reflexivity. }
    destruct (r_size r) as [n|] eqn:Ez.
    + simpl. split; [exact Hinv|]. rewrite Er. simpl.
      destruct Hz as [Hz|Hz]; [discriminate|]. inversion Hz. reflexivity.
    + rewrite E. simpl. split.
      * apply Forall_upd; [exact Hinv|]. split; simpl; auto.
      * rewrite (nth_error_upd st k0 r _ Er). simpl. reflexivity.
  - simpl. split; [exact Hinv|]. rewrite Er. simpl. reflexivity.
  - simpl. split; [exact Hinv|]. rewrite Er. destruct (p <? 5); simpl; reflexivity.
  - destruct (pts && g_esri (r_g r)); simpl.
    + split; [exact Hinv|]. first [exact I | match goal with |- read_ok (_, option_map _ ?e) => destruct e end; exact I].
    + split.
      * apply Forall_upd; [exact Hinv|]. split; simpl; auto.
      * first [exact I | match goal with |- read_ok (_, option_map _ ?e) => destruct e end; exact I].
  - simpl. split.
    + apply Forall_app. split; [exact Hinv|]. constructor; [split; assumption|constructor].
    + first [exact I | match goal with |- read_ok (_, option_map _ ?e) => destruct e end; exact I].
Qed.

(** C14_location_current *)
Theorem location_current_inv ops : forall st,
  Forall memo_ok st -> Forall read_ok (mrun true st ops).
Proof.
  induction ops as [|o ops IH]; intros st Hinv; simpl; [constructor|].
  pose proof (mstep_ok st o Hinv) as [H1 H2].
  destruct (mstep true st o) as [st' x] eqn:E. simpl in H1, H2.
  constructor; [exact H2|]. apply IH. exact H1.
Qed.

Theorem location_current g ops : Forall read_ok (mrun true [fresh g] ops).
Proof.
  apply location_current_inv. constructor; [|constructor]. split; left; reflexivity.
Qed.
