(** The event trace of a run as a sequence of update blocks (C05: the full series of requests every consumer
    makes is the same for every order).

    For stateless links the events of one update — every pull of every input, the request that reaches each
    source output or buffering adapter, recursively through pull-based components — are a function
    [ublock cs c nt] of the component and its new time alone.  A run's trace is the concatenation of the blocks
    of its updates, and per component the sequence of blocks is [tfun cs c 1, tfun cs c 2, ...] whatever the
    order in which the components were considered. *)
From Coq Require Import List ZArith Bool Lia Arith.
From FV Require Import Base Sched.
From FVP Require Import Adapters_proofs Sched_proofs Confluence_proofs.
Import ListNotations.
Open Scope Z_scope.

(** the pull through a chain of stateless adapters: requested time and "ended at a buffering adapter" *)
Fixpoint pe_chain (ch : list adapter) (init t : Z) : Z * bool :=
  match ch with
  | [] => (t, false)
  | ABuf :: _ => (t, true)
  | AFixed d :: ch' => pe_chain ch' init (clamp init (t - d))
  | _ :: ch' => pe_chain ch' init t
  end.

Lemma pull_chain_stateless ch : forall ss init pt t,
  forallb stateless_adapter ch = true -> length ss = length ch ->
  fst (pull_chain ch ss init pt t) = pe_chain ch init t.
Proof.
  induction ch as [|a ch IH]; intros ss init pt t H L; simpl; [destruct ss; reflexivity|].
  destruct ss as [|s ss]; [discriminate|]. simpl in H. apply andb_prop in H. destruct H as [Ha H].
  injection L as L.
  destruct a; simpl in Ha; try discriminate.
  - specialize (IH ss init pt t H L). destruct (pull_chain ch ss init pt t) as [[r b] s2]. simpl in *. exact IH.
  - simpl. specialize (IH ss init pt (clamp init (t - d)) H L).
    destruct (pull_chain ch ss init pt (clamp init (t - d))) as [[r b] s2]. simpl in *. exact IH.
  - reflexivity.
Qed.

Fixpoint pevents_list (rec : nat -> input -> list ev -> list ev) (k : nat) (ins : list input) (a : list ev) : list ev :=
  match ins with
  | [] => a
  | x :: rest => pevents_list rec (S k) rest (rec k x a)
  end.

(** the events of the pull of input [i] of [c] for [t] (prepended to [acc], newest first) *)
Fixpoint pevents (fuel : nat) (cs : composition) (c i : nat) (inp : input) (t : Z) (acc : list ev) : list ev :=
  match fuel with
  | O => acc
  | S fuel' =>
      let src := i_src inp in
      let '(r, b) := pe_chain (i_chain inp) (init_of cs src) t in
      let acc1 := EP c i t :: acc in
      if is_static_src cs src then ES (fst src) (snd src) r :: acc1
      else if b then EB c i r :: acc1
      else if is_time cs (fst src) then ES (fst src) (snd src) r :: acc1
      else pevents_list (fun k x a => pevents fuel' cs (fst src) k x r a) O (c_inputs (getc cs (fst src)))
             (ES (fst src) (snd src) r :: acc1)
  end.

(** the block of one update *)
Definition ublock (cs : composition) (c : nat) (nt : Z) (acc : list ev) : list ev :=
  pevents_list (fun k x a => pevents (S (length cs)) cs c k x nt a) O (c_inputs (getc cs c)) (EU c nt :: acc).

(** a trace from the list of updates (oldest first) *)
Definition trace (cs : composition) (us : list (nat * Z)) : list ev :=
  fold_left (fun a u => ublock cs (fst u) (snd u) a) us [].

(** blocks do not look at what precedes them *)
Lemma pevents_list_app rec : (forall k x a, rec k x a = rec k x [] ++ a) ->
  forall ins k a, pevents_list rec k ins a = pevents_list rec k ins [] ++ a.
Proof.
  intros Hrec. induction ins as [|x ins IH]; intros k a; simpl; [reflexivity|].
  rewrite (IH (S k) (rec k x a)), (IH (S k) (rec k x [])), (Hrec k x a). now rewrite app_assoc.
Qed.

Lemma pevents_list_app2 rec : (forall k x a b, rec k x (a ++ b) = rec k x a ++ b) ->
  forall ins k a b, pevents_list rec k ins (a ++ b) = pevents_list rec k ins a ++ b.
Proof.
  intros Hrec. induction ins as [|x ins IH]; intros k a b; simpl; [reflexivity|].
  rewrite Hrec. apply IH.
Qed.

Lemma pevents_app cs fuel : forall c i inp t a b, pevents fuel cs c i inp t (a ++ b) = pevents fuel cs c i inp t a ++ b.
Proof.
  induction fuel as [|fuel IH]; intros c i inp t a b; simpl; [reflexivity|].
  destruct (pe_chain (i_chain inp) (init_of cs (i_src inp)) t) as [r bf].
  destruct (is_static_src cs (i_src inp)); [reflexivity|].
  destruct bf; [reflexivity|].
  destruct (is_time cs (fst (i_src inp))); [reflexivity|].
  change (ES (fst (i_src inp)) (snd (i_src inp)) r :: EP c i t :: a ++ b)
    with ((ES (fst (i_src inp)) (snd (i_src inp)) r :: EP c i t :: a) ++ b).
  apply pevents_list_app2. intros k x a0 b0. apply IH.
Qed.

Lemma ublock_app cs c nt a : ublock cs c nt a = ublock cs c nt [] ++ a.
Proof.
  unfold ublock. change (EU c nt :: a) with ([EU c nt] ++ a).
  apply pevents_list_app2. intros k x a0 b0. apply pevents_app.
Qed.

(** LenInv is kept by pulls *)
Lemma upd2_len cs st c i ss' inp :
  LenInv cs st -> nth_error (c_inputs (getc cs c)) i = Some inp -> length ss' = length (i_chain inp) ->
  LenInv cs (mkS (s_time st) (s_cnt st) (upd2 (s_link st) c i ss')).
Proof.
  intros L Hi Hl c' k' inp' Hk'. simpl. unfold upd2.
  destruct (Nat.eqb c' c && Nat.eqb k' i) eqn:E; [|apply L; exact Hk'].
  apply andb_prop in E. destruct E as [E1 E2]. apply Nat.eqb_eq in E1, E2. subst.
  rewrite Hi in Hk'. inversion Hk'; subst. exact Hl.
Qed.

(** a successful pull over stateless links produces exactly [pevents] *)
Lemma pull_list_events cs (SL : stateless cs) c (prec : nat -> input -> state -> list ev -> state * list ev * option err)
  (erec : nat -> input -> list ev -> list ev) :
  (forall k x s a s' a', nth_error (c_inputs (getc cs c)) k = Some x -> LenInv cs s ->
      prec k x s a = (s', a', None) -> a' = erec k x a /\ LenInv cs s') ->
  forall ins k0 s a s' a',
    (forall j x, nth_error ins j = Some x -> nth_error (c_inputs (getc cs c)) (k0 + j) = Some x) ->
    LenInv cs s -> pull_list prec k0 ins s a = (s', a', None) ->
    a' = pevents_list erec k0 ins a /\ LenInv cs s'.
Proof.
  intros Hrec. induction ins as [|x ins IH]; intros k0 s a s' a' Hidx L H; simpl in H.
  - inversion H; subst. simpl. auto.
  - destruct (prec k0 x s a) as [[s2 a2] e2] eqn:R. destruct e2 as [e2|]; [inversion H|].
    assert (Hx : nth_error (c_inputs (getc cs c)) k0 = Some x).
    { specialize (Hidx O x eq_refl). now rewrite Nat.add_0_r in Hidx. }
    destruct (Hrec _ _ _ _ _ _ Hx L R) as [E2 L2]. subst a2. simpl.
    apply (IH (S k0) s2 _ s' a'); [|exact L2|exact H].
    intros j y Hj. specialize (Hidx (S j) y Hj). now replace (S k0 + j)%nat with (k0 + S j)%nat by lia.
Qed.

Lemma pull_input_events cs (SL : stateless cs) fuel : forall st c i inp t acc st' acc',
  nth_error (c_inputs (getc cs c)) i = Some inp -> LenInv cs st ->
  pull_input fuel cs st c i inp t acc = (st', acc', None) ->
  acc' = pevents fuel cs c i inp t acc /\ LenInv cs st'.
Proof.
  induction fuel as [|fuel IH]; intros st c i inp t acc st' acc' Hi L H; simpl in H; [discriminate|].
  pose proof (pull_chain_stateless (i_chain inp) (s_link st c i) (init_of cs (i_src inp)) (ptime_of cs st (i_src inp)) t
                (SL c i inp Hi) (L c i inp Hi)) as PC.
  pose proof (pull_chain_length (i_chain inp) (s_link st c i) (init_of cs (i_src inp)) (ptime_of cs st (i_src inp)) t) as PL.
  destruct (pull_chain (i_chain inp) (s_link st c i) (init_of cs (i_src inp)) (ptime_of cs st (i_src inp)) t)
    as [[r b] ss'] eqn:E.
  simpl in PC, PL. cbn [pevents]. rewrite <- PC.
  assert (L1 : LenInv cs (mkS (s_time st) (s_cnt st) (upd2 (s_link st) c i ss'))).
  { apply (upd2_len cs st c i ss' inp L Hi). rewrite PL. apply L; exact Hi. }
  destruct (is_static_src cs (i_src inp)); [inversion H; subst; auto|].
  destruct b.
  { destruct (_ && _); inversion H; subst; auto. }
  destruct (is_time cs (fst (i_src inp))).
  { destruct (_ && _); inversion H; subst; auto. }
  eapply (pull_list_events cs SL (fst (i_src inp))); [| |exact L1|exact H].
  - intros k x s a s2 a2 Hk Ls R. eapply IH; eauto.
  - intros j x Hj. exact Hj.
Qed.

Lemma do_update_events cs (SL : stateless cs) st c acc st' acc' :
  LenInv cs st -> do_update cs st c acc = (st', acc', None) -> acc' = ublock cs c (next_time cs st c) acc.
Proof.
  intros L H. unfold do_update, pull_all in H.
  destruct (pull_list _ _ _ _ _) as [[st1 acc1] e1] eqn:PA. inversion H; subst. clear H.
  unfold ublock.
  eapply (pull_list_events cs SL c); [| |exact L|exact PA].
  - intros k x s a s2 a2 Hk Ls R. eapply pull_input_events; eauto.
  - intros j x Hj. exact Hj.
Qed.

(** ** the run *)
Definition ups_of (c : nat) (us : list (nat * Z)) : list (nat * Z) := filter (fun u => Nat.eqb (fst u) c) us.

Definition canon (cs : composition) (c : nat) (n : nat) : list (nat * Z) :=
  map (fun j => (c, tfun cs c (S j))) (seq O n).

Record TrInv (cs : composition) (st : state) (acc : list ev) (us : list (nat * Z)) : Prop := {
  tr_acc : acc = trace cs us;
  tr_ups : forall c, is_time cs c = true -> ups_of c us = canon cs c (s_cnt st c);
  tr_time : forall u, In u us -> is_time cs (fst u) = true
}.

Lemma trace_snoc cs us u : trace cs (us ++ [u]) = ublock cs (fst u) (snd u) (trace cs us).
Proof. unfold trace. rewrite fold_left_app. reflexivity. Qed.

Lemma canon_S cs c n : canon cs c (S n) = canon cs c n ++ [(c, tfun cs c (S n))].
Proof. unfold canon. rewrite seq_S, map_app. reflexivity. Qed.

Lemma run_loop_pick_trace cs (W : wf cs) (SL : stateless cs) endt pick (PO : pick_ok cs pick) fuel :
  forall st acc us st' acc',
  RInv cs endt st -> any_running st O cs endt = true -> TrInv cs st acc us ->
  run_loop_pick pick fuel cs endt st acc = (OOk, st', acc') ->
  exists us', TrInv cs st' acc' us'.
Proof.
  induction fuel as [|fuel IH]; intros st acc us st' acc' R AR TR H; cbn [run_loop_pick] in H; [discriminate|].
  destruct (pick st) as [c0|] eqn:PK; [|inversion H; subst; exists us; exact TR].
  destruct (update_rec (rec_fuel cs) cs st acc c0 [] 0) as [u st1 acc1 e1| | |] eqn:U; try discriminate.
  destruct e1 as [[| |]|]; try discriminate.
  pose proof (rinv_step cs W SL endt pick PO st acc c0 u st1 acc1 None R AR PK U) as R1.
  destruct (update_rec_props (rec_fuel cs) cs st acc c0 [] 0) as [_ HB].
  destruct (HB _ _ _ _ U) as [Tu [Du _]].
  destruct (do_update_cnt cs st u acc st1 acc1 None Du) as [C1 C2].
  assert (L0 : LenInv cs st) by (destruct R as [[_ L] _ _ _]; exact L).
  pose proof (do_update_events cs SL st u acc st1 acc1 L0 Du) as EA.
  rewrite (next_time_tfun cs st u (ri_time cs endt st R) Tu) in EA.
  assert (TR1 : TrInv cs st1 acc1 (us ++ [(u, tfun cs u (S (s_cnt st u)))])).
  { destruct TR as [TA TU TT]. split.
    - rewrite trace_snoc. simpl. rewrite <- TA. exact EA.
    - intros c Tc. unfold ups_of. rewrite filter_app. simpl.
      destruct (Nat.eqb u c) eqn:E.
      + apply Nat.eqb_eq in E. subst c. rewrite C1, canon_S. f_equal. apply TU; exact Tc.
      + apply Nat.eqb_neq in E. rewrite app_nil_r. rewrite C2 by congruence. apply TU; exact Tc.
    - intros x Hx. apply in_app_or in Hx. destruct Hx as [Hx|[<-|[]]]; [apply TT; exact Hx|exact Tu]. }
  destruct (any_running st1 0 cs endt) eqn:AR1.
  - eapply IH; eauto.
  - inversion H; subst. eexists; exact TR1.
Qed.

Lemma init_TrInv cs : TrInv cs (init_state cs) [] [].
Proof. split; [reflexivity| |intros u []]. intros c _. reflexivity. Qed.

(** C05: the trace of every order is a concatenation of update blocks, and per component the blocks are the same *)
Lemma series_order_independent cs (W : wf cs) (SL : stateless cs) endt pick1 pick2 fuel1 fuel2 st1 acc1 st2 acc2 :
  pick_ok cs pick1 -> pick_ok cs pick2 ->
  any_running (init_state cs) O cs endt = true ->
  run_loop_pick pick1 fuel1 cs endt (init_state cs) [] = (OOk, st1, acc1) ->
  run_loop_pick pick2 fuel2 cs endt (init_state cs) [] = (OOk, st2, acc2) ->
  exists us1 us2,
    acc1 = trace cs us1 /\ acc2 = trace cs us2 /\
    (forall u, In u us1 \/ In u us2 -> is_time cs (fst u) = true) /\
    forall c, is_time cs c = true ->
      ups_of c us1 = ups_of c us2 /\ ups_of c us1 = canon cs c (s_cnt st1 c).
Proof.
  intros P1 P2 AR H1 H2.
  destruct (run_loop_pick_trace cs W SL endt pick1 P1 fuel1 _ _ _ _ _ (init_state_RInv cs endt W) AR (init_TrInv cs) H1)
    as [us1 [A1 U1 T1]].
  destruct (run_loop_pick_trace cs W SL endt pick2 P2 fuel2 _ _ _ _ _ (init_state_RInv cs endt W) AR (init_TrInv cs) H2)
    as [us2 [A2 U2 T2]].
  exists us1, us2. split; [exact A1|]. split; [exact A2|]. split; [intros u [Hu|Hu]; auto|].
  intros c Tc.
  destruct (confluence cs W SL endt pick1 pick2 fuel1 fuel2 st1 acc1 st2 acc2 P1 P2 AR H1 H2 c Tc) as [E _].
  split; [|apply U1; exact Tc]. rewrite (U1 c Tc), (U2 c Tc), E. reflexivity.
Qed.

(** ** requests over a stateless link are non-decreasing in the consumer's update index
    (the hypothesis under which C09 / C11 / C12 prove eviction invisible) *)
Lemma clamp_mono init a b : a <= b -> clamp init a <= clamp init b.
Proof. unfold clamp. intros H. destruct (a <? init) eqn:E1, (b <? init) eqn:E2; try apply Z.ltb_lt in E1; try apply Z.ltb_lt in E2;
  try apply Z.ltb_ge in E1; try apply Z.ltb_ge in E2; lia. Qed.

Lemma pe_chain_mono ch init : forall t t', t <= t' ->
  fst (pe_chain ch init t) <= fst (pe_chain ch init t') /\ snd (pe_chain ch init t) = snd (pe_chain ch init t').
Proof.
  induction ch as [|a ch IH]; intros t t' H; simpl; [auto|].
  destruct a; simpl; auto. apply IH. apply clamp_mono. lia.
Qed.

Lemma requests_nondecreasing cs (W : wf cs) c inp j j' :
  is_time cs c = true -> (j <= j')%nat ->
  fst (pe_chain (i_chain inp) (init_of cs (i_src inp)) (tfun cs c j))
  <= fst (pe_chain (i_chain inp) (init_of cs (i_src inp)) (tfun cs c j')).
Proof.
  intros Tc Hj. apply pe_chain_mono.
  destruct (Nat.eq_dec j j') as [->|Ne]; [lia|].
  pose proof (tfun_mono_strict cs W c Tc j j'). lia.
Qed.

(** the head of a block for a link whose source is a time component: the request that reaches the source output *)
Lemma pevents_time_source cs fuel c i inp t acc :
  is_static_src cs (i_src inp) = false -> snd (pe_chain (i_chain inp) (init_of cs (i_src inp)) t) = false ->
  is_time cs (fst (i_src inp)) = true ->
  pevents (S fuel) cs c i inp t acc =
  ES (fst (i_src inp)) (snd (i_src inp)) (fst (pe_chain (i_chain inp) (init_of cs (i_src inp)) t)) :: EP c i t :: acc.
Proof.
  intros Hs Hb Ht. cbn [pevents]. destruct (pe_chain _ _ _) as [r b]. simpl in *. subst b. rewrite Hs, Ht. reflexivity.
Qed.

(** ** every request of a block is monotone in the update time
    The blocks of two updates of one component have the same shape (same pulls of the same inputs, the same source
    outputs / buffering adapters reached, recursively through pull-based components), and every time in the later
    block is at or after the corresponding time of the earlier one.  Hence along every path from a consumer to a
    source the requests are non-decreasing — the hypothesis of C09 / C11 / C12 — as long as the path is read by ONE
    consumer (known finding F16 is the case of a pull-based component shared by consumers with different steps). *)
Definition ev_le (e e' : ev) : Prop :=
  match e, e' with
  | EU c t, EU c' t' => c = c' /\ t <= t'
  | EP c i t, EP c' i' t' => c = c' /\ i = i' /\ t <= t'
  | ES c o t, ES c' o' t' => c = c' /\ o = o' /\ t <= t'
  | EB c i t, EB c' i' t' => c = c' /\ i = i' /\ t <= t'
  | _, _ => False
  end.

Lemma pevents_list_mono (rec rec' : nat -> input -> list ev -> list ev) :
  (forall k x a a', Forall2 ev_le a a' -> Forall2 ev_le (rec k x a) (rec' k x a')) ->
  forall ins k a a', Forall2 ev_le a a' -> Forall2 ev_le (pevents_list rec k ins a) (pevents_list rec' k ins a').
Proof.
  intros Hrec. induction ins as [|x ins IH]; intros k a a' H; simpl; [exact H|]. apply IH. apply Hrec. exact H.
Qed.

Lemma pevents_mono cs fuel : forall c i inp t t' a a',
  t <= t' -> Forall2 ev_le a a' -> Forall2 ev_le (pevents fuel cs c i inp t a) (pevents fuel cs c i inp t' a').
Proof.
  induction fuel as [|fuel IH]; intros c i inp t t' a a' Ht Ha; simpl; [exact Ha|].
  destruct (pe_chain_mono (i_chain inp) (init_of cs (i_src inp)) t t' Ht) as [M1 M2].
  destruct (pe_chain (i_chain inp) (init_of cs (i_src inp)) t) as [r b].
  destruct (pe_chain (i_chain inp) (init_of cs (i_src inp)) t') as [r' b']. simpl in M1, M2. subst b'.
  assert (A1 : Forall2 ev_le (EP c i t :: a) (EP c i t' :: a')) by (constructor; [simpl; auto|exact Ha]).
  destruct (is_static_src cs (i_src inp)); [constructor; [simpl; auto|exact A1]|].
  destruct b; [constructor; [simpl; auto|exact A1]|].
  destruct (is_time cs (fst (i_src inp))); [constructor; [simpl; auto|exact A1]|].
  apply pevents_list_mono.
  - intros k x b0 b0' Hb. apply IH; assumption.
  - constructor; [simpl; auto|exact A1].
Qed.

Lemma ublock_mono cs c t t' : t <= t' -> Forall2 ev_le (ublock cs c t []) (ublock cs c t' []).
Proof.
  intros Ht. unfold ublock. apply pevents_list_mono.
  - intros k x a a' Ha. apply pevents_mono; assumption.
  - constructor; [simpl; auto|constructor].
Qed.
