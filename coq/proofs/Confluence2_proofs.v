(** C05 for links WITH per-link state (DelayToPull): the final update counts and times of a run do not depend on the
    order in which equally advanced components are taken.

    FVP.Confluence_proofs needs stateless links because it evaluates "update j of v finds its sources far enough" in
    one state for all j.  Here the requirement of update j is evaluated with the link state v has after j-1 updates —
    a function [lafter] of j alone, because a DelayToPull adapter remembers the times of v's own previous pulls, and
    those are [tfun cs v 1 .. tfun cs v (j-1)] whatever the schedule.  The only excluded adapter is DelayToPush (its
    answer depends on the newest publication, i.e. on the schedule) — the "push-time-dependent adapter" of C05. *)
From Coq Require Import List ZArith Bool Arith Lia.
From FV Require Import Base Sched.
From FVP Require Import Adapters_proofs Sched_proofs Confluence_proofs.
Import ListNotations.
Open Scope Z_scope.

Definition nopush_adapter (a : adapter) : bool := match a with AToPush => false | _ => true end.

Definition nopush (cs : composition) : Prop :=
  forall c k inp, nth_error (c_inputs (getc cs c)) k = Some inp -> forallb nopush_adapter (i_chain inp) = true.

Lemma sched_walk_nopush ch : forall ss init pt1 pt2 b t,
  forallb nopush_adapter ch = true -> sched_walk ch ss init pt1 b t = sched_walk ch ss init pt2 b t.
Proof.
  induction ch as [|a ch IH]; intros ss init pt1 pt2 b t H; simpl; [reflexivity|].
  destruct ss as [|s ss]; [reflexivity|].
  simpl in H. apply andb_prop in H. destruct H as [Ha H].
  destruct b; [apply IH; exact H|].
  destruct a; try discriminate; simpl; apply IH; exact H.
Qed.

Lemma pull_chain_nopush ch : forall ss init pt1 pt2 t,
  forallb nopush_adapter ch = true -> pull_chain ch ss init pt1 t = pull_chain ch ss init pt2 t.
Proof.
  induction ch as [|a ch IH]; intros ss init pt1 pt2 t H; simpl; [reflexivity|].
  destruct ss as [|s ss]; [reflexivity|].
  simpl in H. apply andb_prop in H. destruct H as [Ha H].
  destruct a; try discriminate; simpl; try reflexivity; rewrite (IH ss init pt1 pt2 _ H); reflexivity.
Qed.

Lemma link_req_agree cs (NP : nopush cs) a b c k inp t :
  nth_error (c_inputs (getc cs c)) k = Some inp -> s_link a c k = s_link b c k ->
  link_req cs a c k inp t = link_req cs b c k inp t.
Proof.
  intros Hk E. unfold link_req, link_dep. destruct (is_static_src cs (i_src inp)); [reflexivity|].
  rewrite E. apply sched_walk_nopush. exact (NP c k inp Hk).
Qed.

(** served only looks at the links of the component itself and of pull-based components, and is monotone in the
    source times *)
Lemma servedn_agree_mono cs (NP : nopush cs) n : forall a b c t,
  (forall k inp, nth_error (c_inputs (getc cs c)) k = Some inp -> s_link a c k = s_link b c k) ->
  (forall p k inp, is_time cs p = false -> nth_error (c_inputs (getc cs p)) k = Some inp -> s_link a p k = s_link b p k) ->
  (forall x, s_time a x <= s_time b x) ->
  servedn n cs a c t -> servedn n cs b c t.
Proof.
  induction n as [|n IH]; intros a b c t Lc Lp Ht H; [exact H|].
  intros k inp lt Hk Hr. rewrite <- (link_req_agree cs NP a b c k inp t Hk (Lc k inp Hk)) in Hr.
  destruct (H k inp lt Hk Hr) as [H1 H2]. split.
  - intros Ti. specialize (H1 Ti). specialize (Ht (fst (i_src inp))). lia.
  - intros Tp. apply (IH a b); [intros k0 i0 Hk0; apply (Lp _ k0 i0 Tp Hk0)|exact Lp|exact Ht|exact (H2 Tp)].
Qed.

(** ** the link state of a time component as a function of its update count *)
Definition lstep (inp : input) (init : Z) (ss : list (list Z)) (t : Z) : list (list Z) :=
  snd (pull_chain (i_chain inp) ss init None t).

Definition lempty (inp : input) : list (list Z) := map (fun _ => []) (i_chain inp).

Definition lconn (cs : composition) (c : nat) (inp : input) : list (list Z) :=
  match c_kind (getc cs c) with
  | KTime _ _ true => lstep inp (init_of cs (i_src inp)) (lempty inp) (t0_of cs)
  | _ => lempty inp
  end.

Fixpoint lafter (cs : composition) (c : nat) (inp : input) (j : nat) : list (list Z) :=
  match j with
  | O => lconn cs c inp
  | S j' => lstep inp (init_of cs (i_src inp)) (lafter cs c inp j') (tfun cs c (S j'))
  end.

Definition canon_link (cs : composition) (J : nat -> nat) (x y : nat) : list (list Z) :=
  match nth_error (c_inputs (getc cs x)) y with
  | Some inp => if is_time cs x then lafter cs x inp (J x) else lempty inp
  | None => []
  end.

Definition LinkInv (cs : composition) (st : state) : Prop :=
  forall x y inp, nth_error (c_inputs (getc cs x)) y = Some inp -> s_link st x y = canon_link cs (s_cnt st) x y.

(** the state in which the requirement of update [j] of [v] is judged: times [T], link state of [v] after [j-1] updates *)
Definition vstate (cs : composition) (T : nat -> Z) (v j : nat) : state :=
  mkS T (fun _ => O) (canon_link cs (fun x => if Nat.eqb x v then pred j else O)).

Definition SV (cs : composition) (T : nat -> Z) (v j : nat) : Prop :=
  exists n, servedn n cs (vstate cs T v j) v (tfun cs v j).

Definition PS (cs : composition) (T : nat -> Z) (p : nat) (t : Z) : Prop :=
  exists n, servedn n cs (vstate cs T O O) p t.

Lemma canon_link_pull cs J J' p k : is_time cs p = false -> canon_link cs J p k = canon_link cs J' p k.
Proof. intros Tp. unfold canon_link. destruct (nth_error _ _); [|reflexivity]. now rewrite Tp. Qed.

Lemma SV_mono cs (NP : nopush cs) T T' v j : (forall x, T x <= T' x) -> SV cs T v j -> SV cs T' v j.
Proof.
  intros HT [n Hn]. exists n. eapply (servedn_agree_mono cs NP n (vstate cs T v j)); [| |exact HT|exact Hn]; intros; reflexivity.
Qed.

Lemma PS_mono cs (NP : nopush cs) T T' p t : (forall x, T x <= T' x) -> PS cs T p t -> PS cs T' p t.
Proof.
  intros HT [n Hn]. exists n. eapply (servedn_agree_mono cs NP n (vstate cs T O O)); [| |exact HT|exact Hn]; intros; reflexivity.
Qed.

(** ** solutions *)
Record Sol2 (cs : composition) (endt : Z) (M : nat -> nat) : Prop := {
  sol2_end : forall c, is_time cs c = true -> endt <= tfun cs c (M c);
  sol2_served : forall v j, is_time cs v = true -> (1 <= j <= M v)%nat -> SV cs (fun c => tfun cs c (M c)) v j
}.

Lemma lag_bound2 cs (W : wf cs) (NP : nopush cs) endt M st :
  Inv cs st -> TimeInv cs st -> LinkInv cs st -> Sol2 cs endt M ->
  (forall c, is_time cs c = true -> (s_cnt st c <= M c)%nat) ->
  forall c t u, lagpath cs st c t u ->
    (is_time cs c = true -> (s_cnt st c < M c)%nat) ->
    (is_time cs c = false -> PS cs (fun x => tfun cs x (M x)) c t) ->
    (s_cnt st u < M u)%nat.
Proof.
  intros [Itime Ilen] TI LI SM Hle c t u L.
  set (TM := fun x => tfun cs x (M x)).
  (* the solution's view of the node [c] agrees with the run state on the links that matter *)
  assert (Node : forall c t, (is_time cs c = true -> (s_cnt st c < M c)%nat) ->
                            (is_time cs c = false -> PS cs TM c t) ->
                            exists n S, servedn n cs S c (target_of cs st c t) /\ s_time S = TM /\
                                        (forall k inp, nth_error (c_inputs (getc cs c)) k = Some inp -> s_link S c k = s_link st c k) /\
                                        (forall p k, is_time cs p = false -> s_link S p k = canon_link cs (fun _ => O) p k)).
  { intros c0 t0 H1 H2. unfold target_of. destruct (is_time cs c0) eqn:Tc.
    - specialize (H1 eq_refl).
      destruct (sol2_served cs endt M SM c0 (S (s_cnt st c0)) Tc ltac:(lia)) as [n Hn].
      exists n, (vstate cs TM c0 (S (s_cnt st c0))).
      rewrite (next_time_tfun cs st c0 TI Tc). split; [exact Hn|]. split; [reflexivity|]. split.
      + intros k inp Hk. simpl. rewrite (LI c0 k inp Hk). unfold canon_link. rewrite Hk, Tc, Nat.eqb_refl. reflexivity.
      + intros p k Tp. simpl. apply canon_link_pull; exact Tp.
    - destruct (H2 eq_refl) as [n Hn]. exists n, (vstate cs TM O O). split; [exact Hn|]. split; [reflexivity|]. split.
      + intros k inp Hk. simpl. rewrite (LI c0 k inp Hk). apply canon_link_pull; exact Tc.
      + intros p k Tp. simpl. apply canon_link_pull; exact Tp. }
  induction L as [c t Tc | c t k inp lt u Hk Hr Ts Hlag L IH | c t k inp lt u Hk Hr Tp L IH]; intros H1 H2.
  - exact (H1 Tc).
  - destruct (Node c t H1 H2) as [n [S [Hn [HT [HL _]]]]].
    destruct n as [|n]; [destruct Hn|].
    rewrite (link_req_agree cs NP st S c k inp _ Hk (eq_sym (HL k inp Hk))) in Hr.
    destruct (Hn k inp lt Hk Hr) as [Hs _]. specialize (Hs Ts). rewrite HT in Hs. unfold TM in Hs.
    apply IH; [|intros E; congruence].
    intros _. apply (tfun_lt_inv cs W _ _ _ Ts). rewrite <- (TI _). lia.
  - destruct (Node c t H1 H2) as [n [S [Hn [HT [HL HP]]]]].
    destruct n as [|n]; [destruct Hn|].
    rewrite (link_req_agree cs NP st S c k inp _ Hk (eq_sym (HL k inp Hk))) in Hr.
    destruct (Hn k inp lt Hk Hr) as [_ Hp]. specialize (Hp Tp).
    apply IH; [intros E; congruence|]. intros _. exists n.
    eapply (servedn_agree_mono cs NP n S); [| | |exact Hp].
    + intros k0 i0 _. rewrite (HP _ k0 Tp). simpl. apply canon_link_pull; exact Tp.
    + intros p k0 i0 Tp0 _. rewrite (HP _ k0 Tp0). simpl. apply canon_link_pull; exact Tp0.
    + intros x. rewrite HT. simpl. lia.
Qed.

(** ** how pulls change the link states *)
Lemma pull_list_idx (cs : composition) (c : nat) (Q : nat -> state -> Prop) rec : forall ins k0 s a s' a' e,
  (forall j x, nth_error ins j = Some x -> nth_error (c_inputs (getc cs c)) (k0 + j) = Some x) ->
  (forall k x s1 a1 s2 a2 e2, nth_error (c_inputs (getc cs c)) k = Some x -> Q k s1 ->
      rec k x s1 a1 = (s2, a2, e2) -> Q (S k) s2) ->
  Q k0 s -> pull_list rec k0 ins s a = (s', a', e) ->
  exists k', (k0 <= k')%nat /\ Q k' s' /\ (e = None -> k' = (k0 + length ins)%nat).
Proof.
  induction ins as [|x ins IH]; intros k0 s a s' a' e Hidx Hrec Hq H; simpl in H.
  - inversion H; subst. exists k0. split; [lia|]. split; [exact Hq|]. intros _. simpl. lia.
  - destruct (rec k0 x s a) as [[s2 a2] e2] eqn:R.
    assert (Hx : nth_error (c_inputs (getc cs c)) k0 = Some x).
    { specialize (Hidx O x eq_refl). now rewrite Nat.add_0_r in Hidx. }
    pose proof (Hrec _ _ _ _ _ _ _ Hx Hq R) as Q2.
    destruct e2 as [e2|].
    + inversion H; subst. exists (S k0). split; [lia|]. split; [exact Q2|]. discriminate.
    + destruct (IH (S k0) s2 a2 s' a' e) as [k' [Hk' [Qk' He]]]; [| |exact Q2|exact H|].
      * intros j y Hj. specialize (Hidx (S j) y Hj). now replace (S k0 + j)%nat with (k0 + S j)%nat by lia.
      * exact Hrec.
      * exists k'. split; [lia|]. split; [exact Qk'|]. intros En. rewrite (He En). simpl. lia.
Qed.

(** a pull of input [k] of [c]: times and counts stay, links of pull-based components stay, links of time components
    stay except [(c, k)], which (for a time component [c]) becomes the state after the pull through its chain *)
Lemma pull_input_links cs (W : wf cs) fuel : forall st c k inp t acc st' acc' e,
  nth_error (c_inputs (getc cs c)) k = Some inp ->
  pull_input fuel cs st c k inp t acc = (st', acc', e) ->
  s_time st' = s_time st /\ s_cnt st' = s_cnt st /\
  (forall p y, is_time cs p = false -> s_link st' p y = s_link st p y) /\
  (forall x y, is_time cs x = true -> (x, y) <> (c, k) -> s_link st' x y = s_link st x y) /\
  (is_time cs c = true -> fuel <> O ->
     s_link st' c k = snd (pull_chain (i_chain inp) (s_link st c k) (init_of cs (i_src inp)) (ptime_of cs st (i_src inp)) t)).
Proof.
  induction fuel as [|fuel IH]; intros st c k inp t acc st' acc' e Hk H; simpl in H.
  - inversion H; subst. repeat split; auto. intros _ F. congruence.
  - pose proof (wf_chain cs W c k inp Hk) as Wc. unfold chain_wf in Wc. apply andb_prop in Wc. destruct Wc as [_ Wcons].
    pose proof (pull_chain_no_topull (i_chain inp) (s_link st c k) (init_of cs (i_src inp)) (ptime_of cs st (i_src inp)) t) as Ntp.
    destruct (pull_chain (i_chain inp) (s_link st c k) (init_of cs (i_src inp)) (ptime_of cs st (i_src inp)) t) as [[r b] ss'] eqn:PC.
    simpl in Ntp.
    set (st1 := mkS (s_time st) (s_cnt st) (upd2 (s_link st) c k ss')) in *.
    assert (F1 : s_time st1 = s_time st /\ s_cnt st1 = s_cnt st /\
                 (forall p y, is_time cs p = false -> s_link st1 p y = s_link st p y) /\
                 (forall x y, is_time cs x = true -> (x, y) <> (c, k) -> s_link st1 x y = s_link st x y) /\
                 (is_time cs c = true -> s_link st1 c k = ss')).
    { unfold st1; simpl. split; [reflexivity|]. split; [reflexivity|]. split; [|split].
      - intros p y Tp. destruct (Nat.eq_dec p c) as [->|Ne].
        + rewrite Tp in Wcons. rewrite (Ntp Wcons). apply upd2_same.
        + apply upd2_other. congruence.
      - intros x y _ Hxy. apply upd2_other. exact Hxy.
      - intros _. apply upd2_this. }
    assert (Done : forall s, s = st1 -> (st', acc', e) = (st', acc', e) -> st' = s ->
              s_time st' = s_time st /\ s_cnt st' = s_cnt st /\
              (forall p y, is_time cs p = false -> s_link st' p y = s_link st p y) /\
              (forall x y, is_time cs x = true -> (x, y) <> (c, k) -> s_link st' x y = s_link st x y) /\
              (is_time cs c = true -> S fuel <> O -> s_link st' c k = ss')).
    { intros s -> _ ->. destruct F1 as [A [B [C [D E]]]]. repeat split; auto. }
    destruct (is_static_src cs (i_src inp)); [inversion H; subst; apply (Done st1); auto|].
    destruct b; [inversion H; subst; apply (Done st1); auto|].
    destruct (is_time cs (fst (i_src inp))) eqn:Ts; [inversion H; subst; apply (Done st1); auto|].
    (* pull-based source: its callback pulls its inputs; only links of pull-based components are touched (and stay) *)
    set (p0 := fst (i_src inp)) in *.
    destruct (pull_list_idx cs p0
                (fun _ s => s_time s = s_time st1 /\ s_cnt s = s_cnt st1 /\ (forall x y, s_link s x y = s_link st1 x y))
                (fun k0 x s a => pull_input fuel cs s p0 k0 x r a)
                (c_inputs (getc cs p0)) O st1 (ES p0 (snd (i_src inp)) r :: EP c k t :: acc) st' acc' e) as [k' [_ [[Qt [Qc Ql]] _]]];
      [intros j x Hj; exact Hj| |repeat split; reflexivity|exact H|].
    + intros k1 x s1 a1 s2 a2 e2 Hx [Qt [Qc Ql]] R.
      destruct (IH s1 p0 k1 x r a1 s2 a2 e2 Hx R) as [A [B [C [D _]]]].
      split; [congruence|]. split; [congruence|].
      intros x0 y0. destruct (is_time cs x0) eqn:T0.
      * rewrite D; [apply Ql|exact T0|]. intros E0. inversion E0; subst. congruence.
      * rewrite (C x0 y0 T0). apply Ql.
    + destruct F1 as [A [B [C [D E]]]]. split; [congruence|]. split; [congruence|]. split; [|split].
      * intros p y Tp. rewrite Ql. apply C; exact Tp.
      * intros x y Tx Hxy. rewrite Ql. apply D; assumption.
      * intros Tc _. rewrite Ql. apply E; exact Tc.
Qed.

Lemma canon_link_time cs J x y inp :
  nth_error (c_inputs (getc cs x)) y = Some inp -> is_time cs x = true -> canon_link cs J x y = lafter cs x inp (J x).
Proof. intros Hk Tx. unfold canon_link. now rewrite Hk, Tx. Qed.

Lemma do_update_LinkInv cs (W : wf cs) (NP : nopush cs) st u acc st' acc' :
  TimeInv cs st -> LinkInv cs st -> is_time cs u = true ->
  do_update cs st u acc = (st', acc', None) -> LinkInv cs st'.
Proof.
  intros TI LI Tu H. unfold do_update, pull_all in H.
  set (nt := next_time cs st u) in *.
  destruct (pull_list (fun k x s a => pull_input (S (length cs)) cs s u k x nt a) O (c_inputs (getc cs u)) st (EU u nt :: acc))
    as [[st1 acc1] e1] eqn:PL.
  inversion H; subst st' acc' e1. clear H.
  set (Q := fun (k : nat) (s : state) =>
              s_time s = s_time st /\ s_cnt s = s_cnt st /\
              (forall p y, is_time cs p = false -> s_link s p y = s_link st p y) /\
              (forall x y, is_time cs x = true -> x <> u -> s_link s x y = s_link st x y) /\
              (forall y inp, (y < k)%nat -> nth_error (c_inputs (getc cs u)) y = Some inp ->
                 s_link s u y = lstep inp (init_of cs (i_src inp)) (s_link st u y) nt) /\
              (forall y, (k <= y)%nat -> s_link s u y = s_link st u y)).
  destruct (pull_list_idx cs u Q (fun k x s a => pull_input (S (length cs)) cs s u k x nt a)
              (c_inputs (getc cs u)) O st (EU u nt :: acc) st1 acc1 None) as [k' [_ [Qk He]]];
    [intros j x Hj; exact Hj| |unfold Q; repeat split; auto; intros; lia|exact PL|].
  - intros k x s1 a1 s2 a2 e2 Hx [Qt [Qc [Qp [Qo [Qd Qr]]]]] R.
    destruct (pull_input_links cs W _ _ _ _ _ _ _ _ _ _ Hx R) as [A [B [C [D E]]]].
    unfold Q. split; [congruence|]. split; [congruence|]. split; [|split; [|split]].
    + intros p y Tp. rewrite (C p y Tp). apply Qp; exact Tp.
    + intros x0 y Tx Ne. rewrite D; [apply Qo; assumption|exact Tx|]. intros E0. inversion E0. congruence.
    + intros y inp0 Hy Hinp. destruct (Nat.eq_dec y k) as [->|Nk].
      * rewrite Hx in Hinp. inversion Hinp; subst inp0.
        rewrite (E Tu ltac:(discriminate)). rewrite (Qr k (Nat.le_refl k)). unfold lstep.
        now rewrite (pull_chain_nopush (i_chain x) _ _ (ptime_of cs s1 (i_src x)) None nt (NP u k x Hx)).
      * rewrite D; [apply Qd; [lia|exact Hinp]|exact Tu|]. intros E0. inversion E0. congruence.
    + intros y Hy. rewrite D; [apply Qr; lia|exact Tu|]. intros E0. inversion E0. lia.
  - specialize (He eq_refl). simpl in He. subst k'.
    destruct Qk as [Qt [Qc [Qp [Qo [Qd _]]]]].
    intros x y inp Hxy. cbn [s_link s_cnt].
    destruct (is_time cs x) eqn:Tx.
    + rewrite (canon_link_time cs _ x y inp Hxy Tx). unfold upd.
      destruct (Nat.eqb x u) eqn:E.
      * apply Nat.eqb_eq in E. subst x.
        assert (Hy : (y < length (c_inputs (getc cs u)))%nat) by (apply nth_error_Some; congruence).
        rewrite (Qd y inp Hy Hxy). rewrite (LI u y inp Hxy), (canon_link_time cs _ u y inp Hxy Tu).
        rewrite Qc. cbn [lafter]. unfold nt. rewrite (next_time_tfun cs st u TI Tu). reflexivity.
      * apply Nat.eqb_neq in E. rewrite (Qo x y Tx E). rewrite (LI x y inp Hxy), (canon_link_time cs _ x y inp Hxy Tx).
        rewrite Qc. reflexivity.
    + rewrite (Qp x y Tx). rewrite (LI x y inp Hxy). apply canon_link_pull; exact Tx.
Qed.

(** ** the state after connect *)
Lemma init_pulls_from_spec cs c : forall ins k lk x y,
  init_pulls_from cs c k ins lk x y =
  if Nat.eqb x c && (Nat.leb k y && Nat.ltb y (k + length ins))
  then match nth_error ins (y - k) with
       | Some inp => lstep inp (init_of cs (i_src inp)) (lk c y) (t0_of cs)
       | None => lk x y
       end
  else lk x y.
Proof.
  induction ins as [|i0 ins IH]; intros k lk x y; cbn [init_pulls_from length].
  - replace (k + 0)%nat with k by lia.
    destruct (Nat.eqb x c && (Nat.leb k y && Nat.ltb y k)) eqn:E; [|reflexivity].
    apply andb_prop in E. destruct E as [_ E]. apply andb_prop in E. destruct E as [E1 E2].
    apply Nat.leb_le in E1. apply Nat.ltb_lt in E2. lia.
  - destruct (pull_chain (i_chain i0) (lk c k) (init_of cs (i_src i0)) None (t0_of cs)) as [[r b] ss'] eqn:PC.
    rewrite IH.
    destruct (Nat.eqb x c) eqn:Ex; cbn [andb]; [|unfold upd2; rewrite Ex; reflexivity].
    apply Nat.eqb_eq in Ex. subst x.
    replace (S k + length ins)%nat with (k + S (length ins))%nat by lia.
    destruct (Nat.lt_trichotomy y k) as [Hlt|[->|Hgt]].
    + assert (E0 : Nat.leb k y = false) by (apply Nat.leb_gt; lia).
      assert (E1 : Nat.leb (S k) y = false) by (apply Nat.leb_gt; lia). rewrite E0, E1. cbn [andb].
      apply upd2_other. intros E. inversion E. lia.
    + assert (E0 : Nat.leb k k = true) by (apply Nat.leb_le; lia).
      assert (E1 : Nat.leb (S k) k = false) by (apply Nat.leb_gt; lia).
      assert (E2 : Nat.ltb k (k + S (length ins)) = true) by (apply Nat.ltb_lt; lia).
      rewrite E0, E1, E2. cbn [andb]. rewrite Nat.sub_diag. cbn [nth_error]. rewrite upd2_this. unfold lstep. rewrite PC. reflexivity.
    + assert (E0 : Nat.leb k y = true) by (apply Nat.leb_le; lia).
      assert (E1 : Nat.leb (S k) y = true) by (apply Nat.leb_le; lia). rewrite E0, E1. cbn [andb].
      destruct (Nat.ltb y (k + S (length ins))) eqn:E2; [|apply upd2_other; intros E; inversion E; lia].
      replace (y - k)%nat with (S (y - S k)) by lia. cbn [nth_error].
      destruct (nth_error ins (y - S k)); [|apply upd2_other; intros E; inversion E; lia].
      rewrite upd2_other by (intros E; inversion E; lia). reflexivity.
Qed.

Lemma init_links_spec cs : forall l k lk,
  (forall j x, nth_error l j = Some x -> nth_error cs (k + j) = Some x) ->
  (forall x y, (k <= x)%nat -> lk x y = empty_links cs x y) ->
  forall x y inp, nth_error (c_inputs (getc cs x)) y = Some inp ->
    init_links cs k l lk x y = if Nat.leb k x && Nat.ltb x (k + length l) then lconn cs x inp else lk x y.
Proof.
  induction l as [|c0 l IH]; intros k lk Hidx Hlk x y inp Hxy; simpl.
  - replace (k + 0)%nat with k by lia.
    destruct (Nat.leb k x && Nat.ltb x k) eqn:E; [|reflexivity].
    apply andb_prop in E. destruct E as [E1 E2]. apply Nat.leb_le in E1. apply Nat.ltb_lt in E2. lia.
  - assert (Hc0 : nth_error cs k = Some c0).
    { specialize (Hidx O c0 eq_refl). now rewrite Nat.add_0_r in Hidx. }
    set (lk' := match c_kind c0 with KTime _ _ true => init_pulls_from cs k O (c_inputs c0) lk | _ => lk end).
    assert (Hlk' : forall x0 y0, (S k <= x0)%nat -> lk' x0 y0 = empty_links cs x0 y0).
    { intros x0 y0 Hx0. unfold lk'. destruct (c_kind c0) as [s0 st0 [|]|]; try (apply Hlk; lia).
      rewrite init_pulls_from_spec. assert (E : Nat.eqb x0 k = false) by (apply Nat.eqb_neq; lia). rewrite E. cbn [andb]. apply Hlk; lia. }
    assert (Hidx' : forall j z, nth_error l j = Some z -> nth_error cs (S k + j) = Some z).
    { intros j z Hj. specialize (Hidx (S j) z Hj). now replace (S k + j)%nat with (k + S j)%nat by lia. }
    change (init_links cs (S k) l lk' x y = if Nat.leb k x && Nat.ltb x (k + length (c0 :: l)) then lconn cs x inp else lk x y).
    rewrite (IH (S k) lk' Hidx' Hlk' x y inp Hxy). cbn [length].
    replace (S k + length l)%nat with (k + S (length l))%nat by lia.
    destruct (Nat.eq_dec x k) as [->|Nx].
    + assert (E1 : Nat.leb (S k) k = false) by (apply Nat.leb_gt; lia). rewrite E1. cbn [andb].
      assert (E2 : Nat.leb k k && Nat.ltb k (k + S (length l)) = true).
      { apply andb_true_intro. split; [apply Nat.leb_le; lia|apply Nat.ltb_lt; lia]. }
      rewrite E2. unfold lk', lconn.
      assert (G : getc cs k = c0) by (unfold getc; now rewrite (nth_error_nth _ _ _ Hc0)).
      rewrite G in *.
      destruct (c_kind c0) as [s0 st0 [|]|].
      * rewrite init_pulls_from_spec. rewrite Nat.eqb_refl. cbn [andb Nat.leb Nat.add]. rewrite Nat.sub_0_r.
        assert (Hy : (y < length (c_inputs c0))%nat) by (apply nth_error_Some; congruence).
        assert (E3 : Nat.ltb y (length (c_inputs c0)) = true) by (apply Nat.ltb_lt; exact Hy). rewrite E3. rewrite Hxy.
        rewrite (Hlk k y (Nat.le_refl k)). unfold empty_links, lempty. rewrite G. now rewrite (nth_error_nth _ _ _ Hxy).
      * rewrite (Hlk k y (Nat.le_refl k)). unfold empty_links, lempty. rewrite G. now rewrite (nth_error_nth _ _ _ Hxy).
      * rewrite (Hlk k y (Nat.le_refl k)). unfold empty_links, lempty. rewrite G. now rewrite (nth_error_nth _ _ _ Hxy).
    + destruct (Nat.leb (S k) x) eqn:E1.
      * apply Nat.leb_le in E1. assert (E2 : Nat.leb k x = true) by (apply Nat.leb_le; lia). rewrite E2. cbn [andb].
        destruct (Nat.ltb x (k + S (length l))); [reflexivity|]. rewrite (Hlk' x y E1), (Hlk x y ltac:(lia)). reflexivity.
      * apply Nat.leb_gt in E1. assert (E2 : Nat.leb k x = false) by (apply Nat.leb_gt; lia). rewrite E2. cbn [andb].
        unfold lk'. destruct (c_kind c0) as [s0 st0 [|]|]; try reflexivity.
        rewrite init_pulls_from_spec. assert (E : Nat.eqb x k = false) by (apply Nat.eqb_neq; lia). rewrite E. reflexivity.
Qed.

Lemma init_state_LinkInv cs : LinkInv cs (init_state cs).
Proof.
  intros x y inp Hxy. unfold init_state. cbn [s_link s_cnt].
  rewrite (init_links_spec cs cs O (empty_links cs) (fun j z Hj => Hj) (fun x0 y0 _ => eq_refl) x y inp Hxy).
  assert (Lx : (x < length cs)%nat).
  { destruct (le_lt_dec (length cs) x) as [Hge|]; [|assumption].
    unfold getc in Hxy. rewrite nth_overflow in Hxy by exact Hge. destruct y; discriminate. }
  assert (E : Nat.leb 0 x && Nat.ltb x (0 + length cs) = true).
  { apply andb_true_intro. split; [reflexivity|apply Nat.ltb_lt; simpl; exact Lx]. }
  rewrite E. unfold canon_link. rewrite Hxy. simpl.
  unfold lconn, is_time. destruct (c_kind (getc cs x)) as [s0 st0 [|]|]; reflexivity.
Qed.

(** ** the invariant of a run *)
Definition Good2 (cs : composition) (st : state) : Prop :=
  forall v j, is_time cs v = true -> (1 <= j <= s_cnt st v)%nat -> SV cs (s_time st) v j.

Record RInv2 (cs : composition) (endt : Z) (st : state) : Prop := {
  r2_inv : Inv cs st;
  r2_time : TimeInv cs st;
  r2_link : LinkInv cs st;
  r2_good : Good2 cs st;
  r2_bound : forall M, Sol2 cs endt M -> forall c, is_time cs c = true -> (s_cnt st c <= M c)%nat
}.

Lemma init_state_RInv2 cs endt (W : wf cs) : RInv2 cs endt (init_state cs).
Proof.
  split.
  - apply init_state_Inv.
  - intros c. unfold init_state, tfun. simpl. destruct (c_kind (getc cs c)); simpl; lia.
  - apply init_state_LinkInv.
  - intros v j _ Hj. simpl in Hj. lia.
  - intros M _ c _. simpl. lia.
Qed.

Lemma rinv2_step cs (W : wf cs) (NP : nopush cs) endt pick (PO : pick_ok cs pick) st acc c0 u st' acc' :
  RInv2 cs endt st -> any_running st O cs endt = true -> pick st = Some c0 ->
  update_rec (rec_fuel cs) cs st acc c0 [] 0 = UUpdated u st' acc' None ->
  RInv2 cs endt st'.
Proof.
  intros [Hinv TI LI G B] AR PK U.
  destruct (update_rec_ok cs W _ _ _ _ _ _ _ _ _ _ Hinv U) as [Su [Lu [_ [I' [T1 T2]]]]].
  destruct (update_rec_props (rec_fuel cs) cs st acc c0 [] 0) as [_ HB].
  destruct (HB _ _ _ _ U) as [Tu [Du _]].
  destruct (do_update_cnt cs st u acc st' acc' None Du) as [C1 C2].
  assert (Le : forall x, s_time st x <= s_time st' x).
  { intros x. destruct (Nat.eq_dec x u) as [->|Ne]; [|rewrite T2 by exact Ne; lia].
    rewrite T1. pose proof (next_time_gt cs W st u Tu). lia. }
  split.
  - exact I'.
  - intros c. destruct (Nat.eq_dec c u) as [->|Ne].
    + rewrite T1, C1. apply next_time_tfun; assumption.
    + rewrite T2, C2 by exact Ne. apply TI.
  - exact (do_update_LinkInv cs W NP st u acc st' acc' TI LI Tu Du).
  - intros v j Tv Hj.
    assert (Old : (1 <= j <= s_cnt st v)%nat -> SV cs (s_time st') v j).
    { intros Hj'. eapply SV_mono; [exact NP|exact Le|apply G; assumption]. }
    destruct (Nat.eq_dec v u) as [->|Ne]; [|rewrite C2 in Hj by exact Ne; auto].
    rewrite C1 in Hj. destruct (Nat.eq_dec j (S (s_cnt st u))) as [->|Nj]; [|apply Old; lia].
    exists (rec_fuel cs). rewrite <- (next_time_tfun cs st u TI Tu).
    eapply (servedn_agree_mono cs NP _ st); [| | |exact Su].
    + intros k inp Hk. simpl. rewrite (LI u k inp Hk). unfold canon_link. rewrite Hk, Tu, Nat.eqb_refl. reflexivity.
    + intros p k inp Tp Hk. simpl. rewrite (LI p k inp Hk). apply canon_link_pull; exact Tp.
    + intros x. simpl. apply Le.
  - intros M SM c Tc. destruct (Nat.eq_dec c u) as [->|Ne]; [|rewrite C2 by exact Ne; apply B; assumption].
    rewrite C1.
    assert (H0 : (s_cnt st c0 < M c0)%nat).
    { pose proof (PO st) as POs. rewrite PK in POs. destruct POs as [T0 Min].
      destruct (any_running_true st endt cs O AR) as [j [x [Hj [Hx Hlt]]]]. simpl in Hlt.
      assert (Lj : (j < length cs)%nat) by (apply nth_error_Some; congruence).
      assert (Tj : is_time cs j = true).
      { unfold is_time, getc. rewrite (nth_error_nth _ _ _ Hj). destruct Hx as [s0 [st0 [ip Hx]]]. now rewrite Hx. }
      specialize (Min j Lj Tj).
      apply (tfun_lt_inv cs W _ _ _ T0). rewrite <- (TI c0).
      pose proof (sol2_end cs endt M SM c0 T0). lia. }
    assert (Hb := lag_bound2 cs W NP endt M st Hinv TI LI SM (B M SM) c0 0 u Lu).
    apply Hb; [intros _; exact H0|].
    pose proof (PO st) as POs. rewrite PK in POs. destruct POs as [T0 _]. intros E; congruence.
Qed.

Lemma run_loop_pick_final2 cs (W : wf cs) (NP : nopush cs) endt pick (PO : pick_ok cs pick) fuel :
  forall st acc st' acc',
  RInv2 cs endt st -> any_running st O cs endt = true ->
  run_loop_pick pick fuel cs endt st acc = (OOk, st', acc') ->
  RInv2 cs endt st' /\ any_running st' O cs endt = false.
Proof.
  induction fuel as [|fuel IH]; intros st acc st' acc' R AR H; cbn [run_loop_pick] in H; [discriminate|].
  destruct (pick st) as [c0|] eqn:PK.
  - destruct (update_rec (rec_fuel cs) cs st acc c0 [] 0) as [u st1 acc1 e1| | |] eqn:U; try discriminate.
    destruct e1 as [[| |]|]; try discriminate.
    pose proof (rinv2_step cs W NP endt pick PO st acc c0 u st1 acc1 R AR PK U) as R1.
    destruct (any_running st1 0 cs endt) eqn:AR1.
    + eapply IH; eauto.
    + inversion H; subst. auto.
  - exfalso. pose proof (PO st) as POs. rewrite PK in POs.
    destruct (any_running_true st endt cs O AR) as [j [x [Hj [Hx _]]]].
    assert (Lj : (j < length cs)%nat) by (apply nth_error_Some; congruence).
    specialize (POs j Lj). unfold is_time, getc in POs. rewrite (nth_error_nth _ _ _ Hj) in POs.
    destruct Hx as [s0 [st0 [ip Hx]]]. rewrite Hx in POs. discriminate.
Qed.

Lemma final_is_solution2 cs (NP : nopush cs) endt st :
  RInv2 cs endt st -> any_running st O cs endt = false -> Sol2 cs endt (s_cnt st).
Proof.
  intros [Hinv TI LI G B] AR. split.
  - intros c Tc. rewrite <- (TI c).
    destruct (is_time_kind cs c Tc) as [s [steps [ip K]]].
    assert (Lc : (c < length cs)%nat).
    { destruct (le_lt_dec (length cs) c) as [Hge|]; [|assumption].
      unfold getc in K. rewrite nth_overflow in K by exact Hge. discriminate. }
    destruct (nth_error cs c) as [x|] eqn:E; [|apply nth_error_None in E; lia].
    pose proof (any_running_false st endt cs O AR c x E) as H. simpl in H. apply H.
    unfold getc in K. rewrite (nth_error_nth _ _ _ E) in K. eauto.
  - intros v j Tv Hj. eapply SV_mono; [exact NP| |apply G; assumption].
    intros x. simpl. rewrite (TI x). lia.
Qed.

(** C05 with DelayToPull links: whatever the tie-breaking, two runs that end normally end with the same counts and times *)
Lemma confluence2 cs (W : wf cs) (NP : nopush cs) endt pick1 pick2 fuel1 fuel2 st1 acc1 st2 acc2 :
  pick_ok cs pick1 -> pick_ok cs pick2 ->
  any_running (init_state cs) O cs endt = true ->
  run_loop_pick pick1 fuel1 cs endt (init_state cs) [] = (OOk, st1, acc1) ->
  run_loop_pick pick2 fuel2 cs endt (init_state cs) [] = (OOk, st2, acc2) ->
  forall c, is_time cs c = true -> s_cnt st1 c = s_cnt st2 c /\ s_time st1 c = s_time st2 c.
Proof.
  intros P1 P2 AR H1 H2 c Tc.
  destruct (run_loop_pick_final2 cs W NP endt pick1 P1 fuel1 _ _ _ _ (init_state_RInv2 cs endt W) AR H1) as [R1 E1].
  destruct (run_loop_pick_final2 cs W NP endt pick2 P2 fuel2 _ _ _ _ (init_state_RInv2 cs endt W) AR H2) as [R2 E2].
  pose proof (final_is_solution2 cs NP endt st1 R1 E1) as S1.
  pose proof (final_is_solution2 cs NP endt st2 R2 E2) as S2.
  pose proof (r2_bound cs endt st1 R1 _ S2 c Tc) as B1.
  pose proof (r2_bound cs endt st2 R2 _ S1 c Tc) as B2.
  assert (E : s_cnt st1 c = s_cnt st2 c) by lia.
  split; [exact E|]. rewrite (r2_time cs endt st1 R1 c), (r2_time cs endt st2 R2 c), E. reflexivity.
Qed.

(** the link states themselves are order independent too *)
Lemma final_links2 cs (W : wf cs) (NP : nopush cs) endt pick1 pick2 fuel1 fuel2 st1 acc1 st2 acc2 :
  pick_ok cs pick1 -> pick_ok cs pick2 ->
  any_running (init_state cs) O cs endt = true ->
  run_loop_pick pick1 fuel1 cs endt (init_state cs) [] = (OOk, st1, acc1) ->
  run_loop_pick pick2 fuel2 cs endt (init_state cs) [] = (OOk, st2, acc2) ->
  forall x y inp, nth_error (c_inputs (getc cs x)) y = Some inp -> s_link st1 x y = s_link st2 x y.
Proof.
  intros P1 P2 AR H1 H2 x y inp Hxy.
  destruct (run_loop_pick_final2 cs W NP endt pick1 P1 fuel1 _ _ _ _ (init_state_RInv2 cs endt W) AR H1) as [R1 _].
  destruct (run_loop_pick_final2 cs W NP endt pick2 P2 fuel2 _ _ _ _ (init_state_RInv2 cs endt W) AR H2) as [R2 _].
  rewrite (r2_link cs endt st1 R1 x y inp Hxy), (r2_link cs endt st2 R2 x y inp Hxy).
  unfold canon_link. rewrite Hxy. destruct (is_time cs x) eqn:Tx; [|reflexivity].
  destruct (confluence2 cs W NP endt pick1 pick2 fuel1 fuel2 st1 acc1 st2 acc2 P1 P2 AR H1 H2 x Tx) as [E _]. now rewrite E.
Qed.
