(** The buffer of a time-caching adapter (model FV.TimeInterp, [TimeCachingAdapter.data]) stays bounded:
    in every reachable state of the evicting adapter the buffer is a suffix of the publication history,
    and once a request has been served its length is at most one plus the number of publications newer
    than the last served request.  (Companion of C09_bounded for consumers behind push-based adapters:
    there the output's own history is consumed at every publication and the adapter's buffer is what grows.) *)
From Coq Require Import List ZArith QArith Bool Lia.
From FV Require Import Base TimeInterp.
From FVP Require Import TimeInterp_proofs.
Import ListNotations.
Open Scope Z_scope.

Lemma cc_nil t : clear_cached t [] = [].
Proof. reflexivity. Qed.
Lemma cc_one t e : clear_cached t [e] = [e].
Proof. reflexivity. Qed.
Lemma cc_cons t e0 t1 v1 r :
  clear_cached t (e0 :: (t1, v1) :: r) = if t1 <=? t then clear_cached t ((t1, v1) :: r) else e0 :: (t1, v1) :: r.
Proof. reflexivity. Qed.

(** after eviction for a request [t] everything behind the first retained entry is newer than [t] *)
Lemma clear_cached_tail t : forall b, increasing b ->
  match clear_cached t b with [] => True | _ :: r => forall e, In e r -> t < fst e end.
Proof.
  induction b as [|[t0 v0] r IH]; intros Hinc; [rewrite cc_nil; exact I|].
  destruct r as [|[t1 v1] r1]; [rewrite cc_one; intros e []|].
  rewrite cc_cons. destruct (Z.leb_spec t1 t) as [Hle|Hgt].
  - apply IH. simpl in Hinc. destruct Hinc as [_ H1]. exact H1.
  - simpl in Hinc. destruct Hinc as [H01 H1].
    intros e [<-|Hin]; [simpl; lia|]. pose proof (inc_from_lt _ _ _ H1 Hin). lia.
Qed.

Lemma get_data_fst_cases k b t :
  fst (get_data true k b t) = b
  \/ exists v, snd (get_data true k b t) = Ok v /\ fst (get_data true k b t) = clear_cached t b.
Proof.
  unfold get_data. destruct b as [|[t0 v0] r]; [left; reflexivity|].
  destruct ((last_time t0 r <? t) || (t <? t0)); [left; reflexivity|].
  destruct (interpolate k ((t0, v0) :: r) t) as [v| |]; [right; exists v; auto|left; reflexivity|left; reflexivity].
Qed.

(** the additional invariant: the entries behind the first retained one are newer than the last served request,
    which itself is not beyond the newest publication *)
Definition J (H b : buf) (lr : option Z) : Prop :=
  match lr with
  | None => True
  | Some l =>
      (match b with [] => True | _ :: r => forall e, In e r -> l < fst e end)
      /\ (match H with [] => False | (h0, _) :: hr => l <= last_time h0 hr end)
  end.

Lemma J_push H b lr t v :
  Inv H b lr -> J H b lr -> push_ok H t -> J (H ++ [(t, v)]) (source_updated b t v) lr.
Proof.
  intros [_ [pre [HH Hlr]]] HJ Hp. destruct lr as [l|]; [|exact I].
  destruct HJ as [Ht Hl]. destruct Hlr as [e0 [r [-> _]]].
  destruct H as [|[h0 x] hr]; [contradiction|]. simpl in Hp.
  split.
  - unfold source_updated. simpl. intros e Hin. apply in_app_or in Hin.
    destruct Hin as [Hin|[<-|[]]]; [apply Ht; exact Hin|simpl; lia].
  - simpl. rewrite last_time_app_cons. simpl. rewrite last_time_nil. lia.
Qed.

Lemma J_pull k H b lr t :
  Inv H b lr -> J H b lr -> (in_range H t = true -> req_ok lr t) ->
  J H (fst (get_data true k b t)) (if in_range H t then Some t else lr).
Proof.
  intros HI HJ Hreq. destruct (pull_step true k H b lr t HI Hreq) as [Hres _].
  pose proof HI as [Hinc [pre [HH _]]].
  destruct (in_range H t) eqn:Hr.
  - (* served: the buffer is evicted for [t] *)
    destruct (spec_defined k H t Hinc Hr) as [v Hv].
    assert (Hok : snd (get_data true k b t) = Ok v).
    { rewrite Hres. unfold spec_pull. destruct H as [|h hr]; [discriminate|]. rewrite Hr, Hv. reflexivity. }
    destruct (get_data_fst_cases k b t) as [Hb|[v' [_ Hb]]].
    + (* impossible: Ok but buffer unchanged only if ... — handle by unfolding *)
      revert Hok Hb. unfold get_data. destruct b as [|[t0 v0] r]; [discriminate|].
      destruct ((last_time t0 r <? t) || (t <? t0)); [discriminate|].
      destruct (interpolate k ((t0, v0) :: r) t) as [w| |]; try discriminate.
      simpl. intros _ Hb. rewrite Hb. split.
      * assert (Hib : increasing ((t0, v0) :: r)) by (rewrite HH in Hinc; exact (increasing_app_r _ _ Hinc)).
        pose proof (clear_cached_tail t _ Hib) as Ht. rewrite Hb in Ht. exact Ht.
      * destruct H as [|[h0 x] hr]; [discriminate|]. simpl in Hr. apply andb_true_iff in Hr. rewrite !Z.leb_le in Hr. lia.
    + rewrite Hb. split.
      * assert (Hib : increasing b) by (rewrite HH in Hinc; exact (increasing_app_r _ _ Hinc)).
        exact (clear_cached_tail t _ Hib).
      * destruct H as [|[h0 x] hr]; [discriminate|]. simpl in Hr. apply andb_true_iff in Hr. rewrite !Z.leb_le in Hr. lia.
  - (* refused: nothing changes *)
    destruct (get_data_fst_cases k b t) as [Hb|[v' [Hok _]]]; [rewrite Hb; exact HJ|].
    exfalso. rewrite Hres in Hok. unfold spec_pull in Hok. destruct H; [discriminate|]. rewrite Hr in Hok. discriminate.
Qed.

Lemma final_J k : forall ops H b lr,
  Inv H b lr -> J H b lr -> valid H lr ops -> J (pubs H ops) (final true k b ops) (lastreq H lr ops).
Proof.
  induction ops as [|[t v|t] r IH]; intros H b lr HI HJ Hv; [exact HJ| |].
  - destruct Hv as [Hp Hv]. simpl. apply IH; [apply Inv_push; assumption|apply J_push; assumption|exact Hv].
  - simpl in Hv. simpl.
    assert (Hreq : in_range H t = true -> req_ok lr t) by (intros Hr; rewrite Hr in Hv; tauto).
    destruct (pull_step true k H b lr t HI Hreq) as [_ HI'].
    pose proof (J_pull k H b lr t HI HJ Hreq) as HJ'.
    apply IH; [exact HI'|exact HJ'|]. destruct (in_range H t); tauto.
Qed.

Lemma filter_all {A} (f : A -> bool) (l : list A) : (forall e, In e l -> f e = true) -> filter f l = l.
Proof.
  induction l as [|a l IH]; intros Hall; [reflexivity|]. simpl.
  rewrite (Hall a (or_introl eq_refl)). f_equal. apply IH. intros e He. apply Hall. right. exact He.
Qed.

Definition newer_than (l : Z) (H : buf) : nat := length (filter (fun e => l <? fst e) H).

(** Every reachable state of the evicting adapter: the buffer is a suffix of the publication history; nothing is
    dropped before the first request was served; afterwards the first retained publication is at or before the last
    served request [l] (so everything a non-decreasing consumer may still request is there) and the buffer holds
    at most one entry more than there are publications newer than [l]. *)
Theorem buffer_bounded k ops :
  valid [] None ops ->
  exists pre, pubs [] ops = pre ++ final true k [] ops
    /\ match lastreq [] None ops with
       | None => pre = []
       | Some l => (exists e0 r, final true k [] ops = e0 :: r /\ fst e0 <= l)
                   /\ (length (final true k [] ops) <= 1 + newer_than l (pubs [] ops))%nat
       end.
Proof.
  intros Hv.
  pose proof (final_inv true k ops [] [] None Inv_init Hv) as [_ [pre [HH Hlr]]].
  pose proof (final_J k ops [] [] None Inv_init I Hv) as HJ.
  exists pre. split; [exact HH|].
  destruct (lastreq [] None ops) as [l|]; [|exact Hlr].
  split; [exact Hlr|].
  destruct Hlr as [e0 [r [Hb _]]]. destruct HJ as [Ht _]. rewrite Hb in Ht.
  rewrite HH, Hb. unfold newer_than. rewrite filter_app, app_length. simpl filter.
  assert (Hr : filter (fun e => l <? fst e) r = r).
  { apply filter_all. intros e He. apply Z.ltb_lt. apply Ht. exact He. }
  destruct (l <? fst e0); simpl length; rewrite Hr; lia.
Qed.
